(* C13 — model of the policy-mode endpoint tree and of the selection of
   remedies / diagnoses for a request:
     config/endpoint_policy_tree.go  BuildEndpointPolicyTree, checkForDuplicates
     runner/plugin_dispatcher.go     getRemedies, getDiagnoses, shouldDiagnose
   on top of Lib/UrlTree (InsertDeclaredURL, Lookup, LookupDeclaredURL).

   The model describes the code AFTER the repairs in patches/C13:
     fix-F-C13   the method->policy map of a node is reused only when the node
                 is exactly the declared URL's node (LookupDeclaredURL), never
                 the map of a wildcard / parameter node that merely matches;
     fix-F-C13b  a second declaration of the same method and URL appends its
                 remedies / diagnoses instead of replacing the earlier ones;
     fix-F-C13c, fix-F-C13d, fix-F-C13g: see Lib/UrlTree ([plookup_v false] /
                 [endpoint_remedies_v false] = the selection through the Lookup
                 of before fix-F-C13g, kept for the refutation).

   Reference semantics are kept: a node value is a pointer to a Go map, here
   an id into a store of maps; BuildEndpointPolicyTree mutates the map in
   place and stores the same pointer again.

   Case format (harness -> cases):
     (declarations, (global remedies, global diagnoses), accepted, requests)
       declaration = (method, url, remedies, diagnoses)
       remedy      = (name token, RemedyType (0 = undefined), enabled)
       diagnosis   = (name token, enabled)
       accepted    = BuildEndpointPolicyTree returned no error
       request     = (url, (Match, Value != nil, NormalizedURL, PathParams),
                      per method: (method,
                        remedies selected  as (endpoint-scoped?, name) in order,
                        diagnoses selected as (endpoint-scoped?, name) in order,
                        shouldDiagnose))                                   *)
From Coq Require Import List ZArith NArith Bool.
From Verif Require Import Lib.UrlTree Lib.UrlTreeProofs.
Import ListNotations.
Open Scope Z_scope.

Record remedy := { r_name : Z; r_type : Z; r_enabled : bool }.
Record diagnosis := { g_name : Z; g_enabled : bool }.

Record decl := {
  d_method : str; d_url : str; d_rem : list remedy; d_diag : list diagnosis }.

(* EndpointPolicy *)
Record policy := { p_url : str; p_rem : list remedy; p_diag : list diagnosis }.

(* map[Method]EndpointPolicy; keys are compared as exact byte strings *)
Definition mmap := list (str * policy).

Fixpoint mm_find (m : str) (mm : mmap) : option policy :=
  match mm with
  | [] => None
  | (m', p) :: mm' => if str_eqb m m' then Some p else mm_find m mm'
  end.

Fixpoint mm_set (m : str) (p : policy) (mm : mmap) : mmap :=
  match mm with
  | [] => [(m, p)]
  | (m', p') :: mm' =>
      if str_eqb m m' then (m, p) :: mm' else (m', p') :: mm_set m p mm'
  end.

(* the heap of maps *)
Definition store := list (N * mmap).

Fixpoint st_get (id : N) (st : store) : mmap :=
  match st with
  | [] => []
  | (id', mm) :: st' => if N.eqb id id' then mm else st_get id st'
  end.

Record ptree := { pt_tree : tree N; pt_store : store; pt_next : N }.

Definition empty_ptree : ptree :=
  {| pt_tree := empty_tree; pt_store := []; pt_next := 0%N |}.

(* existingRemedies: through Lookup, i.e. possibly a node that only matches *)
Definition existing_remedies (pt : ptree) (m : str) (parts : list part)
  : list remedy :=
  match l_val (lookup_parts (pt_tree pt) parts) with
  | Some id =>
      match mm_find m (st_get id (pt_store pt)) with
      | Some pol => p_rem pol
      | None => []
      end
  | None => []
  end.

(* checkForDuplicates: true = error *)
Definition conflict (existing : list remedy) (rs : list remedy) : bool :=
  existsb (fun r =>
    existsb (fun e => negb (r_type e =? 0) && (r_type e =? r_type r)) existing) rs.

Definition policy_of (d : decl) : policy :=
  {| p_url := d_url d; p_rem := d_rem d; p_diag := d_diag d |}.

(* the entry written for a declaration into the map [mm] of its own node *)
Definition merged_policy (mm : mmap) (d : decl) : policy :=
  match mm_find (d_method d) mm with
  | Some prev =>
      {| p_url := p_url prev; p_rem := p_rem prev ++ d_rem d;
         p_diag := p_diag prev ++ d_diag d |}
  | None => policy_of d
  end.

(* one iteration of the loop of BuildEndpointPolicyTree; None = error *)
Definition build_step (pt : ptree) (d : decl) : option ptree :=
  let parts := split_url (d_url d) in
  if conflict (existing_remedies pt (d_method d) parts) (d_rem d) then None
  else
    match get_exact_parts (pt_tree pt) parts with
    | Some id =>
        let mm := st_get id (pt_store pt) in
        let mm' := mm_set (d_method d) (merged_policy mm d) mm in
        match insert_parts (pt_tree pt) parts id with
        | Some t' =>
            Some {| pt_tree := t'; pt_store := (id, mm') :: pt_store pt;
                    pt_next := pt_next pt |}
        | None => None
        end
    | None =>
        let id := pt_next pt in
        match insert_parts (pt_tree pt) parts id with
        | Some t' =>
            Some {| pt_tree := t';
                    pt_store := (id, [(d_method d, policy_of d)]) :: pt_store pt;
                    pt_next := N.succ id |}
        | None => None
        end
    end.

Fixpoint build_from (pt : ptree) (ds : list decl) : option ptree :=
  match ds with
  | [] => Some pt
  | d :: ds' =>
      match build_step pt d with
      | Some pt' => build_from pt' ds'
      | None => None
      end
  end.

Definition build (ds : list decl) : option ptree := build_from empty_ptree ds.

(* ---------------- specification vocabulary ---------------- *)

(* the declared pattern of an endpoint and the trie node it denotes *)
Definition pat (d : decl) : pattern := parse_pattern (split_url (d_url d)).
Definition dkey (d : decl) : key := key_of (pat d).

(* No two declarations reach the same trie node with different kinds (host
   label vs path segment), e.g. "a.b" and "a/b".  The insertion ignores the
   kind, the lookup tests it: outside this condition the tree depends on the
   declaration order and policies leak (known finding F-C13e).  This is
   exactly what the monitor's classifier [hostPathClash] computes. *)
Definition kind_consistentb (ds : list decl) : bool :=
  forallb (fun d1 => forallb (fun d2 => kind_agree (pat d1) (pat d2)) ds) ds.

Definition is_wild (ps : pstep) : bool :=
  match ps with PWild => true | _ => false end.
Definition wild_freeb (p : pattern) : bool :=
  forallb (fun x => negb (is_wild (snd x))) p.

(* some declared pattern reaches the child [X] through a step of kind [k] *)
Definition reaches (ds : list decl) (X : key) (k : bool) : bool :=
  existsb (fun d => match step_at [] (pat d) X with
                    | Some (k', _) => eqb k' k
                    | None => false
                    end) ds.

(* no parameter step of [p] (a pattern below node [K]) is shadowed along the
   request [us]: no declared pattern with the same earlier steps continues
   with the literal request part of that kind *)
Fixpoint unshadowedb (ds : list decl) (K : key) (p : pattern) (us : list part)
  : bool :=
  match p, us with
  | (_, ps) :: p', (ku, u) :: us' =>
      match ps with
      | PParam _ => negb (reaches ds (KConst u :: K) ku)
      | _ => true
      end && unshadowedb ds (skey_of ps :: K) p' us'
  | _, _ => true
  end.

(* no request part is spelled "{..}" (such a part is taken for a parameter
   reference by Lookup: known finding F-C13i); the monitor's classifier
   [hasBracePart] *)
Definition no_braceb (us : list part) : bool :=
  forallb (fun u => negb (is_brace (snd u))) us.

(* ---------------- selection (plugin_dispatcher.go) ---------------- *)

Definition plookup (pt : ptree) (url : str) : lres N :=
  lookup (pt_tree pt) url.

(* the policy entry the dispatcher reads for (method, url) *)
Definition policy_for (pt : ptree) (m : str) (url : str) : option policy :=
  match l_val (plookup pt url) with
  | Some id => mm_find m (st_get id (pt_store pt))
  | None => None
  end.

Definition endpoint_remedies (pt : ptree) (m url : str) : list remedy :=
  match policy_for pt m url with
  | Some pol => filter r_enabled (p_rem pol)
  | None => []
  end.

Definition endpoint_diagnoses (pt : ptree) (m url : str) : list diagnosis :=
  match policy_for pt m url with
  | Some pol => filter g_enabled (p_diag pol)
  | None => []
  end.

(* getRemedies / getDiagnoses: endpoint-scoped first, then the global ones;
   (true, name) = endpoint scope *)
Definition get_remedies (pt : ptree) (grem : list remedy) (m url : str)
  : list (bool * Z) :=
  map (fun r => (true, r_name r)) (endpoint_remedies pt m url) ++
  map (fun r => (false, r_name r)) (filter r_enabled grem).

Definition get_diagnoses (pt : ptree) (gdiag : list diagnosis) (m url : str)
  : list (bool * Z) :=
  map (fun g => (true, g_name g)) (endpoint_diagnoses pt m url) ++
  map (fun g => (false, g_name g)) (filter g_enabled gdiag).

Definition should_diagnose (pt : ptree) (gdiag : list diagnosis) (m url : str)
  : bool :=
  existsb g_enabled gdiag ||
  negb (is_nil (endpoint_diagnoses pt m url)).

(* ---------------- variant: Lookup before fix F-C13g ---------------- *)

Definition plookup_v (ck : bool) (pt : ptree) (url : str) : lres N :=
  lookup_v ck (pt_tree pt) url.

Definition policy_for_v (ck : bool) (pt : ptree) (m : str) (url : str) : option policy :=
  match l_val (plookup_v ck pt url) with
  | Some id => mm_find m (st_get id (pt_store pt))
  | None => None
  end.

Definition endpoint_remedies_v (ck : bool) (pt : ptree) (m url : str) : list remedy :=
  match policy_for_v ck pt m url with
  | Some pol => filter r_enabled (p_rem pol)
  | None => []
  end.

(* ---------------- correspondence entry point ---------------- *)

Definition remedy_t := (Z * Z * bool)%type.
Definition diag_t := (Z * bool)%type.
Definition decl_t := (str * str * list remedy_t * list diag_t)%type.

Definition lookup_obs := (bool * bool * str * list (str * str))%type.
(* per method: (method, remedies selected, diagnoses selected, shouldDiagnose) *)
Definition sel_obs := (str * list (bool * Z) * list (bool * Z) * bool)%type.
(* all requests for one URL: (url, what Lookup returned, per-method selection) *)
Definition request := (str * lookup_obs * list sel_obs)%type.
Definition case :=
  (list decl_t * (list remedy_t * list diag_t) * bool * list request)%type.

Definition mk_remedy (x : remedy_t) : remedy :=
  let '(n, ty, en) := x in {| r_name := n; r_type := ty; r_enabled := en |}.
Definition mk_diag (x : diag_t) : diagnosis :=
  let '(n, en) := x in {| g_name := n; g_enabled := en |}.
Definition mk_decl (x : decl_t) : decl :=
  let '(m, u, rs, gs) := x in
  {| d_method := m; d_url := u; d_rem := map mk_remedy rs; d_diag := map mk_diag gs |}.

(* PathParams is a Go map: compare as maps *)
Definition params_eqb (model : list (str * str)) (impl : list (str * str)) : bool :=
  forallb (fun nv => match assoc (fst nv) model with
                     | Some v => str_eqb v (snd nv)
                     | None => false
                     end) impl &&
  forallb (fun nv => existsb (fun nv' => str_eqb (fst nv) (fst nv')) impl) model.

Fixpoint names_eqb (a b : list (bool * Z)) : bool :=
  match a, b with
  | [], [] => true
  | (s, n) :: a', (s', n') :: b' => eqb s s' && (n =? n') && names_eqb a' b'
  | _, _ => false
  end.

Definition model_lookup_obs (pt : ptree) (url : str) : lookup_obs :=
  let r := plookup pt url in
  (l_match r, match l_val r with Some _ => true | None => false end,
   l_norm r, l_params r).

Definition model_sel_obs (pt : ptree) (grem : list remedy) (gdiag : list diagnosis)
           (m url : str) : sel_obs :=
  (m, get_remedies pt grem m url, get_diagnoses pt gdiag m url,
   should_diagnose pt gdiag m url).

Definition lookup_obs_eqb (a b : lookup_obs) : bool :=
  let '(ma, va, na, pa) := a in
  let '(mb, vb, nb, pb) := b in
  eqb ma mb && eqb va vb && str_eqb na nb && params_eqb pa pb.

Definition sel_obs_eqb (a b : sel_obs) : bool :=
  let '(_, ra, da, sa) := a in
  let '(_, rb, db, sb) := b in
  names_eqb ra rb && names_eqb da db && eqb sa sb.

(* None = the implementation's observables equal the model's; otherwise the
   model's acceptance verdict and, per differing URL, what the model says *)
Definition run_case (k : case)
  : option (bool * list (N * (lookup_obs * list sel_obs))) :=
  let '(ds, (grem, gdiag), accepted, reqs) := k in
  let grem' := map mk_remedy grem in
  let gdiag' := map mk_diag gdiag in
  match build (map mk_decl ds) with
  | None => if accepted then Some (false, []) else None
  | Some pt =>
      if negb accepted then Some (true, [])
      else
        let bad :=
          flat_map (fun ir =>
            let '(i, (u, lo, sels)) := ir in
            let mlo := model_lookup_obs pt u in
            let msels :=
              map (fun so => let '(m, _, _, _) := so in
                             model_sel_obs pt grem' gdiag' m u) sels in
            if lookup_obs_eqb mlo lo &&
               forallb (fun ab => sel_obs_eqb (fst ab) (snd ab)) (combine msels sels)
            then [] else [(i, (mlo, msels))])
            (combine (map N.of_nat (seq 0 (length reqs))) reqs) in
        if is_nil bad then None else Some (true, bad)
  end.
