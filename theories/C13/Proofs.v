(* C13 — proofs.  The tree built from a list of declarations is characterised
   by an invariant [Inv] that speaks about the declarations only (which nodes
   exist, their kind and parameter name, and which merged method->policy map
   each declared node points to); soundness, specificity and order
   independence of the selection follow from it and from the lemmas of
   Lib/UrlTreeProofs about Lookup. *)
From Coq Require Import List ZArith NArith Bool Lia Permutation.
From Verif Require Import Lib.UrlTree Lib.UrlTreeProofs C13.Model.
Import ListNotations.
Open Scope Z_scope.

(* ------------------------------------------------------------------ *)
(* maps and store *)

Lemma mm_find_set : forall m m' p mm,
  mm_find m (mm_set m' p mm) = if str_eqb m m' then Some p else mm_find m mm.
Proof.
  intros m m' p. induction mm as [|[m0 p0] mm IH]; cbn.
  - destruct (str_eqb m m'); reflexivity.
  - destruct (str_eqb m' m0) eqn:E0.
    + apply str_eqb_eq in E0. subst m0. cbn.
      destruct (str_eqb m m'); reflexivity.
    + cbn. destruct (str_eqb m m0) eqn:E1.
      * apply str_eqb_eq in E1. subst m0.
        destruct (str_eqb m m') eqn:E2; [|reflexivity].
        apply str_eqb_eq in E2. subst m'. rewrite str_eqb_refl in E0. discriminate.
      * exact IH.
Qed.

(* ------------------------------------------------------------------ *)
(* what the map of a node must contain: the declarations of that node and
   method, merged in declaration order *)

Definition at_node (X : key) (m : str) (d : decl) : bool :=
  key_eqb (dkey d) X && str_eqb (d_method d) m.

Definition merge_step (acc : option policy) (d : decl) : option policy :=
  match acc with
  | None => Some (policy_of d)
  | Some prev =>
      Some {| p_url := p_url prev; p_rem := p_rem prev ++ d_rem d;
              p_diag := p_diag prev ++ d_diag d |}
  end.

Definition merged (ds : list decl) (X : key) (m : str) : option policy :=
  fold_left merge_step (filter (at_node X m) ds) None.

Definition acc_rem (a : option policy) : list remedy :=
  match a with Some p => p_rem p | None => [] end.
Definition acc_diag (a : option policy) : list diagnosis :=
  match a with Some p => p_diag p | None => [] end.

Lemma fold_merge_rem : forall l a,
  acc_rem (fold_left merge_step l a) = acc_rem a ++ flat_map d_rem l.
Proof.
  induction l as [|d l IH]; intro a; cbn [fold_left flat_map].
  - rewrite app_nil_r. reflexivity.
  - rewrite IH. destruct a as [p|]; cbn.
    + rewrite <- app_assoc. reflexivity.
    + reflexivity.
Qed.

Lemma fold_merge_diag : forall l a,
  acc_diag (fold_left merge_step l a) = acc_diag a ++ flat_map d_diag l.
Proof.
  induction l as [|d l IH]; intro a; cbn [fold_left flat_map].
  - rewrite app_nil_r. reflexivity.
  - rewrite IH. destruct a as [p|]; cbn.
    + rewrite <- app_assoc. reflexivity.
    + reflexivity.
Qed.

Lemma fold_merge_some : forall l a, a <> None -> fold_left merge_step l a <> None.
Proof.
  induction l as [|d l IH]; intros a H; cbn; [exact H|].
  apply IH. destruct a; discriminate.
Qed.

Lemma fold_merge_none : forall l, fold_left merge_step l None = None -> l = [].
Proof.
  intros [|d l] H; [reflexivity|]. cbn in H.
  exfalso. revert H. apply fold_merge_some. discriminate.
Qed.

Lemma merged_rem : forall ds X m pol,
  merged ds X m = Some pol -> p_rem pol = flat_map d_rem (filter (at_node X m) ds).
Proof.
  intros ds X m pol H. unfold merged in H.
  pose proof (fold_merge_rem (filter (at_node X m) ds) None) as R.
  rewrite H in R. exact R.
Qed.

Lemma merged_diag : forall ds X m pol,
  merged ds X m = Some pol -> p_diag pol = flat_map d_diag (filter (at_node X m) ds).
Proof.
  intros ds X m pol H. unfold merged in H.
  pose proof (fold_merge_diag (filter (at_node X m) ds) None) as R.
  rewrite H in R. exact R.
Qed.

Lemma merged_snoc : forall ds d X m,
  merged (ds ++ [d]) X m =
  if at_node X m d then merge_step (merged ds X m) d else merged ds X m.
Proof.
  intros. unfold merged. rewrite filter_app. cbn [filter].
  destruct (at_node X m d).
  - rewrite fold_left_app. reflexivity.
  - rewrite app_nil_r. reflexivity.
Qed.

Lemma merged_no_decl : forall ds X m,
  (forall d, In d ds -> dkey d <> X) -> merged ds X m = None.
Proof.
  intros ds X m H. unfold merged.
  replace (filter (at_node X m) ds) with (@nil decl); [reflexivity|].
  symmetry. induction ds as [|d ds IH]; [reflexivity|]. cbn.
  unfold at_node at 1.
  destruct (key_eqb (dkey d) X) eqn:E.
  - apply key_eqb_eq in E. exfalso. apply (H d); [left; reflexivity|exact E].
  - cbn. apply IH. intros d' Hd'. apply H. right. exact Hd'.
Qed.

(* ------------------------------------------------------------------ *)
(* kind consistency *)

Definition kind_consistent (ds : list decl) : Prop :=
  forall d1 d2, In d1 ds -> In d2 ds -> kind_agree (pat d1) (pat d2) = true.

Lemma kind_consistentb_spec : forall ds,
  kind_consistentb ds = true <-> kind_consistent ds.
Proof.
  intro ds. unfold kind_consistentb, kind_consistent. split.
  - intros H d1 d2 H1 H2. rewrite forallb_forall in H.
    specialize (H d1 H1). rewrite forallb_forall in H. apply H. exact H2.
  - intro H. apply forallb_forall. intros d1 H1. apply forallb_forall.
    intros d2 H2. apply H; assumption.
Qed.

Lemma kind_consistent_perm : forall ds ds',
  Permutation ds ds' -> kind_consistent ds -> kind_consistent ds'.
Proof.
  intros ds ds' HP H d1 d2 H1 H2.
  apply H; eapply Permutation_in; try eassumption; apply Permutation_sym; exact HP.
Qed.

Lemma kind_consistent_app_l : forall ds1 ds2,
  kind_consistent (ds1 ++ ds2) -> kind_consistent ds1.
Proof.
  intros ds1 ds2 H d1 d2 H1 H2. apply H; apply in_or_app; left; assumption.
Qed.

(* ------------------------------------------------------------------ *)
(* the invariant *)

Definition visited (d : decl) (X : key) (k : bool) (ps : pstep) : Prop :=
  step_at [] (pat d) X = Some (k, ps).

Record Inv (ds : list decl) (pt : ptree) : Prop := {
  inv_A : forall X ni, find_node X (pt_tree pt) = Some ni ->
          exists d k ps, In d ds /\ visited d X k ps;
  inv_B : forall d, In d ds -> agrees (pt_tree pt) [] (pat d);
  inv_C : forall X,
          match node_val (pt_tree pt) X with
          | Some id =>
              (exists d, In d ds /\ dkey d = X) /\ (id < pt_next pt)%N /\
              forall m, mm_find m (st_get id (pt_store pt)) = merged ds X m
          | None => forall d, In d ds -> dkey d <> X
          end;
  inv_D : forall X X' id, node_val (pt_tree pt) X = Some id ->
          node_val (pt_tree pt) X' = Some id -> X = X';
  inv_V : forall d, In d ds -> validate (split_url (d_url d)) = true
}.

Lemma Inv_empty : Inv [] empty_ptree.
Proof.
  constructor; cbn; intros; try contradiction; try discriminate.
Qed.

(* ------------------------------------------------------------------ *)
(* one declaration *)

Lemma skey_const_inv : forall ps c, skey_of ps = KConst c -> ps = PConst c.
Proof. intros [c'|nm|] c H; cbn in H; try discriminate. congruence. Qed.

Lemma skey_wild_inv : forall ps, skey_of ps = KWild -> ps = PWild.
Proof. intros [c'|nm|] H; cbn in H; try discriminate. reflexivity. Qed.

Lemma step_common : forall ds pt d id mm' next' t',
  Inv ds pt -> kind_consistent (ds ++ [d]) ->
  insert_parts (pt_tree pt) (split_url (d_url d)) id = Some t' ->
  (pt_next pt <= next')%N -> (id < next')%N ->
  (forall X, node_val (pt_tree pt) X = Some id -> X = dkey d) ->
  (forall m, mm_find m mm' = merged (ds ++ [d]) (dkey d) m) ->
  Inv (ds ++ [d])
      {| pt_tree := t'; pt_store := (id, mm') :: pt_store pt; pt_next := next' |}.
Proof.
  intros ds pt d id mm' next' t' HI HK HIns Hnext Hid Huniq Hmm.
  set (t := pt_tree pt) in *.
  pose proof (insert_parts_cases t _ id t' HIns (split_url_nonempty (d_url d)))
    as [HV HC].
  fold (pat d) in HC. fold (dkey d) in HC.
  set (K' := dkey d) in *.
  assert (Hd_in : In d (ds ++ [d])) by (apply in_or_app; right; left; reflexivity).
  assert (Hin_l : forall d0, In d0 ds -> In d0 (ds ++ [d]))
    by (intros; apply in_or_app; left; assumption).
  (* the kinds of the nodes the new declaration passes through *)
  assert (Hold : forall X k ps ni,
             step_at [] (pat d) X = Some (k, ps) -> find_node X t = Some ni ->
             n_host ni = k /\ (forall c, ps = PConst c -> n_pname ni = [])).
  { intros X k ps ni HS HF.
    destruct (inv_A _ _ HI X ni HF) as (d1 & k1 & ps1 & Hd1 & Hv1).
    destruct (inv_B _ _ HI d1 Hd1 X k1 ps1 Hv1) as (ni1 & F1 & Hh1 & Hn1).
    fold t in F1. rewrite HF in F1. inversion F1; subst ni1.
    split.
    - rewrite Hh1.
      eapply (kind_agree_visits (pat d1) (pat d)); eauto.
    - intros c ->. rewrite Hn1.
      destruct (step_at_head _ _ _ _ _ Hv1) as [Ka Ea].
      destruct (step_at_head _ _ _ _ _ HS) as [Kb Eb].
      rewrite Ea in Eb. injection Eb as Hs _. cbn in Hs.
      apply skey_const_inv in Hs. subst ps1. reflexivity. }
  assert (NV1 : node_val t' K' = Some id).
  { destruct (HC K') as [(_ & Hx & _)|(k & ps & ni' & _ & F & Hv & _)].
    - contradiction.
    - unfold node_val. rewrite F, Hv, key_eqb_refl. reflexivity. }
  assert (NV2 : forall X, X <> K' -> node_val t' X = node_val t X).
  { intros X HX.
    destruct (HC X) as [(_ & _ & F)|(k & ps & ni' & _ & F & Hv & _)].
    - unfold node_val. rewrite F. reflexivity.
    - unfold node_val at 1. rewrite F, Hv.
      apply key_eqb_neq in HX. rewrite HX. reflexivity. }
  constructor; cbn [pt_tree pt_store pt_next].
  - (* inv_A *)
    intros X ni' F.
    destruct (HC X) as [(_ & _ & F')|(k & ps & ni2 & HS & _)].
    + rewrite F' in F. destruct (inv_A _ _ HI X ni' F) as (d1 & k1 & ps1 & Hd1 & Hv1).
      exists d1, k1, ps1. auto.
    + exists d, k, ps. auto.
  - (* inv_B *)
    intros d0 Hd0 X k0 ps0 HS0.
    apply in_app_or in Hd0. destruct Hd0 as [Hd0|[<-|[]]].
    + destruct (inv_B _ _ HI d0 Hd0 X k0 ps0 HS0) as (ni0 & F0 & Hh0 & Hn0).
      fold t in F0.
      destruct (HC X) as [(_ & _ & F')|(k & ps & ni' & HS & F & _ & Hcase)].
      * exists ni0. rewrite F'. auto.
      * exists ni'. split; [exact F|].
        destruct Hcase as [(-> & _ & Hh & Hn)|[(_ & ni & Fo & Hh & Hn & _)|(_ & Fn & _)]].
        -- split.
           ++ rewrite Hh. symmetry.
              eapply (kind_agree_visits (pat d0) (pat d)); eauto.
           ++ rewrite Hn.
              destruct (step_at_head _ _ _ _ _ HS0) as [Ka Ea].
              destruct (step_at_head _ _ _ _ _ HS) as [Kb Eb].
              rewrite Ea in Eb. injection Eb as Hs _. cbn in Hs.
              apply skey_wild_inv in Hs. subst ps0. reflexivity.
        -- rewrite Fo in F0. inversion F0; subst ni0. split; congruence.
        -- rewrite Fn in F0. discriminate.
    + destruct (HC X) as [(HN & _)|(k & ps & ni' & HS & F & _ & Hcase)].
      * unfold visited in *. rewrite HS0 in HN. discriminate.
      * rewrite HS0 in HS. inversion HS; subst k ps. clear HS.
        exists ni'. split; [exact F|].
        destruct Hcase as [(-> & _ & Hh & Hn)|[(HNW & ni & Fo & Hh & Hn & Hp)|(_ & _ & Hh & Hn)]].
        -- split; [exact Hh|exact Hn].
        -- destruct (Hold X k0 ps0 ni HS0 Fo) as [Hk Hc].
           split; [congruence|]. rewrite Hn.
           destruct ps0 as [c|nm|]; cbn [pname_of].
           ++ apply (Hc c). reflexivity.
           ++ apply Hp. reflexivity.
           ++ contradiction.
        -- split; assumption.
  - (* inv_C *)
    intro X. destruct (key_eq_dec X K') as [->|HX].
    + rewrite NV1. split; [exists d; split; [exact Hd_in|reflexivity]|].
      split; [exact Hid|]. intro m. cbn [st_get]. rewrite N.eqb_refl. apply Hmm.
    + rewrite (NV2 X HX). pose proof (inv_C _ _ HI X) as HCx. fold t in HCx.
      destruct (node_val t X) as [id0|] eqn:NVX.
      * destruct HCx as ((d0 & Hd0 & Hk0) & Hlt & Hst).
        split; [exists d0; auto|]. split; [lia|].
        intro m. cbn [st_get].
        destruct (N.eqb id0 id) eqn:E.
        -- apply N.eqb_eq in E. subst id0. exfalso. apply HX. apply Huniq. exact NVX.
        -- rewrite Hst. rewrite merged_snoc. unfold at_node.
           assert (E2 : key_eqb (dkey d) X = false)
             by (apply key_eqb_neq; intro; apply HX; symmetry; assumption).
           rewrite E2. reflexivity.
      * intros d0 Hd0. apply in_app_or in Hd0. destruct Hd0 as [Hd0|[<-|[]]].
        -- apply HCx. exact Hd0.
        -- intro E. apply HX. symmetry. exact E.
  - (* inv_D *)
    intros X X' i H1 H2.
    destruct (key_eq_dec X K') as [->|HX]; destruct (key_eq_dec X' K') as [->|HX'].
    + reflexivity.
    + rewrite NV1 in H1. inversion H1; subst i. rewrite (NV2 X' HX') in H2.
      exfalso. apply HX'. apply Huniq. exact H2.
    + rewrite NV1 in H2. inversion H2; subst i. rewrite (NV2 X HX) in H1.
      exfalso. apply HX. apply Huniq. exact H1.
    + rewrite (NV2 X HX) in H1. rewrite (NV2 X' HX') in H2.
      eapply (inv_D _ _ HI); eauto.
  - (* inv_V *)
    intros d0 Hd0. apply in_app_or in Hd0. destruct Hd0 as [Hd0|[<-|[]]].
    + apply (inv_V _ _ HI). exact Hd0.
    + exact HV.
Qed.

Lemma build_step_inv : forall ds pt d pt',
  Inv ds pt -> kind_consistent (ds ++ [d]) ->
  build_step pt d = Some pt' -> Inv (ds ++ [d]) pt'.
Proof.
  intros ds pt d pt' HI HK HB. unfold build_step in HB.
  destruct (conflict _ _); [discriminate|].
  unfold get_exact_parts in HB. fold (pat d) in HB. fold (dkey d) in HB.
  pose proof (inv_C _ _ HI (dkey d)) as HCd.
  destruct (node_val (pt_tree pt) (dkey d)) as [id|] eqn:NV.
  - destruct HCd as (_ & Hlt & Hst).
    destruct (insert_parts (pt_tree pt) (split_url (d_url d)) id) as [t'|] eqn:HIns;
      [|discriminate].
    inversion HB; subst pt'. clear HB.
    eapply step_common; eauto.
    + lia.
    + intros X HX. eapply (inv_D _ _ HI); eauto.
    + intro m. rewrite mm_find_set, merged_snoc. unfold at_node.
      rewrite key_eqb_refl. cbn [andb].
      destruct (str_eqb m (d_method d)) eqn:E.
      * apply str_eqb_eq in E. subst m. rewrite str_eqb_refl.
        unfold merged_policy, merge_step. rewrite Hst.
        destruct (merged ds (dkey d) (d_method d)); reflexivity.
      * assert (E' : str_eqb (d_method d) m = false).
        { apply str_eqb_neq. apply str_eqb_neq in E. congruence. }
        rewrite E'. apply Hst.
  - destruct (insert_parts (pt_tree pt) (split_url (d_url d)) (pt_next pt)) as [t'|] eqn:HIns;
      [|discriminate].
    inversion HB; subst pt'. clear HB.
    eapply step_common; eauto.
    + lia.
    + lia.
    + intros X HX. exfalso.
      pose proof (inv_C _ _ HI X) as HCx. rewrite HX in HCx.
      destruct HCx as (_ & Hlt & _). lia.
    + intro m. rewrite merged_snoc. unfold at_node. rewrite key_eqb_refl. cbn [andb].
      rewrite (merged_no_decl ds (dkey d) m HCd). cbn [mm_find merge_step].
      destruct (str_eqb m (d_method d)) eqn:E.
      * apply str_eqb_eq in E. subst m. rewrite str_eqb_refl. reflexivity.
      * assert (E' : str_eqb (d_method d) m = false).
        { apply str_eqb_neq. apply str_eqb_neq in E. congruence. }
        rewrite E'. reflexivity.
Qed.

Lemma build_from_inv : forall ds2 ds1 pt pt',
  Inv ds1 pt -> kind_consistent (ds1 ++ ds2) ->
  build_from pt ds2 = Some pt' -> Inv (ds1 ++ ds2) pt'.
Proof.
  induction ds2 as [|d ds2 IH]; intros ds1 pt pt' HI HK HB; cbn in HB.
  - inversion HB; subst. rewrite app_nil_r. exact HI.
  - destruct (build_step pt d) as [pt1|] eqn:HS; [|discriminate].
    replace (ds1 ++ d :: ds2) with ((ds1 ++ [d]) ++ ds2) in *
      by (rewrite <- app_assoc; reflexivity).
    eapply IH; [|exact HK|exact HB].
    eapply build_step_inv; eauto.
    eapply kind_consistent_app_l. exact HK.
Qed.

Lemma build_inv : forall ds pt,
  build ds = Some pt -> kind_consistent ds -> Inv ds pt.
Proof.
  intros ds pt HB HK.
  apply (build_from_inv ds [] empty_ptree pt Inv_empty HK HB).
Qed.

(* ------------------------------------------------------------------ *)
(* the node a lookup selects *)

Lemma lookup_val_match : forall pt url id,
  l_val (plookup pt url) = Some id -> l_match (plookup pt url) = true.
Proof.
  intros pt url id H. unfold plookup, lookup, lookup_parts, lookup_parts_v in *.
  destruct (l_match (walk_v true (pt_tree pt) [] (split_url url) None [] [])) eqn:E;
    [reflexivity|].
  rewrite (walk_no_match _ _ _ _ _ _ _ E) in H. discriminate.
Qed.

Lemma has_value_iff : forall ds pt X,
  Inv ds pt ->
  (node_val (pt_tree pt) X = None <-> forall d, In d ds -> dkey d <> X).
Proof.
  intros ds pt X HI. pose proof (inv_C _ _ HI X) as H.
  destruct (node_val (pt_tree pt) X) as [id|].
  - destruct H as ((d & Hd & Hk) & _). split; [discriminate|].
    intro Hn. exfalso. apply (Hn d Hd Hk).
  - split; auto.
Qed.

(* every declaration of the selected node matches the request (kind-aware:
   a wildcard stands for nothing or for a rest starting with a part of its own
   kind), spells the normalised URL and determines the path parameters *)
Lemma selected_node : forall ds pt url d,
  Inv ds pt ->
  l_match (plookup pt url) = true ->
  In d ds -> dkey d = l_key (plookup pt url) ->
  matches_kind (pat d) (split_url url) = true /\
  l_norm (plookup pt url) = render_pattern (pat d) /\
  l_params (plookup pt url) = params_at_nb (pat d) (split_url url) [].
Proof.
  intros ds pt url d HI HM Hd Hk.
  unfold plookup, lookup in *. set (parts := split_url url) in *.
  set (t := pt_tree pt) in *.
  pose proof (lookup_parts_spec t parts HM) as (HV & HN & HR).
  set (r := lookup_parts t parts) in *.
  pose proof (inv_B _ _ HI d Hd) as HA. fold t in HA.
  assert (Hnorm : l_norm r = render_pattern (pat d)).
  { rewrite HN, <- Hk. unfold dkey, key_of. rewrite (path_of_render _ _ _ HA).
    reflexivity. }
  destruct HR as [(HF & _ & HP)|(P & rP & pre & HW & HF & Hrall & _ & HP & HKind)].
  - rewrite <- Hk in HF, HP. unfold dkey, key_of in HF, HP.
    assert (HL : length parts = length (pat d)).
    { apply follows_length in HF. rewrite key_from_length, rev_length in HF. cbn [length] in HF. lia. }
    split; [|split; [exact Hnorm|]].
    + pose proof (follows_matches_kind (pat d) t [] [] parts [] [] HA HL) as H.
      rewrite !app_nil_r in H. apply H; auto. left. split; reflexivity.
    + rewrite HP.
      pose proof (params_along_at_nb (pat d) t [] [] parts HA HL) as H.
      rewrite app_nil_r in H. apply H; auto.
      eapply (follows_wild_free (pat d) t [] [] parts HL).
      rewrite app_nil_r. exact HF.
  - rewrite <- Hk in HW. unfold dkey in HW.
    destruct (key_of_wild_inv _ _ HW) as (p0 & k & Hp & HP0).
    assert (Hparts : parts = rev rP ++ rev pre).
    { rewrite <- (rev_involutive parts), Hrall, rev_app_distr. reflexivity. }
    rewrite Hp in HA. pose proof (agrees_app_l _ _ _ _ HA) as HA0.
    (* the wildcard node carries the kind the pattern writes *)
    assert (Hwk : node_host t (l_key r) = k).
    { pose proof (agrees_app_r _ _ _ _ HA) as HAw.
      apply agrees_cons in HAw. destruct HAw as [(ni & F & Hh & _) _].
      cbn [skey_of] in F. fold (key_of p0) in F. rewrite HP0 in F.
      rewrite <- Hk. unfold dkey. rewrite HW. unfold node_host. rewrite F. exact Hh. }
    rewrite <- HP0 in HF, HP. unfold key_of in HF, HP.
    assert (HL : length (rev rP) = length p0).
    { apply follows_length in HF. rewrite key_from_length in HF.
      rewrite rev_length. cbn [length] in HF. lia. }
    assert (HF' : follows t (key_from [] p0) (rev (rev rP) ++ [])).
    { rewrite rev_involutive, app_nil_r. exact HF. }
    split; [|split; [exact Hnorm|]].
    + rewrite Hp, Hparts.
      apply (follows_matches_kind p0 t [] [] (rev rP) [(k, PWild)] (rev pre) HA0 HL HF').
      right. exists k. split; [reflexivity|].
      destruct (rev pre) as [|[kx sx] rest'] eqn:ER; [left; reflexivity|].
      right. exists sx, rest'.
      assert (Hpre : pre = rev rest' ++ [(kx, sx)]).
      { rewrite <- (rev_involutive pre), ER. reflexivity. }
      pose proof (HKind eq_refl _ _ Hpre) as HX. cbn [fst] in HX.
      rewrite Hwk in HX. subst kx. reflexivity.
    + rewrite HP, Hp, Hparts.
      rewrite (params_at_nb_app_wild p0 (rev rP) k (rev pre) [] HL).
      pose proof (params_along_at_nb p0 t [] [] (rev rP) HA0 HL) as H.
      rewrite rev_involutive, app_nil_r in H. apply H.
      eapply (follows_wild_free p0 t [] [] (rev rP) HL). exact HF'.
Qed.

(* the policy entry the dispatcher reads is the merge of the declarations of
   the selected node and the request's method *)
Lemma policy_for_merged : forall ds pt m url,
  Inv ds pt ->
  policy_for pt m url =
  if l_match (plookup pt url) then merged ds (l_key (plookup pt url)) m else None.
Proof.
  intros ds pt m url HI. unfold policy_for.
  destruct (l_match (plookup pt url)) eqn:HM.
  - unfold plookup, lookup in *.
    pose proof (lookup_parts_spec (pt_tree pt) (split_url url) HM) as (HV & _).
    rewrite HV. pose proof (inv_C _ _ HI (l_key (lookup_parts (pt_tree pt) (split_url url)))) as HC.
    destruct (node_val (pt_tree pt) (l_key (lookup_parts (pt_tree pt) (split_url url)))) as [id|].
    + destruct HC as (_ & _ & Hst). apply Hst.
    + symmetry. apply merged_no_decl. exact HC.
  - destruct (l_val (plookup pt url)) as [id|] eqn:E; [|reflexivity].
    apply lookup_val_match in E. congruence.
Qed.

Lemma in_merged_rem : forall ds X m pol r,
  merged ds X m = Some pol -> In r (p_rem pol) ->
  exists d, In d ds /\ dkey d = X /\ d_method d = m /\ In r (d_rem d).
Proof.
  intros ds X m pol r HM Hr. rewrite (merged_rem _ _ _ _ HM) in Hr.
  apply in_flat_map in Hr. destruct Hr as (d & Hd & Hr).
  apply filter_In in Hd. destruct Hd as [Hd Hat]. unfold at_node in Hat.
  apply andb_true_iff in Hat. destruct Hat as [H1 H2].
  apply key_eqb_eq in H1. apply str_eqb_eq in H2. exists d. auto.
Qed.

Lemma in_merged_diag : forall ds X m pol g,
  merged ds X m = Some pol -> In g (p_diag pol) ->
  exists d, In d ds /\ dkey d = X /\ d_method d = m /\ In g (d_diag d).
Proof.
  intros ds X m pol g HM Hg. rewrite (merged_diag _ _ _ _ HM) in Hg.
  apply in_flat_map in Hg. destruct Hg as (d & Hd & Hg).
  apply filter_In in Hd. destruct Hd as [Hd Hat]. unfold at_node in Hat.
  apply andb_true_iff in Hat. destruct Hat as [H1 H2].
  apply key_eqb_eq in H1. apply str_eqb_eq in H2. exists d. auto.
Qed.

Lemma sound_remedies : forall ds pt m url r,
  Inv ds pt -> In r (endpoint_remedies pt m url) ->
  exists d, In d ds /\ d_method d = m /\ In r (d_rem d) /\ r_enabled r = true /\
            matches_kind (pat d) (split_url url) = true.
Proof.
  intros ds pt m url r HI Hr. unfold endpoint_remedies in Hr.
  rewrite (policy_for_merged ds pt m url HI) in Hr.
  destruct (l_match (plookup pt url)) eqn:HM; [|contradiction].
  destruct (merged ds (l_key (plookup pt url)) m) as [pol|] eqn:E; [|contradiction].
  apply filter_In in Hr. destruct Hr as [Hr Hen].
  destruct (in_merged_rem _ _ _ _ _ E Hr) as (d & Hd & Hk & Hm & Hin).
  exists d. repeat split; auto.
  apply (selected_node ds pt url d HI HM Hd Hk).
Qed.

Lemma sound_diagnoses : forall ds pt m url g,
  Inv ds pt -> In g (endpoint_diagnoses pt m url) ->
  exists d, In d ds /\ d_method d = m /\ In g (d_diag d) /\ g_enabled g = true /\
            matches_kind (pat d) (split_url url) = true.
Proof.
  intros ds pt m url g HI Hg. unfold endpoint_diagnoses in Hg.
  rewrite (policy_for_merged ds pt m url HI) in Hg.
  destruct (l_match (plookup pt url)) eqn:HM; [|contradiction].
  destruct (merged ds (l_key (plookup pt url)) m) as [pol|] eqn:E; [|contradiction].
  apply filter_In in Hg. destruct Hg as [Hg Hen].
  destruct (in_merged_diag _ _ _ _ _ E Hg) as (d & Hd & Hk & Hm & Hin).
  exists d. repeat split; auto.
  apply (selected_node ds pt url d HI HM Hd Hk).
Qed.

(* ------------------------------------------------------------------ *)
(* order independence *)

Lemma perm_filter : forall A (f : A -> bool) l l',
  Permutation l l' -> Permutation (filter f l) (filter f l').
Proof.
  intros A f l l' H. induction H; cbn.
  - constructor.
  - destruct (f x); [constructor|]; assumption.
  - destruct (f x), (f y); try apply Permutation_refl.
    apply perm_swap.
  - eapply Permutation_trans; eassumption.
Qed.

Lemma perm_flat_map : forall A B (f : A -> list B) l l',
  Permutation l l' -> Permutation (flat_map f l) (flat_map f l').
Proof.
  intros A B f l l' H. induction H; cbn.
  - constructor.
  - apply Permutation_app_head. assumption.
  - rewrite !app_assoc. apply Permutation_app_tail. apply Permutation_app_comm.
  - eapply Permutation_trans; eassumption.
Qed.

Lemma inv_tree_equiv : forall ds ds' pt pt',
  Inv ds pt -> Inv ds' pt' -> Permutation ds ds' ->
  tree_equiv (pt_tree pt) (pt_tree pt').
Proof.
  intros ds ds' pt pt' HI HI' HP X. unfold info_equiv.
  assert (Hin : forall d, In d ds <-> In d ds').
  { intro d. split; intro H.
    - eapply Permutation_in; eauto.
    - eapply Permutation_in; [apply Permutation_sym; exact HP|exact H]. }
  pose proof (has_value_iff ds pt X HI) as HV.
  pose proof (has_value_iff ds' pt' X HI') as HV'.
  unfold node_val in HV, HV'.
  destruct (find_node X (pt_tree pt)) as [ni|] eqn:F;
    destruct (find_node X (pt_tree pt')) as [ni'|] eqn:F'.
  - destruct (inv_A _ _ HI X ni F) as (d & k & ps & Hd & Hv).
    destruct (inv_B _ _ HI d Hd X k ps Hv) as (n1 & F1 & Hh1 & Hn1).
    destruct (inv_B _ _ HI' d (proj1 (Hin d) Hd) X k ps Hv) as (n2 & F2 & Hh2 & Hn2).
    rewrite F in F1. rewrite F' in F2. inversion F1; inversion F2; subst n1 n2.
    split; [congruence|]. split; [congruence|].
    rewrite HV, HV'. split; intros H d0 Hd0; apply H; apply Hin; exact Hd0.
  - destruct (inv_A _ _ HI X ni F) as (d & k & ps & Hd & Hv).
    destruct (inv_B _ _ HI' d (proj1 (Hin d) Hd) X k ps Hv) as (n2 & F2 & _).
    rewrite F' in F2. discriminate.
  - destruct (inv_A _ _ HI' X ni' F') as (d & k & ps & Hd & Hv).
    destruct (inv_B _ _ HI d (proj2 (Hin d) Hd) X k ps Hv) as (n2 & F2 & _).
    rewrite F in F2. discriminate.
  - exact I.
Qed.

Lemma acc_rem_merged : forall ds X m,
  acc_rem (merged ds X m) = flat_map d_rem (filter (at_node X m) ds).
Proof. intros. unfold merged. rewrite fold_merge_rem. reflexivity. Qed.

Lemma acc_diag_merged : forall ds X m,
  acc_diag (merged ds X m) = flat_map d_diag (filter (at_node X m) ds).
Proof. intros. unfold merged. rewrite fold_merge_diag. reflexivity. Qed.

Lemma endpoint_remedies_acc : forall pt m url,
  endpoint_remedies pt m url = filter r_enabled (acc_rem (policy_for pt m url)).
Proof.
  intros. unfold endpoint_remedies. destruct (policy_for pt m url); reflexivity.
Qed.

Lemma endpoint_diagnoses_acc : forall pt m url,
  endpoint_diagnoses pt m url = filter g_enabled (acc_diag (policy_for pt m url)).
Proof.
  intros. unfold endpoint_diagnoses. destruct (policy_for pt m url); reflexivity.
Qed.

Lemma order_independent_core : forall ds ds' pt pt' m url,
  Inv ds pt -> Inv ds' pt' -> Permutation ds ds' ->
  same_hit (plookup pt url) (plookup pt' url) /\
  Permutation (endpoint_remedies pt m url) (endpoint_remedies pt' m url) /\
  Permutation (endpoint_diagnoses pt m url) (endpoint_diagnoses pt' m url).
Proof.
  intros ds ds' pt pt' m url HI HI' HP.
  pose proof (inv_tree_equiv _ _ _ _ HI HI' HP) as HE.
  assert (HS : same_hit (plookup pt url) (plookup pt' url)).
  { unfold plookup, lookup, lookup_parts, lookup_parts_v. apply walk_equiv. exact HE. }
  split; [exact HS|].
  destruct HS as (HM & HK & _ & _).
  rewrite !endpoint_remedies_acc, !endpoint_diagnoses_acc.
  rewrite (policy_for_merged ds pt m url HI), (policy_for_merged ds' pt' m url HI').
  rewrite <- HM, <- HK.
  destruct (l_match (plookup pt url)).
  - rewrite !acc_rem_merged, !acc_diag_merged. split.
    + apply perm_filter. apply perm_flat_map. apply perm_filter. exact HP.
    + apply perm_filter. apply perm_flat_map. apply perm_filter. exact HP.
  - split; constructor.
Qed.

(* ------------------------------------------------------------------ *)
(* specificity *)

Lemma nth_error_mid : forall A (l1 : list A) x l2 n,
  length l1 = n -> nth_error (l1 ++ x :: l2) n = Some x.
Proof.
  intros A l1 x l2 n H. subst n. rewrite nth_error_app2 by lia.
  rewrite Nat.sub_diag. reflexivity.
Qed.

(* literal over parameter: where the selected pattern has a parameter, no
   declared pattern with the same earlier steps offers the literal request
   part (of that kind) *)
Lemma literal_over_parameter : forall ds pt url A X' k u,
  Inv ds pt -> l_match (plookup pt url) = true ->
  l_key (plookup pt url) = A ++ KParam :: X' ->
  nth_error (split_url url) (length X') = Some (k, u) ->
  forall d' ps, In d' ds -> ~ visited d' (KConst u :: X') k ps.
Proof.
  intros ds pt url A X' k u HI HM HK Hnth d' ps Hd' Hv.
  unfold plookup, lookup in *. set (parts := split_url url) in *.
  set (t := pt_tree pt) in *.
  pose proof (lookup_parts_spec t parts HM) as (_ & _ & HR).
  assert (Hcore : exists k1 u1 rus' rest,
             parts = rev rus' ++ (k1, u1) :: rest /\ length rus' = length X' /\
             child_ok t (KConst u1 :: X') k1 = None).
  { destruct HR as [(HF & _)|(P & rP & pre & HW & HF & Hrall & _)].
    - rewrite HK in HF. apply follows_param_step in HF.
      destruct HF as (B & k1 & u1 & rus' & Hr & _ & HC & HF).
      exists k1, u1, rus', (rev B). split; [|split; [|exact HC]].
      + rewrite <- (rev_involutive parts), Hr, rev_app_distr. cbn [rev].
        rewrite <- app_assoc. reflexivity.
      + symmetry. eapply follows_length. exact HF.
    - rewrite HK in HW. destruct A as [|a A']; [discriminate|].
      cbn [app] in HW. injection HW as _ HP. subst P.
      apply follows_param_step in HF.
      destruct HF as (B & k1 & u1 & rus' & Hr & _ & HC & HF).
      exists k1, u1, rus', (rev B ++ rev pre). split; [|split; [|exact HC]].
      + rewrite <- (rev_involutive parts), Hrall, rev_app_distr, Hr, rev_app_distr.
        cbn [rev]. rewrite <- !app_assoc. reflexivity.
      + symmetry. eapply follows_length. exact HF. }
  destruct Hcore as (k1 & u1 & rus' & rest & Hparts & HL & HC).
  rewrite Hparts in Hnth. rewrite nth_error_mid in Hnth by (rewrite rev_length; exact HL).
  inversion Hnth; subst k1 u1.
  destruct (inv_B _ _ HI d' Hd' _ _ _ Hv) as (ni & F & Hh & _). fold t in F.
  rewrite (child_ok_intro _ _ _ _ F Hh) in HC. discriminate.
Qed.

Lemma wild_freeb_spec : forall p, wild_freeb p = true -> wild_free p.
Proof.
  intros p H. unfold wild_freeb in H. rewrite forallb_forall in H.
  apply Forall_forall. intros x Hx Hw. specialize (H x Hx). rewrite Hw in H.
  discriminate.
Qed.

Lemma unshadowedb_spec : forall ds pt p K us,
  Inv ds pt -> unshadowedb ds K p us = true ->
  unshadowed_in (pt_tree pt) K p us.
Proof.
  intros ds pt. induction p as [|[k ps] p' IH]; intros K us HI HU; [exact I|].
  destruct us as [|[ku u] us']; [exact I|]. cbn [unshadowedb unshadowed_in] in *.
  apply andb_true_iff in HU. destruct HU as [HU0 HU]. split; [|apply IH; auto].
  destruct ps as [c|nm|]; try exact I.
  destruct (child_ok (pt_tree pt) (KConst u :: K) ku) as [ci|] eqn:HC; [|reflexivity].
  exfalso. apply child_ok_some in HC. destruct HC as [F Hh].
  destruct (inv_A _ _ HI _ _ F) as (d' & k' & ps' & Hd' & Hv).
  destruct (inv_B _ _ HI d' Hd' _ _ _ Hv) as (ni & F' & Hh' & _).
  rewrite F in F'. inversion F'; subst ni.
  apply negb_true_iff in HU0. unfold reaches in HU0.
  assert (HE : existsb (fun d => match step_at [] (pat d) (KConst u :: K) with
                                 | Some (k'0, _) => eqb k'0 ku
                                 | None => false
                                 end) ds = true).
  { apply existsb_exists. exists d'. split; [exact Hd'|].
    unfold visited in Hv. rewrite Hv. apply eqb_true_iff. congruence. }
  congruence.
Qed.

(* an exact (wildcard-free) declared pattern that matches the request and is
   not shadowed is the one selected *)
Lemma exact_wins : forall ds pt url d,
  Inv ds pt -> In d ds -> wild_freeb (pat d) = true ->
  matches (pat d) (split_url url) = true ->
  unshadowedb ds [] (pat d) (split_url url) = true ->
  l_match (plookup pt url) = true /\ l_key (plookup pt url) = dkey d.
Proof.
  intros ds pt url d HI Hd HW HM HU.
  unfold plookup, lookup, lookup_parts, lookup_parts_v, dkey, key_of.
  apply walk_exact; auto.
  - apply (inv_B _ _ HI d Hd).
  - apply wild_freeb_spec. exact HW.
  - eapply unshadowedb_spec; eauto.
  - intro HN.
    pose proof (proj1 (has_value_iff ds pt (key_from [] (pat d)) HI) HN) as HN'.
    apply (HN' d Hd). reflexivity.
Qed.

(* ------------------------------------------------------------------ *)
(* packaging for Property.v *)

Lemma selected_declared : forall ds pt url id,
  Inv ds pt -> l_val (plookup pt url) = Some id ->
  exists d, In d ds /\ dkey d = l_key (plookup pt url) /\
    matches_kind (pat d) (split_url url) = true /\
    l_norm (plookup pt url) = render_pattern (pat d) /\
    l_params (plookup pt url) = params_at_nb (pat d) (split_url url) [].
Proof.
  intros ds pt url id HI HV.
  pose proof (lookup_val_match _ _ _ HV) as HM.
  assert (HN : node_val (pt_tree pt) (l_key (plookup pt url)) = Some id).
  { unfold plookup, lookup in *.
    pose proof (lookup_parts_spec (pt_tree pt) (split_url url) HM) as (HV' & _).
    congruence. }
  pose proof (inv_C _ _ HI (l_key (plookup pt url))) as HC. rewrite HN in HC.
  destruct HC as ((d & Hd & Hk) & _).
  exists d. split; [exact Hd|]. split; [exact Hk|].
  apply (selected_node ds pt url d HI HM Hd Hk).
Qed.

Lemma exact_wins_val : forall ds pt url d,
  Inv ds pt -> In d ds -> wild_freeb (pat d) = true ->
  matches (pat d) (split_url url) = true ->
  unshadowedb ds [] (pat d) (split_url url) = true ->
  l_key (plookup pt url) = dkey d /\ l_val (plookup pt url) <> None.
Proof.
  intros ds pt url d HI Hd HW HM HU.
  destruct (exact_wins ds pt url d HI Hd HW HM HU) as [HMt HK].
  split; [exact HK|].
  unfold plookup, lookup in *.
  pose proof (lookup_parts_spec (pt_tree pt) (split_url url) HMt) as (HV & _).
  rewrite HV, HK. intro HN.
  pose proof (proj1 (has_value_iff ds pt (dkey d) HI) HN) as HN'.
  apply (HN' d Hd). reflexivity.
Qed.

Lemma perm_is_nil : forall A (l l' : list A), Permutation l l' -> is_nil l = is_nil l'.
Proof.
  intros A l l' H. apply Permutation_length in H.
  destruct l, l'; cbn in *; try reflexivity; discriminate.
Qed.

(* at most one declaration per (node, method): then nothing is merged and the
   selection is literally the same list in every order *)
Fixpoint distinct_endpointsb (ds : list decl) : bool :=
  match ds with
  | [] => true
  | d :: ds' =>
      negb (existsb (at_node (dkey d) (d_method d)) ds') && distinct_endpointsb ds'
  end.

Lemma distinct_filter_short : forall ds X m,
  distinct_endpointsb ds = true -> (length (filter (at_node X m) ds) <= 1)%nat.
Proof.
  induction ds as [|d ds IH]; intros X m H; cbn in *; [lia|].
  apply andb_true_iff in H. destruct H as [H1 H2].
  destruct (at_node X m d) eqn:E; [|apply IH; exact H2].
  cbn. replace (filter (at_node X m) ds) with (@nil decl); [cbn; lia|].
  symmetry. apply negb_true_iff in H1.
  unfold at_node in E. apply andb_true_iff in E. destruct E as [E1 E2].
  apply key_eqb_eq in E1. apply str_eqb_eq in E2. subst X m.
  clear IH H2. induction ds as [|d' ds IH]; [reflexivity|]. cbn in *.
  apply orb_false_iff in H1. destruct H1 as [H1 H1']. rewrite H1. apply IH. exact H1'.
Qed.

Lemma perm_short_eq : forall A (l l' : list A),
  Permutation l l' -> (length l <= 1)%nat -> l = l'.
Proof.
  intros A l l' HP HL. destruct l as [|x [|y l]]; cbn in HL; try lia.
  - apply Permutation_nil in HP. congruence.
  - apply Permutation_length_1_inv in HP. congruence.
Qed.

Lemma order_independent_exact : forall ds ds' pt pt' m url,
  Inv ds pt -> Inv ds' pt' -> Permutation ds ds' -> distinct_endpointsb ds = true ->
  endpoint_remedies pt m url = endpoint_remedies pt' m url /\
  endpoint_diagnoses pt m url = endpoint_diagnoses pt' m url.
Proof.
  intros ds ds' pt pt' m url HI HI' HP HD.
  pose proof (order_independent_core ds ds' pt pt' m url HI HI' HP) as (HS & _ & _).
  destruct HS as (HM & HK & _ & _).
  rewrite !endpoint_remedies_acc, !endpoint_diagnoses_acc.
  rewrite (policy_for_merged ds pt m url HI), (policy_for_merged ds' pt' m url HI').
  rewrite <- HM, <- HK.
  destruct (l_match (plookup pt url)); [|split; reflexivity].
  rewrite !acc_rem_merged, !acc_diag_merged.
  set (X := l_key (plookup pt url)).
  assert (HF : filter (at_node X m) ds = filter (at_node X m) ds').
  { apply perm_short_eq; [apply perm_filter; exact HP|].
    apply distinct_filter_short. exact HD. }
  rewrite HF. split; reflexivity.
Qed.

(* ------------------------------------------------------------------ *)
(* global specificity *)

(* every node a lookup of the policy tree can return is a declared one:
   a match always reports a value *)
Lemma matched_has_value : forall ds pt url,
  Inv ds pt -> l_match (plookup pt url) = true -> l_val (plookup pt url) <> None.
Proof.
  intros ds pt url HI HM. unfold plookup, lookup in *.
  set (t := pt_tree pt) in *. set (parts := split_url url) in *.
  pose proof (lookup_parts_spec t parts HM) as (HV & _ & HR). rewrite HV.
  destruct HR as [(_ & HN & _)|(P & rP & pre & HW & _ & _ & HF & _)]; [exact HN|].
  set (X := l_key (lookup_parts t parts)) in *.
  destruct (find_node X t) as [ni|] eqn:F; [|contradiction].
  destruct (inv_A _ _ HI X ni F) as (d & k & ps & Hd & Hv).
  unfold visited in Hv.
  destruct (step_at_head _ _ _ _ _ Hv) as [K1 HX]. rewrite HW in HX.
  injection HX as Hs _. symmetry in Hs. apply skey_wild_inv in Hs. subst ps.
  pose proof (validate_wild_last _ [] X k (inv_V _ _ HI d Hd) Hv) as HXd.
  intro HN. apply (proj1 (has_value_iff ds pt X HI) HN d Hd). symmetry. exact HXd.
Qed.

Lemma unshadowed_in_b : forall ds pt p K us,
  Inv ds pt -> unshadowed_in (pt_tree pt) K p us -> unshadowedb ds K p us = true.
Proof.
  intros ds pt. induction p as [|[k ps] p' IH]; intros K us HI HU; [reflexivity|].
  destruct us as [|[ku u] us']; [reflexivity|]. cbn [unshadowedb unshadowed_in] in *.
  destruct HU as [HU0 HU]. apply andb_true_iff. split; [|apply IH; auto].
  destruct ps as [c|nm|]; try reflexivity.
  apply negb_true_iff. destruct (reaches ds (KConst u :: K) ku) eqn:ER; [|reflexivity].
  exfalso. unfold reaches in ER. apply existsb_exists in ER.
  destruct ER as (d & Hd & Hs).
  destruct (step_at [] (pat d) (KConst u :: K)) as [[k' ps']|] eqn:ES; [|discriminate].
  apply eqb_prop in Hs. subst k'.
  destruct (inv_B _ _ HI d Hd _ _ _ ES) as (ni & F & Hh & _).
  rewrite (child_ok_intro _ _ _ _ F Hh) in HU0. discriminate.
Qed.

Lemma key_of_app_wild : forall p0 k, key_of (p0 ++ [(k, PWild)]) = KWild :: key_of p0.
Proof.
  intros. unfold key_of, key_from. rewrite !app_nil_r, map_app, rev_app_distr.
  reflexivity.
Qed.

(* the selected declared pattern is itself on the descent: no literal sibling
   shadows any of its parameter steps *)
Lemma selected_unshadowed : forall ds pt url d,
  Inv ds pt -> l_match (plookup pt url) = true ->
  In d ds -> dkey d = l_key (plookup pt url) ->
  unshadowedb ds [] (pat d) (split_url url) = true.
Proof.
  intros ds pt url d HI HM Hd Hk.
  unfold plookup, lookup in *. set (parts := split_url url) in *.
  set (t := pt_tree pt) in *.
  pose proof (lookup_parts_spec t parts HM) as (_ & _ & HR).
  set (r := lookup_parts t parts) in *.
  apply (unshadowed_in_b ds pt _ _ _ HI). fold t.
  destruct HR as [(HF & _ & _)|(P & rP & pre & HW & HF & Hrall & _)].
  - rewrite <- Hk in HF. unfold dkey, key_of in HF.
    assert (HL : length parts = length (pat d)).
    { apply follows_length in HF. rewrite key_from_length, rev_length in HF. cbn [length] in HF. lia. }
    apply (follows_unshadowed (pat d) t [] [] parts HL). rewrite app_nil_r. exact HF.
  - rewrite <- Hk in HW. unfold dkey in HW.
    destruct (key_of_wild_inv _ _ HW) as (p0 & k & Hp & HP0).
    assert (Hparts : parts = rev rP ++ rev pre).
    { rewrite <- (rev_involutive parts), Hrall, rev_app_distr. reflexivity. }
    rewrite <- HP0 in HF. unfold key_of in HF.
    assert (HL : length (rev rP) = length p0).
    { apply follows_length in HF. rewrite key_from_length in HF.
      rewrite rev_length. cbn [length] in HF. lia. }
    rewrite Hp, Hparts. apply unshadowed_in_app_wild; [exact HL|].
    apply (follows_unshadowed p0 t [] [] (rev rP) HL).
    rewrite rev_involutive, app_nil_r. exact HF.
Qed.

(* a declared pattern that matches the request and that no literal sibling
   shadows bounds the selection from below, and makes the lookup succeed
   unless the request has a part spelled "{..}" *)
Lemma reachable_below : forall ds pt url d',
  Inv ds pt -> In d' ds ->
  matches_kind (pat d') (split_url url) = true ->
  unshadowedb ds [] (pat d') (split_url url) = true ->
  (l_match (plookup pt url) = true ->
   spec_leb (steps_of (pat d')) (rev (l_key (plookup pt url))) = true) /\
  (no_brace (split_url url) -> l_match (plookup pt url) = true).
Proof.
  intros ds pt url d' HI Hd HMk HU.
  unfold plookup, lookup in *. set (parts := split_url url) in *.
  set (t := pt_tree pt) in *.
  pose proof (inv_B _ _ HI d' Hd) as HA. fold t in HA.
  pose proof (unshadowedb_spec ds pt _ _ _ HI HU) as HUi. fold t in HUi.
  destruct (matches_kind_shape _ _ HMk)
    as [[HW HL]|(p0 & k & us0 & rest & Hp & HW & Hus & HL & HM0 & HR)].
  - (* wildcard-free: it is the node selected *)
    assert (HE : l_match (lookup_parts t parts) = true /\
                 l_key (lookup_parts t parts) = dkey d').
    { unfold lookup_parts, lookup_parts_v, dkey, key_of. apply walk_exact; auto.
      - apply matches_kind_matches. exact HMk.
      - intro HN.
        pose proof (proj1 (has_value_iff ds pt (key_from [] (pat d')) HI) HN) as HN'.
        apply (HN' d' Hd). reflexivity. }
    destruct HE as [HE1 HE2]. split; [|intros _; exact HE1].
    intros _. rewrite HE2. unfold dkey. rewrite steps_of_key. apply spec_leb_refl.
  - (* p0 followed by the wildcard *)
    rewrite Hp in HA, HUi. rewrite Hus in HUi.
    pose proof (agrees_app_l _ _ _ _ HA) as HA0.
    pose proof (unshadowed_in_prefix _ _ _ _ _ _ HL HUi) as HU0.
    destruct (walk_prefix p0 true t [] us0 rest None [] [] HA0 HW HL HM0 HU0)
      as (fw' & ps' & path' & HWalk).
    assert (HNode : exists wi, find_node (KWild :: key_from [] p0) t = Some wi /\ n_host wi = k).
    { pose proof (agrees_app_r _ _ _ _ HA) as HAw.
      apply agrees_cons in HAw. destruct HAw as [(ni & F & Hh & _) _].
      exists ni. split; assumption. }
    destruct (walk_from_wild_parent rest true t (key_from [] p0) fw' ps' path' k HNode HR)
      as [HB1 HB2].
    assert (Hlp : lookup_parts t parts = walk_v true t (key_from [] p0) rest fw' ps' path').
    { unfold lookup_parts, lookup_parts_v. fold parts. rewrite Hus. exact HWalk. }
    split.
    + intro HMt. pose proof (lookup_parts_spec t parts HMt) as HRes.
      apply walk_result_key_shape in HRes.
      rewrite Hlp in HMt. destruct (HB1 HMt) as [A HA']. rewrite <- Hlp in HA'.
      rewrite Hp, <- steps_of_key, key_of_app_wild.
      apply (spec_leb_below _ _ A HA' HRes).
    + intro HNB. rewrite Hlp. apply HB2.
      unfold no_brace in *. rewrite Hus in HNB. apply Forall_app in HNB. apply HNB.
Qed.

Lemma no_braceb_spec : forall us, no_braceb us = true <-> no_brace us.
Proof.
  intro us. unfold no_braceb, no_brace. rewrite forallb_forall, Forall_forall.
  split; intros H x Hx; specialize (H x Hx).
  - apply negb_true_iff in H. exact H.
  - apply negb_true_iff. exact H.
Qed.
