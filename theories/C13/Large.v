(* C13 — big configurations: many siblings below one node of the trie.

   The policy tree is built by InsertDeclaredURL on a tree WITHOUT assumed
   path parameters (urltree.NewEndpointTree: assumedPathParamsEnabled = false,
   maxSplitThreshold = 0), so the walk of insertWithConvergenceIndication
   never merges ("converges") the literal path children of a node into one
   assumed parameter child "{_param_N}", however many there are.  [build] of
   Model.v has no such step.  This file adds the step as a VARIANT SWITCH:

     [build_a None]       = [build]                      ([build_a_none])
     [build_a (Some thr)] = the tree built with assumed path parameters
                            switched on and split threshold [thr]
                            (NewURLTree(true, thr), the way the aggregation
                            plugin builds its discovery tree)

   Convergence in the variant (url_tree_insert.go, the block "Handle assumed
   path params if needed", which precedes the declaredURL test): when a literal
   step has no child yet and the node already has >= thr literal children that
   are path segments, those children (and the parameter child, if any) are
   merged into ONE parameter child named "_param_<n>", n = number of
   convergences of this insertion so far; the walk continues in it; host-label
   children stay.  On the flat trie this is a renaming of keys ([rename]): the
   bindings of the merged subtrees keep their relative order and the first one
   wins, where Go leaves the choice to the iteration order of a map
   (convergeNodesPaths: "terminal nodes data might be incorrect"); the merged
   node gets the value of one of the merged children.  Deeper effects of
   convergeNodesPaths (renaming of parameter children inside the merged
   subtrees, loss of the host flag of merged grandchildren) are not modelled:
   the variant is used for a refutation on a witness without subtrees, where
   it is exact (cf. seeded change C13-9 and its demo test).

   Definitions and the lemmas about them; the final statements are in
   Property.v. *)
From Coq Require Import List ZArith NArith Bool Lia.
From Verif Require Import Lib.UrlTree Lib.UrlTreeProofs C13.Model C13.Proofs.
Import ListNotations.
Open Scope Z_scope.

(* ---------------- convergence on the flat trie ---------------- *)

Fixpoint nodup_str (l : list str) : list str :=
  match l with
  | [] => []
  | s :: l' => if existsb (str_eqb s) l' then nodup_str l' else s :: nodup_str l'
  end.

(* decimal spelling (fuel = number of digits at most) *)
Fixpoint digits (fuel : nat) (z : Z) : str :=
  match fuel with
  | O => []
  | S f => if z <? 10 then [48 + z] else digits f (z / 10) ++ [48 + z mod 10]
  end.

(* buildAssumedPathParamName *)
Definition assumed_name (n : nat) : str :=
  [95; 112; 97; 114; 97; 109; 95] ++ digits 20 (Z.of_nat n).

Section Assumed.
  Context {V : Type}.

  (* the distinct literal children of node [K] that are path segments *)
  Definition path_children (t : tree V) (K : key) : list str :=
    nodup_str
      (flat_map (fun b =>
         match fst b with
         | KConst s :: K' =>
             if key_eqb K' K &&
                match find_node (KConst s :: K) t with
                | Some ni => negb (n_host ni)
                | None => false
                end
             then [s] else []
         | _ => []
         end) t).

  (* the key [K0] once the literal children [cs] of [K] are one parameter child *)
  Fixpoint rename (cs : list str) (K K0 : key) : key :=
    match K0 with
    | [] => []
    | x :: K0' =>
        if key_eqb K0' K then
          match x with
          | KConst s => if existsb (str_eqb s) cs then KParam :: K0' else K0
          | _ => K0
          end
        else x :: rename cs K K0'
    end.

  Definition converge (t : tree V) (K : key) (n : nat) : tree V :=
    let cs := path_children t K in
    let sample := match cs with
                  | s :: _ => node_val t (KConst s :: K)
                  | [] => None
                  end in
    (KParam :: K, {| n_host := false; n_pname := assumed_name n; n_val := sample |}) ::
    map (fun b => (rename cs K (fst b), snd b)) t.

  (* urlTree.assumedPathParamsEnabled && isThresholdMet *)
  Definition converges (a : option nat) (t : tree V) (K : key) : bool :=
    match a with
    | Some thr => Nat.leb thr (length (path_children t K))
    | None => false
    end.

  (* insertWithConvergenceIndication with declaredURL = true; [cnt] = pathParamCount *)
  Fixpoint insert_steps_a (a : option nat) (t : tree V) (K : key) (pat : pattern)
           (cnt : nat) : option (tree V * key) :=
    match pat with
    | [] => Some (t, K)
    | (k, PWild) :: rest =>
        insert_steps_a a ((KWild :: K, fresh_node k []) :: t) (KWild :: K) rest cnt
    | (k, PParam nm) :: rest =>
        match find_node (KParam :: K) t with
        | Some ni =>
            if str_eqb nm (n_pname ni)
            then insert_steps_a a t (KParam :: K) rest cnt
            else None
        | None =>
            insert_steps_a a ((KParam :: K, fresh_node k nm) :: t) (KParam :: K) rest cnt
        end
    | (k, PConst s) :: rest =>
        match find_node (KConst s :: K) t with
        | Some _ => insert_steps_a a t (KConst s :: K) rest cnt
        | None =>
            if converges a t K
            then insert_steps_a a (converge t K (S cnt)) (KParam :: K) rest (S cnt)
            else insert_steps_a a ((KConst s :: K, fresh_node k []) :: t)
                                (KConst s :: K) rest cnt
        end
    end.

  Definition insert_parts_a (a : option nat) (t : tree V) (parts : list part) (v : V)
    : option (tree V) :=
    if validate parts then
      match insert_steps_a a t [] (parse_pattern parts) O with
      | Some (t', K) => Some (set_val t' K v)
      | None => None
      end
    else None.

  Lemma insert_steps_a_none : forall pat t K cnt,
    insert_steps_a None t K pat cnt = insert_steps t K pat.
  Proof.
    induction pat as [|[k ps] rest IH]; intros t K cnt; [reflexivity|].
    destruct ps as [s|nm|]; cbn [insert_steps_a insert_steps converges].
    - destruct (find_node (KConst s :: K) t); apply IH.
    - destruct (find_node (KParam :: K) t) as [ni|]; [|apply IH].
      destruct (str_eqb nm (n_pname ni)); [apply IH|reflexivity].
    - apply IH.
  Qed.

  Lemma insert_parts_a_none : forall t parts v,
    insert_parts_a None t parts v = insert_parts t parts v.
  Proof.
    intros t parts v. unfold insert_parts_a, insert_parts.
    rewrite insert_steps_a_none. reflexivity.
  Qed.
End Assumed.

(* ---------------- BuildEndpointPolicyTree on such a tree ---------------- *)

Definition build_step_a (a : option nat) (pt : ptree) (d : decl) : option ptree :=
  let parts := split_url (d_url d) in
  if conflict (existing_remedies pt (d_method d) parts) (d_rem d) then None
  else
    match get_exact_parts (pt_tree pt) parts with
    | Some id =>
        let mm := st_get id (pt_store pt) in
        let mm' := mm_set (d_method d) (merged_policy mm d) mm in
        match insert_parts_a a (pt_tree pt) parts id with
        | Some t' =>
            Some {| pt_tree := t'; pt_store := (id, mm') :: pt_store pt;
                    pt_next := pt_next pt |}
        | None => None
        end
    | None =>
        let id := pt_next pt in
        match insert_parts_a a (pt_tree pt) parts id with
        | Some t' =>
            Some {| pt_tree := t';
                    pt_store := (id, [(d_method d, policy_of d)]) :: pt_store pt;
                    pt_next := N.succ id |}
        | None => None
        end
    end.

Fixpoint build_from_a (a : option nat) (pt : ptree) (ds : list decl) : option ptree :=
  match ds with
  | [] => Some pt
  | d :: ds' =>
      match build_step_a a pt d with
      | Some pt' => build_from_a a pt' ds'
      | None => None
      end
  end.

Definition build_a (a : option nat) (ds : list decl) : option ptree :=
  build_from_a a empty_ptree ds.

Lemma build_step_a_none : forall pt d, build_step_a None pt d = build_step pt d.
Proof.
  intros pt d. unfold build_step_a, build_step.
  destruct (conflict _ _); [reflexivity|].
  destruct (get_exact_parts _ _); rewrite insert_parts_a_none; reflexivity.
Qed.

Lemma build_from_a_none : forall ds pt, build_from_a None pt ds = build_from pt ds.
Proof.
  induction ds as [|d ds IH]; intro pt; [reflexivity|].
  cbn [build_from_a build_from]. rewrite build_step_a_none.
  destruct (build_step pt d); [apply IH|reflexivity].
Qed.

(* the tree the code builds never converges: it is the one of Model.v *)
Lemma build_a_none : forall ds, build_a None ds = build ds.
Proof. intro ds. apply build_from_a_none. Qed.

(* ---------------- literal declared URLs ---------------- *)

Definition is_constb (ps : pstep) : bool :=
  match ps with PConst _ => true | _ => false end.

(* every step of the pattern is a literal (no parameter, no wildcard) *)
Definition literalb (p : pattern) : bool := forallb (fun x => is_constb (snd x)) p.

Lemma classify_const : forall s s', classify s = PConst s' -> s' = s.
Proof.
  intros s s'. unfold classify.
  destruct (str_eqb s star); [discriminate|].
  destruct (is_brace s); [discriminate|]. intro H. inversion H. reflexivity.
Qed.

Lemma literal_matches_self : forall parts,
  literalb (parse_pattern parts) = true -> matches (parse_pattern parts) parts = true.
Proof.
  induction parts as [|[k s] parts IH]; [reflexivity|].
  unfold literalb, parse_pattern. cbn [map forallb fst snd matches].
  destruct (classify s) as [s'| |] eqn:E; cbn [is_constb andb]; try discriminate.
  intro H. apply classify_const in E. subst s'.
  rewrite eqb_reflx, str_eqb_refl. cbn [andb]. apply IH. exact H.
Qed.

Lemma literal_wild_free : forall p, literalb p = true -> wild_freeb p = true.
Proof.
  induction p as [|[k ps] p IH]; [reflexivity|].
  unfold literalb, wild_freeb. cbn [forallb snd].
  destruct ps; cbn [is_constb is_wild negb andb]; try discriminate. exact IH.
Qed.

Lemma literal_unshadowed : forall ds p K us,
  literalb p = true -> unshadowedb ds K p us = true.
Proof.
  induction p as [|[k ps] p IH]; intros K us H; [reflexivity|].
  unfold literalb in H. cbn [forallb snd] in H.
  destruct ps; cbn [is_constb andb] in H; try discriminate.
  destruct us as [|[ku u] us]; [reflexivity|].
  cbn [unshadowedb andb]. apply IH. exact H.
Qed.

(* a literal pattern matches exactly its own spelling *)
Lemma literal_matches_kind_eq : forall p us,
  literalb p = true -> matches_kind p us = true ->
  us = map (fun x => (fst x, step_text (snd x))) p.
Proof.
  induction p as [|[k ps] p IH]; intros us HL HM.
  - destruct us; [reflexivity|discriminate].
  - unfold literalb in HL. cbn [forallb snd] in HL.
    destruct ps as [s| |]; cbn [is_constb andb] in HL; try discriminate.
    cbn [matches_kind] in HM. destruct us as [|[k' s'] us]; [discriminate|].
    apply andb_true_iff in HM. destruct HM as [HM1 HM3].
    apply andb_true_iff in HM1. destruct HM1 as [HM1 HM2].
    apply eqb_prop in HM1. apply str_eqb_eq in HM2. subst k' s'.
    cbn [map fst snd step_text]. f_equal. apply IH; assumption.
Qed.

Lemma literal_spelling : forall parts,
  literalb (parse_pattern parts) = true ->
  map (fun x => (fst x, step_text (snd x))) (parse_pattern parts) = parts.
Proof.
  induction parts as [|[k s] parts IH]; [reflexivity|].
  unfold literalb, parse_pattern. cbn [map forallb fst snd].
  destruct (classify s) as [s'| |] eqn:E; cbn [is_constb andb]; try discriminate.
  intro H. apply classify_const in E. subst s'. cbn [step_text]. f_equal.
  apply IH. exact H.
Qed.

(* two literally declared URLs, one matching the other, consist of the same parts *)
Lemma literal_same_parts : forall parts' parts,
  literalb (parse_pattern parts') = true ->
  matches_kind (parse_pattern parts') parts = true -> parts' = parts.
Proof.
  intros parts' parts HL HM.
  rewrite (literal_matches_kind_eq _ _ HL HM). symmetry. apply literal_spelling. exact HL.
Qed.
