(* C13 — URLs that embed an absolute URL (a scheme separator, colon slash
   slash, somewhere after the host): web-archive / proxy / redirect style
   requests such as  archive.org/web/http://bank.com/admin .

   What the code does (url_tree_utils.go, splitURL / trimURL): trimURL only
   trims leading and trailing dots and slashes; the host is everything in
   front of the first slash, split at dots; the rest is split at slashes.
   A scheme is NOT recognised anywhere:
     - http://bank.com/admin  is the host label  http:  followed by the path
       segments  (empty), bank.com, admin  — as a declaration it is refused
       (empty part), as a request it matches no declaration of bank.com;
     - archive.org/web/http://bank.com/admin  is a request to the host
       archive.org  with the path segments  web, http:, (empty), bank.com,
       admin.
   That is [split_url] of Lib/UrlTree, which every insert and every lookup of
   Model.v goes through.

   This file adds the VARIANT SWITCH [s : bool] for a trimURL that also drops
   a scheme by cutting the URL behind the FIRST scheme separator found
   ANYWHERE in it (seeded change C13-11):
     [url_s false u] = u                      (the code)
     [url_s true  u] = what follows the first  colon slash slash  of u (u
                        itself when there is none)
   trimURL is applied to every URL that is inserted or looked up, so the
   variant of the tree / selection is the code run on [url_s s] of every
   declared URL and of the request URL.  (trimURL is also applied to the
   path a lookup has followed, for the normalised URL; that path is the
   rendering of a valid declared pattern, has no empty part and hence no
   scheme separator, so nothing changes there.)

   Definitions and the two bridging lemmas only; the final statements are in
   Property.v. *)
From Coq Require Import List ZArith NArith Bool.
From Verif Require Import Lib.UrlTree Lib.UrlTreeProofs C13.Model.
Import ListNotations.
Open Scope Z_scope.

Definition c_colon : Z := 58.

(* strings.Index(u, sep) >= 0 for the three-byte scheme separator, and the
   text behind it: Some rest for the FIRST occurrence, None when there is none *)
Fixpoint after_scheme_sep (u : str) : option str :=
  match u with
  | [] => None
  | c :: r =>
      match r with
      | c2 :: c3 :: r' =>
          if (c =? c_colon) && (c2 =? c_slash) && (c3 =? c_slash) then Some r'
          else after_scheme_sep r
      | _ => None
      end
  end.

Definition url_s (s : bool) (u : str) : str :=
  if s then match after_scheme_sep u with Some r => r | None => u end else u.

Definition decl_s (s : bool) (d : decl) : decl :=
  {| d_method := d_method d; d_url := url_s s (d_url d);
     d_rem := d_rem d; d_diag := d_diag d |}.

(* BuildEndpointPolicyTree / Lookup / the dispatcher's selection with the
   variant of trimURL *)
Definition build_s (s : bool) (ds : list decl) : option ptree :=
  build (map (decl_s s) ds).

Definition plookup_s (s : bool) (pt : ptree) (url : str) : lres N :=
  plookup pt (url_s s url).

Definition endpoint_remedies_s (s : bool) (pt : ptree) (m url : str) : list remedy :=
  endpoint_remedies pt m (url_s s url).

Definition endpoint_diagnoses_s (s : bool) (pt : ptree) (m url : str) : list diagnosis :=
  endpoint_diagnoses pt m (url_s s url).

(* the code: no scheme handling at all *)
Lemma decl_s_false : forall d, decl_s false d = d.
Proof. intros [m u r g]. reflexivity. Qed.

Lemma build_s_false : forall ds, build_s false ds = build ds.
Proof.
  intro ds. unfold build_s. f_equal.
  rewrite (map_ext _ (fun d => d) decl_s_false). apply map_id.
Qed.

(* a URL without a scheme separator is split alike by both variants: every
   ordinary host/path URL behaves as before under the variant *)
Lemma url_s_no_sep : forall s u, after_scheme_sep u = None -> url_s s u = u.
Proof. intros [|] u H; unfold url_s; [rewrite H|]; reflexivity. Qed.

(* first literal host label: a pattern that starts with a literal step
   matches only requests whose first part is that very part *)
Lemma matches_kind_first_literal : forall k l p' parts,
  matches_kind ((k, PConst l) :: p') parts = true ->
  exists rest, parts = (k, l) :: rest.
Proof.
  intros k l p' [|[k' l'] rest] H; cbn [matches_kind] in H; [discriminate|].
  apply andb_prop in H. destruct H as [H _].
  apply andb_prop in H. destruct H as [Hk Hl].
  apply eqb_prop in Hk. apply str_eqb_eq in Hl. subst. exists rest. reflexivity.
Qed.
