(* C13 — Endpoint policies apply only to requests matching their declared
   endpoint.  Final statements only; proofs are in Proofs.v and
   Lib/UrlTreeProofs.v.  The model is the code after the repairs
   patches/C13/fix-F-C13{,b,c,d,g}.patch.

   Vocabulary: [build ds] = BuildEndpointPolicyTree (None = the loader rejects
   the declarations); [endpoint_remedies pt m url] / [endpoint_diagnoses] = the
   endpoint-scoped plugins the dispatcher selects for a request; [plookup] =
   EndpointPolicyTree.Lookup; [pat d] = the declared pattern of [d];
   [matches_kind] = the specification matcher of Lib/UrlTree, written from the
   property text (a trailing wildcard is a step of a kind: "a.com/*" stands
   for path segments below a.com, not for "a.com.evil.org/x"); [matches] = its
   lax reading (wildcard swallows parts of any kind); [spec_leb] = the
   specificity order literal > parameter > wildcard, left to right;
   [unshadowedb ds [] p us] = no parameter step of p, along the request us,
   has a declared literal sibling carrying the request part (the descent does
   not backtrack out of a literal branch: known finding F-C13h);
   [no_braceb us] = no request part is spelled "{..}" (F-C13i);
   [kind_consistentb ds] = no two declarations reach the same trie node once
   as a host label and once as a path segment (F-C13e, "a.b" next to "a/b"). *)
From Coq Require Import List ZArith NArith Bool Permutation Lia.
From Verif Require Import Lib.UrlTree Lib.UrlTreeProofs C13.Model C13.Proofs C13.Large C13.Scheme.
Import ListNotations.
Open Scope Z_scope.

(* ------------------------------------------------------------------ *)
(* Soundness *)

Definition C13_sound_statement (ds : list decl) : Prop :=
  forall pt m url, build ds = Some pt ->
    (forall r, In r (endpoint_remedies pt m url) ->
       exists d, In d ds /\ d_method d = m /\ In r (d_rem d) /\
                 r_enabled r = true /\ matches_kind (pat d) (split_url url) = true) /\
    (forall g, In g (endpoint_diagnoses pt m url) ->
       exists d, In d ds /\ d_method d = m /\ In g (d_diag d) /\
                 g_enabled g = true /\ matches_kind (pat d) (split_url url) = true).

(* for all declaration lists, methods and URLs *)
Definition C13_sound_full : Prop := forall ds, C13_sound_statement ds.

(* A remedy / diagnosis selected for (m, url) was declared, enabled, for
   method m on a pattern that matches url (kind-aware: a wildcard stands for
   nothing or for parts of its own kind) — for every list of declarations
   without a host-label/path-segment clash, every order, every request. *)
Theorem C13_sound_holds_outside_hostpath_clash : forall ds,
  kind_consistentb ds = true -> C13_sound_statement ds.
Proof.
  intros ds HK pt m url HB.
  apply kind_consistentb_spec in HK. pose proof (build_inv ds pt HB HK) as HI.
  split; intros x Hx.
  - exact (sound_remedies ds pt m url x HI Hx).
  - exact (sound_diagnoses ds pt m url x HI Hx).
Qed.
Print Assumptions C13_sound_holds_outside_hostpath_clash.

(* the same statement under the name used in the design *)
Corollary C13_sound : forall ds,
  kind_consistentb ds = true -> C13_sound_statement ds.
Proof. exact C13_sound_holds_outside_hostpath_clash. Qed.
Print Assumptions C13_sound.

(* the statement as it stood before the specification matcher was made
   kind-aware (lax reading of the wildcard); a consequence, kept because
   C14 (coverage of the managed-endpoint expressions) builds on it *)
Definition C13_sound_lax_statement (ds : list decl) : Prop :=
  forall pt m url, build ds = Some pt ->
    (forall r, In r (endpoint_remedies pt m url) ->
       exists d, In d ds /\ d_method d = m /\ In r (d_rem d) /\
                 r_enabled r = true /\ matches (pat d) (split_url url) = true) /\
    (forall g, In g (endpoint_diagnoses pt m url) ->
       exists d, In d ds /\ d_method d = m /\ In g (d_diag d) /\
                 g_enabled g = true /\ matches (pat d) (split_url url) = true).

Corollary C13_sound_lax : forall ds,
  kind_consistentb ds = true -> C13_sound_lax_statement ds.
Proof.
  intros ds HK pt m url HB. destruct (C13_sound ds HK pt m url HB) as [HR HD].
  split; intros x Hx.
  - destruct (HR x Hx) as (d & H1 & H2 & H3 & H4 & H5).
    exists d. repeat split; auto. apply matches_kind_matches. exact H5.
  - destruct (HD x Hx) as (d & H1 & H2 & H3 & H4 & H5).
    exists d. repeat split; auto. apply matches_kind_matches. exact H5.
Qed.
Print Assumptions C13_sound_lax.

(* the dispatcher adds exactly the enabled global plugins to them *)
Theorem C13_dispatch : forall pt grem m url s n,
  In (s, n) (get_remedies pt grem m url) ->
  (s = true /\ exists r, In r (endpoint_remedies pt m url) /\ r_name r = n) \/
  (s = false /\ exists r, In r grem /\ r_enabled r = true /\ r_name r = n).
Proof.
  intros pt grem m url s n H. unfold get_remedies in H.
  apply in_app_or in H. destruct H as [H|H]; apply in_map_iff in H;
    destruct H as (r & E & Hr); inversion E; subst.
  - left. eauto.
  - right. apply filter_In in Hr. destruct Hr. eauto.
Qed.
Print Assumptions C13_dispatch.

Definition s_GET : str := [71; 69; 84].
Definition s_POST : str := [80; 79; 83; 84].
Definition mk (m u : str) (name ty : Z) : decl :=
  {| d_method := m; d_url := u;
     d_rem := [{| r_name := name; r_type := ty; r_enabled := true |}];
     d_diag := [{| g_name := name; g_enabled := true |}] |}.
(* "a.b" and "a/b" *)
Definition u_a_dot_b : str := [97; 46; 98].
Definition u_a_slash_b : str := [97; 47; 98].
Definition clash : list decl := [mk s_GET u_a_dot_b 1 1; mk s_GET u_a_slash_b 2 2].
Definition u_h_star : str := [104; 47; 42].       (* h/* *)
Definition u_h_a : str := [104; 47; 97].           (* h/a *)
Definition u_h_b : str := [104; 47; 98].           (* h/b *)

(* F-C13e: with "a.b" declared before "a/b" the request GET a.b is given the
   remedy declared for a/b *)
Theorem C13_sound_full_refuted : ~ C13_sound_full.
Proof.
  intro H.
  destruct (build clash) as [pt|] eqn:HB; [|vm_compute in HB; discriminate].
  destruct (H clash pt s_GET u_a_dot_b HB) as [Hr _].
  assert (Hin : In {| r_name := 2; r_type := 2; r_enabled := true |}
                   (endpoint_remedies pt s_GET u_a_dot_b)).
  { vm_compute in HB. inversion HB; subst pt. vm_compute. right. left. reflexivity. }
  destruct (Hr _ Hin) as (d & Hd & _ & Hrem & _ & Hm).
  destruct Hd as [<-|[<-|[]]].
  - vm_compute in Hrem. destruct Hrem as [E|[]]. discriminate E.
  - vm_compute in Hm. discriminate Hm.
Qed.
Print Assumptions C13_sound_full_refuted.

(* "a.com/*" and "a.com.evil.org/x" *)
Definition u_acom_star : str := [97; 46; 99; 111; 109; 47; 42].
Definition u_acom_evil : str :=
  [97; 46; 99; 111; 109; 46; 101; 118; 105; 108; 46; 111; 114; 103; 47; 120].
Definition u_acom_x : str := [97; 46; 99; 111; 109; 47; 120].
Definition wildhost : list decl := [mk s_GET u_acom_star 1 1].

(* Variant switch: the selection through the Lookup of BEFORE fix F-C13g
   ([walk_v false]: a wildcard child is remembered whatever its kind).  It is
   not sound: the remedy declared for GET a.com/* is selected for
   GET a.com.evil.org/x, a request to another host.  ([build] is the same for
   both variants on this witness: one declaration.) *)
Definition C13_sound_unfixed : Prop :=
  forall ds pt m url r, build ds = Some pt -> kind_consistentb ds = true ->
    In r (endpoint_remedies_v false pt m url) ->
    exists d, In d ds /\ d_method d = m /\ In r (d_rem d) /\
              r_enabled r = true /\ matches_kind (pat d) (split_url url) = true.

Theorem C13_sound_wildkind_unfixed_refuted : ~ C13_sound_unfixed.
Proof.
  intro H.
  destruct (build wildhost) as [pt|] eqn:HB; [|vm_compute in HB; discriminate].
  assert (HK : kind_consistentb wildhost = true) by (vm_compute; reflexivity).
  assert (Hin : In {| r_name := 1; r_type := 1; r_enabled := true |}
                   (endpoint_remedies_v false pt s_GET u_acom_evil)).
  { vm_compute in HB. inversion HB; subst pt. vm_compute. left. reflexivity. }
  destruct (H wildhost pt s_GET u_acom_evil _ HB HK Hin) as (d & Hd & _ & _ & _ & Hm).
  destruct Hd as [<-|[]]. vm_compute in Hm. discriminate Hm.
Qed.
Print Assumptions C13_sound_wildkind_unfixed_refuted.

(* [endpoint_remedies] is the [true] side of the switch; on the witness the
   repaired code selects nothing for the foreign host and still serves
   a.com/x and a.com itself *)
Example C13_wildkind_fixed :
  (forall pt m url, endpoint_remedies_v true pt m url = endpoint_remedies pt m url) /\
  match build wildhost with
  | Some pt =>
      map r_name (endpoint_remedies pt s_GET u_acom_evil) = [] /\
      map r_name (endpoint_remedies pt s_GET u_acom_x) = [1] /\
      map r_name (endpoint_remedies pt s_GET [97; 46; 99; 111; 109]) = [1] /\
      matches (pat (mk s_GET u_acom_star 1 1)) (split_url u_acom_evil) = true /\
      matches_kind (pat (mk s_GET u_acom_star 1 1)) (split_url u_acom_evil) = false
  | None => False
  end.
Proof. split; [reflexivity|]. vm_compute. repeat split; reflexivity. Qed.

(* ------------------------------------------------------------------ *)
(* Most specific pattern, normalised URL, path parameters *)

Theorem C13_most_specific : forall ds pt url,
  build ds = Some pt -> kind_consistentb ds = true ->
  let r := plookup pt url in
  (* (a) a value is reported only for the node of a declared pattern that
         matches the request (kind-aware); the normalised URL is that pattern
         in canonical spelling; the path parameters are the request's parts
         at its parameter positions — for ALL requests with the reading
         [params_at_nb] (a request part spelled "{..}" binds nothing), hence
         literally the parts at the parameter positions ([params_at]) when
         the request has no such part *)
  (forall id, l_val r = Some id ->
     exists d, In d ds /\ dkey d = l_key r /\
       matches_kind (pat d) (split_url url) = true /\
       l_norm r = render_pattern (pat d) /\
       l_params r = params_at_nb (pat d) (split_url url) [] /\
       (Forall (fun u => is_brace (snd u) = false) (split_url url) ->
        l_params r = params_at (pat d) (split_url url) [])) /\
  (* (b) literal over parameter: where the selected node's path has a
         parameter step below node X', no declared pattern with the same
         earlier steps continues with the literal request part of that kind *)
  (l_match r = true ->
   forall A X' k u, l_key r = A ++ KParam :: X' ->
     nth_error (split_url url) (length X') = Some (k, u) ->
     forall d' ps, In d' ds -> step_at [] (pat d') (KConst u :: X') <> Some (k, ps)) /\
  (* (c) exact over wildcard: a wildcard-free declared pattern that matches
         and is not shadowed by a literal sibling is the one selected *)
  (forall d, In d ds -> wild_freeb (pat d) = true ->
     matches (pat d) (split_url url) = true ->
     unshadowedb ds [] (pat d) (split_url url) = true ->
     l_key r = dkey d /\ l_val r <> None).
Proof.
  intros ds pt url HB HK r.
  apply kind_consistentb_spec in HK. pose proof (build_inv ds pt HB HK) as HI.
  split; [|split].
  - intros id HV.
    destruct (selected_declared ds pt url id HI HV) as (d & H1 & H2 & H3 & H4 & H5).
    exists d. repeat split; auto.
    intro HNB. unfold r. rewrite H5. apply params_at_nb_nobrace. exact HNB.
  - intros HM A X' k u HKey Hn d' ps Hd'.
    exact (literal_over_parameter ds pt url A X' k u HI HM HKey Hn d' ps Hd').
  - intros d Hd HW HMt HU. exact (exact_wins_val ds pt url d HI Hd HW HMt HU).
Qed.
Print Assumptions C13_most_specific.

(* in the policy tree every node a lookup can return is a declared one: a
   match always reports a value (so (a) speaks about every match) *)
Theorem C13_match_reports_value : forall ds pt url,
  build ds = Some pt -> kind_consistentb ds = true ->
  l_match (plookup pt url) = true -> l_val (plookup pt url) <> None.
Proof.
  intros ds pt url HB HK HM.
  apply kind_consistentb_spec in HK.
  exact (matched_has_value ds pt url (build_inv ds pt HB HK) HM).
Qed.
Print Assumptions C13_match_reports_value.

(* Global specificity.  Among the declared patterns that match the request
   (kind-aware) and that the descent can follow ([unshadowedb]: the lookup
   never leaves a literal branch it has entered), the selected one is THE
   maximum of the order literal > parameter > wildcard, compared left to
   right ([spec_leb], antisymmetric: [C13_selected_is_the_maximum]).  In
   particular a deeper wildcard beats an outer one (h/a/* over h/* for h/a/b
   and for h/a itself), an exact pattern beats a wildcard that stands for
   nothing (h/a over h/a/* for h/a).
     (a) what is selected is such a pattern;
     (b) it is at least as specific as every such pattern;
     (c) if there is such a pattern, something is selected (requests
         without a part spelled "{..}"). *)
Theorem C13_global_specificity : forall ds pt url,
  build ds = Some pt -> kind_consistentb ds = true ->
  let r := plookup pt url in
  let us := split_url url in
  (forall id, l_val r = Some id ->
     exists d, In d ds /\ dkey d = l_key r /\
       matches_kind (pat d) us = true /\ unshadowedb ds [] (pat d) us = true) /\
  (forall d', In d' ds -> matches_kind (pat d') us = true ->
     unshadowedb ds [] (pat d') us = true -> l_match r = true ->
     spec_leb (steps_of (pat d')) (rev (l_key r)) = true) /\
  (forall d', In d' ds -> matches_kind (pat d') us = true ->
     unshadowedb ds [] (pat d') us = true -> no_braceb us = true ->
     l_val r <> None).
Proof.
  intros ds pt url HB HK r us.
  apply kind_consistentb_spec in HK. pose proof (build_inv ds pt HB HK) as HI.
  split; [|split].
  - intros id HV.
    destruct (selected_declared ds pt url id HI HV) as (d & H1 & H2 & H3 & _).
    exists d. repeat split; auto.
    apply (selected_unshadowed ds pt url d HI (lookup_val_match _ _ _ HV) H1 H2).
  - intros d' Hd HM HU HMt.
    exact (proj1 (reachable_below ds pt url d' HI Hd HM HU) HMt).
  - intros d' Hd HM HU HNB.
    apply (matched_has_value ds pt url HI).
    apply (proj2 (reachable_below ds pt url d' HI Hd HM HU)).
    apply no_braceb_spec. exact HNB.
Qed.
Print Assumptions C13_global_specificity.

(* uniqueness of the maximum: a followable matching declared pattern that is
   at least as specific as the selected one denotes the selected node *)
Theorem C13_selected_is_the_maximum : forall ds pt url d',
  build ds = Some pt -> kind_consistentb ds = true ->
  In d' ds -> matches_kind (pat d') (split_url url) = true ->
  unshadowedb ds [] (pat d') (split_url url) = true ->
  l_match (plookup pt url) = true ->
  spec_leb (rev (l_key (plookup pt url))) (steps_of (pat d')) = true ->
  dkey d' = l_key (plookup pt url).
Proof.
  intros ds pt url d' HB HK Hd HM HU HMt HLe.
  destruct (C13_global_specificity ds pt url HB HK) as (_ & Hb & _).
  pose proof (Hb d' Hd HM HU HMt) as HGe.
  pose proof (spec_leb_antisym _ _ HGe HLe) as E.
  rewrite <- steps_of_key in E. unfold dkey.
  rewrite <- (rev_involutive (key_of (pat d'))), E, rev_involutive. reflexivity.
Qed.
Print Assumptions C13_selected_is_the_maximum.

(* "the most specific declared pattern wins", in full: whenever a declared
   pattern matches the request, a declared pattern is selected and it is at
   least as specific *)
Definition C13_most_specific_statement (ds : list decl) (pt : ptree) (url : str)
           (d' : decl) : Prop :=
  l_val (plookup pt url) <> None /\
  spec_leb (steps_of (pat d')) (rev (l_key (plookup pt url))) = true.

Definition C13_most_specific_full : Prop :=
  forall ds pt url d', build ds = Some pt -> In d' ds ->
    matches_kind (pat d') (split_url url) = true ->
    C13_most_specific_statement ds pt url d'.

Definition u_h_xb : str := [104; 47; 123; 120; 125; 47; 98].    (* h/{x}/b *)
Definition u_h_ac : str := [104; 47; 97; 47; 99].               (* h/a/c *)
Definition u_h_ab : str := [104; 47; 97; 47; 98].               (* h/a/b *)
Definition backtrack : list decl := [mk s_GET u_h_xb 1 1; mk s_GET u_h_ac 2 2].

(* F-C13h: no backtracking.  With h/{x}/b and h/a/c declared the request
   h/a/b descends into the literal branch h/a, finds no b there and reports
   nothing, although h/{x}/b matches it.  (No clash, no "{..}" part.) *)
Theorem C13_most_specific_full_refuted : ~ C13_most_specific_full.
Proof.
  intro H.
  destruct (build backtrack) as [pt|] eqn:HB; [|vm_compute in HB; discriminate].
  assert (Hd : In (mk s_GET u_h_xb 1 1) backtrack) by (left; reflexivity).
  assert (HM : matches_kind (pat (mk s_GET u_h_xb 1 1)) (split_url u_h_ab) = true)
    by (vm_compute; reflexivity).
  destruct (H backtrack pt u_h_ab _ HB Hd HM) as [HV _].
  apply HV. vm_compute in HB. inversion HB; subst pt. vm_compute. reflexivity.
Qed.
Print Assumptions C13_most_specific_full_refuted.

(* It holds outside the three findings: no host/path clash (F-C13e), the
   matching pattern is not shadowed by a literal sibling (F-C13h), no
   request part spelled "{..}" (F-C13i).  The three conditions are decidable
   and are what the monitor's classifiers hostPathClash / unshadowed /
   hasBracePart compute. *)
Theorem C13_most_specific_holds_outside_clash_backtracking_brace :
  forall ds pt url d', build ds = Some pt -> In d' ds ->
    matches_kind (pat d') (split_url url) = true ->
    kind_consistentb ds = true ->
    unshadowedb ds [] (pat d') (split_url url) = true ->
    no_braceb (split_url url) = true ->
    C13_most_specific_statement ds pt url d'.
Proof.
  intros ds pt url d' HB Hd HM HK HU HNB.
  destruct (C13_global_specificity ds pt url HB HK) as (_ & Hb & Hc).
  pose proof (Hc d' Hd HM HU HNB) as HV. split; [exact HV|].
  apply (Hb d' Hd HM HU).
  destruct (l_val (plookup pt url)) as [id|] eqn:E; [|contradiction].
  exact (lookup_val_match _ _ _ E).
Qed.
Print Assumptions C13_most_specific_holds_outside_clash_backtracking_brace.

(* F-C13i: a request part spelled "{..}" is taken for a parameter reference:
   it passes a parameter step without being bound, and where there is no
   parameter step the lookup gives up, also under a declared wildcard.  The
   third side condition is needed, and clause "path parameters = the
   request's parts at the parameter positions" fails for such a request. *)
Definition u_h_p : str := [104; 47; 123; 112; 125].             (* h/{p} *)
Definition u_h_z : str := [104; 47; 123; 122; 125].             (* h/{z} *)

Theorem C13_most_specific_brace_refuted :
  ~ (forall ds pt url d', build ds = Some pt -> In d' ds ->
       matches_kind (pat d') (split_url url) = true ->
       kind_consistentb ds = true ->
       unshadowedb ds [] (pat d') (split_url url) = true ->
       C13_most_specific_statement ds pt url d').
Proof.
  intro H.
  destruct (build [mk s_GET u_h_star 1 1]) as [pt|] eqn:HB; [|vm_compute in HB; discriminate].
  destruct (H [mk s_GET u_h_star 1 1] pt u_h_z _ HB (or_introl eq_refl)) as [HV _];
    try (vm_compute; reflexivity).
  apply HV. vm_compute in HB. inversion HB; subst pt. vm_compute. reflexivity.
Qed.
Print Assumptions C13_most_specific_brace_refuted.

Definition C13_path_params_full : Prop :=
  forall ds pt url id, build ds = Some pt -> kind_consistentb ds = true ->
    l_val (plookup pt url) = Some id ->
    exists d, In d ds /\ dkey d = l_key (plookup pt url) /\
      l_params (plookup pt url) = params_at (pat d) (split_url url) [].

Theorem C13_path_params_full_refuted : ~ C13_path_params_full.
Proof.
  intro H.
  destruct (build [mk s_GET u_h_p 1 1]) as [pt|] eqn:HB; [|vm_compute in HB; discriminate].
  assert (HK : kind_consistentb [mk s_GET u_h_p 1 1] = true) by (vm_compute; reflexivity).
  assert (HV : l_val (plookup pt u_h_z) = Some 0%N).
  { vm_compute in HB. inversion HB; subst pt. vm_compute. reflexivity. }
  destruct (H _ pt u_h_z _ HB HK HV) as (d & Hd & _ & HP).
  destruct Hd as [<-|[]].
  vm_compute in HB. inversion HB; subst pt. vm_compute in HP. discriminate HP.
Qed.
Print Assumptions C13_path_params_full_refuted.

Theorem C13_path_params_holds_outside_brace_part : forall ds pt url id,
  build ds = Some pt -> kind_consistentb ds = true ->
  l_val (plookup pt url) = Some id -> no_braceb (split_url url) = true ->
  exists d, In d ds /\ dkey d = l_key (plookup pt url) /\
    l_params (plookup pt url) = params_at (pat d) (split_url url) [].
Proof.
  intros ds pt url id HB HK HV HNB.
  destruct (C13_most_specific ds pt url HB HK) as (Ha & _).
  destruct (Ha id HV) as (d & H1 & H2 & _ & _ & _ & H6).
  exists d. repeat split; auto. apply H6. apply no_braceb_spec. exact HNB.
Qed.
Print Assumptions C13_path_params_holds_outside_brace_part.

(* ------------------------------------------------------------------ *)
(* Order independence *)

Definition C13_order_statement (ds ds' : list decl) (pt pt' : ptree) : Prop :=
  forall m url,
    l_match (plookup pt url) = l_match (plookup pt' url) /\
    l_key (plookup pt url) = l_key (plookup pt' url) /\
    l_norm (plookup pt url) = l_norm (plookup pt' url) /\
    l_params (plookup pt url) = l_params (plookup pt' url) /\
    Permutation (endpoint_remedies pt m url) (endpoint_remedies pt' m url) /\
    Permutation (endpoint_diagnoses pt m url) (endpoint_diagnoses pt' m url) /\
    (forall gdiag, should_diagnose pt gdiag m url = should_diagnose pt' gdiag m url).

(* every order of the same declarations is accepted or rejected alike and,
   when accepted, selects the same *)
Definition C13_order_independent_full : Prop :=
  forall ds ds', Permutation ds ds' ->
    match build ds, build ds' with
    | Some pt, Some pt' => C13_order_statement ds ds' pt pt'
    | None, None => True
    | _, _ => False
    end.

(* Permuting the declarations changes nothing for any request: same node,
   normalised URL and path parameters, the same remedies and diagnoses (as
   multisets: declarations of one method and URL are merged in declaration
   order) — whenever both orders are accepted by the loader and there is no
   host-label/path-segment clash. *)
Theorem C13_order_independent_holds_outside_clash_and_acceptance :
  forall ds ds' pt pt',
    Permutation ds ds' -> build ds = Some pt -> build ds' = Some pt' ->
    kind_consistentb ds = true ->
    C13_order_statement ds ds' pt pt'.
Proof.
  intros ds ds' pt pt' HP HB HB' HK m url.
  apply kind_consistentb_spec in HK.
  pose proof (build_inv ds pt HB HK) as HI.
  pose proof (build_inv ds' pt' HB' (kind_consistent_perm _ _ HP HK)) as HI'.
  destruct (order_independent_core ds ds' pt pt' m url HI HI' HP)
    as ((H1 & H2 & H3 & H4) & HR & HD).
  repeat split; auto.
  intro gdiag. unfold should_diagnose. rewrite (perm_is_nil _ _ _ HD). reflexivity.
Qed.
Print Assumptions C13_order_independent_holds_outside_clash_and_acceptance.

(* the same statement under the name used in the design *)
Corollary C13_order_independent : forall ds ds' pt pt',
  Permutation ds ds' -> build ds = Some pt -> build ds' = Some pt' ->
  kind_consistentb ds = true ->
  C13_order_statement ds ds' pt pt'.
Proof. exact C13_order_independent_holds_outside_clash_and_acceptance. Qed.
Print Assumptions C13_order_independent.

(* with at most one declaration per method and URL the selected lists are
   equal, not only permutations *)
Theorem C13_order_independent_exact : forall ds ds' pt pt' m url,
  Permutation ds ds' -> build ds = Some pt -> build ds' = Some pt' ->
  kind_consistentb ds = true -> distinct_endpointsb ds = true ->
  endpoint_remedies pt m url = endpoint_remedies pt' m url /\
  endpoint_diagnoses pt m url = endpoint_diagnoses pt' m url.
Proof.
  intros ds ds' pt pt' m url HP HB HB' HK HD.
  apply kind_consistentb_spec in HK.
  pose proof (build_inv ds pt HB HK) as HI.
  pose proof (build_inv ds' pt' HB' (kind_consistent_perm _ _ HP HK)) as HI'.
  exact (order_independent_exact ds ds' pt pt' m url HI HI' HP HD).
Qed.
Print Assumptions C13_order_independent_exact.

(* "h/*" and "h/a", both GET with a remedy of the same type *)
Definition overlap : list decl := [mk s_GET u_h_star 1 1; mk s_GET u_h_a 2 1].

(* F-C13f: checkForDuplicates rejects [h/*; h/a] (the second URL looks up the
   wildcard's remedies) but accepts [h/a; h/*]; F-C13e: see [clash] *)
Theorem C13_order_independent_full_refuted : ~ C13_order_independent_full.
Proof.
  intro H. specialize (H overlap (rev overlap)).
  assert (HP : Permutation overlap (rev overlap)) by apply Permutation_rev.
  specialize (H HP). vm_compute in H. exact H.
Qed.
Print Assumptions C13_order_independent_full_refuted.

(* accepted in both orders, yet different: the host/path clash *)
Theorem C13_order_independent_clash_refuted :
  ~ (forall ds ds' pt pt', Permutation ds ds' ->
       build ds = Some pt -> build ds' = Some pt' ->
       C13_order_statement ds ds' pt pt').
Proof.
  intro H.
  destruct (build clash) as [pt|] eqn:HB; [|vm_compute in HB; discriminate].
  destruct (build (rev clash)) as [pt'|] eqn:HB'; [|vm_compute in HB'; discriminate].
  destruct (H clash (rev clash) pt pt' (Permutation_rev clash) HB HB' s_GET u_a_dot_b)
    as (HM & _).
  vm_compute in HB. inversion HB; subst pt.
  vm_compute in HB'. inversion HB'; subst pt'.
  vm_compute in HM. discriminate HM.
Qed.
Print Assumptions C13_order_independent_clash_refuted.

(* F-C13j: two declarations of ONE method and URL are merged in declaration
   order, and the dispatcher applies the selected remedies in list order
   (runOnRequest: each remedy sees the request as updated by the previous
   ones, header edits are last-writer-wins, C07): the SEQUENCE of the selected
   remedies depends on the declaration order.  [C13_order_independent] states
   the multiset, [C13_order_independent_exact] the sequence under
   [distinct_endpointsb] (= the monitor's classifier duplicateEndpoint). *)
Definition dup : list decl := [mk s_POST u_h_a 2 2; mk s_POST u_h_a 4 4].

Theorem C13_order_independent_sequence_refuted :
  ~ (forall ds ds' pt pt' m url, Permutation ds ds' ->
       build ds = Some pt -> build ds' = Some pt' -> kind_consistentb ds = true ->
       endpoint_remedies pt m url = endpoint_remedies pt' m url).
Proof.
  intro H.
  destruct (build dup) as [pt|] eqn:HB; [|vm_compute in HB; discriminate].
  destruct (build (rev dup)) as [pt'|] eqn:HB'; [|vm_compute in HB'; discriminate].
  assert (HK : kind_consistentb dup = true) by (vm_compute; reflexivity).
  pose proof (H dup (rev dup) pt pt' s_POST u_h_a (Permutation_rev dup) HB HB' HK) as E.
  vm_compute in HB. inversion HB; subst pt.
  vm_compute in HB'. inversion HB'; subst pt'.
  vm_compute in E. discriminate E.
Qed.
Print Assumptions C13_order_independent_sequence_refuted.

(* ------------------------------------------------------------------ *)
(* Non-vacuity: overlapping literal / parameter / wildcard declarations of
   two methods, accepted, consistent; the F-C13 scenario no longer leaks *)
Definition u_h_p_b : str := [104; 47; 123; 112; 125; 47; 98].   (* h/{p}/b *)
Definition u_h_x_b : str := [104; 47; 120; 47; 98].             (* h/x/b *)
Definition u_h_a_b : str := [104; 47; 97; 47; 98].              (* h/a/b *)
Definition sample : list decl :=
  [mk s_GET u_h_star 1 1; mk s_POST u_h_a 2 2; mk s_GET u_h_p_b 3 3;
   mk s_POST u_h_a 4 4].

Example C13_sample_selection :
  kind_consistentb sample = true /\
  match build sample, build (rev sample) with
  | Some pt, Some pt' =>
      map r_name (endpoint_remedies pt s_POST u_h_b) = [] /\      (* not r2 *)
      map r_name (endpoint_remedies pt s_GET u_h_b) = [1] /\
      map r_name (endpoint_remedies pt s_POST u_h_a) = [2; 4] /\  (* merged *)
      map r_name (endpoint_remedies pt' s_POST u_h_a) = [4; 2] /\
      map r_name (endpoint_remedies pt s_GET u_h_x_b) = [3] /\
      l_norm (plookup pt u_h_x_b) = u_h_p_b /\
      l_params (plookup pt u_h_x_b) = [([112], [120])] /\
      (* no backtracking: h/a/b walks into h/a, then falls back to h/* *)
      l_norm (plookup pt u_h_a_b) = u_h_star
  | _, _ => False
  end.
Proof. vm_compute. repeat split; reflexivity. Qed.

(* nested wildcards and an exact pattern at the inner wildcard's parent: the
   hypotheses of [C13_global_specificity] are met, the deeper wildcard wins
   over the outer one — also for the request that is exactly its parent
   (where it stands for nothing) — and the exact pattern over both *)
Definition u_h_a_star : str := [104; 47; 97; 47; 42].           (* h/a/* *)
Definition nested : list decl := [mk s_GET u_h_star 1 1; mk s_GET u_h_a_star 2 2].
Definition nested_exact : list decl := nested ++ [mk s_GET u_h_a 3 3].

Example C13_sample_specificity :
  kind_consistentb nested_exact = true /\
  no_braceb (split_url u_h_a_b) = true /\
  forallb (fun d => matches_kind (pat d) (split_url u_h_a) &&
                    unshadowedb nested_exact [] (pat d) (split_url u_h_a)) nested_exact = true /\
  match build nested, build (rev nested), build nested_exact with
  | Some pt, Some pt', Some pte =>
      l_norm (plookup pt u_h_a_b) = u_h_a_star /\
      l_norm (plookup pt u_h_a) = u_h_a_star /\
      l_norm (plookup pt' u_h_a) = u_h_a_star /\
      l_norm (plookup pt u_h_b) = u_h_star /\
      l_norm (plookup pt [104]) = u_h_star /\
      l_norm (plookup pte u_h_a) = u_h_a /\
      l_norm (plookup pte u_h_a_b) = u_h_a_star /\
      spec_leb (steps_of (pat (mk s_GET u_h_star 1 1)))
               (steps_of (pat (mk s_GET u_h_a_star 2 2))) = true /\
      spec_leb (steps_of (pat (mk s_GET u_h_a_star 2 2)))
               (steps_of (pat (mk s_GET u_h_a 3 3))) = true /\
      spec_leb (steps_of (pat (mk s_GET u_h_a_star 2 2)))
               (steps_of (pat (mk s_GET u_h_star 1 1))) = false
  | _, _, _ => False
  end.
Proof. vm_compute. repeat split; reflexivity. Qed.

(* ------------------------------------------------------------------ *)
(* Big configurations: any number of siblings below one node *)

(* [build_a a] (Large.v): BuildEndpointPolicyTree on a trie with the variant
   switch [a]: None = the code (no assumed path parameters: [build_a None] =
   [build]), Some thr = assumed path parameters switched on with split
   threshold thr (literal path siblings beyond thr are merged into one
   "{_param_N}" node).  [literalb p] = every step of p is a literal.
   The statement, for every declaration list (of any length), every order:
   (i)   soundness as in C13_sound;
   (ii)  a request spelled as a literally declared URL selects that URL's own
         node, and that node carries a value;
   (iii) the remedies / diagnoses it is given are declared for its method on
         that very URL (the same parts) or on a parameter / wildcard pattern —
         never on another literal URL, whatever the number of siblings. *)
Definition C13_large_statement (a : option nat) : Prop :=
  forall ds pt, build_a a ds = Some pt -> kind_consistentb ds = true ->
    (forall m url,
       (forall r, In r (endpoint_remedies pt m url) ->
          exists d, In d ds /\ d_method d = m /\ In r (d_rem d) /\
                    r_enabled r = true /\ matches_kind (pat d) (split_url url) = true) /\
       (forall g, In g (endpoint_diagnoses pt m url) ->
          exists d, In d ds /\ d_method d = m /\ In g (d_diag d) /\
                    g_enabled g = true /\ matches_kind (pat d) (split_url url) = true)) /\
    (forall d, In d ds -> literalb (pat d) = true ->
       l_key (plookup pt (d_url d)) = dkey d /\ l_val (plookup pt (d_url d)) <> None) /\
    (forall d m, In d ds -> literalb (pat d) = true ->
       (forall r, In r (endpoint_remedies pt m (d_url d)) ->
          exists d', In d' ds /\ d_method d' = m /\ In r (d_rem d') /\
            (literalb (pat d') = true -> split_url (d_url d') = split_url (d_url d))) /\
       (forall g, In g (endpoint_diagnoses pt m (d_url d)) ->
          exists d', In d' ds /\ d_method d' = m /\ In g (d_diag d') /\
            (literalb (pat d') = true -> split_url (d_url d') = split_url (d_url d)))).

(* the policy tree as coded: no bound on the number of declarations or of
   siblings appears anywhere *)
Theorem C13_large_configurations : C13_large_statement None.
Proof.
  intros ds pt HB HK. rewrite build_a_none in HB.
  pose proof (C13_sound ds HK) as HS.
  split; [|split].
  - intros m url. exact (HS pt m url HB).
  - intros d Hd HL.
    destruct (C13_most_specific ds pt (d_url d) HB HK) as (_ & _ & Hc).
    apply (Hc d Hd).
    + apply literal_wild_free. exact HL.
    + apply literal_matches_self. exact HL.
    + apply literal_unshadowed. exact HL.
  - intros d m Hd HL. destruct (HS pt m (d_url d) HB) as [HR HD].
    split; intros x Hx.
    + destruct (HR x Hx) as (d' & H1 & H2 & H3 & _ & H5).
      exists d'. repeat split; auto. intro HL'.
      exact (literal_same_parts (split_url (d_url d')) (split_url (d_url d)) HL' H5).
    + destruct (HD x Hx) as (d' & H1 & H2 & H3 & _ & H5).
      exists d'. repeat split; auto. intro HL'.
      exact (literal_same_parts (split_url (d_url d')) (split_url (d_url d)) HL' H5).
Qed.
Print Assumptions C13_large_configurations.

(* 51 literal siblings h/r00 .. h/r50, sibling i with remedy i+1 *)
Definition u_sib (i : nat) : str :=
  [104; 47; 114; 48 + Z.of_nat (i / 10); 48 + Z.of_nat (i mod 10)].
Definition sib (i : nat) : decl := mk s_GET (u_sib i) (Z.of_nat i + 1) 0.
Definition siblings (n : nat) : list decl := map sib (seq 0 n).
Definition u_h_undeclared : str := [104; 47; 122; 122].          (* h/zz *)

(* the hypotheses are satisfiable on a big configuration, and the conclusion
   is what one expects: with 120 siblings the 8th, the 51st and the last are
   served their own remedy, an undeclared sibling none *)
Example C13_sample_large :
  match build (siblings 120) with
  | Some pt =>
      kind_consistentb (siblings 120) = true /\
      forallb (fun d => literalb (pat d)) (siblings 120) = true /\
      map r_name (endpoint_remedies pt s_GET (u_sib 7)) = [8] /\
      map r_name (endpoint_remedies pt s_GET (u_sib 50)) = [51] /\
      map r_name (endpoint_remedies pt s_GET (u_sib 119)) = [120] /\
      endpoint_remedies pt s_POST (u_sib 7) = [] /\
      endpoint_remedies pt s_GET u_h_undeclared = [] /\
      l_norm (plookup pt (u_sib 50)) = u_sib 50
  | None => False
  end.
Proof. vm_compute. repeat split; reflexivity. Qed.

(* variant "assumed path parameters on, threshold 50" (seeded change C13-9):
   declaring the 51st sibling merges the 50 earlier ones into "{_param_1}";
   the request h/r07 no longer selects its own node *)
Theorem C13_large_assumed_params_refuted : ~ C13_large_statement (Some 50%nat).
Proof.
  intro H.
  destruct (build_a (Some 50%nat) (siblings 51)) as [pt|] eqn:HB;
    [|vm_compute in HB; discriminate].
  assert (HK : kind_consistentb (siblings 51) = true) by (vm_compute; reflexivity).
  destruct (H (siblings 51) pt HB HK) as (_ & Hown & _).
  assert (Hin : In (sib 7) (siblings 51)).
  { unfold siblings. apply in_map. apply in_seq. lia. }
  assert (HL : literalb (pat (sib 7)) = true) by (vm_compute; reflexivity).
  destruct (Hown (sib 7) Hin HL) as [Hk _].
  vm_compute in HB. inversion HB; subst pt. vm_compute in Hk. discriminate Hk.
Qed.
Print Assumptions C13_large_assumed_params_refuted.

(* what the variant does on that witness: h/r07 and the undeclared h/zz are
   served the remedy of the sibling declared 51st, under a normalised URL that
   no endpoint declares; with 50 siblings it behaves as the code *)
Example C13_large_assumed_params_leak :
  match build_a (Some 50%nat) (siblings 51), build_a (Some 50%nat) (siblings 50) with
  | Some pt, Some pt50 =>
      map r_name (endpoint_remedies pt s_GET (u_sib 7)) = [51] /\
      map r_name (endpoint_remedies pt s_GET u_h_undeclared) = [51] /\
      l_norm (plookup pt (u_sib 7)) = [104; 47; 123; 95; 112; 97; 114; 97; 109; 95; 49; 125] /\
      build (siblings 50) = Some pt50
  | _, _ => False
  end.
Proof. vm_compute. repeat split; reflexivity. Qed.

(* ------------------------------------------------------------------ *)
(* URLs that embed an absolute URL / a scheme separator after the host *)

(* [url_s s] / [build_s s] / [plookup_s s] / [endpoint_remedies_s s]
   (Scheme.v): the tree and the selection with the variant switch [s] of
   trimURL: false = the code (no scheme handling: the host is what precedes
   the first slash), true = the URL is cut behind the first scheme separator
   found anywhere in it.  The statement, for every declaration list, every
   order, every method and EVERY request URL — in particular one whose path
   embeds another absolute URL: what is selected, and the normalised URL and
   path parameters that are reported, belong to a declaration whose pattern
   matches the request URL AS WRITTEN (host = what precedes its first slash). *)
Definition C13_embedded_statement (s : bool) : Prop :=
  forall ds pt m url, build_s s ds = Some pt -> kind_consistentb ds = true ->
    (forall r, In r (endpoint_remedies_s s pt m url) ->
       exists d, In d ds /\ d_method d = m /\ In r (d_rem d) /\
                 r_enabled r = true /\ matches_kind (pat d) (split_url url) = true) /\
    (forall g, In g (endpoint_diagnoses_s s pt m url) ->
       exists d, In d ds /\ d_method d = m /\ In g (d_diag d) /\
                 g_enabled g = true /\ matches_kind (pat d) (split_url url) = true) /\
    (forall id, l_val (plookup_s s pt url) = Some id ->
       exists d, In d ds /\ matches_kind (pat d) (split_url url) = true /\
                 l_norm (plookup_s s pt url) = render_pattern (pat d) /\
                 l_params (plookup_s s pt url) = params_at_nb (pat d) (split_url url) []).

Theorem C13_embedded_urls : C13_embedded_statement false.
Proof.
  intros ds pt m url HB HK. rewrite build_s_false in HB.
  destruct (C13_sound ds HK pt m url HB) as [HR HD].
  split; [exact HR|]. split; [exact HD|].
  intros id HV.
  destruct (C13_most_specific ds pt url HB HK) as (Ha & _).
  destruct (Ha id HV) as (d & H1 & _ & H3 & H4 & H5 & _).
  exists d. repeat split; assumption.
Qed.
Print Assumptions C13_embedded_urls.

(* the host decides: a selected plugin was declared on a pattern whose first
   step, when it is a literal, is the first host label of the request as
   written — whatever the request's path embeds *)
Theorem C13_policy_host_is_request_host : forall ds pt m url,
  build ds = Some pt -> kind_consistentb ds = true ->
  (forall r, In r (endpoint_remedies pt m url) ->
     exists d, In d ds /\ d_method d = m /\ In r (d_rem d) /\
       forall k l p', pat d = (k, PConst l) :: p' ->
         exists rest, split_url url = (k, l) :: rest) /\
  (forall g, In g (endpoint_diagnoses pt m url) ->
     exists d, In d ds /\ d_method d = m /\ In g (d_diag d) /\
       forall k l p', pat d = (k, PConst l) :: p' ->
         exists rest, split_url url = (k, l) :: rest).
Proof.
  intros ds pt m url HB HK. destruct (C13_sound ds HK pt m url HB) as [HR HD].
  split; intros x Hx.
  - destruct (HR x Hx) as (d & H1 & H2 & H3 & _ & H5).
    exists d. repeat split; auto. intros k l p' E. rewrite E in H5.
    exact (matches_kind_first_literal k l p' _ H5).
  - destruct (HD x Hx) as (d & H1 & H2 & H3 & _ & H5).
    exists d. repeat split; auto. intros k l p' E. rewrite E in H5.
    exact (matches_kind_first_literal k l p' _ H5).
Qed.
Print Assumptions C13_policy_host_is_request_host.

Definition u_archive_star : str :=      (* archive.org / wildcard *)
  [97; 114; 99; 104; 105; 118; 101; 46; 111; 114; 103; 47; 42].
Definition u_bank_admin : str :=        (* bank.com/admin *)
  [98; 97; 110; 107; 46; 99; 111; 109; 47; 97; 100; 109; 105; 110].
Definition u_bank_p : str :=            (* bank.com/{p} *)
  [98; 97; 110; 107; 46; 99; 111; 109; 47; 123; 112; 125].
Definition u_embedded : str :=          (* archive.org/web/http://bank.com/admin *)
  [97; 114; 99; 104; 105; 118; 101; 46; 111; 114; 103; 47; 119; 101; 98; 47;
   104; 116; 116; 112; 58; 47; 47; 98; 97; 110; 107; 46; 99; 111; 109; 47;
   97; 100; 109; 105; 110].
Definition u_embedded_seg : str :=      (* archive.org/web/://bank.com/admin *)
  [97; 114; 99; 104; 105; 118; 101; 46; 111; 114; 103; 47; 119; 101; 98; 47;
   58; 47; 47; 98; 97; 110; 107; 46; 99; 111; 109; 47; 97; 100; 109; 105; 110].
Definition u_scheme_bank : str :=       (* http://bank.com/admin *)
  [104; 116; 116; 112; 58; 47; 47; 98; 97; 110; 107; 46; 99; 111; 109; 47;
   97; 100; 109; 105; 110].
Definition archive_bank : list decl :=
  [mk s_GET u_archive_star 1 1; mk s_GET u_bank_admin 2 2].
Definition archive_bankp : list decl :=
  [mk s_GET u_bank_p 2 2; mk s_GET u_archive_star 1 1].

(* the hypotheses are satisfiable and the conclusion is what one expects: in
   both declaration orders the request embedding the bank URL is served the
   archive policy under the normalised URL of the archive wildcard, the bank
   URL itself the bank policy; a URL with a LEADING scheme is, today, refused
   as a declaration and matches no bank declaration as a request *)
Example C13_sample_embedded :
  kind_consistentb archive_bank = true /\
  match build archive_bank, build (rev archive_bank), build archive_bankp with
  | Some pt, Some pt', Some ptp =>
      map r_name (endpoint_remedies pt s_GET u_embedded) = [1] /\
      map r_name (endpoint_remedies pt' s_GET u_embedded) = [1] /\
      map r_name (endpoint_remedies pt s_GET u_embedded_seg) = [1] /\
      l_norm (plookup pt u_embedded) = u_archive_star /\
      l_norm (plookup pt' u_embedded) = u_archive_star /\
      map r_name (endpoint_remedies pt s_GET u_bank_admin) = [2] /\
      endpoint_remedies pt s_POST u_embedded = [] /\
      endpoint_remedies pt s_GET u_scheme_bank = [] /\
      map r_name (endpoint_remedies ptp s_GET u_embedded) = [1] /\
      l_params (plookup ptp u_embedded) = [] /\
      build [mk s_GET u_scheme_bank 3 3] = None /\
      build [mk s_GET u_embedded 3 3] = None
  | _, _, _ => False
  end.
Proof. vm_compute. repeat split; reflexivity. Qed.

(* variant "trimURL cuts behind the first scheme separator anywhere" (seeded
   change C13-11): the remedy declared for GET bank.com/admin is selected for
   GET archive.org/web/http://bank.com/admin, a request to another host *)
Theorem C13_embedded_scheme_cut_refuted : ~ C13_embedded_statement true.
Proof.
  intro H.
  destruct (build_s true archive_bank) as [pt|] eqn:HB;
    [|vm_compute in HB; discriminate].
  assert (HK : kind_consistentb archive_bank = true) by (vm_compute; reflexivity).
  destruct (H archive_bank pt s_GET u_embedded HB HK) as (Hr & _ & _).
  assert (Hin : In {| r_name := 2; r_type := 2; r_enabled := true |}
                   (endpoint_remedies_s true pt s_GET u_embedded)).
  { vm_compute in HB. inversion HB; subst pt. vm_compute. left. reflexivity. }
  destruct (Hr _ Hin) as (d & Hd & _ & Hrem & _ & Hm).
  destruct Hd as [<-|[<-|[]]].
  - vm_compute in Hrem. destruct Hrem as [E|[]]. discriminate E.
  - vm_compute in Hm. discriminate Hm.
Qed.
Print Assumptions C13_embedded_scheme_cut_refuted.

(* what the variant does on that witness, in both declaration orders: the
   bank policy, the normalised URL of the bank endpoint and — with a
   parameter — the embedded URL's segment instead of the request's; the
   archive policy that does match is not applied; URLs without a scheme
   separator are treated as by the code *)
Example C13_embedded_scheme_cut_leak :
  match build_s true archive_bank, build_s true (rev archive_bank),
        build_s true archive_bankp, build archive_bank with
  | Some pt, Some pt', Some ptp, Some pt0 =>
      map r_name (endpoint_remedies_s true pt s_GET u_embedded) = [2] /\
      map r_name (endpoint_remedies_s true pt' s_GET u_embedded) = [2] /\
      map r_name (endpoint_remedies_s true pt s_GET u_embedded_seg) = [2] /\
      l_norm (plookup_s true pt u_embedded) = u_bank_admin /\
      l_norm (plookup_s true ptp u_embedded) = u_bank_p /\
      l_params (plookup_s true ptp u_embedded) = [([112], [97; 100; 109; 105; 110])] /\
      pt = pt0 /\
      map r_name (endpoint_remedies_s true pt s_GET u_bank_admin) = [2]
  | _, _, _, _ => False
  end.
Proof. vm_compute. repeat split; reflexivity. Qed.
