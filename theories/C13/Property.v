From Coq Require Import List ZArith Bool.
From Verif Require Import Lib.UrlTree C13.Model C13.Proofs.
