(* C13 — Endpoint policies apply only to requests matching their declared
   endpoint.  Final statements only; proofs are in Proofs.v and
   Lib/UrlTreeProofs.v.  The model is the code after the repairs
   patches/C13/fix-F-C13{,b,c,d}.patch.

   Vocabulary: [build ds] = BuildEndpointPolicyTree (None = the loader rejects
   the declarations); [endpoint_remedies pt m url] / [endpoint_diagnoses] = the
   endpoint-scoped plugins the dispatcher selects for a request; [plookup] =
   EndpointPolicyTree.Lookup; [pat d] = the declared pattern of [d];
   [matches] = the specification matcher of Lib/UrlTree, written from the
   property text; [kind_consistentb ds] = no two declarations reach the same
   trie node once as a host label and once as a path segment (known finding
   F-C13e, e.g. "a.b" next to "a/b").

   Completeness is deliberately NOT claimed: the lookup does not backtrack
   (with h/{x}/b and h/a/c declared, h/a/b selects nothing).  What is claimed
   in that direction is [C13_most_specific] (c): a wildcard-free pattern that
   no literal sibling shadows is selected. *)
From Coq Require Import List ZArith NArith Bool Permutation.
From Verif Require Import Lib.UrlTree Lib.UrlTreeProofs C13.Model C13.Proofs.
Import ListNotations.
Open Scope Z_scope.

(* ------------------------------------------------------------------ *)
(* Soundness *)

Definition C13_sound_statement (ds : list decl) : Prop :=
  forall pt m url, build ds = Some pt ->
    (forall r, In r (endpoint_remedies pt m url) ->
       exists d, In d ds /\ d_method d = m /\ In r (d_rem d) /\
                 r_enabled r = true /\ matches (pat d) (split_url url) = true) /\
    (forall g, In g (endpoint_diagnoses pt m url) ->
       exists d, In d ds /\ d_method d = m /\ In g (d_diag d) /\
                 g_enabled g = true /\ matches (pat d) (split_url url) = true).

(* for all declaration lists, methods and URLs *)
Definition C13_sound_full : Prop := forall ds, C13_sound_statement ds.

(* A remedy / diagnosis selected for (m, url) was declared, enabled, for
   method m on a pattern that matches url — for every list of declarations
   without a host-label/path-segment clash, every order, every request. *)
Theorem C13_sound_holds_outside_hostpath_clash : forall ds,
  kind_consistentb ds = true -> C13_sound_statement ds.
Proof.
  intros ds HK pt m url HB.
  apply kind_consistentb_spec in HK. pose proof (build_inv ds pt HB HK) as HI.
  split; intros x Hx.
  - exact (sound_remedies ds pt m url x HI Hx).
  - exact (sound_diagnoses ds pt m url x HI Hx).
Qed.
Print Assumptions C13_sound_holds_outside_hostpath_clash.

(* the same statement under the name used in the design *)
Corollary C13_sound : forall ds,
  kind_consistentb ds = true -> C13_sound_statement ds.
Proof. exact C13_sound_holds_outside_hostpath_clash. Qed.
Print Assumptions C13_sound.

(* the dispatcher adds exactly the enabled global plugins to them *)
Theorem C13_dispatch : forall pt grem m url s n,
  In (s, n) (get_remedies pt grem m url) ->
  (s = true /\ exists r, In r (endpoint_remedies pt m url) /\ r_name r = n) \/
  (s = false /\ exists r, In r grem /\ r_enabled r = true /\ r_name r = n).
Proof.
  intros pt grem m url s n H. unfold get_remedies in H.
  apply in_app_or in H. destruct H as [H|H]; apply in_map_iff in H;
    destruct H as (r & E & Hr); inversion E; subst.
  - left. eauto.
  - right. apply filter_In in Hr. destruct Hr. eauto.
Qed.
Print Assumptions C13_dispatch.

Definition s_GET : str := [71; 69; 84].
Definition s_POST : str := [80; 79; 83; 84].
Definition mk (m u : str) (name ty : Z) : decl :=
  {| d_method := m; d_url := u;
     d_rem := [{| r_name := name; r_type := ty; r_enabled := true |}];
     d_diag := [{| g_name := name; g_enabled := true |}] |}.
(* "a.b" and "a/b" *)
Definition u_a_dot_b : str := [97; 46; 98].
Definition u_a_slash_b : str := [97; 47; 98].
Definition clash : list decl := [mk s_GET u_a_dot_b 1 1; mk s_GET u_a_slash_b 2 2].

(* F-C13e: with "a.b" declared before "a/b" the request GET a.b is given the
   remedy declared for a/b *)
Theorem C13_sound_full_refuted : ~ C13_sound_full.
Proof.
  intro H.
  destruct (build clash) as [pt|] eqn:HB; [|vm_compute in HB; discriminate].
  destruct (H clash pt s_GET u_a_dot_b HB) as [Hr _].
  assert (Hin : In {| r_name := 2; r_type := 2; r_enabled := true |}
                   (endpoint_remedies pt s_GET u_a_dot_b)).
  { vm_compute in HB. inversion HB; subst pt. vm_compute. right. left. reflexivity. }
  destruct (Hr _ Hin) as (d & Hd & _ & Hrem & _ & Hm).
  destruct Hd as [<-|[<-|[]]].
  - vm_compute in Hrem. destruct Hrem as [E|[]]. discriminate E.
  - vm_compute in Hm. discriminate Hm.
Qed.
Print Assumptions C13_sound_full_refuted.

(* ------------------------------------------------------------------ *)
(* Most specific pattern, normalised URL, path parameters *)

Theorem C13_most_specific : forall ds pt url,
  build ds = Some pt -> kind_consistentb ds = true ->
  let r := plookup pt url in
  (* (a) a value is reported only for the node of a declared pattern that
         matches the request; the normalised URL is that pattern in canonical
         spelling; the path parameters are the request's parts at its
         parameter positions (requests without {..}-shaped parts) *)
  (forall id, l_val r = Some id ->
     exists d, In d ds /\ dkey d = l_key r /\
       matches (pat d) (split_url url) = true /\
       l_norm r = render_pattern (pat d) /\
       (Forall (fun u => is_brace (snd u) = false) (split_url url) ->
        l_params r = params_at (pat d) (split_url url) [])) /\
  (* (b) literal over parameter: where the selected node's path has a
         parameter step below node X', no declared pattern with the same
         earlier steps continues with the literal request part of that kind *)
  (l_match r = true ->
   forall A X' k u, l_key r = A ++ KParam :: X' ->
     nth_error (split_url url) (length X') = Some (k, u) ->
     forall d' ps, In d' ds -> step_at [] (pat d') (KConst u :: X') <> Some (k, ps)) /\
  (* (c) exact over wildcard: a wildcard-free declared pattern that matches
         and is not shadowed by a literal sibling is the one selected *)
  (forall d, In d ds -> wild_freeb (pat d) = true ->
     matches (pat d) (split_url url) = true ->
     unshadowedb ds [] (pat d) (split_url url) = true ->
     l_key r = dkey d /\ l_val r <> None).
Proof.
  intros ds pt url HB HK r.
  apply kind_consistentb_spec in HK. pose proof (build_inv ds pt HB HK) as HI.
  split; [|split].
  - intros id HV. exact (selected_declared ds pt url id HI HV).
  - intros HM A X' k u HKey Hn d' ps Hd'.
    exact (literal_over_parameter ds pt url A X' k u HI HM HKey Hn d' ps Hd').
  - intros d Hd HW HMt HU. exact (exact_wins_val ds pt url d HI Hd HW HMt HU).
Qed.
Print Assumptions C13_most_specific.

(* ------------------------------------------------------------------ *)
(* Order independence *)

Definition C13_order_statement (ds ds' : list decl) (pt pt' : ptree) : Prop :=
  forall m url,
    l_match (plookup pt url) = l_match (plookup pt' url) /\
    l_key (plookup pt url) = l_key (plookup pt' url) /\
    l_norm (plookup pt url) = l_norm (plookup pt' url) /\
    l_params (plookup pt url) = l_params (plookup pt' url) /\
    Permutation (endpoint_remedies pt m url) (endpoint_remedies pt' m url) /\
    Permutation (endpoint_diagnoses pt m url) (endpoint_diagnoses pt' m url) /\
    (forall gdiag, should_diagnose pt gdiag m url = should_diagnose pt' gdiag m url).

(* every order of the same declarations is accepted or rejected alike and,
   when accepted, selects the same *)
Definition C13_order_independent_full : Prop :=
  forall ds ds', Permutation ds ds' ->
    match build ds, build ds' with
    | Some pt, Some pt' => C13_order_statement ds ds' pt pt'
    | None, None => True
    | _, _ => False
    end.

(* Permuting the declarations changes nothing for any request: same node,
   normalised URL and path parameters, the same remedies and diagnoses (as
   multisets: declarations of one method and URL are merged in declaration
   order) — whenever both orders are accepted by the loader and there is no
   host-label/path-segment clash. *)
Theorem C13_order_independent_holds_outside_clash_and_acceptance :
  forall ds ds' pt pt',
    Permutation ds ds' -> build ds = Some pt -> build ds' = Some pt' ->
    kind_consistentb ds = true ->
    C13_order_statement ds ds' pt pt'.
Proof.
  intros ds ds' pt pt' HP HB HB' HK m url.
  apply kind_consistentb_spec in HK.
  pose proof (build_inv ds pt HB HK) as HI.
  pose proof (build_inv ds' pt' HB' (kind_consistent_perm _ _ HP HK)) as HI'.
  destruct (order_independent_core ds ds' pt pt' m url HI HI' HP)
    as ((H1 & H2 & H3 & H4) & HR & HD).
  repeat split; auto.
  intro gdiag. unfold should_diagnose. rewrite (perm_is_nil _ _ _ HD). reflexivity.
Qed.
Print Assumptions C13_order_independent_holds_outside_clash_and_acceptance.

(* the same statement under the name used in the design *)
Corollary C13_order_independent : forall ds ds' pt pt',
  Permutation ds ds' -> build ds = Some pt -> build ds' = Some pt' ->
  kind_consistentb ds = true ->
  C13_order_statement ds ds' pt pt'.
Proof. exact C13_order_independent_holds_outside_clash_and_acceptance. Qed.
Print Assumptions C13_order_independent.

(* with at most one declaration per method and URL the selected lists are
   equal, not only permutations *)
Theorem C13_order_independent_exact : forall ds ds' pt pt' m url,
  Permutation ds ds' -> build ds = Some pt -> build ds' = Some pt' ->
  kind_consistentb ds = true -> distinct_endpointsb ds = true ->
  endpoint_remedies pt m url = endpoint_remedies pt' m url /\
  endpoint_diagnoses pt m url = endpoint_diagnoses pt' m url.
Proof.
  intros ds ds' pt pt' m url HP HB HB' HK HD.
  apply kind_consistentb_spec in HK.
  pose proof (build_inv ds pt HB HK) as HI.
  pose proof (build_inv ds' pt' HB' (kind_consistent_perm _ _ HP HK)) as HI'.
  exact (order_independent_exact ds ds' pt pt' m url HI HI' HP HD).
Qed.
Print Assumptions C13_order_independent_exact.

(* "h/*" and "h/a", both GET with a remedy of the same type *)
Definition u_h_star : str := [104; 47; 42].
Definition u_h_a : str := [104; 47; 97].
Definition u_h_b : str := [104; 47; 98].
Definition overlap : list decl := [mk s_GET u_h_star 1 1; mk s_GET u_h_a 2 1].

(* F-C13f: checkForDuplicates rejects [h/*; h/a] (the second URL looks up the
   wildcard's remedies) but accepts [h/a; h/*]; F-C13e: see [clash] *)
Theorem C13_order_independent_full_refuted : ~ C13_order_independent_full.
Proof.
  intro H. specialize (H overlap (rev overlap)).
  assert (HP : Permutation overlap (rev overlap)) by apply Permutation_rev.
  specialize (H HP). vm_compute in H. exact H.
Qed.
Print Assumptions C13_order_independent_full_refuted.

(* accepted in both orders, yet different: the host/path clash *)
Theorem C13_order_independent_clash_refuted :
  ~ (forall ds ds' pt pt', Permutation ds ds' ->
       build ds = Some pt -> build ds' = Some pt' ->
       C13_order_statement ds ds' pt pt').
Proof.
  intro H.
  destruct (build clash) as [pt|] eqn:HB; [|vm_compute in HB; discriminate].
  destruct (build (rev clash)) as [pt'|] eqn:HB'; [|vm_compute in HB'; discriminate].
  destruct (H clash (rev clash) pt pt' (Permutation_rev clash) HB HB' s_GET u_a_dot_b)
    as (HM & _).
  vm_compute in HB. inversion HB; subst pt.
  vm_compute in HB'. inversion HB'; subst pt'.
  vm_compute in HM. discriminate HM.
Qed.
Print Assumptions C13_order_independent_clash_refuted.

(* ------------------------------------------------------------------ *)
(* Non-vacuity: overlapping literal / parameter / wildcard declarations of
   two methods, accepted, consistent; the F-C13 scenario no longer leaks *)
Definition u_h_p_b : str := [104; 47; 123; 112; 125; 47; 98].   (* h/{p}/b *)
Definition u_h_x_b : str := [104; 47; 120; 47; 98].             (* h/x/b *)
Definition u_h_a_b : str := [104; 47; 97; 47; 98].              (* h/a/b *)
Definition sample : list decl :=
  [mk s_GET u_h_star 1 1; mk s_POST u_h_a 2 2; mk s_GET u_h_p_b 3 3;
   mk s_POST u_h_a 4 4].

Example C13_sample_selection :
  kind_consistentb sample = true /\
  match build sample, build (rev sample) with
  | Some pt, Some pt' =>
      map r_name (endpoint_remedies pt s_POST u_h_b) = [] /\      (* not r2 *)
      map r_name (endpoint_remedies pt s_GET u_h_b) = [1] /\
      map r_name (endpoint_remedies pt s_POST u_h_a) = [2; 4] /\  (* merged *)
      map r_name (endpoint_remedies pt' s_POST u_h_a) = [4; 2] /\
      map r_name (endpoint_remedies pt s_GET u_h_x_b) = [3] /\
      l_norm (plookup pt u_h_x_b) = u_h_p_b /\
      l_params (plookup pt u_h_x_b) = [([112], [120])] /\
      (* no backtracking: h/a/b walks into h/a, then falls back to h/* *)
      l_norm (plookup pt u_h_a_b) = u_h_star
  | _, _ => False
  end.
Proof. vm_compute. repeat split; reflexivity. Qed.
