(* C04 / end-to-end composition — vocabulary of the final statements
   (definitions only). *)
From Coq Require Import List ZArith Bool.
From Verif Require C03.Trie C03.Model C03.Spec C07.Model.
From Verif Require Import C04.Model C04.Spec.
From Verif Require C05.Model C05.Proofs.
From Verif Require Import C04.EndToEnd.
Import ListNotations.
Open Scope Z_scope.

Module LP := Verif.C05.Proofs.

(* ---- the configurations the theorems speak about ---------------------------- *)

(* C03's stated side conditions on the filters (every AddFlow succeeded - else
   the engine does not start; * only as the last part of a pattern; no
   host-label / path-segment collision = outside the open finding F-C03c),
   unique flow names (the loader keys flows by name), and C05's validity
   predicate on both directions of every flow (what [load] guarantees of every
   flow it returns: C05.Proofs.load_accept_valid). *)
Record cfg_ok (cfg : econfig) : Prop := {
  ok_load : F.load_ok (filters cfg) = true;
  ok_stars : FS.stars_last (filters cfg) = true;
  ok_kinds : FS.kind_consistent (filters cfg) = true;
  ok_ids : NoDup (map eid cfg);
  ok_valid : Forall LP.flow_valid (graphs cfg)
}.

(* ---- "the flow's own filter accepts the transaction" (C03's vocabulary) ------ *)

Definition url_parts (x : F.txn) : list C03.Trie.part := C03.Trie.split_url (F.t_url x).

(* the URL pattern accepts the URL (a trailing * read as the code reads it: it
   swallows parts of any kind; with C03's side condition [wild_kind_ok] - outside
   the open finding F-C03f - in the strict reading of the property text) and
   the flow's own method / header / query / status requirements hold *)
Definition accepts (f : F.flow) (x : F.txn) : Prop :=
  FS.matches_lax (F.pat f) (url_parts x) = true
  /\ FS.constraints_hold f x
  /\ (FS.wild_kind_ok (F.pat f) (url_parts x) = true ->
      FS.matches (F.pat f) (url_parts x) = true).

(* the reading of the transaction under which the flows of an event were
   selected: request-direction processors run for the transaction as it came;
   response-direction processors run for it typed as a response (a response, or
   a request that a processor answered: executeReq looks it up again) *)
Definition view (x : F.txn) (d : dir) : F.txn :=
  match d with Req => x | Res => as_response x end.

(* ---- processors ---------------------------------------------------------------- *)

(* the event's processor answered the request itself *)
Definition ev_answers (beh : oracles) (e : event) : bool :=
  answers (beh (e_flow e)) (e_dir e) (e_key e).

(* an event of flow f (as selected), direction d, produced by executing f from
   [start] (None: its entry point; Some h: the response connections of h) *)
Definition from_flow (fuel : nat) (beh : oracles) (f : flow) (d : dir) (start : option key)
           (ev : event) : Prop :=
  e_flow ev = fname f /\ e_dir ev = d
  /\ In (e_key ev, e_cond ev) (fst (exec_flow_impl fuel f d start (beh (fname f)))).

(* the processor of the event lies on a path of its flow's graph that follows
   only connections carrying the condition output by their source and never
   continues from a processor that answered, and that starts
   - at the entry point of the direction, or
   - (response direction only) at the target of a response connection of a
     processor h OF THE SAME FLOW THAT ANSWERED THE REQUEST EARLIER IN THIS
     TRANSACTION: the trace [tr] has a request-direction event of this flow with
     key h, h answers, and [ev] occurs after it. *)
Definition on_root_path (beh : oracles) (tr : list event) (e : eflow) (ev : event) : Prop :=
  let g := gdir (graph_of e) (e_dir ev) in
  let b := beh (eid e) in
  e_cond ev = fst (b (e_key ev) (e_dir ev))
  /\ ((exists r, root g = Some r /\ on_path g (e_dir ev) b r (e_key ev))
      \/ (e_dir ev = Res /\ exists h c0 pre post c t,
            tr = pre ++ {| e_flow := eid e; e_key := h; e_dir := Req; e_cond := c0 |} :: post
            /\ In ev post /\ answers b Req h = true
            /\ In (c, Some t) (edges_of g h) /\ on_path g Res b t (e_key ev))).

(* the answering flow is found again when the transaction is looked up as a
   response: its own status requirement allows a stream typed as a response
   that has no response object - i.e. (C03: status_ok) it has none *)
Definition found_again (e : eflow) (x : F.txn) : bool := F.status_ok (ef_filter e) (as_response x).

(* F-C04d at the level of the engine: the classifier over the flows of the
   configuration *)
Definition e2e_dropped (cfg : econfig) (beh : oracles) (t : list event) : bool :=
  answer_dropped beh (graphs cfg) t.

(* ---- actions ------------------------------------------------------------------- *)

(* the two oracles speak about the same processors: a processor answers the
   request (ProcessorIO.Type is "response") exactly when the request action it
   produces is an early response *)
Definition coherent (beh : oracles) (ao : aoracle) : Prop :=
  forall fl k d,
    (answers (beh fl) d k = true -> exists a, ao fl k d = Some a /\ A.is_early a = true)
    /\ (forall a, ao fl k d = Some a -> A.is_early a = true -> answers (beh fl) d k = true).

(* system flows (generated from quotas) never answer a request *)
Definition sys_quiet (cfg : econfig) (beh : oracles) : Prop :=
  forall e, In e cfg -> F.f_kind (ef_filter e) <> 0 ->
  forall k, answers (beh (eid e)) Req k = false.

(* ---- bounds --------------------------------------------------------------------- *)

Definition selected (cfg : econfig) (x : F.txn) : list F.flow := F.get_flow (ftree_of cfg) x.

(* the explicit bound of C05_transaction_safe for the flows selected *)
Definition txn_bound (cfg : econfig) (x : F.txn) : nat :=
  if F.t_resp x
  then LP.res_bound (fuel_of cfg) (split cfg (selected cfg x))
  else LP.req_bound (fuel_of cfg) (split cfg (selected cfg x)) (reselect cfg x).
