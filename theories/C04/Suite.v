(* C04 — the side conditions of the theorems CHECKED per case of suite "txn"
   (definitions only; soundness in SuiteProofs.v).

   LIVE: [case_ok] (with [acyclicb], [names_ok]) - evaluated on every case by the
   suite's entry point [OrderSuite.run_case_ord] -> [Instance.run_case_inst].
   NOT EVALUATED BY ANY SUITE any more (kept as the history of the entry point;
   no theorem is about them): [run_case_checked] below and [Model.run_case],
   the entries of suite "txn" before the instance round.

   [case_ok] evaluates, on the case's own data, the hypotheses under which
   Property.v speaks about that case:
     - every flow of the case is acyclic ([acyclicb]: a rank computed by
       relaxation decreases along every connection), so that
       C04_suite_fuel_is_enough gives [sel_ok (fuel_for fs)] for the decoded
       selections and the fuel the model is run with is enough;
     - the system flows selected have the shape of those generated from quotas
       ([quota_shape]: start-system flows without response entry, end-system
       flows without request entry), the premise of C04_quota_order. *)
From Coq Require Import List ZArith Bool.
From Verif Require Import C04.Model C04.Spec C04.Quota.
Import ListNotations.
Open Scope Z_scope.

Definition lookup_rk (m : list (key * nat)) (k : key) : nat :=
  match find (fun p => fst p =? k) m with Some p => snd p | None => O end.

(* one round: the rank of a node is one more than the largest rank among the
   targets of its connections (0 without targets) *)
Definition relax (g : dgraph) (m : list (key * nat)) : list (key * nat) :=
  map (fun n => (fst n,
                 fold_right (fun e acc => match snd e with
                                          | Some t => Nat.max (S (lookup_rk m t)) acc
                                          | None => acc
                                          end) O (snd n))) (nodes g).

Fixpoint iter {X : Type} (n : nat) (f : X -> X) (x : X) : X :=
  match n with O => x | S n' => iter n' f (f x) end.

(* after (number of nodes + 1) rounds the ranks of an acyclic direction are the
   lengths of its longest paths *)
Definition rank_by_relaxation (g : dgraph) : key -> nat :=
  lookup_rk (iter (S (length (nodes g))) (relax g) []).

Definition acyclicb (g : dgraph) : bool := rankedb g (rank_by_relaxation g).
Definition flow_acyclicb (f : flow) : bool := acyclicb (freq f) && acyclicb (fres f).

(* the hypotheses, on the data of a case; [gs] = the quota groups of the
   configuration as listed in its quota file: the system flows the harness read
   are the ones [Quota.gen_start] / [gen_end] generate from them *)
Definition case_q := (case * list qgroup)%type.

(* every flow name of an encoded selection resolves to a flow of the case
   ([flows_named] drops unknown names silently) *)
Definition names_ok (fs : list flow) (e : sel_enc) : bool :=
  let '(a, u, z) := e in
  forallb (fun n => existsb (fun f => fname f =? n) fs) (a ++ u ++ z).

Definition case_ok (kq : case_q) : bool :=
  let '(k, gs) := kq in
  let '(fl, (s1, s2), rows, isreq, obs) := k in
  let fs := map dec_flow fl in
  names_ok fs s1 && match s2 with Some e => names_ok fs e | None => true end
  && forallb flow_acyclicb fs
  && quota_shape (dec_sel fs s1)
  && match s2 with Some e => quota_shape (dec_sel fs e) | None => true end
  && forallb (group_ok fs) gs
  && sys_selected_ok gs (dec_sel fs s1)
  && match s2 with Some e => sys_selected_ok gs (dec_sel fs e) | None => true end.

(* DEAD ENTRY POINT - evaluated by no suite since the instance round (the suite
   calls [Instance.run_case_inst], which evaluates the same [case_ok] and compares
   the events itself, with the node -> instance resolution inside the model).
   None = the implementation's observables equal the model's AND the hypotheses
   hold; otherwise: do the hypotheses hold?, and what the model says when the
   observables differ *)
Definition run_case_checked (kq : case_q)
  : option (bool * option (list (Z * Z * bool * Z) * Z)) :=
  match run_case (fst kq), case_ok kq with
  | None, true => None
  | m, ok => Some (ok, m)
  end.
