(* C04 — system flows generated from quotas: lemmas and final statements. *)
From Coq Require Import List ZArith Bool Lia.
From Verif Require Import C04.Model C04.Spec C04.Proofs C04.Quota.
Import ListNotations.
Open Scope Z_scope.

(* ---- structural equality is equality ---- *)

Lemma oz_eqb_eq : forall a b, oz_eqb a b = true -> a = b.
Proof.
  intros [x|] [y|] H; cbn in H; try discriminate; [apply Z.eqb_eq in H; subst|]; reflexivity.
Qed.

Lemma list_eqb_eq : forall (X : Type) (eq : X -> X -> bool),
  (forall x y, eq x y = true -> x = y) -> forall a b, list_eqb eq a b = true -> a = b.
Proof.
  intros X eq S. induction a as [|x a IH]; intros [|y b] H; cbn in H; try discriminate; [reflexivity|].
  apply andb_true_iff in H. destruct H as [H1 H2]. rewrite (S _ _ H1), (IH _ H2). reflexivity.
Qed.

Lemma edge_eqb_eq : forall a b, edge_eqb a b = true -> a = b.
Proof.
  intros [c1 t1] [c2 t2] H. unfold edge_eqb in H. cbn [fst snd] in H.
  apply andb_true_iff in H. destruct H as [H1 H2]. apply Z.eqb_eq in H1. apply oz_eqb_eq in H2.
  subst. reflexivity.
Qed.

Lemma node_eqb_eq : forall a b, node_eqb a b = true -> a = b.
Proof.
  intros [k1 e1] [k2 e2] H. unfold node_eqb in H. cbn [fst snd] in H.
  apply andb_true_iff in H. destruct H as [H1 H2]. apply Z.eqb_eq in H1.
  apply (list_eqb_eq _ _ edge_eqb_eq) in H2. subst. reflexivity.
Qed.

Lemma dgraph_eqb_eq : forall a b, dgraph_eqb a b = true -> a = b.
Proof.
  intros [r1 n1] [r2 n2] H. unfold dgraph_eqb in H. cbn [root nodes] in H.
  apply andb_true_iff in H. destruct H as [H1 H2]. apply oz_eqb_eq in H1.
  apply (list_eqb_eq _ _ node_eqb_eq) in H2. subst. reflexivity.
Qed.

Lemma flow_eqb_eq : forall a b, flow_eqb a b = true -> a = b.
Proof.
  intros [n1 q1 s1] [n2 q2 s2] H. unfold flow_eqb in H. cbn [fname freq fres] in H.
  apply andb_true_iff in H. destruct H as [H H3]. apply andb_true_iff in H. destruct H as [H1 H2].
  apply Z.eqb_eq in H1. apply dgraph_eqb_eq in H2. apply dgraph_eqb_eq in H3. subst. reflexivity.
Qed.

(* ---- the shape of the generated flows ---- *)

Lemma gen_flow_in : forall name rq rs f,
  In f (gen_flow name rq rs) -> f = {| fname := name; freq := chain rq; fres := chain rs |}.
Proof.
  intros name rq rs f I. unfold gen_flow in I.
  destruct rq, rs; cbn in I; try contradiction; destruct I as [I|[]]; symmetry; exact I.
Qed.

Lemma gen_start_shape : forall g f, In f (gen_start (rep_of g)) -> no_root (fres f) = true.
Proof.
  intros [[sn en] qs] f I. unfold gen_start in I. apply gen_flow_in in I. subst f. reflexivity.
Qed.

Lemma gen_end_shape : forall g f, In f (gen_end (rep_of g)) -> no_root (freq f) = true.
Proof.
  intros [[sn en] qs] f I. unfold gen_end in I. apply gen_flow_in in I. subst f. reflexivity.
Qed.

Lemma selected_generated : forall gs s,
  sys_selected_ok gs s = true ->
  (forall f, In f (s_start s) -> exists g, In g gs /\ In f (gen_start (rep_of g)))
  /\ (forall f, In f (s_end s) -> exists g, In g gs /\ In f (gen_end (rep_of g))).
Proof.
  intros gs s H. unfold sys_selected_ok in H. apply andb_true_iff in H. destruct H as [A B].
  rewrite forallb_forall in A, B. split; intros f I.
  - specialize (A f I). apply existsb_exists in A. destruct A as [g [G A]].
    apply existsb_exists in A. destruct A as [f' [F E]]. apply flow_eqb_eq in E. subst f'.
    exists g. auto.
  - specialize (B f I). apply existsb_exists in B. destruct B as [g [G B]].
    apply existsb_exists in B. destruct B as [f' [F E]]. apply flow_eqb_eq in E. subst f'.
    exists g. auto.
Qed.

(* ---- a chain runs every processor, in order ---- *)

Lemma find_chain : forall (pre : list key) (p : key) (rest : list key),
  ~ In p pre ->
  find (fun n : Z * list edge => fst n =? p) (chain_nodes (pre ++ p :: rest))
  = Some (p, [(0, hd_error rest)]).
Proof.
  induction pre as [|a pre IH]; intros p rest N; cbn [app chain_nodes find fst].
  - rewrite Z.eqb_refl. reflexivity.
  - destruct (a =? p) eqn:E.
    + apply Z.eqb_eq in E. subst a. exfalso. apply N. left. reflexivity.
    + apply IH. intros I. apply N. right. exact I.
Qed.

Lemma edges_of_chain : forall (pre : list key) (p : key) (rest : list key),
  ~ In p pre -> edges_of (chain (pre ++ p :: rest)) p = [(0, hd_error rest)].
Proof.
  intros pre p rest N. unfold edges_of, find_node. unfold chain. cbn [nodes].
  rewrite (find_chain pre p rest N). reflexivity.
Qed.

Lemma chain_walk : forall gr d beh (rest pre : list key) (p : key),
  NoDup (pre ++ p :: rest) -> (forall x, In x (pre ++ p :: rest) -> beh x d = (0, Plain)) ->
  forall fuel, (length rest < fuel)%nat ->
  exec_impl (chain (pre ++ p :: rest)) gr d beh fuel p = (map (fun q => (q, 0)) (p :: rest), Done).
Proof.
  intros gr d beh. induction rest as [|q rest IH]; intros pre p ND B fuel L;
    (destruct fuel as [|f]; [cbn [length] in L; lia|]); cbn [exec_impl].
  - assert (Bp : beh p d = (0, Plain)) by (apply B; apply in_or_app; right; left; reflexivity).
    unfold answers. rewrite Bp. cbn [fst snd is_early]. rewrite andb_false_r.
    assert (NP : ~ In p pre).
    { apply NoDup_remove_2 in ND. intros I. apply ND. apply in_or_app. left. exact I. }
    rewrite (edges_of_chain pre p [] NP). reflexivity.
  - assert (Bp : beh p d = (0, Plain)) by (apply B; apply in_or_app; right; left; reflexivity).
    unfold answers. rewrite Bp. cbn [fst snd is_early]. rewrite andb_false_r.
    assert (NP : ~ In p pre).
    { apply NoDup_remove_2 in ND. intros I. apply ND. apply in_or_app. left. exact I. }
    rewrite (edges_of_chain pre p (q :: rest) NP). cbn [hd_error loop_impl]. rewrite Z.eqb_refl.
    assert (E' : pre ++ p :: q :: rest = (pre ++ [p]) ++ q :: rest) by (rewrite <- app_assoc; reflexivity).
    rewrite E' in ND, B |- *. cbn [length] in L. rewrite (IH (pre ++ [p]) q ND B f) by lia.
    unfold andthen. cbn [fst snd is_done map]. rewrite app_nil_r. reflexivity.
Qed.

Lemma chain_flow_walk : forall fuel f d beh ps,
  gdir f d = chain ps -> NoDup ps -> (forall p, In p ps -> beh p d = (0, Plain)) ->
  (length ps <= fuel)%nat ->
  exec_flow_impl fuel f d None beh = (map (fun q => (q, 0)) ps, Done).
Proof.
  intros fuel f d beh ps G ND B L. unfold exec_flow_impl. rewrite G.
  destruct ps as [|p rest]; [reflexivity|]. cbn [chain root hd_error].
  apply (chain_walk (fres f) d beh rest [] p ND B). cbn [length] in L. lia.
Qed.

(* ======================================================================== *)
(* final statements *)

(* The system flows generated from quotas have the shape C04_quota_order asks
   for: a selection whose start-system / end-system flows are generated from
   quota groups satisfies [quota_shape]. *)
Theorem C04_generated_quota_shape : forall gs s,
  sys_selected_ok gs s = true -> quota_shape s = true.
Proof.
  intros gs s H. destruct (selected_generated gs s H) as [A B]. unfold quota_shape.
  apply andb_true_iff. split; apply forallb_forall; intros f I.
  - destruct (A f I) as [g [_ G]]. exact (gen_start_shape g f G).
  - destruct (B f I) as [g [_ G]]. exact (gen_end_shape g f G).
Qed.
Print Assumptions C04_generated_quota_shape.

(* A system flow generated for a group of quotas runs, on a request, the
   increment processor of EVERY quota of the group, in the order of the quota
   file, and on a response the decrement processor of every concurrent quota of
   the group (system processors do not branch and do not answer; processor keys
   distinct; fuel at least the number of processors).  This is the behaviour
   repaired by fix-F-C04c. *)
Theorem C04_quota_flows_run_every_processor : forall fuel beh sn en qs,
  let g : qgroup := (sn, en, qs) in
  let incs := map fst qs in
  let decs := flat_map (fun q => match snd q with Some d => [d] | None => [] end) qs in
  (forall f, In f (gen_start (rep_of g)) ->
     NoDup incs -> (forall p, In p incs -> beh (fname f) p Req = (0, Plain)) ->
     (length incs <= fuel)%nat ->
     fname f = sn
     /\ exec_flow_impl fuel f Req None (beh (fname f)) = (map (fun p => (p, 0)) incs, Done)
     /\ exec_flow_impl fuel f Res None (beh (fname f)) = ([], Done))
  /\ (forall f, In f (gen_end (rep_of g)) ->
     NoDup decs -> (forall p, In p decs -> beh (fname f) p Res = (0, Plain)) ->
     (length decs <= fuel)%nat ->
     fname f = en
     /\ exec_flow_impl fuel f Res None (beh (fname f)) = (map (fun p => (p, 0)) decs, Done)
     /\ exec_flow_impl fuel f Req None (beh (fname f)) = ([], Done)).
Proof.
  intros fuel beh sn en qs g incs decs. split; intros f I ND B L.
  - unfold gen_start, g in I. cbn [rep_of sr_start_name sr_req_start sr_res_start] in I.
    apply gen_flow_in in I. subst f. cbn [fname] in *. split; [reflexivity|]. split.
    + apply chain_flow_walk; auto.
    + reflexivity.
  - unfold gen_end, g in I. cbn [rep_of sr_end_name sr_req_end sr_res_end] in I.
    apply gen_flow_in in I. subst f. cbn [fname] in *. split; [reflexivity|]. split.
    + apply chain_flow_walk; auto.
    + reflexivity.
Qed.
Print Assumptions C04_quota_flows_run_every_processor.

(* The generator of the pinned tree (defect F-C04c, repaired): only the last
   quota's processor stays connected, so a chain of three runs one. *)
Theorem C04_pinned_generator_refuted :
  ~ (forall fuel name ps beh,
       NoDup ps -> (forall p, In p ps -> beh p Req = (0, Plain)) -> (length ps <= fuel)%nat ->
       exec_flow_impl fuel {| fname := name; freq := chain_pinned ps; fres := chain [] |} Req None beh
       = (map (fun p => (p, 0)) ps, Done)).
Proof.
  intros H. specialize (H 3%nat 100 [1; 2; 3] (fun _ _ => (0, Plain))).
  assert (ND : NoDup [1; 2; 3]).
  { repeat constructor; cbn; intros X; repeat (destruct X as [X|X]; try discriminate X); exact X. }
  specialize (H ND (fun _ _ => eq_refl)). cbn [length] in H. specialize (H (le_n 3)).
  vm_compute in H. discriminate.
Qed.
Print Assumptions C04_pinned_generator_refuted.

(* non-vacuity: two quotas behind one filter (fixed q1, concurrent q2) *)
Example C04_quota_witness :
  let g : qgroup := (100, 101, [(10, None); (11, Some 12)]) in
  sys_flows [g]
  = [ {| fname := 100;
         freq := {| root := Some 10; nodes := [(10, [(0, Some 11)]); (11, [(0, None)])] |};
         fres := {| root := None; nodes := [] |} |};
      {| fname := 101;
         freq := {| root := None; nodes := [] |};
         fres := {| root := Some 12; nodes := [(12, [(0, None)])] |} |} ]
  /\ sys_selected_ok [g] {| s_start := gen_start (rep_of g); s_user := []; s_end := gen_end (rep_of g) |} = true
  /\ exec_flow_impl 2 {| fname := 100; freq := chain [10; 11]; fres := chain [] |} Req None
       (fun _ _ => (0, Plain)) = ([(10, 0); (11, 0)], Done).
Proof. vm_compute. repeat split; reflexivity. Qed.
