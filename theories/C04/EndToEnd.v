(* C04 / end-to-end composition — ONE model of what the engine does with a
   transaction, assembled from the models of the four units:

     selection        C03  [build] / [get_flow] over the filter tree
     execution        C04  [run_req] / [run_res] (this directory)
     acceptance       C05  [validate_dir] (fuel [exec_fuel])
     combination      C07  [fold_req] / [fold_resp]

   Anchors (lunar-engine):
     streams/streams.go            Stream.ExecuteFlow            -> [engine]
     streams/filter/filter_tree.go GetFlow                       -> C03 [get_flow]
     streams/filter/filter_node.go getFlow, FilterResult.Extend  -> [split]
     streams/streams.go            executeReq / executeRes       -> C04 [run_req] / [run_res]
     streams/stream/stream.go      ExecuteFlow (actions appended)-> [req_actions] / [resp_actions]
     routing/messages_handler.go   processRequest / processResponse,
                                   getSPOEReqActions / getSPOERespActions -> [action_req] / [action_res]

   How GetFlow's result becomes the three lists (read from filter_node.go):
   the traversal returns filter nodes in its own order; for every node, its
   qualifying user flows (in the order they were added to the node), its
   qualifying system-start flows and its qualifying system-end flows are
   APPENDED to the three result lists (FilterResult.Extend).  C03's model keeps
   one list per node, in the order added, and [get_flow] is the concatenation
   over the traversed nodes of the qualifying flows; so each of the engine's
   three lists is [get_flow]'s result filtered by kind, order preserved
   ([split]).  executeReq then runs start-system, user (break at the first
   hand-over), end-system, and after a hand-over looks the transaction up AGAIN
   with the stream typed as a response ([reselect]) and runs executeRes.

   Executable definitions only; lemmas are in EndToEndProofs.v, final
   statements in EndToEndProperty.v. *)
From Coq Require Import List ZArith Bool.
From Coq Require String.
From Verif Require C03.Trie C03.Model C03.Spec C07.Model.
From Verif Require Import C04.Model.
From Verif Require C05.Model.
Import ListNotations.
Open Scope Z_scope.

Module F := Verif.C03.Model.      (* filters, transactions, the filter tree *)
Module FS := Verif.C03.Spec.      (* side conditions of C03's theorems *)
Module L := Verif.C05.Model.      (* loader / validator *)
Module A := Verif.C07.Model.      (* actions and their combination *)

(* ------------------------------------------------------------ configuration *)

(* one flow: its C03 filter (id = flow name, kind 0 user / 1 system start /
   2 system end, URL pattern, methods, headers, query, status) and its two C04
   graphs *)
Record eflow := EF { ef_filter : F.flow; ef_req : dgraph; ef_res : dgraph }.
Definition econfig := list eflow.        (* in load order *)

Definition eid (e : eflow) : Z := F.f_id (ef_filter e).
Definition graph_of (e : eflow) : flow :=
  {| fname := eid e; freq := ef_req e; fres := ef_res e |}.
Definition filters (cfg : econfig) : list F.flow := map ef_filter cfg.
Definition graphs (cfg : econfig) : list flow := map graph_of cfg.

(* the filter tree after AddFlow-ing every flow in load order (C03) *)
Definition ftree_of (cfg : econfig) : F.ftree := fst (F.build (filters cfg)).

(* fuel of C04's executor: C05's budget for the loaded graphs *)
Definition fuel_of (cfg : econfig) : nat := L.exec_fuel (graphs cfg).

(* ------------------------------------------- adapter: C03 selection -> C04 selection *)

(* the graphs of a selected filter: the flow of that name *)
Definition graph_for (cfg : econfig) (f : F.flow) : list flow :=
  match find (fun e => eid e =? F.f_id f) cfg with
  | Some e => [graph_of e]
  | None => []
  end.

(* one of the engine's three lists: the selected flows of kind k, selection order *)
Definition group (cfg : econfig) (k : Z) (sel : list F.flow) : list flow :=
  flat_map (graph_for cfg) (filter (fun f => F.f_kind f =? k) sel).

Definition split (cfg : econfig) (sel : list F.flow) : selection :=
  {| s_start := group cfg 1 sel; s_user := group cfg 0 sel; s_end := group cfg 2 sel |}.

(* the same transaction with the stream typed as a response (apiStream.SetType
   after a hand-over): URL, method, headers, query untouched.  A request has no
   response object, and typing its stream as a response does not create one:
   C03's encoding of "no response object" ([F.no_response], a negative status)
   - a status requirement is then never met (repo fix 22527f1; before it the
   second GetFlow dereferenced the missing response).  A response stays as it is. *)
Definition as_response (x : F.txn) : F.txn :=
  F.mkTxn true (F.t_url x) (F.t_method x) (F.t_headers x) (F.t_query x)
          (if F.t_resp x then F.t_status x else F.no_response).

(* executeReq after a hand-over: second GetFlow; nothing found => return *)
Definition reselect (cfg : econfig) (x : F.txn) : option selection :=
  match F.get_flow (ftree_of cfg) (as_response x) with
  | [] => None
  | fl => Some (split cfg fl)
  end.

(* ------------------------------------------------------------ one transaction *)

(* user flows counted by metricsData.incrementFlowInvocations: every user flow
   entered on a request, up to and including the one that hands over / fails *)
Fixpoint users_invoked (fuel : nat) (beh : oracles) (fs : list flow) : list Z :=
  match fs with
  | [] => []
  | f :: rest =>
      fname f :: match snd (exec_flow_impl fuel f Req None (beh (fname f))) with
                 | Done => users_invoked fuel beh rest
                 | _ => []
                 end
  end.

Definition invoked (fuel : nat) (beh : oracles) (s : selection) : list Z :=
  match snd (run_list fuel beh Req (s_start s)) with
  | Some _ => []
  | None => users_invoked fuel beh (s_user s)
  end.

Record result := { o_trace : list event; o_error : option outcome; o_invoked : list Z }.

(* nothing ran *)
Definition neutral : result := {| o_trace := []; o_error := None; o_invoked := [] |}.

Definition run_selected (fuel : nat) (cfg : econfig) (beh : oracles)
           (fl : list F.flow) (x : F.txn) : result :=
  let s := split cfg fl in
  if F.t_resp x
  then let r := run_res fuel beh s None in
       {| o_trace := fst r; o_error := snd r; o_invoked := [] |}
  else let r := run_req fuel beh s (reselect cfg x) in
       {| o_trace := fst r; o_error := snd r; o_invoked := invoked fuel beh s |}.

(* Stream.ExecuteFlow: C03's [exec_flow] (nothing selected => untouched) around
   C04's orchestration *)
Definition engine (fuel : nat) (cfg : econfig) (beh : oracles) (x : F.txn) : result :=
  fst (F.exec_flow (fun fl x' _ => run_selected fuel cfg beh fl x') (ftree_of cfg) x neutral).

(* the two directions by name *)
Definition engine_req (fuel : nat) (cfg : econfig) (beh : oracles) (x : F.txn) : result :=
  engine fuel cfg beh (F.mkTxn false (F.t_url x) (F.t_method x) (F.t_headers x) (F.t_query x) (F.t_status x)).
Definition engine_res (fuel : nat) (cfg : econfig) (beh : oracles) (x : F.txn) : result :=
  engine fuel cfg beh (as_response x).

(* ------------------------------------------------------------ actions *)

(* what a processor appends to actions.Request.Actions when it is executed while
   a request is being handled (either direction: after a hand-over the response
   side still appends REQUEST actions); None = no request action available *)
Definition aoracle := Z -> key -> dir -> option A.req_action.
(* ... to actions.Response.Actions while a response is being handled *)
Definition poracle := Z -> key -> option A.resp_action.

Definition req_actions (ao : aoracle) (t : list event) : list A.req_action :=
  flat_map (fun e => match ao (e_flow e) (e_key e) (e_dir e) with
                     | Some a => [a]
                     | None => []
                     end) t.

Definition resp_actions (po : poracle) (t : list event) : list A.resp_action :=
  flat_map (fun e => match po (e_flow e) (e_key e) with
                     | Some a => [a]
                     | None => []
                     end) t.

(* processRequest: an error discards the actions (nothing is sent); otherwise
   the fold of getSPOEReqActions over the actions in the order produced *)
Definition action_req (ao : aoracle) (r : result) : A.req_action :=
  match o_error r with
  | None => A.fold_req (req_actions ao (o_trace r))
  | Some _ => A.RNoOp
  end.

Definition action_res (po : poracle) (r : result) : A.resp_action :=
  match o_error r with
  | None => A.fold_resp (resp_actions po (o_trace r))
  | Some _ => A.PNoOp
  end.

(* ------------------------------------------------------------ hypotheses, decidable *)

Fixpoint nodupZ (l : list Z) : bool :=
  match l with
  | [] => true
  | x :: r => negb (existsb (Z.eqb x) r) && nodupZ r
  end.

(* C05's acceptance of both directions of a flow *)
Definition validb (f : flow) : bool :=
  match L.validate_dir true Req (freq f), L.validate_dir true Res (fres f) with
  | L.VOk, L.VOk => true
  | _, _ => false
  end.

(* every AddFlow succeeded, * only trailing, no host-label / path-segment
   collision (C03's side conditions), flow names unique, every flow accepted by
   C05's validator *)
Definition cfg_okb (cfg : econfig) : bool :=
  F.load_ok (filters cfg) && FS.stars_last (filters cfg) && FS.kind_consistent (filters cfg)
  && nodupZ (map eid cfg) && forallb validb (graphs cfg).

(* ------------------------------------------------------------ correspondence entry
   The harness writes configurations and observations with the constructors
   below (no tuples, strings as Coq string literals through C03's [bs]). *)

Inductive kv := KV (k v : String.string).
Inductive cedge := GE (c : Z) (to : Z).                   (* to < 0: the stream *)
Inductive cnode := GN (k : Z) (es : list cedge).
Inductive cdir := GD (root : Z) (ns : list cnode).        (* root < 0: no entry point *)
Inductive cflow :=
  FL (id kind : Z) (url : String.string) (methods : list String.string)
     (hdrs query : list kv) (status : list Z) (req res : cdir).
Inductive ctxn :=
  TX (resp : bool) (url method : String.string) (hdrs query : list kv) (status : Z).
(* branch oracle row: flow, key, request direction?, output condition, answers the request *)
Inductive orow := OR (fl k : Z) (isreq : bool) (c : Z) (early : bool).
(* an action as projected by the harness *)
Inductive act :=
| ANone                                                   (* no action appended *)
| ANoOp
| AModH (h : list kv)
| AModReq (h : list kv) (host path query body : String.string)
| AGen (h : list kv) (rm : list String.string) (body : String.string)
| AEarly (status : Z) (body : String.string) (h : list kv)
| AModResp (h : list kv) (body : String.string) (status : Z)
| ARetry (h : list kv).
Inductive arow := AR (fl k : Z) (isreq : bool) (a : act).
Inductive eev := EV (fl k : Z) (isreq : bool) (c : Z).

(* one observed transaction: the transaction, the branch oracle, the action
   oracle predicted for the real processors and a synthetic one, then the
   observables: events, result code (0 nothing special, 1 answered by a
   processor, 2 error), invoked user flows (sorted), the actions the engine
   appended (no-error requests / responses), the combined action of those, and
   the combined action of the synthetic actions laid over the observed trace *)
Inductive tcase :=
  TC (x : ctxn) (orc : list orow) (areal asyn : list arow)
     (obs : list eev) (code : Z) (inv : list Z) (alist : list act) (fin_real fin_syn : act).

Inductive case_e2e := E2E (cfg : list cflow) (txns : list tcase).

Definition kvs (l : list kv) : list (C03.Trie.tok * C03.Trie.tok) :=
  map (fun p => let '(KV k v) := p in (F.bs k, F.bs v)) l.

Definition dec_dir (g : cdir) : dgraph :=
  let '(GD r ns) := g in
  {| root := if r <? 0 then None else Some r;
     nodes := map (fun n => let '(GN k es) := n in
                            (k, map (fun e => let '(GE c t) := e in
                                              (c, if t <? 0 then None else Some t)) es)) ns |}.

Definition dec_flow (f : cflow) : eflow :=
  let '(FL id kind url ms hs qs st rq rs) := f in
  EF (F.mkFlow id kind (F.bs url) (map F.bs ms) (kvs hs) (kvs qs) st) (dec_dir rq) (dec_dir rs).

Definition dec_txn (t : ctxn) : F.txn :=
  let '(TX r u m hs qs st) := t in F.mkTxn r (F.bs u) (F.bs m) (kvs hs) (kvs qs) st.

Definition dec_orc (rows : list orow) : oracles :=
  fun fl k d =>
    match find (fun r => let '(OR f' k' q' _ _) := r in
                         (f' =? fl) && (k' =? k) && eqb q' (is_req d)) rows with
    | Some (OR _ _ _ c e) => (c, if e then Early else Plain)
    | None => (0, Plain)
    end.

Definition act_req (a : act) : option A.req_action :=
  match a with
  | ANoOp => Some A.RNoOp
  | AModH h => Some (A.RModHeaders (kvs h))
  | AModReq h ho p q b => Some (A.RModRequest (kvs h) (F.bs ho) (F.bs p) (F.bs q) (F.bs b))
  | AGen h rm b => Some (A.RGenRequest (kvs h) (map F.bs rm) (F.bs b))
  | AEarly s b h => Some (A.REarly s (F.bs b) (kvs h))
  | _ => None
  end.

Definition act_resp (a : act) : option A.resp_action :=
  match a with
  | ANoOp => Some A.PNoOp
  | AModResp h b s => Some (A.PModResp (kvs h) (F.bs b) s)
  | ARetry h => Some (A.PRetry (kvs h))
  | _ => None
  end.

Definition find_arow (rows : list arow) (fl k : Z) (q : bool) : act :=
  match find (fun r => let '(AR f' k' q' _) := r in
                       (f' =? fl) && (k' =? k) && eqb q' q) rows with
  | Some (AR _ _ _ a) => a
  | None => ANone
  end.

Definition dec_ao (rows : list arow) : aoracle :=
  fun fl k d => act_req (find_arow rows fl k (is_req d)).
Definition dec_po (rows : list arow) : poracle :=
  fun fl k => act_resp (find_arow rows fl k false).

(* the hypotheses of E2E_early_response in finite form, over the rows of a case:
   [coherent] (a processor answers the request exactly when the request action
   predicted for it is an early response) at every row of the two oracles, and
   [sys_quiet] (no row of a system flow answers a request).  Sound for the
   decoded oracles (EndToEndProofs.coherentb_sound / sys_quietb_sound); checked
   by [run_txn] for the PREDICTED action oracle on every request. *)
Definition coherent_at (beh : oracles) (ao : aoracle) (fl k : Z) (d : dir) : bool :=
  eqb (answers (beh fl) d k)
      (match ao fl k d with Some a => A.is_early a | None => false end).

Definition coherentb (orc : list orow) (areal : list arow) : bool :=
  let beh := dec_orc orc in
  let ao := dec_ao areal in
  forallb (fun r => let '(OR f k q _ _) := r in coherent_at beh ao f k (dir_of q)) orc
  && forallb (fun r => let '(AR f k q _) := r in coherent_at beh ao f k (dir_of q)) areal.

Definition sys_quietb (cfg : econfig) (orc : list orow) : bool :=
  let beh := dec_orc orc in
  forallb (fun e =>
    (F.f_kind (ef_filter e) =? 0)
    || forallb (fun r => let '(OR f k _ _ _) := r in
                         negb (f =? eid e) || negb (answers (beh f) Req k)) orc) cfg.

Definition ev_eqb (e : event) (o : eev) : bool :=
  let '(EV f k q c) := o in
  (e_flow e =? f) && (e_key e =? k) && eqb (is_req (e_dir e)) q && (e_cond e =? c).

Fixpoint list_eqb {X Y : Type} (eq : X -> Y -> bool) (a : list X) (b : list Y) : bool :=
  match a, b with
  | [], [] => true
  | x :: a', y :: b' => eq x y && list_eqb eq a' b'
  | _, _ => false
  end.

Definition opt_eqb {X : Type} (eq : X -> X -> bool) (a b : option X) : bool :=
  match a, b with
  | Some x, Some y => eq x y
  | None, None => true
  | _, _ => false
  end.

Definition result_code (beh : oracles) (r : result) : Z :=
  match o_error r with
  | Some OutOfFuel => 3
  | Some _ => 2
  | None => if existsb (fun e => answers (beh (e_flow e)) (e_dir e) (e_key e)) (o_trace r)
            then 1 else 0
  end.

(* what the model says for one transaction (printed into the replay file) *)
Record model_out := {
  m_events : list (Z * Z * bool * Z);
  m_code : Z;
  m_invoked : list Z;
  m_req : option (list A.req_action * A.req_action * A.req_action);
  m_resp : option (list A.resp_action * A.resp_action * A.resp_action)
}.

Definition is_error (r : result) : bool :=
  match o_error r with Some _ => true | None => false end.

Definition run_txn (cfg : econfig) (fuel : nat) (t : tcase) : option model_out :=
  let '(TC cx orc areal asyn obs code inv alist fr fs) := t in
  let x := dec_txn cx in
  let beh := dec_orc orc in
  let r := engine fuel cfg beh x in
  let evs_ok := list_eqb ev_eqb (o_trace r) obs in
  let code_ok := result_code beh r =? code in
  let inv_ok := F.zlist_eqb (F.sort (o_invoked r)) inv in
  let out (q : option (list A.req_action * A.req_action * A.req_action))
          (p : option (list A.resp_action * A.resp_action * A.resp_action)) :=
      Some {| m_events := map enc_event (o_trace r); m_code := result_code beh r;
              m_invoked := F.sort (o_invoked r); m_req := q; m_resp := p |} in
  if F.t_resp x then
    let l := resp_actions (dec_po areal) (o_trace r) in
    let a1 := action_res (dec_po areal) r in
    let a2 := action_res (dec_po asyn) r in
    if evs_ok && code_ok && inv_ok
       && (is_error r || list_eqb (fun m o => opt_eqb A.resp_eqb (Some m) (act_resp o)) l alist)
       && opt_eqb A.resp_eqb (Some a1) (act_resp fr)
       && opt_eqb A.resp_eqb (Some a2) (act_resp fs)
    then None else out None (Some (l, a1, a2))
  else
    let l := req_actions (dec_ao areal) (o_trace r) in
    let a1 := action_req (dec_ao areal) r in
    let a2 := action_req (dec_ao asyn) r in
    if evs_ok && code_ok && inv_ok
       && (is_error r || list_eqb (fun m o => opt_eqb A.req_eqb (Some m) (act_req o)) l alist)
       && opt_eqb A.req_eqb (Some a1) (act_req fr)
       && opt_eqb A.req_eqb (Some a2) (act_req fs)
       && coherentb orc areal && sys_quietb cfg orc
    then None else out (Some (l, a1, a2)) None.

Fixpoint run_txns (cfg : econfig) (fuel : nat) (i : Z) (ts : list tcase) : list (Z * model_out) :=
  match ts with
  | [] => []
  | t :: rest =>
      match run_txn cfg fuel t with
      | None => run_txns cfg fuel (i + 1) rest
      | Some m => (i, m) :: run_txns cfg fuel (i + 1) rest
      end
  end.

(* None = every transaction of the case agrees with the implementation AND the
   configuration satisfies the hypotheses of the end-to-end theorems (the real
   loader accepted it); otherwise: hypotheses hold?, the transactions (by
   position) that disagree with what the model says for them *)
Definition run_e2e (k : case_e2e) : option (bool * list (Z * model_out)) :=
  let '(E2E fl ts) := k in
  let cfg := map dec_flow fl in
  let ok := cfg_okb cfg in
  match run_txns cfg (fuel_of cfg) 0 ts with
  | [] => if ok then None else Some (false, [])
  | bad => Some (ok, bad)
  end.
