(* C04 — system flows generated from quotas (definitions only).

   Anchor: streams/resources/utils/generate_flow_representation.go
     SystemFlowRepresentation        -> [sysrep]   (the four processor lists)
     generateSystemFlow (+ fix-F-C04c: appendSystemProcessorsToFlow returns the
       extended connection list)     -> [chain], [gen_flow]
     GenerateSystemFlowStart / End   -> [gen_start] / [gen_end]
   and streams/resources/quota/{fixed,concurrent}_strategy.go getProcessorsLocation:
     a fixed-window quota puts <id>_QuotaProcessorInc at the START of the request,
     a concurrent quota additionally <id>_QuotaProcessorDec at the END of the
     response                       -> [rep_of].
   Quotas with the same filter share one representation (one START / END flow),
   their processors in the order of the quota file. *)
From Coq Require Import List ZArith Bool.
From Verif Require Import C04.Model C04.Spec.
Import ListNotations.
Open Scope Z_scope.

(* stream -> p1 -> p2 -> ... -> pn -> stream, connections without condition *)
Fixpoint chain_nodes (ps : list key) : list (key * list edge) :=
  match ps with
  | [] => []
  | p :: rest => (p, [(0, hd_error rest)]) :: chain_nodes rest
  end.
Definition chain (ps : list key) : dgraph := {| root := hd_error ps; nodes := chain_nodes ps |}.

(* the generator before fix-F-C04c: the appended connections were lost and the
   first reference rewritten in place - only the LAST processor stays connected *)
Definition chain_pinned (ps : list key) : dgraph :=
  match ps with
  | [] => chain []
  | p :: rest => chain [last rest p]
  end.

Record sysrep := {
  sr_start_name : Z; sr_end_name : Z;
  sr_req_start : list key; sr_req_end : list key;
  sr_res_start : list key; sr_res_end : list key
}.

(* generateSystemFlow: no flow at all when it would hold no processor *)
Definition gen_flow (name : Z) (rq rs : list key) : list flow :=
  match rq, rs with
  | [], [] => []
  | _, _ => [{| fname := name; freq := chain rq; fres := chain rs |}]
  end.
Definition gen_start (r : sysrep) : list flow :=
  gen_flow (sr_start_name r) (sr_req_start r) (sr_res_start r).
Definition gen_end (r : sysrep) : list flow :=
  gen_flow (sr_end_name r) (sr_req_end r) (sr_res_end r).

(* one group of quotas sharing a filter: names of its START and END flows and,
   per quota in file order, its increment processor and - concurrent quotas -
   its decrement processor *)
Definition qgroup := (Z * Z * list (Z * option Z))%type.

Definition rep_of (g : qgroup) : sysrep :=
  let '(sn, en, qs) := g in
  {| sr_start_name := sn; sr_end_name := en;
     sr_req_start := map fst qs; sr_req_end := [];
     sr_res_start := [];
     sr_res_end := flat_map (fun q => match snd q with Some d => [d] | None => [] end) qs |}.

Definition sys_flows (gs : list qgroup) : list flow :=
  flat_map (fun g => gen_start (rep_of g) ++ gen_end (rep_of g)) gs.

(* ---- structural equality, for the correspondence check ---- *)

Definition oz_eqb (a b : option Z) : bool :=
  match a, b with Some x, Some y => x =? y | None, None => true | _, _ => false end.

Fixpoint list_eqb {X : Type} (eq : X -> X -> bool) (a b : list X) : bool :=
  match a, b with
  | [], [] => true
  | x :: a', y :: b' => eq x y && list_eqb eq a' b'
  | _, _ => false
  end.

Definition edge_eqb (a b : edge) : bool := (fst a =? fst b) && oz_eqb (snd a) (snd b).
Definition node_eqb (a b : key * list edge) : bool :=
  (fst a =? fst b) && list_eqb edge_eqb (snd a) (snd b).
Definition dgraph_eqb (a b : dgraph) : bool :=
  oz_eqb (root a) (root b) && list_eqb node_eqb (nodes a) (nodes b).
Definition flow_eqb (a b : flow) : bool :=
  (fname a =? fname b) && dgraph_eqb (freq a) (freq b) && dgraph_eqb (fres a) (fres b).

(* the flows of the case carrying a system-flow name of group g are exactly the
   generated ones *)
Definition group_ok (fs : list flow) (g : qgroup) : bool :=
  let r := rep_of g in
  list_eqb flow_eqb (filter (fun f => fname f =? sr_start_name r) fs) (gen_start r)
  && list_eqb flow_eqb (filter (fun f => fname f =? sr_end_name r) fs) (gen_end r).

(* ... and the system flows selected are START flows / END flows of the groups *)
Definition sys_selected_ok (gs : list qgroup) (s : selection) : bool :=
  forallb (fun f => existsb (fun g => existsb (flow_eqb f) (gen_start (rep_of g))) gs) (s_start s)
  && forallb (fun f => existsb (fun g => existsb (flow_eqb f) (gen_end (rep_of g))) gs) (s_end s).
