(* C04 — lemmas about Order.v (connection list as written -> graph). *)
From Coq Require Import List ZArith Bool Lia Permutation.
From Verif Require Import C04.Model C04.Order.
Import ListNotations.
Open Scope Z_scope.

Definition eo (ns : list (key * list edge)) (k : key) : list edge :=
  match find (fun n => fst n =? k) ns with Some n => snd n | None => [] end.

Lemma edges_of_eo : forall g k, edges_of g k = eo (nodes g) k.
Proof. reflexivity. Qed.

Lemma eo_upd : forall ns k f k',
  eo (upd ns k f) k' = if k' =? k then f (eo ns k') else eo ns k'.
Proof.
  induction ns as [|[k0 es] r IH]; intros k f k'; unfold eo in *; cbn [upd find fst snd].
  - rewrite (Z.eqb_sym k k'). destruct (k' =? k); reflexivity.
  - destruct (k0 =? k) eqn:E0; cbn [find fst snd].
    + apply Z.eqb_eq in E0. subst k0.
      rewrite (Z.eqb_sym k k'). destruct (k' =? k); reflexivity.
    + destruct (k0 =? k') eqn:E1.
      * apply Z.eqb_eq in E1. subst k0. rewrite E0. reflexivity.
      * apply IH.
Qed.

Lemma eo_ensure : forall ns k k', eo (ensure ns k) k' = eo ns k'.
Proof.
  intros. unfold ensure. rewrite eo_upd. destruct (k' =? k); reflexivity.
Qed.

Lemma eo_step : forall g c k,
  eo (nodes (step g c)) k =
  match c with
  | CEdge k' cd t => if k' =? k then add_edge (eo (nodes g) k) (cd, t) else eo (nodes g) k
  | _ => eo (nodes g) k
  end.
Proof.
  intros g [e|k' cd t|] k; cbn [step nodes].
  - apply eo_ensure.
  - rewrite eo_upd. rewrite (Z.eqb_sym k k').
    destruct t as [t|]; rewrite ?eo_ensure; reflexivity.
  - reflexivity.
Qed.

Lemma edges_fold : forall cs g k,
  eo (nodes (fold_left step cs g)) k = fold_left add_edge (written cs k) (eo (nodes g) k).
Proof.
  induction cs as [|c cs IH]; intros g k; cbn [fold_left written].
  - reflexivity.
  - rewrite IH, eo_step. destruct c as [e|k' cd t|]; try reflexivity.
    destruct (k' =? k); reflexivity.
Qed.

Lemma edges_written : forall cs k, edges_of (build cs) k = once (written cs k).
Proof. intros. rewrite edges_of_eo. unfold build. rewrite edges_fold. reflexivity. Qed.

(* ---- the entry point ------------------------------------------------------- *)

Definition pick (r : option key) (c : conn) : option key :=
  match c with CEntry k => Some k | _ => r end.

Lemma root_fold : forall cs g, root (fold_left step cs g) = fold_left pick cs (root g).
Proof.
  induction cs as [|c cs IH]; intros g; cbn [fold_left]; [reflexivity|].
  rewrite IH. destruct c; reflexivity.
Qed.

Lemma root_build : forall cs, root (build cs) = entry_of cs.
Proof. intros. unfold build. rewrite root_fold. reflexivity. Qed.

Lemma pick_entries : forall cs r,
  fold_left pick (filter is_entry cs) r = fold_left pick cs r.
Proof.
  induction cs as [|c cs IH]; intros r; cbn [filter fold_left]; [reflexivity|].
  destruct c; cbn [is_entry fold_left pick]; apply IH.
Qed.

Lemma pick_others : forall cs r,
  fold_left pick (filter (fun c => negb (is_entry c)) cs) r = r.
Proof.
  induction cs as [|c cs IH]; intros r; cbn [filter fold_left]; [reflexivity|].
  destruct c; cbn [is_entry negb fold_left pick]; apply IH.
Qed.

Lemma entry_of_entry_first : forall cs, entry_of (entry_first cs) = entry_of cs.
Proof.
  intros. unfold entry_of, entry_first. fold pick.
  rewrite fold_left_app, pick_others. apply pick_entries.
Qed.

(* ---- the stable arrangement keeps every processor's connections in order --- *)

Lemma written_app : forall a b k, written (a ++ b) k = written a k ++ written b k.
Proof.
  induction a as [|c a IH]; intros b k; cbn [app written]; [reflexivity|].
  destruct c as [e|k' cd t|]; try apply IH.
  destruct (k' =? k); [cbn [app]; f_equal|]; apply IH.
Qed.

Lemma written_entries : forall cs k, written (filter is_entry cs) k = [].
Proof.
  induction cs as [|c cs IH]; intros k; cbn [filter written]; [reflexivity|].
  destruct c; cbn [is_entry written]; apply IH.
Qed.

Lemma written_others : forall cs k,
  written (filter (fun c => negb (is_entry c)) cs) k = written cs k.
Proof.
  induction cs as [|c cs IH]; intros k; cbn [filter written]; [reflexivity|].
  destruct c as [e|k' cd t|]; cbn [is_entry negb written]; try apply IH.
  destruct (k' =? k); [f_equal|]; apply IH.
Qed.

Lemma written_entry_first : forall cs k, written (entry_first cs) k = written cs k.
Proof.
  intros. unfold entry_first. rewrite written_app, written_entries, written_others. reflexivity.
Qed.

(* ---- the walk reads the graph through edges_of only ------------------------ *)

Lemma loop_ext_all : forall (r1 r2 : key -> list ev * outcome) c es,
  (forall t, r1 t = r2 t) -> loop_impl r1 c es = loop_impl r2 c es.
Proof.
  intros r1 r2 c es H. induction es as [|[c' [t|]] es IH]; cbn [loop_impl].
  - reflexivity.
  - destruct (c' =? c); [|exact IH]. rewrite H. unfold andthen. rewrite IH. reflexivity.
  - exact IH.
Qed.

Lemma exec_same_edges : forall g g' gr d beh,
  (forall k, edges_of g k = edges_of g' k) ->
  forall fuel k, exec_impl g gr d beh fuel k = exec_impl g' gr d beh fuel k.
Proof.
  intros g g' gr d beh H. induction fuel as [|f IH]; intros k; cbn [exec_impl].
  - reflexivity.
  - destruct (answers beh d k); [reflexivity|].
    rewrite H. rewrite (loop_ext_all _ _ _ _ IH). reflexivity.
Qed.
