(* C04 — vocabulary of the final statements (definitions only): paths that
   follow the output conditions, the sequencing of sub-walks, the order in which
   the selected flows contribute to a transaction, and the acyclicity side
   condition under which the fuel of the model is never exhausted. *)
From Coq Require Import List ZArith Bool.
From Verif Require Import C04.Model.
Import ListNotations.
Open Scope Z_scope.

(* sub-walks one after the other, up to the first that does not finish normally
   (hand-over, error) *)
Fixpoint seq_walks (rs : list (list ev * outcome)) : list ev * outcome :=
  match rs with
  | [] => ([], Done)
  | r :: rest => andthen r (fun _ => seq_walks rest)
  end.

Section Path.
  Variable g : dgraph.
  Variable d : dir.
  Variable beh : oracle.

  (* [on_path s k]: k is reached from s by connections each of which carries
     the condition output by its source, never continuing from a processor
     that answered the request itself *)
  Inductive on_path : key -> key -> Prop :=
  | op_here : forall k, on_path k k
  | op_step : forall s t k,
      answers beh d s = false ->
      In (fst (beh s d), Some t) (edges_of g s) ->
      on_path t k -> on_path s k.
End Path.

Section Order.
  Variable fuel : nat.
  Variable beh : oracles.

  (* what one flow contributes, by the reference interpreter *)
  Definition flow_walk (d : dir) (start : option key) (f : flow) : list ev * outcome :=
    exec_flow_spec fuel f d start (beh (fname f)).
  Definition flow_events (d : dir) (start : option key) (f : flow) : list event :=
    tag f d (fst (flow_walk d start f)).

  (* the user flows that run on a request: up to and including the first one in
     which a processor answers the request *)
  Fixpoint users_prefix (fs : list flow) : list flow * option (Z * key) :=
    match fs with
    | [] => ([], None)
    | f :: rest =>
        match snd (flow_walk Req None f) with
        | Handed k => ([f], Some (fname f, k))
        | _ => let p := users_prefix rest in (f :: fst p, snd p)
        end
    end.

  Definition start_for (sc : option (Z * key)) (f : flow) : option key :=
    match sc with
    | Some (n, k) => if n =? fname f then Some k else None
    | None => None
    end.

  Definition res_order (s : selection) (sc : option (Z * key)) : list event :=
    flat_map (flow_events Res None) (rev (s_start s))
    ++ flat_map (fun f => flow_events Res (start_for sc f) f) (rev (s_user s))
    ++ flat_map (flow_events Res None) (rev (s_end s)).

  Definition req_order (s : selection) (s2 : option selection) : list event :=
    flat_map (flow_events Req None) (s_start s)
    ++ flat_map (flow_events Req None) (fst (users_prefix (s_user s)))
    ++ flat_map (flow_events Req None) (s_end s)
    ++ match snd (users_prefix (s_user s)), s2 with
       | Some h, Some s' => res_order s' (Some h)
       | _, _ => []
       end.

End Order.

(* acyclic directions: a rank that decreases along every connection and stays
   below the fuel given to the model *)
Definition dir_ok (fuel : nat) (g : dgraph) : Prop :=
  exists rk, ranked g rk /\ forall k, (rk k < fuel)%nat.
Definition flow_ok (fuel : nat) (f : flow) : Prop :=
  dir_ok fuel (freq f) /\ dir_ok fuel (fres f).
Definition sel_ok (fuel : nat) (s : selection) : Prop :=
  Forall (flow_ok fuel) (s_start s) /\ Forall (flow_ok fuel) (s_user s)
  /\ Forall (flow_ok fuel) (s_end s).

(* ---- every selected flow ------------------------------------------------------ *)

Definition sel_flows (s : selection) : list flow := s_start s ++ s_user s ++ s_end s.

(* ---- acyclicity without a bound: some rank decreases along every connection -- *)

Definition acyclic (g : dgraph) : Prop := exists rk, ranked g rk.
Definition flow_acyclic (f : flow) : Prop := acyclic (freq f) /\ acyclic (fres f).

(* the rank of an acyclic direction compressed below its number of nodes + 1:
   the number of nodes whose (given) rank is at most that of k *)
Definition crank (g : dgraph) (rk : key -> nat) (k : key) : nat :=
  length (filter (fun n => Nat.leb (rk (fst n)) (rk k)) (nodes g)).

(* ---- open finding F-C04d: the answer of a processor without response node ----

   The text: "When a processor answers the request itself, the rest of the
   request path is skipped and the response path continues from that processor's
   response connection."  Read for a processor that has NO node on the response
   side of its flow: the request is answered all the same (nothing continues in
   that flow).  [users_prefix_text] / [req_order_text] are the order of the text
   under that reading: an answering processor ends the user flows whether or not
   it has a response-side node.  The code instead fails the transaction
   ("failed to get response node"): the early response is dropped, the
   end-system request flows and the response path do not run. *)
Section Text.
  Variable fuel : nat.
  Variable beh : oracles.

  Fixpoint users_prefix_text (fs : list flow) : list flow * option (Z * key) :=
    match fs with
    | [] => ([], None)
    | f :: rest =>
        match snd (flow_walk fuel beh Req None f) with
        | Handed k | NoRespNode k => ([f], Some (fname f, k))
        | _ => let p := users_prefix_text rest in (f :: fst p, snd p)
        end
    end.

  Definition req_order_text (s : selection) (s2 : option selection) : list event :=
    flat_map (flow_events fuel beh Req None) (s_start s)
    ++ flat_map (flow_events fuel beh Req None) (fst (users_prefix_text (s_user s)))
    ++ flat_map (flow_events fuel beh Req None) (s_end s)
    ++ match snd (users_prefix_text (s_user s)), s2 with
       | Some h, Some s' => res_order fuel beh s' (Some h)
       | _, _ => []
       end.
End Text.

(* the classifier of F-C04d (what the monitor computes over the observed
   events): a request-direction event whose processor answers the request and
   whose flow - one of the flows [fs] that may run - has no node of that key on
   its response side *)
Definition dropped_event (beh : oracles) (fs : list flow) (e : event) : bool :=
  is_req (e_dir e) && answers (beh (e_flow e)) (e_dir e) (e_key e)
  && existsb (fun f => (fname f =? e_flow e) && negb (has_node (fres f) (e_key e))) fs.
Definition answer_dropped (beh : oracles) (fs : list flow) (t : list event) : bool :=
  existsb (dropped_event beh fs) t.

(* ---- the shape of the system flows generated from quotas ---------------------
   start-system flows have no response side to enter, end-system flows no
   request side (generate_flow_representation.go: the increment goes into a
   request chain of the START flow, the decrement into a response chain of the
   END flow) *)
Definition no_root (g : dgraph) : bool := match root g with None => true | Some _ => false end.
Definition quota_shape (s : selection) : bool :=
  forallb (fun f => no_root (fres f)) (s_start s) && forallb (fun f => no_root (freq f)) (s_end s).
