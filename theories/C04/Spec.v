(* C04 — vocabulary of the final statements (definitions only): paths that
   follow the output conditions, the sequencing of sub-walks, the order in which
   the selected flows contribute to a transaction, and the acyclicity side
   condition under which the fuel of the model is never exhausted. *)
From Coq Require Import List ZArith Bool.
From Verif Require Import C04.Model.
Import ListNotations.
Open Scope Z_scope.

(* sub-walks one after the other, up to the first that does not finish normally
   (hand-over, error) *)
Fixpoint seq_walks (rs : list (list ev * outcome)) : list ev * outcome :=
  match rs with
  | [] => ([], Done)
  | r :: rest => andthen r (fun _ => seq_walks rest)
  end.

Section Path.
  Variable g : dgraph.
  Variable d : dir.
  Variable beh : oracle.

  (* [on_path s k]: k is reached from s by connections each of which carries
     the condition output by its source, never continuing from a processor
     that answered the request itself *)
  Inductive on_path : key -> key -> Prop :=
  | op_here : forall k, on_path k k
  | op_step : forall s t k,
      answers beh d s = false ->
      In (fst (beh s d), Some t) (edges_of g s) ->
      on_path t k -> on_path s k.
End Path.

Section Order.
  Variable fuel : nat.
  Variable beh : oracles.

  (* what one flow contributes, by the reference interpreter *)
  Definition flow_walk (d : dir) (start : option key) (f : flow) : list ev * outcome :=
    exec_flow_spec fuel f d start (beh (fname f)).
  Definition flow_events (d : dir) (start : option key) (f : flow) : list event :=
    tag f d (fst (flow_walk d start f)).

  (* the user flows that run on a request: up to and including the first one in
     which a processor answers the request *)
  Fixpoint users_prefix (fs : list flow) : list flow * option (Z * key) :=
    match fs with
    | [] => ([], None)
    | f :: rest =>
        match snd (flow_walk Req None f) with
        | Handed k => ([f], Some (fname f, k))
        | _ => let p := users_prefix rest in (f :: fst p, snd p)
        end
    end.

  Definition start_for (sc : option (Z * key)) (f : flow) : option key :=
    match sc with
    | Some (n, k) => if n =? fname f then Some k else None
    | None => None
    end.

  Definition res_order (s : selection) (sc : option (Z * key)) : list event :=
    flat_map (flow_events Res None) (rev (s_start s))
    ++ flat_map (fun f => flow_events Res (start_for sc f) f) (rev (s_user s))
    ++ flat_map (flow_events Res None) (rev (s_end s)).

  Definition req_order (s : selection) (s2 : option selection) : list event :=
    flat_map (flow_events Req None) (s_start s)
    ++ flat_map (flow_events Req None) (fst (users_prefix (s_user s)))
    ++ flat_map (flow_events Req None) (s_end s)
    ++ match snd (users_prefix (s_user s)), s2 with
       | Some h, Some s' => res_order s' (Some h)
       | _, _ => []
       end.

End Order.

(* acyclic directions: a rank that decreases along every connection and stays
   below the fuel given to the model *)
Definition dir_ok (fuel : nat) (g : dgraph) : Prop :=
  exists rk, ranked g rk /\ forall k, (rk k < fuel)%nat.
Definition flow_ok (fuel : nat) (f : flow) : Prop :=
  dir_ok fuel (freq f) /\ dir_ok fuel (fres f).
Definition sel_ok (fuel : nat) (s : selection) : Prop :=
  Forall (flow_ok fuel) (s_start s) /\ Forall (flow_ok fuel) (s_user s)
  /\ Forall (flow_ok fuel) (s_end s).

