(* C04 — what the per-case check of the written connection lists
   (OrderSuite.dir_agrees, evaluated by run_case_ord on every case) guarantees. *)
From Coq Require Import List ZArith Bool Arith.
From Verif Require Import C04.Model C04.Order C04.OrderProofs C04.OrderSuite.
Import ListNotations.
Open Scope Z_scope.

Lemma edge_eqb_eq : forall a b : edge, edge_eqb a b = true -> a = b.
Proof.
  intros [c [t|]] [c' [t'|]]; unfold edge_eqb; cbn [fst snd]; intros H;
    apply andb_prop in H; destruct H as [H1 H2]; apply Z.eqb_eq in H1; subst c';
    try discriminate H2; [apply Z.eqb_eq in H2; subst t'|]; reflexivity.
Qed.

Lemma combine_eqb_eq : forall a b : list edge,
  length a = length b ->
  forallb (fun p => edge_eqb (fst p) (snd p)) (combine a b) = true -> a = b.
Proof.
  induction a as [|x a IH]; intros [|y b] L H; cbn in L; try discriminate L; [reflexivity|].
  cbn [combine forallb fst snd] in H. apply andb_prop in H. destruct H as [H1 H2].
  apply edge_eqb_eq in H1. subst y. f_equal. apply IH; [congruence|exact H2].
Qed.

Lemma edges_eqb_eq : forall a b, edges_eqb a b = true -> a = b.
Proof.
  intros a b H. unfold edges_eqb in H. apply andb_prop in H. destruct H as [H1 H2].
  apply Nat.eqb_eq in H1. apply combine_eqb_eq; assumption.
Qed.

Lemma root_eqb_eq : forall a b, root_eqb a b = true -> a = b.
Proof.
  intros [x|] [y|] H; cbn in H; try discriminate H; [apply Z.eqb_eq in H; subst|]; reflexivity.
Qed.

(* A direction that passed the check: its entry point is the one the written list
   names, and the connections of each of its processors are exactly that
   processor's connections in the list, in written order. *)
Theorem C04_checked_connection_list : forall g cs,
  dir_agrees g cs = true ->
  root g = entry_of cs
  /\ forall k es, In (k, es) (nodes g) -> es = once (written cs k).
Proof.
  intros g cs H. unfold dir_agrees in H.
  apply andb_prop in H. destruct H as [H H3]. apply andb_prop in H. destruct H as [H1 H2].
  split.
  - apply root_eqb_eq in H1. rewrite <- H1. apply root_build.
  - intros k es I. rewrite forallb_forall in H2. specialize (H2 _ I). cbn [fst snd] in H2.
    apply edges_eqb_eq in H2. rewrite <- H2. apply edges_written.
Qed.
Print Assumptions C04_checked_connection_list.
