(* C04 — which processor instance runs at a node: lemmas. *)
From Coq Require Import List ZArith Bool Lia.
From Verif Require Import C04.Model C04.Spec C04.Proofs C04.Quota C04.Suite C04.Instance.
Import ListNotations.
Open Scope Z_scope.

(* ------------------------------------------------------------- node maps *)

Lemma lookup_app_single : forall m k' i k,
  lookup (m ++ [(k', i)]) k
  = match lookup m k with
    | Some x => Some x
    | None => if k' =? k then Some i else None
    end.
Proof.
  intros m k' i k. unfold lookup. induction m as [|p m IH].
  - cbn. destruct (k' =? k); reflexivity.
  - change ((p :: m) ++ [(k', i)]) with (p :: (m ++ [(k', i)])).
    cbn [find]. cbn beta.
    match goal with |- context [if ?c then Some p else _] => destruct c end;
      [reflexivity|exact IH].
Qed.

(* getOrCreateNode keeps the node the FIRST mention of a key created *)
Lemma build_from : forall v decl ms m0 k,
  lookup (fold_left (get_or_create v decl) ms m0) k
  = match lookup m0 k with
    | Some x => Some x
    | None => option_map (fun m => resolve v decl (fst m) (snd m)) (first_mention ms k)
    end.
Proof.
  intros v decl ms. induction ms as [|m ms IH]; intros m0 k; cbn [fold_left first_mention].
  - destruct (lookup m0 k); reflexivity.
  - rewrite IH. unfold get_or_create.
    destruct (lookup m0 (r_key (snd m))) as [x|] eqn:L.
    + destruct (r_key (snd m) =? k) eqn:E.
      * apply Z.eqb_eq in E. rewrite <- E, L. reflexivity.
      * reflexivity.
    + rewrite lookup_app_single. destruct (lookup m0 k) as [y|] eqn:L2; [reflexivity|].
      destruct (r_key (snd m) =? k); reflexivity.
Qed.

Lemma build_insts_first : forall v decl ms k,
  lookup (build_insts v decl ms) k
  = option_map (fun m => resolve v decl (fst m) (snd m)) (first_mention ms k).
Proof. intros. unfold build_insts. rewrite build_from. reflexivity. Qed.

Lemma ran_spec : forall v decl ifs fl d k,
  ran v decl ifs fl d k
  = match find_iflow ifs fl with
    | Some f => lookup (imap_of v decl f d) k
    | None => None
    end.
Proof.
  intros v decl ifs fl d k. unfold ran, ran_in, imaps, find_iflow.
  induction ifs as [|f ifs IH]; cbn [map find fst snd]; [reflexivity|].
  destruct (fname (i_flow f) =? fl); [destruct d; reflexivity|exact IH].
Qed.

(* the instance of a node, by the first reference that mentions its key *)
Lemma ran_first : forall v decl ifs fl d k f m,
  find_iflow ifs fl = Some f ->
  first_mention (i_refs f d) k = Some m ->
  ran v decl ifs fl d k = Some (resolve v decl (fst m) (snd m)).
Proof.
  intros v decl ifs fl d k f m F M. rewrite ran_spec, F. unfold imap_of.
  rewrite build_insts_first, M. reflexivity.
Qed.

(* ------------------------------------------------------------- every event reports its own output *)

Lemma flow_own : forall fuel f d start beh k c,
  In (k, c) (fst (exec_flow_impl fuel f d start beh)) -> c = fst (beh k d).
Proof. intros fuel f d start beh k c I. exact (proj1 (flow_on_path _ _ _ _ _ _ _ I)). Qed.

Section Own.
  Variable fuel : nat.
  Variable beh : oracles.

  Lemma tag_own : forall f d start,
    Forall (own_output beh) (tag f d (fst (exec_flow_impl fuel f d start (beh (fname f))))).
  Proof.
    intros f d start. apply Forall_forall. intros e I. unfold tag in I.
    apply in_map_iff in I. destruct I as [[k c] [E I]]. subst e. unfold own_output. cbn.
    exact (flow_own _ _ _ _ _ _ _ I).
  Qed.

  Lemma run_list_own : forall d fs, Forall (own_output beh) (fst (run_list fuel beh d fs)).
  Proof.
    intros d fs. induction fs as [|f fs IH]; cbn [run_list]; [constructor|].
    destruct (failed (snd (exec_flow_impl fuel f d None (beh (fname f))))); cbn [fst].
    - apply tag_own.
    - apply Forall_app. split; [apply tag_own|exact IH].
  Qed.

  Lemma run_users_req_own : forall fs,
    Forall (own_output beh) (fst (fst (run_users_req fuel beh fs))).
  Proof.
    induction fs as [|f fs IH]; cbn [run_users_req]; [constructor|].
    destruct (snd (exec_flow_impl fuel f Req None (beh (fname f)))).
    - destruct (run_users_req fuel beh fs) as [[t2 sc] e]. cbn [fst] in *.
      apply Forall_app. split; [apply tag_own|exact IH].
    - cbn [fst]. apply tag_own.
    - cbn [fst]. apply tag_own.
    - cbn [fst]. apply tag_own.
  Qed.

  Lemma run_users_res_own : forall sc fs,
    Forall (own_output beh) (fst (run_users_res fuel beh sc fs)).
  Proof.
    intros sc fs. induction fs as [|f fs IH]; cbn [run_users_res]; [constructor|].
    match goal with |- context [exec_flow_impl fuel f Res ?st _] => set (st0 := st) end.
    destruct (failed (snd (exec_flow_impl fuel f Res st0 (beh (fname f))))); cbn [fst].
    - apply tag_own.
    - apply Forall_app. split; [apply tag_own|exact IH].
  Qed.

  Lemma then_own : forall r rest,
    Forall (own_output beh) (fst r) -> Forall (own_output beh) (fst (rest tt)) ->
    Forall (own_output beh) (fst (then_ r rest)).
  Proof.
    intros r rest A B. unfold then_. destruct (snd r); [exact A|].
    cbn [fst]. apply Forall_app. split; assumption.
  Qed.

  Lemma run_res_own : forall s sc, Forall (own_output beh) (fst (run_res fuel beh s sc)).
  Proof.
    intros s sc. unfold run_res.
    apply then_own; [apply run_list_own|].
    apply then_own; [apply run_users_res_own|apply run_list_own].
  Qed.

  Lemma run_req_own : forall s s2, Forall (own_output beh) (fst (run_req fuel beh s s2)).
  Proof.
    intros s s2. unfold run_req.
    apply then_own; [apply run_list_own|].
    pose proof (run_users_req_own (s_user s)) as U.
    destruct (run_users_req fuel beh (s_user s)) as [[t2 sc] e2]. cbn [fst] in U.
    apply then_own; [exact U|].
    apply then_own; [apply run_list_own|].
    destruct sc as [h|]; [|constructor].
    destruct s2 as [s'|]; [|constructor].
    apply run_res_own.
  Qed.
End Own.

(* ------------------------------------------------------------- annotated events *)

Lemma annotate_in : forall v decl ifs t e,
  In e (annotate v decl ifs t) ->
  In (fst e) t /\ snd e = ran v decl ifs (e_flow (fst e)) (e_dir (fst e)) (e_key (fst e)).
Proof.
  intros v decl ifs t e I. unfold annotate in I. apply in_map_iff in I.
  destruct I as [x [E I]]. subst e. cbn. split; [exact I|reflexivity].
Qed.

Lemma map_fst_annotate : forall v decl ifs t, map fst (annotate v decl ifs t) = t.
Proof.
  intros. unfold annotate. rewrite map_map. cbn. apply map_id.
Qed.

(* an event of a trace all of whose events report their own output, annotated:
   it ran the instance the first mention of its key resolves to and reports
   that instance's output *)
Lemma annotated_event : forall v decl ifs ib t e f m,
  Forall (own_output (beh_of v decl ifs ib)) t ->
  In e (annotate v decl ifs t) ->
  find_iflow ifs (e_flow (fst e)) = Some f ->
  first_mention (i_refs f (e_dir (fst e))) (e_key (fst e)) = Some m ->
  snd e = Some (resolve v decl (fst m) (snd m))
  /\ e_cond (fst e) = fst (ib (resolve v decl (fst m) (snd m)) (e_dir (fst e))).
Proof.
  intros v decl ifs ib t e f m O I F M.
  destruct (annotate_in _ _ _ _ _ I) as [I1 R].
  pose proof (ran_first v decl ifs _ _ _ f m F M) as RF.
  split; [rewrite R; exact RF|].
  rewrite Forall_forall in O. specialize (O _ I1). unfold own_output in O.
  rewrite O. unfold beh_of, beh_of_maps. fold (ran v decl ifs). rewrite RF. reflexivity.
Qed.

(* ------------------------------------------------------------- the two resolvers agree without a clash *)

Lemma resolve_clash_free : forall decl m,
  mention_clash_free decl m = true ->
  resolve LocalFirst decl (fst m) (snd m) = resolve ByNamedFlow decl (fst m) (snd m).
Proof.
  intros decl [cur r] H. unfold mention_clash_free in H. cbn [fst snd] in *.
  unfold resolve, named. destruct (r_by r) as [g|] eqn:B.
  - apply orb_true_iff in H. destruct H as [H|H].
    + apply Z.eqb_eq in H. subst g. destruct (declaredb decl (cur, r_name r)); reflexivity.
    + apply negb_true_iff in H. rewrite H. reflexivity.
  - destruct (declaredb decl (cur, r_name r)); reflexivity.
Qed.

Lemma fold_goc_ext : forall decl ms m0,
  forallb (mention_clash_free decl) ms = true ->
  fold_left (get_or_create LocalFirst decl) ms m0
  = fold_left (get_or_create ByNamedFlow decl) ms m0.
Proof.
  intros decl ms. induction ms as [|m ms IH]; intros m0 H; cbn [fold_left]; [reflexivity|].
  cbn [forallb] in H. apply andb_true_iff in H. destruct H as [H1 H2].
  assert (E : get_or_create LocalFirst decl m0 m = get_or_create ByNamedFlow decl m0 m).
  { unfold get_or_create. rewrite (resolve_clash_free decl m H1). reflexivity. }
  rewrite E. apply IH. exact H2.
Qed.

Lemma imaps_clash_free : forall decl ifs,
  clash_free decl ifs = true -> imaps LocalFirst decl ifs = imaps ByNamedFlow decl ifs.
Proof.
  intros decl ifs H. unfold imaps. apply map_ext_in. intros f I.
  unfold clash_free in H. rewrite forallb_forall in H. specialize (H f I).
  apply andb_true_iff in H. destruct H as [A B].
  unfold imap_of, build_insts, i_refs.
  rewrite (fold_goc_ext decl (i_req f) [] A), (fold_goc_ext decl (i_res f) [] B). reflexivity.
Qed.
