(* C04 — the processor a node runs is the one its connection NAMES.
   Final statements only; definitions in Instance.v, lemmas in InstanceProofs.v.

   Property text: "processors run in the order given by the flow's connections
   ... and no processor off that path runs."  A connection of flow F names a
   processor either by a plain key k - the processor F declares under k - or as
   "G.k" - the processor flow G declares under k.  Several flows may declare a
   processor under the same key; each declaration is an instance of its own.
   Model.v's events carry the node key only; here every executed node carries
   the INSTANCE it ran, and the oracle is indexed by instance ([ibeh]): a node
   outputs what its instance outputs.  All statements of Property.v hold for
   every oracle, hence for [beh_of v decl ifs ib] - C04_instance_order lifts the
   order statements explicitly. *)
From Coq Require Import List ZArith Bool Lia.
From Verif Require Import C04.Model C04.Spec C04.Proofs C04.Property C04.Quota C04.Suite.
From Verif Require Import C04.Instance C04.InstanceProofs.
Import ListNotations.
Open Scope Z_scope.

(* ---- the statement, with the resolver as a switch ----------------------------- *)

(* Every executed node - of a request (with its continuation after a hand-over)
   or of a response, over all configurations (declarations [decl], flows with the
   references of their connections [ifs]), instance behaviours, selections and
   fuels - ran the instance NAMED by the reference that created the node (the
   first one that mentions its key, [cur] being the flow whose connection list
   holds it), and the output reported for it is that instance's output. *)
Definition runs_named_instances (v : resolver) : Prop :=
  forall decl ifs ib fuel s s2 sc e f cur r,
    In e (fst (run_req_i v decl ifs ib fuel s s2))
    \/ In e (fst (run_res_i v decl ifs ib fuel s sc)) ->
    find_iflow ifs (e_flow (fst e)) = Some f ->
    first_mention (i_refs f (e_dir (fst e))) (e_key (fst e)) = Some (cur, r) ->
    snd e = Some (named cur r)
    /\ e_cond (fst e) = fst (ib (named cur r) (e_dir (fst e))).

(* The builder of /repo (buildNode: GetProcessorInstance(createdByFlow, name),
   createdByFlow = the flow the reference names, else the flow being read). *)
Theorem C04_runs_named_instances : runs_named_instances ByNamedFlow.
Proof.
  intros decl ifs ib fuel s s2 sc e f cur r I F M.
  destruct I as [I|I]; unfold run_req_i, run_res_i in I; cbn [fst] in I.
  - exact (annotated_event ByNamedFlow decl ifs ib _ e f (cur, r)
             (run_req_own fuel _ s s2) I F M).
  - exact (annotated_event ByNamedFlow decl ifs ib _ e f (cur, r)
             (run_res_own fuel _ s sc) I F M).
Qed.
Print Assumptions C04_runs_named_instances.

(* In particular a node reached through a reference "G.k" runs G's processor k -
   whether or not the flow whose connections hold the reference declares a
   processor under k itself. *)
Theorem C04_reference_runs_the_named_flows_processor :
  forall decl ifs ib fuel s s2 sc e f cur r g,
    In e (fst (run_req_i ByNamedFlow decl ifs ib fuel s s2))
    \/ In e (fst (run_res_i ByNamedFlow decl ifs ib fuel s sc)) ->
    find_iflow ifs (e_flow (fst e)) = Some f ->
    first_mention (i_refs f (e_dir (fst e))) (e_key (fst e)) = Some (cur, r) ->
    r_by r = Some g ->
    snd e = Some (g, r_name r)
    /\ e_cond (fst e) = fst (ib (g, r_name r) (e_dir (fst e))).
Proof.
  intros decl ifs ib fuel s s2 sc e f cur r g I F M B.
  pose proof (C04_runs_named_instances decl ifs ib fuel s s2 sc e f cur r I F M) as H.
  unfold named in H. rewrite B in H. exact H.
Qed.
Print Assumptions C04_reference_runs_the_named_flows_processor.

(* "no processor off that path runs", for instances: whatever instance ran at an
   executed node IS the one named by the reference that created the node - a
   processor a flow declares runs only where a connection on the path names it. *)
Theorem C04_no_unnamed_instance_runs : forall decl ifs ib fuel s s2 sc e i,
  In e (fst (run_req_i ByNamedFlow decl ifs ib fuel s s2))
  \/ In e (fst (run_res_i ByNamedFlow decl ifs ib fuel s sc)) ->
  snd e = Some i ->
  exists f cur r,
    find_iflow ifs (e_flow (fst e)) = Some f
    /\ first_mention (i_refs f (e_dir (fst e))) (e_key (fst e)) = Some (cur, r)
    /\ i = named cur r.
Proof.
  intros decl ifs ib fuel s s2 sc e i I S.
  assert (R : snd e = ran ByNamedFlow decl ifs (e_flow (fst e)) (e_dir (fst e)) (e_key (fst e))).
  { destruct I as [I|I]; unfold run_req_i, run_res_i in I; cbn [fst] in I;
      exact (proj2 (annotate_in _ _ _ _ _ I)). }
  rewrite S, ran_spec in R.
  destruct (find_iflow ifs (e_flow (fst e))) as [f|] eqn:F; [|discriminate].
  unfold imap_of in R. rewrite build_insts_first in R.
  destruct (first_mention (i_refs f (e_dir (fst e))) (e_key (fst e))) as [[cur r]|] eqn:M;
    [|discriminate].
  cbn in R. inversion R. exists f, cur, r. split; [reflexivity|]. split; [exact M|reflexivity].
Qed.
Print Assumptions C04_no_unnamed_instance_runs.

(* ---- the order statements, lifted ---------------------------------------------- *)

(* C04_system_order / C04_system_order_response for the instance-level runs, for
   either resolver: the events (instances forgotten) are the reference order
   under the oracle the resolver induces. *)
Theorem C04_instance_order : forall v decl ifs ib fuel s s2 sc,
  (snd (run_req_i v decl ifs ib fuel s s2) = None ->
   map fst (fst (run_req_i v decl ifs ib fuel s s2))
   = req_order fuel (beh_of v decl ifs ib) s s2)
  /\ (snd (run_res_i v decl ifs ib fuel s sc) = None ->
      map fst (fst (run_res_i v decl ifs ib fuel s sc))
      = res_order fuel (beh_of v decl ifs ib) s sc).
Proof.
  intros v decl ifs ib fuel s s2 sc. unfold run_req_i, run_res_i. cbn [fst snd].
  rewrite !map_fst_annotate. split; intros H.
  - exact (C04_system_order fuel _ s s2 H).
  - exact (C04_system_order_response fuel _ s sc H).
Qed.
Print Assumptions C04_instance_order.

(* ---- the seeded variant: "the flow's own processor first" ----------------------- *)

(* witness: flow A (1) runs  first(1) -> "B.audit"(2) -8-> after(4)  on requests
   and its OWN audit(3) on responses; flow B (2) declares audit(3) too.
   B's audit outputs 8, A's audit outputs 7. *)
Definition x_ref (k : key) (by_ : option Z) (n : Z) : pref := {| r_key := k; r_by := by_; r_name := n |}.
Definition x_A : iflow :=
  {| i_flow := {| fname := 1;
                  freq := {| root := Some 1;
                             nodes := [(1, [(0, Some 2)]); (2, [(8, Some 4)]); (4, [(0, None)])] |};
                  fres := {| root := Some 3; nodes := [(3, [(0, None)])] |} |};
     i_req := [(1, x_ref 1 None 1); (1, x_ref 1 None 1); (1, x_ref 2 (Some 2) 3);
               (1, x_ref 2 (Some 2) 3); (1, x_ref 4 None 4); (1, x_ref 4 None 4)];
     i_res := [(1, x_ref 3 None 3); (1, x_ref 3 None 3)] |}.
Definition x_B : iflow :=
  {| i_flow := {| fname := 2;
                  freq := {| root := Some 3; nodes := [(3, [(8, None)])] |};
                  fres := {| root := None; nodes := [] |} |};
     i_req := [(2, x_ref 3 None 3); (2, x_ref 3 None 3)];
     i_res := [] |}.
Definition x_decl : list inst := [(1, 1); (1, 3); (1, 4); (2, 3)].
Definition x_ib : ibeh :=
  fun i _ => if inst_eqb i (2, 3) then (8, Plain) else if inst_eqb i (1, 3) then (7, Plain) else (0, Plain).
Definition x_sel : selection := {| s_start := []; s_user := [i_flow x_A]; s_end := [] |}.

Definition x_ev (k : key) (c : cond) : event := {| e_flow := 1; e_key := k; e_dir := Req; e_cond := c |}.

(* what /repo does, and what the variant does: the node "B.audit" runs A's own
   audit (a processor that is off the request path), reports ITS output, and the
   processor behind the connection on 8 never runs *)
Example C04_local_first_witness :
  run_req_i ByNamedFlow x_decl [x_A; x_B] x_ib 5 x_sel None
  = ([(x_ev 1 0, Some (1, 1)); (x_ev 2 8, Some (2, 3)); (x_ev 4 0, Some (1, 4))], None)
  /\ run_req_i LocalFirst x_decl [x_A; x_B] x_ib 5 x_sel None
     = ([(x_ev 1 0, Some (1, 1)); (x_ev 2 7, Some (1, 3))], None)
  /\ clash_free x_decl [x_A; x_B] = false
  /\ inst_ok x_decl [x_A; x_B] = true.
Proof. vm_compute. repeat split; reflexivity. Qed.

Theorem C04_local_first_refuted : ~ runs_named_instances LocalFirst.
Proof.
  intros H.
  specialize (H x_decl [x_A; x_B] x_ib 5%nat x_sel None None
                (x_ev 2 7, Some (1, 3)) x_A 1 (x_ref 2 (Some 2) 3)).
  assert (I : In (x_ev 2 7, Some (1, 3))
                 (fst (run_req_i LocalFirst x_decl [x_A; x_B] x_ib 5 x_sel None))).
  { vm_compute. right. left. reflexivity. }
  destruct (H (or_introl I) eq_refl eq_refl) as [A _]. vm_compute in A. discriminate.
Qed.
Print Assumptions C04_local_first_refuted.

(* ... and the clash is the ONLY place where the variant differs: when no
   connection list read with flow F names "G.k" (G <> F) while F declares k
   itself ([clash_free], decidable), the two resolvers build the same node maps
   and every transaction is the same. *)
Theorem C04_resolvers_agree_without_clash : forall decl ifs ib fuel s s2 sc,
  clash_free decl ifs = true ->
  run_req_i LocalFirst decl ifs ib fuel s s2 = run_req_i ByNamedFlow decl ifs ib fuel s s2
  /\ run_res_i LocalFirst decl ifs ib fuel s sc = run_res_i ByNamedFlow decl ifs ib fuel s sc.
Proof.
  intros decl ifs ib fuel s s2 sc H. pose proof (imaps_clash_free decl ifs H) as E.
  unfold run_req_i, run_res_i, annotate, ran, beh_of. rewrite E. split; reflexivity.
Qed.
Print Assumptions C04_resolvers_agree_without_clash.

(* the hypothesis is satisfiable on a configuration that does use a reference:
   the witness without A's own audit *)
Example C04_clash_free_witness :
  let decl := [(1, 1); (1, 4); (2, 3)] in
  let a := {| i_flow := i_flow x_A; i_req := i_req x_A; i_res := [] |} in
  clash_free decl [a; x_B] = true
  /\ fst (run_req_i LocalFirst decl [a; x_B] x_ib 5 x_sel None)
     = [(x_ev 1 0, Some (1, 1)); (x_ev 2 8, Some (2, 3)); (x_ev 4 0, Some (1, 4))].
Proof. vm_compute. split; reflexivity. Qed.

(* the hypotheses of C04_reference_runs_the_named_flows_processor are met by the
   witness, with the clash present *)
Example C04_reference_witness :
  In (x_ev 2 8, Some (2, 3)) (fst (run_req_i ByNamedFlow x_decl [x_A; x_B] x_ib 5 x_sel None))
  /\ find_iflow [x_A; x_B] 1 = Some x_A
  /\ first_mention (i_refs x_A Req) 2 = Some (1, x_ref 2 (Some 2) 3)
  /\ declaredb x_decl (1, 3) = true.
Proof. vm_compute. repeat split; try reflexivity. right. left. reflexivity. Qed.

(* ---- what a case that passes [run_case_inst] guarantees ------------------------- *)

Lemma inst_eqb_eq : forall a b, inst_eqb a b = true -> a = b.
Proof.
  intros [a1 a2] [b1 b2] H. unfold inst_eqb in H. cbn in H.
  apply andb_true_iff in H. destruct H as [A B].
  apply Z.eqb_eq in A. apply Z.eqb_eq in B. subst. reflexivity.
Qed.

(* every node of every direction runs a declared instance, and EVERY reference
   to a node's key - not only the first - names the instance the node runs: in
   the configurations of the suite the first-mention rule decides nothing *)
Theorem C04_checked_instance_case : forall decl ifs,
  inst_ok decl ifs = true ->
  forall f d, In f ifs ->
    (forall n, In n (nodes (gdir (i_flow f) d)) ->
       exists i, lookup (imap_of ByNamedFlow decl f d) (fst n) = Some i
                 /\ declaredb decl i = true)
    /\ (forall m, In m (i_refs f d) ->
          lookup (imap_of ByNamedFlow decl f d) (r_key (snd m)) = Some (named (fst m) (snd m))).
Proof.
  intros decl ifs H f d I. unfold inst_ok in H. rewrite forallb_forall in H.
  specialize (H f I). apply andb_true_iff in H. destruct H as [Q S].
  assert (D : dir_inst_ok decl (gdir (i_flow f) d) (i_refs f d) (imap_of ByNamedFlow decl f d) = true)
    by (destruct d; assumption).
  unfold dir_inst_ok in D. apply andb_true_iff in D. destruct D as [N R].
  rewrite forallb_forall in N, R. split.
  - intros n J. specialize (N n J).
    destruct (lookup (imap_of ByNamedFlow decl f d) (fst n)) as [i|]; [|discriminate].
    exists i. split; [reflexivity|exact N].
  - intros m J. specialize (R m J).
    destruct (lookup (imap_of ByNamedFlow decl f d) (r_key (snd m))) as [i|]; [|discriminate].
    apply inst_eqb_eq in R. subst i. reflexivity.
Qed.
Print Assumptions C04_checked_instance_case.

(* ... and the instance oracle is GIVEN wherever the interpreter consults it:
   every node of every direction runs an instance that has a row for that
   direction, and [dec_ioracle] returns that row - the totalising defaults
   ((0, Plain) for an unmapped node in [beh_of_maps], for an instance without
   row in [dec_ioracle]) stand in for no processor's output in a case that
   passes [run_case_inst]. *)
Lemma existsb_find : forall (X : Type) (p : X -> bool) l,
  existsb p l = true -> exists x, find p l = Some x.
Proof.
  intros X p l. induction l as [|a l IH]; cbn; intros H; [discriminate|].
  destruct (p a); [exists a; reflexivity|exact (IH H)].
Qed.

Theorem C04_checked_instance_rows : forall rows decl ifs,
  rows_ok rows decl ifs = true ->
  forall f d n, In f ifs -> In n (nodes (gdir (i_flow f) d)) ->
    exists i c e,
      lookup (imap_of ByNamedFlow decl f d) (fst n) = Some i
      /\ In (IR (fst i) (snd i) (is_req d) c e) rows
      /\ dec_ioracle rows i d = (c, if e then Early else Plain).
Proof.
  intros rows decl ifs H f d n I J. unfold rows_ok in H. rewrite forallb_forall in H.
  specialize (H f I). apply andb_true_iff in H. destruct H as [Q S].
  assert (D : dir_rows_ok rows d (gdir (i_flow f) d) (imap_of ByNamedFlow decl f d) = true)
    by (destruct d; assumption).
  unfold dir_rows_ok in D. rewrite forallb_forall in D. specialize (D n J).
  destruct (lookup (imap_of ByNamedFlow decl f d) (fst n)) as [i|]; [|discriminate].
  unfold has_row in D. destruct (existsb_find _ _ _ D) as [r F].
  destruct (find_some _ _ F) as [K R]. destruct r as [o m q c e].
  unfold row_for in R. apply andb_true_iff in R. destruct R as [R R3].
  apply andb_true_iff in R. destruct R as [R1 R2].
  apply Z.eqb_eq in R1. apply Z.eqb_eq in R2. apply eqb_prop in R3. subst o m q.
  exists i, c, e. split; [reflexivity|]. split; [exact K|].
  unfold dec_ioracle. rewrite F. reflexivity.
Qed.
Print Assumptions C04_checked_instance_rows.

(* the check is not vacuous and not trivially true: it holds on the witness
   configuration with a row per instance and direction, and fails as soon as
   the row of one executed instance is missing *)
Example C04_rows_witness :
  let rows := [IR 1 1 true 0 false; IR 2 3 true 8 false; IR 1 4 true 0 false; IR 1 3 false 7 false] in
  rows_ok rows x_decl [x_A; x_B] = true
  /\ dec_ioracle rows (2, 3) Req = (8, Plain)
  /\ rows_ok (IR 1 1 true 0 false :: skipn 2 rows) x_decl [x_A; x_B] = false
  /\ rows_ok rows x_decl [{| i_flow := i_flow x_A; i_req := []; i_res := i_res x_A |}; x_B] = false.
Proof. vm_compute. repeat split; reflexivity. Qed.

(* ---- the headline without the first-mention caveat ------------------------------ *)

Lemma first_mention_some : forall ms k m,
  In m ms -> r_key (snd m) = k -> exists m', first_mention ms k = Some m'.
Proof.
  induction ms as [|a ms IH]; cbn [In first_mention]; intros k m I K; [destruct I|].
  destruct (r_key (snd a) =? k) eqn:E; [exists a; reflexivity|].
  destruct I as [I|I]; [subst a; rewrite K, Z.eqb_refl in E; discriminate E|].
  exact (IH k m I K).
Qed.

(* What suite txn really establishes per case: in a configuration that passes
   [inst_ok], an executed node ran the instance named by EVERY reference to its
   key in the connection lists of its flow and direction (not only by the one
   that created the node), and reports that instance's output.
   C04_runs_named_instances + C04_checked_instance_case. *)
Theorem C04_checked_case_every_reference : forall decl ifs ib fuel s s2 sc e f m,
  inst_ok decl ifs = true ->
  In e (fst (run_req_i ByNamedFlow decl ifs ib fuel s s2))
  \/ In e (fst (run_res_i ByNamedFlow decl ifs ib fuel s sc)) ->
  find_iflow ifs (e_flow (fst e)) = Some f ->
  In m (i_refs f (e_dir (fst e))) -> r_key (snd m) = e_key (fst e) ->
  snd e = Some (named (fst m) (snd m))
  /\ e_cond (fst e) = fst (ib (named (fst m) (snd m)) (e_dir (fst e))).
Proof.
  intros decl ifs ib fuel s s2 sc e f m H I F J K.
  assert (Jf : In f ifs) by (unfold find_iflow in F; exact (proj1 (find_some _ _ F))).
  destruct (first_mention_some _ _ _ J K) as [[cur r] M].
  destruct (C04_runs_named_instances decl ifs ib fuel s s2 sc e f cur r I F M) as [A B].
  pose proof (proj2 (C04_checked_instance_case decl ifs H f (e_dir (fst e)) Jf) m J) as L.
  rewrite K in L. unfold imap_of in L. rewrite build_insts_first, M in L.
  unfold resolve in L. cbn [option_map fst snd] in L.
  assert (E : named cur r = named (fst m) (snd m)) by congruence.
  rewrite <- E. split; assumption.
Qed.
Print Assumptions C04_checked_case_every_reference.

(* hypotheses met on the witness: the second reference "B.audit" of flow A's
   request list (not the creating one) and the event of node 2 *)
Example C04_every_reference_witness :
  inst_ok x_decl [x_A; x_B] = true
  /\ In (x_ev 2 8, Some (2, 3)) (fst (run_req_i ByNamedFlow x_decl [x_A; x_B] x_ib 5 x_sel None))
  /\ find_iflow [x_A; x_B] 1 = Some x_A
  /\ nth_error (i_refs x_A Req) 3 = Some (1, x_ref 2 (Some 2) 3)
  /\ named 1 (x_ref 2 (Some 2) 3) = (2, 3).
Proof. vm_compute. repeat split; try reflexivity. right. left. reflexivity. Qed.
