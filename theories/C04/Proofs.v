(* C04 — lemmas.  Final statements are in Property.v. *)
From Coq Require Import List ZArith Bool Lia Arith.
From Verif Require Import C04.Model C04.Spec.
Import ListNotations.
Open Scope Z_scope.

(* ------------------------------------------------------------ impl = spec *)

Section WalkProofs.
  Variable g gr : dgraph.
  Variable d : dir.
  Variable beh : oracle.

  Notation cut := (cut gr d beh).
  Notation walk := (walk g d beh).
  Notation exec_impl := (exec_impl g gr d beh).
  Notation exec_spec := (exec_spec g gr d beh).

  Lemma cut_app : forall l1 l2,
    cut (l1 ++ l2) = andthen (cut l1) (fun _ => cut l2).
  Proof.
    induction l1 as [|i l1 IH]; intros l2.
    - unfold andthen; cbn. destruct (cut l2); reflexivity.
    - destruct i as [k c|]; cbn [app Model.cut].
      + destruct (answers beh d k) eqn:A.
        * unfold andthen; cbn. destruct (has_node gr k); reflexivity.
        * rewrite IH. unfold andthen; cbn [fst snd].
          destruct (is_done (snd (cut l1))); reflexivity.
      + reflexivity.
  Qed.

  Lemma targets_cons : forall c c' o es,
    targets c ((c', o) :: es) =
    match o with
    | Some t => if c' =? c then t :: targets c es else targets c es
    | None => targets c es
    end.
  Proof.
    intros. unfold targets. cbn [flat_map fst snd].
    destruct o as [t|]; [destruct (c' =? c)|]; reflexivity.
  Qed.

  Lemma loop_is_cut : forall (rec : key -> list ev * outcome) (wk : key -> list item),
    (forall t, rec t = cut (wk t)) ->
    forall c es, loop_impl rec c es = cut (flat_map wk (targets c es)).
  Proof.
    intros rec wk H c es. induction es as [|[c' [t|]] es IH];
      [reflexivity|rewrite targets_cons; cbn [loop_impl]..].
    - destruct (c' =? c) eqn:E; [|exact IH].
      cbn [flat_map]. rewrite cut_app, <- H, IH. reflexivity.
    - exact IH.
  Qed.

  Lemma impl_is_spec : forall fuel k, exec_impl fuel k = exec_spec fuel k.
  Proof.
    induction fuel as [|f IH]; intros k.
    - reflexivity.
    - unfold Model.exec_spec. cbn [Model.exec_impl Model.walk Model.cut].
      destruct (answers beh d k) eqn:A; [reflexivity|].
      rewrite (loop_is_cut (exec_impl f) (walk f)); [reflexivity|].
      intros t. rewrite IH. reflexivity.
  Qed.

  Lemma cut_flat_map : forall (wk : key -> list item) ts,
    cut (flat_map wk ts) = seq_walks (map (fun t => cut (wk t)) ts).
  Proof.
    induction ts as [|t ts IH]; cbn [flat_map map seq_walks]; [reflexivity|].
    rewrite cut_app, IH. reflexivity.
  Qed.

  Lemma spec_unfold : forall fuel k,
    exec_spec (S fuel) k =
    if answers beh d k
    then ([(k, fst (beh k d))], if has_node gr k then Handed k else NoRespNode k)
    else let r := seq_walks (map (exec_spec fuel)
                                 (targets (fst (beh k d)) (edges_of g k))) in
         ((k, fst (beh k d)) :: fst r, snd r).
  Proof.
    intros. unfold Model.exec_spec at 1. cbn [Model.walk Model.cut].
    destruct (answers beh d k); [reflexivity|].
    rewrite cut_flat_map. reflexivity.
  Qed.

  (* in the response direction nothing is ever handed over *)
  Lemma cut_res_outcome : d = Res -> forall l,
    snd (cut l) = Done \/ snd (cut l) = OutOfFuel.
  Proof.
    intros D l. induction l as [|[k c|] l IH]; cbn [Model.cut].
    - left; reflexivity.
    - assert (A : answers beh d k = false) by (unfold answers; rewrite D; reflexivity).
      rewrite A. cbn [snd]. exact IH.
    - right; reflexivity.
  Qed.

  Lemma starts_is_cut : d = Res ->
    forall (rec : key -> list ev * outcome) (wk : key -> list item),
    (forall t, rec t = cut (wk t)) ->
    forall ts, starts_impl rec ts = cut (flat_map wk ts).
  Proof.
    intros D rec wk H ts. induction ts as [|t ts IH]; cbn [starts_impl flat_map].
    - reflexivity.
    - rewrite cut_app, IH, H. unfold andthen.
      destruct (cut_res_outcome D (wk t)) as [E|E]; rewrite E; reflexivity.
  Qed.

  (* ---------------------------------------------------------------- paths *)

  Notation on_path := (on_path g d beh).

  Lemma in_targets : forall c es t,
    In t (targets c es) -> In (c, Some t) es.
  Proof.
    intros c es t. unfold targets. rewrite in_flat_map.
    intros [[c' [t'|]] [I J]]; cbn [fst snd] in J.
    - destruct (c' =? c) eqn:E; [|contradiction].
      apply Z.eqb_eq in E. destruct J as [J|[]]. subst. exact I.
    - contradiction.
  Qed.

  Lemma loop_in : forall (rec : key -> list ev * outcome) c es x,
    In x (fst (loop_impl rec c es)) ->
    exists t, In (c, Some t) es /\ In x (fst (rec t)).
  Proof.
    intros rec c es x. induction es as [|[c' [t|]] es IH]; cbn [loop_impl]; intros I.
    - contradiction.
    - destruct (c' =? c) eqn:E.
      + apply Z.eqb_eq in E. subst c'. unfold andthen in I.
        destruct (is_done (snd (rec t))).
        * cbn [fst] in I. apply in_app_or in I. destruct I as [I|I].
          -- exists t. split; [left; reflexivity|exact I].
          -- destruct (IH I) as [t' [A B]]. exists t'. split; [right; exact A|exact B].
        * exists t. split; [left; reflexivity|exact I].
      + destruct (IH I) as [t' [A B]]. exists t'. split; [right; exact A|exact B].
    - destruct (IH I) as [t' [A B]]. exists t'. split; [right; exact A|exact B].
  Qed.

  Lemma impl_on_path : forall fuel s k c,
    In (k, c) (fst (exec_impl fuel s)) -> on_path s k /\ c = fst (beh k d).
  Proof.
    induction fuel as [|f IH]; intros s k c I; cbn [Model.exec_impl] in I.
    - contradiction.
    - destruct (answers beh d s) eqn:A.
      + cbn [fst] in I. destruct I as [I|[]]. inversion I; subst. split; [constructor|reflexivity].
      + cbn [fst] in I. destruct I as [I|I].
        * inversion I; subst. split; [constructor|reflexivity].
        * apply loop_in in I. destruct I as [t [E I]].
          destruct (IH _ _ _ I) as [P C]. split; [|exact C].
          eapply op_step; eauto.
  Qed.

  (* ------------------------------------------------------------ termination *)

  Lemma loop_ext : forall (r1 r2 : key -> list ev * outcome) c es,
    (forall t, In (c, Some t) es -> r1 t = r2 t) ->
    loop_impl r1 c es = loop_impl r2 c es.
  Proof.
    intros r1 r2 c es. induction es as [|[c' [t|]] es IH]; intros H; cbn [loop_impl].
    - reflexivity.
    - destruct (c' =? c) eqn:E.
      + apply Z.eqb_eq in E. subst c'. rewrite (H t) by (left; reflexivity).
        unfold andthen. rewrite IH by (intros; apply H; right; assumption). reflexivity.
      + apply IH. intros; apply H; right; assumption.
    - apply IH. intros; apply H; right; assumption.
  Qed.

  Lemma loop_not_stuck : forall (rec : key -> list ev * outcome) c es,
    (forall t, In (c, Some t) es -> snd (rec t) <> OutOfFuel) ->
    snd (loop_impl rec c es) <> OutOfFuel.
  Proof.
    intros rec c es. induction es as [|[c' [t|]] es IH]; intros H; cbn [loop_impl].
    - discriminate.
    - destruct (c' =? c) eqn:E.
      + apply Z.eqb_eq in E. subst c'. unfold andthen.
        destruct (is_done (snd (rec t))) eqn:Dn.
        * cbn [snd]. apply IH. intros; apply H; right; assumption.
        * apply H. left; reflexivity.
      + apply IH. intros; apply H; right; assumption.
    - apply IH. intros; apply H; right; assumption.
  Qed.

  Variable rk : key -> nat.
  Hypothesis RK : ranked g rk.

  Lemma ranked_not_stuck : forall fuel k,
    (rk k < fuel)%nat -> snd (exec_impl fuel k) <> OutOfFuel.
  Proof.
    induction fuel as [|f IH]; intros k L; [lia|].
    cbn [Model.exec_impl].
    destruct (answers beh d k).
    - cbn [snd]. destruct (has_node gr k); discriminate.
    - cbn [snd]. apply loop_not_stuck. intros t I. apply IH.
      specialize (RK _ _ _ I). lia.
  Qed.

  Lemma ranked_fuel_irrelevant : forall f1 f2 k,
    (rk k < f1)%nat -> (rk k < f2)%nat -> exec_impl f1 k = exec_impl f2 k.
  Proof.
    induction f1 as [|f1 IH]; intros f2 k L1 L2; [lia|].
    destruct f2 as [|f2]; [lia|].
    cbn [Model.exec_impl].
    destruct (answers beh d k); [reflexivity|].
    rewrite (loop_ext (exec_impl f1) (exec_impl f2)); [reflexivity|].
    intros t I. specialize (RK _ _ _ I). apply IH; lia.
  Qed.
End WalkProofs.

Lemma rankedb_sound : forall g rk, rankedb g rk = true -> ranked g rk.
Proof.
  intros g rk H k c t I. unfold edges_of, find_node in I.
  destruct (find (fun n => fst n =? k) (nodes g)) as [n|] eqn:F; [|contradiction].
  apply find_some in F. destruct F as [Fin Fk]. apply Z.eqb_eq in Fk.
  unfold rankedb in H. rewrite forallb_forall in H. specialize (H _ Fin).
  rewrite forallb_forall in H. specialize (H _ I). cbn [snd] in H.
  apply Nat.ltb_lt in H. subst k. exact H.
Qed.

(* --------------------------------------------------------- one flow direction *)

Lemma flow_impl_is_spec : forall fuel f d start beh,
  start = None \/ d = Res ->
  exec_flow_impl fuel f d start beh = exec_flow_spec fuel f d start beh.
Proof.
  intros fuel f d start beh H. unfold exec_flow_impl, exec_flow_spec.
  destruct start as [k|].
  - destruct H as [H|H]; [discriminate|].
    apply starts_is_cut; [exact H|]. intros t. apply impl_is_spec.
  - destruct (root (gdir f d)); [apply impl_is_spec|reflexivity].
Qed.

(* ------------------------------------------------------------ orchestration *)

Section Order.
  Variable fuel : nat.
  Variable beh : oracles.

  Notation flow_walk := (flow_walk fuel beh).
  Notation flow_events := (flow_events fuel beh).
  Notation users_prefix := (users_prefix fuel beh).
  Notation res_order := (res_order fuel beh).
  Notation req_order := (req_order fuel beh).

  Lemma run_list_order : forall d fs,
    snd (run_list fuel beh d fs) = None ->
    fst (run_list fuel beh d fs) = flat_map (flow_events d None) fs.
  Proof.
    intros d fs. induction fs as [|f fs IH]; cbn [run_list flat_map]; [reflexivity|].
    rewrite (flow_impl_is_spec fuel f d None) by (left; reflexivity).
    fold (flow_walk d None f).
    destruct (failed (snd (flow_walk d None f))); cbn [fst snd]; [discriminate|].
    intros H. rewrite (IH H). reflexivity.
  Qed.

  Lemma run_users_res_order : forall sc fs,
    snd (run_users_res fuel beh sc fs) = None ->
    fst (run_users_res fuel beh sc fs)
    = flat_map (fun f => flow_events Res (start_for sc f) f) fs.
  Proof.
    intros sc fs. induction fs as [|f fs IH]; cbn [run_users_res flat_map]; [reflexivity|].
    fold (start_for sc f).
    rewrite (flow_impl_is_spec fuel f Res (start_for sc f)) by (right; reflexivity).
    fold (flow_walk Res (start_for sc f) f).
    destruct (failed (snd (flow_walk Res (start_for sc f) f))); cbn [fst snd]; [discriminate|].
    intros H. rewrite (IH H). reflexivity.
  Qed.

  Lemma run_users_req_order : forall fs,
    snd (run_users_req fuel beh fs) = None ->
    fst (fst (run_users_req fuel beh fs))
      = flat_map (flow_events Req None) (fst (users_prefix fs))
    /\ snd (fst (run_users_req fuel beh fs)) = snd (users_prefix fs).
  Proof.
    induction fs as [|f fs IH]; cbn [run_users_req users_prefix flat_map].
    - intros _. split; reflexivity.
    - rewrite (flow_impl_is_spec fuel f Req None) by (left; reflexivity).
      fold (flow_walk Req None f).
      destruct (snd (flow_walk Req None f)) eqn:O.
      + destruct (run_users_req fuel beh fs) as [[t2 sc] e] eqn:R. cbn [fst snd] in *.
        intros H. destruct (IH H) as [A B]. rewrite A, B. split; reflexivity.
      + intros _. cbn [fst snd flat_map]. rewrite app_nil_r. split; reflexivity.
      + cbn [snd]. discriminate.
      + cbn [snd]. discriminate.
  Qed.

  Lemma then_none : forall r rest,
    snd (then_ r rest) = None ->
    snd r = None /\ snd (rest tt) = None
    /\ fst (then_ r rest) = fst r ++ fst (rest tt).
  Proof.
    intros r rest. unfold then_. destruct (snd r) eqn:E.
    - rewrite E. discriminate.
    - cbn [fst snd]. intros H. repeat split; assumption.
  Qed.

  Lemma run_res_order : forall s sc,
    snd (run_res fuel beh s sc) = None ->
    fst (run_res fuel beh s sc) = res_order s sc.
  Proof.
    intros s sc H. unfold run_res in *.
    apply then_none in H. destruct H as [H1 [H2 E1]]. rewrite E1.
    apply then_none in H2. destruct H2 as [H2 [H3 E2]]. rewrite E2.
    rewrite (run_list_order _ _ H1), (run_users_res_order _ _ H2), (run_list_order _ _ H3).
    reflexivity.
  Qed.

  Lemma run_req_order : forall s s2,
    snd (run_req fuel beh s s2) = None ->
    fst (run_req fuel beh s s2) = req_order s s2.
  Proof.
    intros s s2 H. unfold run_req in *.
    apply then_none in H. destruct H as [H1 [H2 E1]]. rewrite E1. clear E1.
    destruct (run_users_req fuel beh (s_user s)) as [[t2 sc] e2] eqn:R.
    apply then_none in H2. destruct H2 as [H2 [H3 E2]]. rewrite E2. clear E2.
    apply then_none in H3. destruct H3 as [H3 [H4 E3]]. rewrite E3. clear E3.
    cbn [fst snd] in *.
    pose proof (run_users_req_order (s_user s)) as U. rewrite R in U. cbn [fst snd] in U.
    destruct (U H2) as [A B]. subst t2 sc.
    rewrite (run_list_order _ _ H1), (run_list_order _ _ H3).
    unfold req_order. f_equal. f_equal. f_equal.
    destruct (snd (users_prefix (s_user s))) as [h|]; [|reflexivity].
    destruct s2 as [s'|]; [|reflexivity].
    apply run_res_order. exact H4.
  Qed.

  (* group structure: who may appear where *)
  Lemma tag_forall : forall f d t,
    Forall (fun e => e_flow e = fname f /\ e_dir e = d) (tag f d t).
  Proof.
    intros. unfold tag. apply Forall_forall. intros e I.
    apply in_map_iff in I. destruct I as [x [E _]]. subst e. split; reflexivity.
  Qed.

  Lemma group_forall : forall d (fs : list flow) (ev_of : flow -> list ev),
    Forall (fun e => In (e_flow e) (map fname fs) /\ e_dir e = d)
           (flat_map (fun f => tag f d (ev_of f)) fs).
  Proof.
    intros d fs ev_of. apply Forall_forall. intros e I.
    apply in_flat_map in I. destruct I as [f [F I]].
    pose proof (tag_forall f d (ev_of f)) as T. rewrite Forall_forall in T.
    destruct (T _ I) as [A B]. split; [|exact B].
    rewrite A. apply in_map. exact F.
  Qed.

  Lemma users_prefix_incl : forall fs, incl (fst (users_prefix fs)) fs.
  Proof.
    induction fs as [|f fs IH]; cbn [users_prefix]; [apply incl_refl|].
    destruct (snd (flow_walk Req None f)); cbn [fst];
      try (apply incl_cons; [left; reflexivity|apply incl_tl; exact IH]).
    apply incl_cons; [left; reflexivity|]. intros x [].
  Qed.
End Order.

(* ------------------------------------------- fuel is never exhausted on DAGs *)

Lemma starts_not_stuck : forall (rec : key -> list ev * outcome) ts,
  (forall t, snd (rec t) <> OutOfFuel) -> snd (starts_impl rec ts) <> OutOfFuel.
Proof.
  intros rec ts H. induction ts as [|t ts IH]; cbn [starts_impl]; [discriminate|].
  destruct (failed (snd (rec t))); [apply H|exact IH].
Qed.

Lemma flow_not_stuck : forall fuel f d start beh,
  flow_ok fuel f -> snd (exec_flow_impl fuel f d start beh) <> OutOfFuel.
Proof.
  intros fuel f d start beh [[rq [Rq Lq]] [rs [Rs Ls]]].
  assert (G : exists rk, ranked (gdir f d) rk /\ forall k, (rk k < fuel)%nat).
  { destruct d; [exists rq|exists rs]; split; assumption. }
  destruct G as [rk [R L]]. unfold exec_flow_impl.
  destruct start as [k|].
  - apply starts_not_stuck. intros t. eapply ranked_not_stuck; eauto.
  - destruct (root (gdir f d)) as [r|]; [|discriminate].
    eapply ranked_not_stuck; eauto.
Qed.

Lemma failed_stuck : forall o, failed o = false -> o <> OutOfFuel.
Proof. intros o H E. subst o. discriminate. Qed.

Section NoStuck.
  Variable fuel : nat.
  Variable beh : oracles.

  Lemma run_list_not_stuck : forall d fs,
    Forall (flow_ok fuel) fs -> snd (run_list fuel beh d fs) <> Some OutOfFuel.
  Proof.
    intros d fs H. induction H as [|f fs F _ IH]; cbn [run_list]; [discriminate|].
    destruct (failed (snd (exec_flow_impl fuel f d None (beh (fname f))))) eqn:E.
    - cbn [snd]. intros X. inversion X as [Y].
      exact (flow_not_stuck fuel f d None (beh (fname f)) F Y).
    - exact IH.
  Qed.

  Lemma run_users_res_not_stuck : forall sc fs,
    Forall (flow_ok fuel) fs -> snd (run_users_res fuel beh sc fs) <> Some OutOfFuel.
  Proof.
    intros sc fs H. induction H as [|f fs F _ IH]; cbn [run_users_res]; [discriminate|].
    match goal with |- context [exec_flow_impl fuel f Res ?st _] => set (st0 := st) end.
    destruct (failed (snd (exec_flow_impl fuel f Res st0 (beh (fname f))))) eqn:E.
    - cbn [snd]. intros X. inversion X as [Y].
      exact (flow_not_stuck fuel f Res st0 (beh (fname f)) F Y).
    - exact IH.
  Qed.

  Lemma run_users_req_not_stuck : forall fs,
    Forall (flow_ok fuel) fs -> snd (run_users_req fuel beh fs) <> Some OutOfFuel.
  Proof.
    intros fs H. induction H as [|f fs F _ IH]; cbn [run_users_req]; [discriminate|].
    pose proof (flow_not_stuck fuel f Req None (beh (fname f)) F) as N.
    destruct (snd (exec_flow_impl fuel f Req None (beh (fname f)))) eqn:O.
    - destruct (run_users_req fuel beh fs) as [[t2 sc] e]. exact IH.
    - discriminate.
    - discriminate.
    - contradiction.
  Qed.

  Lemma then_not_stuck : forall r rest,
    snd r <> Some OutOfFuel -> snd (rest tt) <> Some OutOfFuel ->
    snd (then_ r rest) <> Some OutOfFuel.
  Proof.
    intros r rest A B. unfold then_. destruct (snd r) eqn:E.
    - rewrite E. exact A.
    - exact B.
  Qed.

  Lemma run_res_not_stuck : forall s sc,
    sel_ok fuel s -> snd (run_res fuel beh s sc) <> Some OutOfFuel.
  Proof.
    intros s sc [A [U Z]]. unfold run_res.
    apply then_not_stuck; [apply run_list_not_stuck, Forall_rev, A|].
    apply then_not_stuck; [apply run_users_res_not_stuck, Forall_rev, U|].
    apply run_list_not_stuck, Forall_rev, Z.
  Qed.

  Lemma run_req_not_stuck : forall s s2,
    sel_ok fuel s -> (forall s', s2 = Some s' -> sel_ok fuel s') ->
    snd (run_req fuel beh s s2) <> Some OutOfFuel.
  Proof.
    intros s s2 [A [U Z]] S2. unfold run_req.
    apply then_not_stuck; [apply run_list_not_stuck, A|].
    pose proof (run_users_req_not_stuck _ U) as N.
    destruct (run_users_req fuel beh (s_user s)) as [[t2 sc] e2]. cbn [snd] in N.
    apply then_not_stuck; [exact N|].
    apply then_not_stuck; [apply run_list_not_stuck, Z|].
    destruct sc as [h|]; [|discriminate].
    destruct s2 as [s'|]; [|discriminate].
    apply run_res_not_stuck. apply S2. reflexivity.
  Qed.
End NoStuck.

(* ------------------------------------------------- paths, one flow direction *)

Lemma starts_in : forall (rec : key -> list ev * outcome) ts x,
  In x (fst (starts_impl rec ts)) -> exists t, In t ts /\ In x (fst (rec t)).
Proof.
  intros rec ts x. induction ts as [|t ts IH]; cbn [starts_impl]; intros I.
  - contradiction.
  - destruct (failed (snd (rec t))).
    + exists t. split; [left; reflexivity|exact I].
    + cbn [fst] in I. apply in_app_or in I. destruct I as [I|I].
      * exists t. split; [left; reflexivity|exact I].
      * destruct (IH I) as [t' [A B]]. exists t'. split; [right; exact A|exact B].
Qed.

Lemma in_all_targets : forall es t,
  In t (all_targets es) -> exists c, In (c, Some t) es.
Proof.
  intros es t. unfold all_targets. rewrite in_flat_map.
  intros [[c [t'|]] [I J]]; cbn [snd] in J; [|contradiction].
  destruct J as [J|[]]. subst. exists c. exact I.
Qed.

Lemma flow_on_path : forall fuel f d start beh k c,
  In (k, c) (fst (exec_flow_impl fuel f d start beh)) ->
  c = fst (beh k d) /\
  match start with
  | None => exists r, root (gdir f d) = Some r /\ on_path (gdir f d) d beh r k
  | Some h => exists c' t, In (c', Some t) (edges_of (gdir f d) h)
                           /\ on_path (gdir f d) d beh t k
  end.
Proof.
  intros fuel f d start beh k c. unfold exec_flow_impl. destruct start as [h|].
  - intros I. apply starts_in in I. destruct I as [t [T I]].
    apply impl_on_path in I. destruct I as [P C]. split; [exact C|].
    apply in_all_targets in T. destruct T as [c' T]. exists c', t. split; assumption.
  - destruct (root (gdir f d)) as [r|]; [|intros []].
    intros I. apply impl_on_path in I. destruct I as [P C]. split; [exact C|].
    exists r. split; [reflexivity|exact P].
Qed.
