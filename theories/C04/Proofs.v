(* C04 — lemmas.  Final statements are in Property.v. *)
From Coq Require Import List ZArith Bool Lia Arith.
From Verif Require Import C04.Model C04.Spec.
Import ListNotations.
Open Scope Z_scope.

(* ------------------------------------------------------------ impl = spec *)

Section WalkProofs.
  Variable g gr : dgraph.
  Variable d : dir.
  Variable beh : oracle.

  Notation cut := (cut gr d beh).
  Notation walk := (walk g d beh).
  Notation exec_impl := (exec_impl g gr d beh).
  Notation exec_spec := (exec_spec g gr d beh).

  Lemma cut_app : forall l1 l2,
    cut (l1 ++ l2) = andthen (cut l1) (fun _ => cut l2).
  Proof.
    induction l1 as [|i l1 IH]; intros l2.
    - unfold andthen; cbn. destruct (cut l2); reflexivity.
    - destruct i as [k c|]; cbn [app Model.cut].
      + destruct (answers beh d k) eqn:A.
        * unfold andthen; cbn. destruct (has_node gr k); reflexivity.
        * rewrite IH. unfold andthen; cbn [fst snd].
          destruct (is_done (snd (cut l1))); reflexivity.
      + reflexivity.
  Qed.

  Lemma targets_cons : forall c c' o es,
    targets c ((c', o) :: es) =
    match o with
    | Some t => if c' =? c then t :: targets c es else targets c es
    | None => targets c es
    end.
  Proof.
    intros. unfold targets. cbn [flat_map fst snd].
    destruct o as [t|]; [destruct (c' =? c)|]; reflexivity.
  Qed.

  Lemma loop_is_cut : forall (rec : key -> list ev * outcome) (wk : key -> list item),
    (forall t, rec t = cut (wk t)) ->
    forall c es, loop_impl rec c es = cut (flat_map wk (targets c es)).
  Proof.
    intros rec wk H c es. induction es as [|[c' [t|]] es IH];
      [reflexivity|rewrite targets_cons; cbn [loop_impl]..].
    - destruct (c' =? c) eqn:E; [|exact IH].
      cbn [flat_map]. rewrite cut_app, <- H, IH. reflexivity.
    - exact IH.
  Qed.

  Lemma impl_is_spec : forall fuel k, exec_impl fuel k = exec_spec fuel k.
  Proof.
    induction fuel as [|f IH]; intros k.
    - reflexivity.
    - unfold Model.exec_spec. cbn [Model.exec_impl Model.walk Model.cut].
      destruct (answers beh d k) eqn:A; [reflexivity|].
      rewrite (loop_is_cut (exec_impl f) (walk f)); [reflexivity|].
      intros t. rewrite IH. reflexivity.
  Qed.

  Lemma cut_flat_map : forall (wk : key -> list item) ts,
    cut (flat_map wk ts) = seq_walks (map (fun t => cut (wk t)) ts).
  Proof.
    induction ts as [|t ts IH]; cbn [flat_map map seq_walks]; [reflexivity|].
    rewrite cut_app, IH. reflexivity.
  Qed.

  Lemma spec_unfold : forall fuel k,
    exec_spec (S fuel) k =
    if answers beh d k
    then ([(k, fst (beh k d))], if has_node gr k then Handed k else NoRespNode k)
    else let r := seq_walks (map (exec_spec fuel)
                                 (targets (fst (beh k d)) (edges_of g k))) in
         ((k, fst (beh k d)) :: fst r, snd r).
  Proof.
    intros. unfold Model.exec_spec at 1. cbn [Model.walk Model.cut].
    destruct (answers beh d k); [reflexivity|].
    rewrite cut_flat_map. reflexivity.
  Qed.

  (* in the response direction nothing is ever handed over *)
  Lemma cut_res_outcome : d = Res -> forall l,
    snd (cut l) = Done \/ snd (cut l) = OutOfFuel.
  Proof.
    intros D l. induction l as [|[k c|] l IH]; cbn [Model.cut].
    - left; reflexivity.
    - assert (A : answers beh d k = false) by (unfold answers; rewrite D; reflexivity).
      rewrite A. cbn [snd]. exact IH.
    - right; reflexivity.
  Qed.

  Lemma starts_is_cut : d = Res ->
    forall (rec : key -> list ev * outcome) (wk : key -> list item),
    (forall t, rec t = cut (wk t)) ->
    forall ts, starts_impl rec ts = cut (flat_map wk ts).
  Proof.
    intros D rec wk H ts. induction ts as [|t ts IH]; cbn [starts_impl flat_map].
    - reflexivity.
    - rewrite cut_app, IH, H. unfold andthen.
      destruct (cut_res_outcome D (wk t)) as [E|E]; rewrite E; reflexivity.
  Qed.

  (* ---------------------------------------------------------------- paths *)

  Notation on_path := (on_path g d beh).

  Lemma in_targets : forall c es t,
    In t (targets c es) -> In (c, Some t) es.
  Proof.
    intros c es t. unfold targets. rewrite in_flat_map.
    intros [[c' [t'|]] [I J]]; cbn [fst snd] in J.
    - destruct (c' =? c) eqn:E; [|contradiction].
      apply Z.eqb_eq in E. destruct J as [J|[]]. subst. exact I.
    - contradiction.
  Qed.

  Lemma loop_in : forall (rec : key -> list ev * outcome) c es x,
    In x (fst (loop_impl rec c es)) ->
    exists t, In (c, Some t) es /\ In x (fst (rec t)).
  Proof.
    intros rec c es x. induction es as [|[c' [t|]] es IH]; cbn [loop_impl]; intros I.
    - contradiction.
    - destruct (c' =? c) eqn:E.
      + apply Z.eqb_eq in E. subst c'. unfold andthen in I.
        destruct (is_done (snd (rec t))).
        * cbn [fst] in I. apply in_app_or in I. destruct I as [I|I].
          -- exists t. split; [left; reflexivity|exact I].
          -- destruct (IH I) as [t' [A B]]. exists t'. split; [right; exact A|exact B].
        * exists t. split; [left; reflexivity|exact I].
      + destruct (IH I) as [t' [A B]]. exists t'. split; [right; exact A|exact B].
    - destruct (IH I) as [t' [A B]]. exists t'. split; [right; exact A|exact B].
  Qed.

  Lemma impl_on_path : forall fuel s k c,
    In (k, c) (fst (exec_impl fuel s)) -> on_path s k /\ c = fst (beh k d).
  Proof.
    induction fuel as [|f IH]; intros s k c I; cbn [Model.exec_impl] in I.
    - contradiction.
    - destruct (answers beh d s) eqn:A.
      + cbn [fst] in I. destruct I as [I|[]]. inversion I; subst. split; [constructor|reflexivity].
      + cbn [fst] in I. destruct I as [I|I].
        * inversion I; subst. split; [constructor|reflexivity].
        * apply loop_in in I. destruct I as [t [E I]].
          destruct (IH _ _ _ I) as [P C]. split; [|exact C].
          eapply op_step; eauto.
  Qed.

  (* ------------------------------------------------------------ termination *)

  Lemma loop_ext : forall (r1 r2 : key -> list ev * outcome) c es,
    (forall t, In (c, Some t) es -> r1 t = r2 t) ->
    loop_impl r1 c es = loop_impl r2 c es.
  Proof.
    intros r1 r2 c es. induction es as [|[c' [t|]] es IH]; intros H; cbn [loop_impl].
    - reflexivity.
    - destruct (c' =? c) eqn:E.
      + apply Z.eqb_eq in E. subst c'. rewrite (H t) by (left; reflexivity).
        unfold andthen. rewrite IH by (intros; apply H; right; assumption). reflexivity.
      + apply IH. intros; apply H; right; assumption.
    - apply IH. intros; apply H; right; assumption.
  Qed.

  Lemma loop_not_stuck : forall (rec : key -> list ev * outcome) c es,
    (forall t, In (c, Some t) es -> snd (rec t) <> OutOfFuel) ->
    snd (loop_impl rec c es) <> OutOfFuel.
  Proof.
    intros rec c es. induction es as [|[c' [t|]] es IH]; intros H; cbn [loop_impl].
    - discriminate.
    - destruct (c' =? c) eqn:E.
      + apply Z.eqb_eq in E. subst c'. unfold andthen.
        destruct (is_done (snd (rec t))) eqn:Dn.
        * cbn [snd]. apply IH. intros; apply H; right; assumption.
        * apply H. left; reflexivity.
      + apply IH. intros; apply H; right; assumption.
    - apply IH. intros; apply H; right; assumption.
  Qed.

  Variable rk : key -> nat.
  Hypothesis RK : ranked g rk.

  Lemma ranked_not_stuck : forall fuel k,
    (rk k < fuel)%nat -> snd (exec_impl fuel k) <> OutOfFuel.
  Proof.
    induction fuel as [|f IH]; intros k L; [lia|].
    cbn [Model.exec_impl].
    destruct (answers beh d k).
    - cbn [snd]. destruct (has_node gr k); discriminate.
    - cbn [snd]. apply loop_not_stuck. intros t I. apply IH.
      specialize (RK _ _ _ I). lia.
  Qed.

  Lemma ranked_fuel_irrelevant : forall f1 f2 k,
    (rk k < f1)%nat -> (rk k < f2)%nat -> exec_impl f1 k = exec_impl f2 k.
  Proof.
    induction f1 as [|f1 IH]; intros f2 k L1 L2; [lia|].
    destruct f2 as [|f2]; [lia|].
    cbn [Model.exec_impl].
    destruct (answers beh d k); [reflexivity|].
    rewrite (loop_ext (exec_impl f1) (exec_impl f2)); [reflexivity|].
    intros t I. specialize (RK _ _ _ I). apply IH; lia.
  Qed.
End WalkProofs.

Lemma rankedb_sound : forall g rk, rankedb g rk = true -> ranked g rk.
Proof.
  intros g rk H k c t I. unfold edges_of, find_node in I.
  destruct (find (fun n => fst n =? k) (nodes g)) as [n|] eqn:F; [|contradiction].
  apply find_some in F. destruct F as [Fin Fk]. apply Z.eqb_eq in Fk.
  unfold rankedb in H. rewrite forallb_forall in H. specialize (H _ Fin).
  rewrite forallb_forall in H. specialize (H _ I). cbn [snd] in H.
  apply Nat.ltb_lt in H. subst k. exact H.
Qed.

(* --------------------------------------------------------- one flow direction *)

Lemma flow_impl_is_spec : forall fuel f d start beh,
  start = None \/ d = Res ->
  exec_flow_impl fuel f d start beh = exec_flow_spec fuel f d start beh.
Proof.
  intros fuel f d start beh H. unfold exec_flow_impl, exec_flow_spec.
  destruct start as [k|].
  - destruct H as [H|H]; [discriminate|].
    apply starts_is_cut; [exact H|]. intros t. apply impl_is_spec.
  - destruct (root (gdir f d)); [apply impl_is_spec|reflexivity].
Qed.

(* ------------------------------------------------------------ orchestration *)

Section Order.
  Variable fuel : nat.
  Variable beh : oracles.

  Notation flow_walk := (flow_walk fuel beh).
  Notation flow_events := (flow_events fuel beh).
  Notation users_prefix := (users_prefix fuel beh).
  Notation res_order := (res_order fuel beh).
  Notation req_order := (req_order fuel beh).

  Lemma run_list_order : forall d fs,
    snd (run_list fuel beh d fs) = None ->
    fst (run_list fuel beh d fs) = flat_map (flow_events d None) fs.
  Proof.
    intros d fs. induction fs as [|f fs IH]; cbn [run_list flat_map]; [reflexivity|].
    rewrite (flow_impl_is_spec fuel f d None) by (left; reflexivity).
    fold (flow_walk d None f).
    destruct (failed (snd (flow_walk d None f))); cbn [fst snd]; [discriminate|].
    intros H. rewrite (IH H). reflexivity.
  Qed.

  Lemma run_users_res_order : forall sc fs,
    snd (run_users_res fuel beh sc fs) = None ->
    fst (run_users_res fuel beh sc fs)
    = flat_map (fun f => flow_events Res (start_for sc f) f) fs.
  Proof.
    intros sc fs. induction fs as [|f fs IH]; cbn [run_users_res flat_map]; [reflexivity|].
    fold (start_for sc f).
    rewrite (flow_impl_is_spec fuel f Res (start_for sc f)) by (right; reflexivity).
    fold (flow_walk Res (start_for sc f) f).
    destruct (failed (snd (flow_walk Res (start_for sc f) f))); cbn [fst snd]; [discriminate|].
    intros H. rewrite (IH H). reflexivity.
  Qed.

  Lemma run_users_req_order : forall fs,
    snd (run_users_req fuel beh fs) = None ->
    fst (fst (run_users_req fuel beh fs))
      = flat_map (flow_events Req None) (fst (users_prefix fs))
    /\ snd (fst (run_users_req fuel beh fs)) = snd (users_prefix fs).
  Proof.
    induction fs as [|f fs IH]; cbn [run_users_req users_prefix flat_map].
    - intros _. split; reflexivity.
    - rewrite (flow_impl_is_spec fuel f Req None) by (left; reflexivity).
      fold (flow_walk Req None f).
      destruct (snd (flow_walk Req None f)) eqn:O.
      + destruct (run_users_req fuel beh fs) as [[t2 sc] e] eqn:R. cbn [fst snd] in *.
        intros H. destruct (IH H) as [A B]. rewrite A, B. split; reflexivity.
      + intros _. cbn [fst snd flat_map]. rewrite app_nil_r. split; reflexivity.
      + cbn [snd]. discriminate.
      + cbn [snd]. discriminate.
  Qed.

  Lemma then_none : forall r rest,
    snd (then_ r rest) = None ->
    snd r = None /\ snd (rest tt) = None
    /\ fst (then_ r rest) = fst r ++ fst (rest tt).
  Proof.
    intros r rest. unfold then_. destruct (snd r) eqn:E.
    - rewrite E. discriminate.
    - cbn [fst snd]. intros H. repeat split; assumption.
  Qed.

  Lemma run_res_order : forall s sc,
    snd (run_res fuel beh s sc) = None ->
    fst (run_res fuel beh s sc) = res_order s sc.
  Proof.
    intros s sc H. unfold run_res in *.
    apply then_none in H. destruct H as [H1 [H2 E1]]. rewrite E1.
    apply then_none in H2. destruct H2 as [H2 [H3 E2]]. rewrite E2.
    rewrite (run_list_order _ _ H1), (run_users_res_order _ _ H2), (run_list_order _ _ H3).
    reflexivity.
  Qed.

  Lemma run_req_order : forall s s2,
    snd (run_req fuel beh s s2) = None ->
    fst (run_req fuel beh s s2) = req_order s s2.
  Proof.
    intros s s2 H. unfold run_req in *.
    apply then_none in H. destruct H as [H1 [H2 E1]]. rewrite E1. clear E1.
    destruct (run_users_req fuel beh (s_user s)) as [[t2 sc] e2] eqn:R.
    apply then_none in H2. destruct H2 as [H2 [H3 E2]]. rewrite E2. clear E2.
    apply then_none in H3. destruct H3 as [H3 [H4 E3]]. rewrite E3. clear E3.
    cbn [fst snd] in *.
    pose proof (run_users_req_order (s_user s)) as U. rewrite R in U. cbn [fst snd] in U.
    destruct (U H2) as [A B]. subst t2 sc.
    rewrite (run_list_order _ _ H1), (run_list_order _ _ H3).
    unfold req_order. f_equal. f_equal. f_equal.
    destruct (snd (users_prefix (s_user s))) as [h|]; [|reflexivity].
    destruct s2 as [s'|]; [|reflexivity].
    apply run_res_order. exact H4.
  Qed.

  (* group structure: who may appear where *)
  Lemma tag_forall : forall f d t,
    Forall (fun e => e_flow e = fname f /\ e_dir e = d) (tag f d t).
  Proof.
    intros. unfold tag. apply Forall_forall. intros e I.
    apply in_map_iff in I. destruct I as [x [E _]]. subst e. split; reflexivity.
  Qed.

  Lemma group_forall : forall d (fs : list flow) (ev_of : flow -> list ev),
    Forall (fun e => In (e_flow e) (map fname fs) /\ e_dir e = d)
           (flat_map (fun f => tag f d (ev_of f)) fs).
  Proof.
    intros d fs ev_of. apply Forall_forall. intros e I.
    apply in_flat_map in I. destruct I as [f [F I]].
    pose proof (tag_forall f d (ev_of f)) as T. rewrite Forall_forall in T.
    destruct (T _ I) as [A B]. split; [|exact B].
    rewrite A. apply in_map. exact F.
  Qed.

  Lemma users_prefix_incl : forall fs, incl (fst (users_prefix fs)) fs.
  Proof.
    induction fs as [|f fs IH]; cbn [users_prefix]; [apply incl_refl|].
    destruct (snd (flow_walk Req None f)); cbn [fst];
      try (apply incl_cons; [left; reflexivity|apply incl_tl; exact IH]).
    apply incl_cons; [left; reflexivity|]. intros x [].
  Qed.
End Order.

(* ------------------------------------------- fuel is never exhausted on DAGs *)

Lemma starts_not_stuck : forall (rec : key -> list ev * outcome) ts,
  (forall t, snd (rec t) <> OutOfFuel) -> snd (starts_impl rec ts) <> OutOfFuel.
Proof.
  intros rec ts H. induction ts as [|t ts IH]; cbn [starts_impl]; [discriminate|].
  destruct (failed (snd (rec t))); [apply H|exact IH].
Qed.

Lemma flow_not_stuck : forall fuel f d start beh,
  flow_ok fuel f -> snd (exec_flow_impl fuel f d start beh) <> OutOfFuel.
Proof.
  intros fuel f d start beh [[rq [Rq Lq]] [rs [Rs Ls]]].
  assert (G : exists rk, ranked (gdir f d) rk /\ forall k, (rk k < fuel)%nat).
  { destruct d; [exists rq|exists rs]; split; assumption. }
  destruct G as [rk [R L]]. unfold exec_flow_impl.
  destruct start as [k|].
  - apply starts_not_stuck. intros t. eapply ranked_not_stuck; eauto.
  - destruct (root (gdir f d)) as [r|]; [|discriminate].
    eapply ranked_not_stuck; eauto.
Qed.

Lemma failed_stuck : forall o, failed o = false -> o <> OutOfFuel.
Proof. intros o H E. subst o. discriminate. Qed.

Section NoStuck.
  Variable fuel : nat.
  Variable beh : oracles.

  Lemma run_list_not_stuck : forall d fs,
    Forall (flow_ok fuel) fs -> snd (run_list fuel beh d fs) <> Some OutOfFuel.
  Proof.
    intros d fs H. induction H as [|f fs F _ IH]; cbn [run_list]; [discriminate|].
    destruct (failed (snd (exec_flow_impl fuel f d None (beh (fname f))))) eqn:E.
    - cbn [snd]. intros X. inversion X as [Y].
      exact (flow_not_stuck fuel f d None (beh (fname f)) F Y).
    - exact IH.
  Qed.

  Lemma run_users_res_not_stuck : forall sc fs,
    Forall (flow_ok fuel) fs -> snd (run_users_res fuel beh sc fs) <> Some OutOfFuel.
  Proof.
    intros sc fs H. induction H as [|f fs F _ IH]; cbn [run_users_res]; [discriminate|].
    match goal with |- context [exec_flow_impl fuel f Res ?st _] => set (st0 := st) end.
    destruct (failed (snd (exec_flow_impl fuel f Res st0 (beh (fname f))))) eqn:E.
    - cbn [snd]. intros X. inversion X as [Y].
      exact (flow_not_stuck fuel f Res st0 (beh (fname f)) F Y).
    - exact IH.
  Qed.

  Lemma run_users_req_not_stuck : forall fs,
    Forall (flow_ok fuel) fs -> snd (run_users_req fuel beh fs) <> Some OutOfFuel.
  Proof.
    intros fs H. induction H as [|f fs F _ IH]; cbn [run_users_req]; [discriminate|].
    pose proof (flow_not_stuck fuel f Req None (beh (fname f)) F) as N.
    destruct (snd (exec_flow_impl fuel f Req None (beh (fname f)))) eqn:O.
    - destruct (run_users_req fuel beh fs) as [[t2 sc] e]. exact IH.
    - discriminate.
    - discriminate.
    - contradiction.
  Qed.

  Lemma then_not_stuck : forall r rest,
    snd r <> Some OutOfFuel -> snd (rest tt) <> Some OutOfFuel ->
    snd (then_ r rest) <> Some OutOfFuel.
  Proof.
    intros r rest A B. unfold then_. destruct (snd r) eqn:E.
    - rewrite E. exact A.
    - exact B.
  Qed.

  Lemma run_res_not_stuck : forall s sc,
    sel_ok fuel s -> snd (run_res fuel beh s sc) <> Some OutOfFuel.
  Proof.
    intros s sc [A [U Z]]. unfold run_res.
    apply then_not_stuck; [apply run_list_not_stuck, Forall_rev, A|].
    apply then_not_stuck; [apply run_users_res_not_stuck, Forall_rev, U|].
    apply run_list_not_stuck, Forall_rev, Z.
  Qed.

  Lemma run_req_not_stuck : forall s s2,
    sel_ok fuel s -> (forall s', s2 = Some s' -> sel_ok fuel s') ->
    snd (run_req fuel beh s s2) <> Some OutOfFuel.
  Proof.
    intros s s2 [A [U Z]] S2. unfold run_req.
    apply then_not_stuck; [apply run_list_not_stuck, A|].
    pose proof (run_users_req_not_stuck _ U) as N.
    destruct (run_users_req fuel beh (s_user s)) as [[t2 sc] e2]. cbn [snd] in N.
    apply then_not_stuck; [exact N|].
    apply then_not_stuck; [apply run_list_not_stuck, Z|].
    destruct sc as [h|]; [|discriminate].
    destruct s2 as [s'|]; [|discriminate].
    apply run_res_not_stuck. apply S2. reflexivity.
  Qed.
End NoStuck.

(* ------------------------------------------------- paths, one flow direction *)

Lemma starts_in : forall (rec : key -> list ev * outcome) ts x,
  In x (fst (starts_impl rec ts)) -> exists t, In t ts /\ In x (fst (rec t)).
Proof.
  intros rec ts x. induction ts as [|t ts IH]; cbn [starts_impl]; intros I.
  - contradiction.
  - destruct (failed (snd (rec t))).
    + exists t. split; [left; reflexivity|exact I].
    + cbn [fst] in I. apply in_app_or in I. destruct I as [I|I].
      * exists t. split; [left; reflexivity|exact I].
      * destruct (IH I) as [t' [A B]]. exists t'. split; [right; exact A|exact B].
Qed.

Lemma in_all_targets : forall es t,
  In t (all_targets es) -> exists c, In (c, Some t) es.
Proof.
  intros es t. unfold all_targets. rewrite in_flat_map.
  intros [[c [t'|]] [I J]]; cbn [snd] in J; [|contradiction].
  destruct J as [J|[]]. subst. exists c. exact I.
Qed.

Lemma flow_on_path : forall fuel f d start beh k c,
  In (k, c) (fst (exec_flow_impl fuel f d start beh)) ->
  c = fst (beh k d) /\
  match start with
  | None => exists r, root (gdir f d) = Some r /\ on_path (gdir f d) d beh r k
  | Some h => exists c' t, In (c', Some t) (edges_of (gdir f d) h)
                           /\ on_path (gdir f d) d beh t k
  end.
Proof.
  intros fuel f d start beh k c. unfold exec_flow_impl. destruct start as [h|].
  - intros I. apply starts_in in I. destruct I as [t [T I]].
    apply impl_on_path in I. destruct I as [P C]. split; [exact C|].
    apply in_all_targets in T. destruct T as [c' T]. exists c', t. split; assumption.
  - destruct (root (gdir f d)) as [r|]; [|intros []].
    intros I. apply impl_on_path in I. destruct I as [P C]. split; [exact C|].
    exists r. split; [reflexivity|exact P].
Qed.

(* ====================================================================== *)
(* fuel: acyclic directions need no more fuel than their number of nodes + 1,
   and at transaction level the fuel is irrelevant once it is enough *)

Lemma filter_length_lt : forall (A : Type) (p q : A -> bool) (a : A) l,
  (forall x, p x = true -> q x = true) -> In a l -> q a = true -> p a = false ->
  (length (filter p l) < length (filter q l))%nat.
Proof.
  intros A p q a l PQ. induction l as [|x l IH]; intros I Qa Pa; [contradiction|].
  assert (LE : forall l', (length (filter p l') <= length (filter q l'))%nat).
  { induction l' as [|y l' IH']; cbn [filter]; [lia|].
    destruct (p y) eqn:Py; [rewrite (PQ _ Py); cbn [length]; lia|].
    destruct (q y); cbn [length]; lia. }
  cbn [filter]. destruct I as [I|I].
  - subst x. rewrite Pa, Qa. cbn [length]. specialize (LE l). lia.
  - specialize (IH I Qa Pa). destruct (p x) eqn:Px; [rewrite (PQ _ Px); cbn [length]; lia|].
    destruct (q x); cbn [length]; lia.
Qed.

Lemma edges_of_node : forall g k e, In e (edges_of g k) -> exists n, In n (nodes g) /\ fst n = k.
Proof.
  intros g k e I. unfold edges_of, find_node in I.
  destruct (find (fun n => fst n =? k) (nodes g)) as [n|] eqn:F; [|contradiction].
  apply find_some in F. destruct F as [Fin Fk]. apply Z.eqb_eq in Fk. exists n. auto.
Qed.

Lemma crank_ranked : forall g rk, ranked g rk -> ranked g (crank g rk).
Proof.
  intros g rk R k c t I. pose proof (R _ _ _ I) as L.
  destruct (edges_of_node _ _ _ I) as [n [Nin Nk]]. unfold crank.
  apply (filter_length_lt _ _ _ n); [| exact Nin | |].
  - intros x H. apply Nat.leb_le in H. apply Nat.leb_le. lia.
  - rewrite Nk. apply Nat.leb_le. lia.
  - rewrite Nk. apply Nat.leb_gt. lia.
Qed.

Lemma crank_bound : forall g rk k, (crank g rk k < S (length (nodes g)))%nat.
Proof.
  intros g rk k. unfold crank.
  assert (LE : forall (p : key * list edge -> bool) l, (length (filter p l) <= length l)%nat).
  { intros p l. induction l as [|x l IH]; cbn [filter length]; [lia|].
    destruct (p x); cbn [length]; lia. }
  specialize (LE (fun n => Nat.leb (rk (fst n)) (rk k)) (nodes g)). lia.
Qed.

Lemma acyclic_dir_ok : forall g fuel,
  acyclic g -> (length (nodes g) < fuel)%nat -> dir_ok fuel g.
Proof.
  intros g fuel [rk R] L. exists (crank g rk). split; [apply crank_ranked; exact R|].
  intros k. pose proof (crank_bound g rk k). lia.
Qed.

Lemma dir_ok_mono : forall f1 f2 g, (f1 <= f2)%nat -> dir_ok f1 g -> dir_ok f2 g.
Proof. intros f1 f2 g L [rk [R B]]. exists rk. split; [exact R|]. intros k. specialize (B k). lia. Qed.

Lemma flow_ok_mono : forall f1 f2 f, (f1 <= f2)%nat -> flow_ok f1 f -> flow_ok f2 f.
Proof. intros f1 f2 f L [A B]. split; eapply dir_ok_mono; eauto. Qed.

Lemma sel_ok_mono : forall f1 f2 s, (f1 <= f2)%nat -> sel_ok f1 s -> sel_ok f2 s.
Proof.
  intros f1 f2 s L [A [B C]].
  repeat split; eapply Forall_impl; try eassumption; intros f; apply flow_ok_mono; exact L.
Qed.

Lemma fuel_for_bound : forall fs f, In f fs ->
  (length (nodes (freq f)) < fuel_for fs)%nat /\ (length (nodes (fres f)) < fuel_for fs)%nat.
Proof.
  intros fs f. unfold fuel_for. induction fs as [|g fs IH]; intros I; [contradiction|].
  cbn [fold_right]. destruct I as [I|I]; [subst g; lia|]. specialize (IH I). lia.
Qed.

Lemma acyclic_flow_ok : forall fs f, In f fs -> flow_acyclic f -> flow_ok (fuel_for fs) f.
Proof.
  intros fs f I [A B]. destruct (fuel_for_bound fs f I) as [L1 L2].
  split; apply acyclic_dir_ok; assumption.
Qed.

Lemma acyclic_sel_ok : forall fs s,
  incl (sel_flows s) fs -> Forall flow_acyclic (sel_flows s) -> sel_ok (fuel_for fs) s.
Proof.
  intros fs s I A. unfold sel_flows in *. rewrite Forall_forall in A.
  assert (G : forall f, In f (s_start s ++ s_user s ++ s_end s) -> flow_ok (fuel_for fs) f).
  { intros f F. apply acyclic_flow_ok; [apply I|apply A]; exact F. }
  repeat split; apply Forall_forall; intros f F; apply G.
  - apply in_or_app. left. exact F.
  - apply in_or_app. right. apply in_or_app. left. exact F.
  - apply in_or_app. right. apply in_or_app. right. exact F.
Qed.

Lemma flows_named_incl : forall fs ns, incl (flows_named fs ns) fs.
Proof.
  intros fs ns f I. unfold flows_named in I. apply in_flat_map in I. destruct I as [n [_ I]].
  destruct (find (fun f0 => fname f0 =? n) fs) as [f0|] eqn:F; [|contradiction].
  destruct I as [I|[]]. subst f0. apply find_some in F. apply F.
Qed.

Lemma dec_sel_incl : forall fs e, incl (sel_flows (dec_sel fs e)) fs.
Proof.
  intros fs [[a u] z] f I. unfold sel_flows, dec_sel in I. cbn [s_start s_user s_end] in I.
  apply in_app_or in I. destruct I as [I|I]; [eapply flows_named_incl; eauto|].
  apply in_app_or in I. destruct I as [I|I]; eapply flows_named_incl; eauto.
Qed.

(* ---- fuel irrelevance ---- *)

Lemma starts_ext : forall (r1 r2 : key -> list ev * outcome) ts,
  (forall t, r1 t = r2 t) -> starts_impl r1 ts = starts_impl r2 ts.
Proof.
  intros r1 r2 ts H. induction ts as [|t ts IH]; cbn [starts_impl]; [reflexivity|].
  rewrite H, IH. reflexivity.
Qed.

Lemma exec_impl_fuel_le : forall g gr d beh f1 f2 k,
  dir_ok f1 g -> (f1 <= f2)%nat -> exec_impl g gr d beh f1 k = exec_impl g gr d beh f2 k.
Proof.
  intros g gr d beh f1 f2 k [rk [R B]] L.
  apply (ranked_fuel_irrelevant g gr d beh rk R); [apply B|]. specialize (B k). lia.
Qed.

Lemma flow_fuel_le : forall f1 f2 f d start beh,
  flow_ok f1 f -> (f1 <= f2)%nat ->
  exec_flow_impl f1 f d start beh = exec_flow_impl f2 f d start beh.
Proof.
  intros f1 f2 f d start beh [Oq Os] L.
  assert (G : dir_ok f1 (gdir f d)) by (destruct d; assumption).
  unfold exec_flow_impl. destruct start as [k|].
  - apply starts_ext. intros t. apply exec_impl_fuel_le; assumption.
  - destruct (root (gdir f d)); [apply exec_impl_fuel_le; assumption|reflexivity].
Qed.

Section FuelLe.
  Variable f1 f2 : nat.
  Variable beh : oracles.
  Hypothesis L : (f1 <= f2)%nat.

  Lemma run_list_fuel_le : forall d fs,
    Forall (flow_ok f1) fs -> run_list f1 beh d fs = run_list f2 beh d fs.
  Proof.
    intros d fs H. induction H as [|f fs F _ IH]; cbn [run_list]; [reflexivity|].
    rewrite (flow_fuel_le f1 f2 f d None _ F L), IH. reflexivity.
  Qed.

  Lemma run_users_req_fuel_le : forall fs,
    Forall (flow_ok f1) fs -> run_users_req f1 beh fs = run_users_req f2 beh fs.
  Proof.
    intros fs H. induction H as [|f fs F _ IH]; cbn [run_users_req]; [reflexivity|].
    rewrite (flow_fuel_le f1 f2 f Req None _ F L), IH. reflexivity.
  Qed.

  Lemma run_users_res_fuel_le : forall sc fs,
    Forall (flow_ok f1) fs -> run_users_res f1 beh sc fs = run_users_res f2 beh sc fs.
  Proof.
    intros sc fs H. induction H as [|f fs F _ IH]; cbn [run_users_res]; [reflexivity|].
    rewrite (flow_fuel_le f1 f2 f Res _ _ F L), IH. reflexivity.
  Qed.

  Lemma run_res_fuel_le : forall s sc,
    sel_ok f1 s -> run_res f1 beh s sc = run_res f2 beh s sc.
  Proof.
    intros s sc [A [U Z]]. unfold run_res.
    rewrite (run_list_fuel_le Res _ (Forall_rev A)), (run_users_res_fuel_le sc _ (Forall_rev U)),
            (run_list_fuel_le Res _ (Forall_rev Z)). reflexivity.
  Qed.

  Lemma run_req_fuel_le : forall s s2,
    sel_ok f1 s -> (forall s', s2 = Some s' -> sel_ok f1 s') ->
    run_req f1 beh s s2 = run_req f2 beh s s2.
  Proof.
    intros s s2 [A [U Z]] S2. unfold run_req.
    rewrite (run_list_fuel_le Req _ A), (run_users_req_fuel_le _ U), (run_list_fuel_le Req _ Z).
    destruct s2 as [s'|].
    - assert (E : forall sc, run_res f1 beh s' sc = run_res f2 beh s' sc)
        by (intros sc; apply run_res_fuel_le; apply S2; reflexivity).
      destruct (run_users_req f2 beh (s_user s)) as [[t2 [h|]] e2]; [rewrite E|]; reflexivity.
    - reflexivity.
  Qed.
End FuelLe.

Lemma run_req_fuel_irrelevant : forall f1 f2 beh s s2,
  sel_ok f1 s -> sel_ok f2 s ->
  (forall s', s2 = Some s' -> sel_ok f1 s' /\ sel_ok f2 s') ->
  run_req f1 beh s s2 = run_req f2 beh s s2.
Proof.
  intros f1 f2 beh s s2 A B C. destruct (Nat.le_ge_cases f1 f2) as [L|L].
  - apply run_req_fuel_le; [exact L|exact A|]. intros s' E. apply (C s' E).
  - symmetry. apply run_req_fuel_le; [exact L|exact B|]. intros s' E. apply (C s' E).
Qed.

Lemma run_res_fuel_irrelevant : forall f1 f2 beh s sc,
  sel_ok f1 s -> sel_ok f2 s -> run_res f1 beh s sc = run_res f2 beh s sc.
Proof.
  intros f1 f2 beh s sc A B. destruct (Nat.le_ge_cases f1 f2) as [L|L].
  - apply run_res_fuel_le; assumption.
  - symmetry. apply run_res_fuel_le; assumption.
Qed.

(* ====================================================================== *)
(* F-C04d: a transaction is abandoned only because a processor that answered
   the request has no node on the response side of its flow (acyclic graphs) *)

Lemma cut_noresp : forall gr d beh l k,
  snd (cut gr d beh l) = NoRespNode k ->
  exists c, In (k, c) (fst (cut gr d beh l)) /\ answers beh d k = true /\ has_node gr k = false.
Proof.
  intros gr d beh l k. induction l as [|[k0 c0|] l IH]; cbn [cut]; [discriminate| |discriminate].
  destruct (answers beh d k0) eqn:A; cbn [fst snd].
  - destruct (has_node gr k0) eqn:H; intros E; inversion E; subst k0.
    exists c0. repeat split; auto. left. reflexivity.
  - intros E. destruct (IH E) as [c [I [A' H]]]. exists c. repeat split; auto. right. exact I.
Qed.

Lemma flow_noresp : forall fuel f d beh k,
  snd (exec_flow_impl fuel f d None beh) = NoRespNode k ->
  exists c, In (k, c) (fst (exec_flow_impl fuel f d None beh))
            /\ answers beh d k = true /\ has_node (fres f) k = false.
Proof.
  intros fuel f d beh k. rewrite (flow_impl_is_spec fuel f d None beh) by (left; reflexivity).
  unfold exec_flow_spec. destruct (root (gdir f d)) as [r|]; [|discriminate].
  apply cut_noresp.
Qed.

Lemma flow_res_outcome : forall fuel f start beh,
  snd (exec_flow_impl fuel f Res start beh) = Done
  \/ snd (exec_flow_impl fuel f Res start beh) = OutOfFuel.
Proof.
  intros fuel f start beh. rewrite (flow_impl_is_spec fuel f Res start beh) by (right; reflexivity).
  unfold exec_flow_spec. destruct start as [k|].
  - apply cut_res_outcome. reflexivity.
  - destruct (root (gdir f Res)); [apply cut_res_outcome; reflexivity|left; reflexivity].
Qed.

Lemma tag_in_intro : forall f d t k c,
  In (k, c) t -> In {| e_flow := fname f; e_key := k; e_dir := d; e_cond := c |} (tag f d t).
Proof.
  intros f d t k c I. unfold tag. apply in_map_iff. exists (k, c). split; [reflexivity|exact I].
Qed.

Section Dropped.
  Variable fuel : nat.
  Variable beh : oracles.

  (* a request-direction event of flow f whose processor answered without a
     response-side node *)
  Definition drops (f : flow) (k : key) (t : list event) : Prop :=
    exists c, In {| e_flow := fname f; e_key := k; e_dir := Req; e_cond := c |} t
              /\ answers (beh (fname f)) Req k = true /\ has_node (fres f) k = false.

  Lemma drops_app_l : forall f k t1 t2, drops f k t1 -> drops f k (t1 ++ t2).
  Proof. intros f k t1 t2 [c [I R]]. exists c. split; [apply in_or_app; left; exact I|exact R]. Qed.
  Lemma drops_app_r : forall f k t1 t2, drops f k t2 -> drops f k (t1 ++ t2).
  Proof. intros f k t1 t2 [c [I R]]. exists c. split; [apply in_or_app; right; exact I|exact R]. Qed.

  Lemma run_list_req_noresp : forall fs k,
    snd (run_list fuel beh Req fs) = Some (NoRespNode k) ->
    exists f, In f fs /\ drops f k (fst (run_list fuel beh Req fs)).
  Proof.
    intros fs k. induction fs as [|f fs IH]; cbn [run_list]; [discriminate|].
    destruct (failed (snd (exec_flow_impl fuel f Req None (beh (fname f))))) eqn:Fl; cbn [fst snd].
    - intros E. inversion E as [E']. destruct (flow_noresp _ _ _ _ _ E') as [c [I [A H]]].
      exists f. split; [left; reflexivity|]. exists c. split; [apply tag_in_intro; exact I|auto].
    - intros E. destruct (IH E) as [f' [F D]]. exists f'. split; [right; exact F|].
      apply drops_app_r. exact D.
  Qed.

  Lemma run_list_res_outcome : forall fs o,
    snd (run_list fuel beh Res fs) = Some o -> o = OutOfFuel.
  Proof.
    intros fs o. induction fs as [|f fs IH]; cbn [run_list]; [discriminate|].
    destruct (flow_res_outcome fuel f None (beh (fname f))) as [E|E]; rewrite E; cbn [failed fst snd].
    - exact IH.
    - intros X. inversion X. reflexivity.
  Qed.

  Lemma run_users_res_outcome : forall sc fs o,
    snd (run_users_res fuel beh sc fs) = Some o -> o = OutOfFuel.
  Proof.
    intros sc fs o. induction fs as [|f fs IH]; cbn [run_users_res]; [discriminate|].
    match goal with |- context [exec_flow_impl fuel f Res ?st _] => set (st0 := st) end.
    destruct (flow_res_outcome fuel f st0 (beh (fname f))) as [E|E]; rewrite E; cbn [failed fst snd].
    - exact IH.
    - intros X. inversion X. reflexivity.
  Qed.

  Lemma then_some : forall r rest o,
    snd (then_ r rest) = Some o ->
    (snd r = Some o /\ fst (then_ r rest) = fst r)
    \/ (snd r = None /\ snd (rest tt) = Some o /\ fst (then_ r rest) = fst r ++ fst (rest tt)).
  Proof.
    intros r rest o. unfold then_. destruct (snd r) eqn:E.
    - rewrite E. intros H. left. split; [exact H|reflexivity].
    - cbn [fst snd]. intros H. right. repeat split; auto.
  Qed.

  Lemma run_res_outcome : forall s sc o, snd (run_res fuel beh s sc) = Some o -> o = OutOfFuel.
  Proof.
    intros s sc o H. unfold run_res in H.
    apply then_some in H. destruct H as [[H _]|[_ [H _]]]; [eapply run_list_res_outcome; eauto|].
    apply then_some in H. destruct H as [[H _]|[_ [H _]]]; [eapply run_users_res_outcome; eauto|].
    eapply run_list_res_outcome; eauto.
  Qed.

  Lemma run_users_req_noresp : forall fs k,
    snd (run_users_req fuel beh fs) = Some (NoRespNode k) ->
    exists f, In f fs /\ drops f k (fst (fst (run_users_req fuel beh fs))).
  Proof.
    intros fs k. induction fs as [|f fs IH]; cbn [run_users_req]; [discriminate|].
    destruct (snd (exec_flow_impl fuel f Req None (beh (fname f)))) eqn:O.
    - destruct (run_users_req fuel beh fs) as [[t2 sc] e]. cbn [fst snd] in *. intros E.
      destruct (IH E) as [f' [F D]]. exists f'. split; [right; exact F|apply drops_app_r; exact D].
    - cbn [snd]. discriminate.
    - cbn [fst snd]. intros E. inversion E; subst k0.
      destruct (flow_noresp _ _ _ _ _ O) as [c [I [A H]]].
      exists f. split; [left; reflexivity|]. exists c. split; [apply tag_in_intro; exact I|auto].
    - cbn [snd]. discriminate.
  Qed.

  Lemma drops_dropped : forall fs f k t,
    In f fs -> drops f k t -> answer_dropped beh fs t = true.
  Proof.
    intros fs f k t F [c [I [A H]]]. unfold answer_dropped. apply existsb_exists.
    eexists. split; [exact I|]. unfold dropped_event. cbn [e_dir e_flow e_key is_req].
    rewrite A. cbn [andb]. apply existsb_exists. exists f. split; [exact F|].
    rewrite Z.eqb_refl, H. reflexivity.
  Qed.

  Lemma run_list_failed : forall d fs o,
    snd (run_list fuel beh d fs) = Some o -> failed o = true.
  Proof.
    intros d fs o. induction fs as [|f fs IH]; cbn [run_list]; [discriminate|].
    destruct (failed (snd (exec_flow_impl fuel f d None (beh (fname f))))) eqn:Fl; cbn [snd].
    - intros X. injection X as Y. subst o. exact Fl.
    - exact IH.
  Qed.

  Lemma run_users_req_failed : forall fs o,
    snd (run_users_req fuel beh fs) = Some o -> failed o = true.
  Proof.
    intros fs o. induction fs as [|f fs IH]; cbn [run_users_req]; [discriminate|].
    destruct (snd (exec_flow_impl fuel f Req None (beh (fname f)))) eqn:O.
    - destruct (run_users_req fuel beh fs) as [[t2 sc] e]. exact IH.
    - cbn [snd]. discriminate.
    - cbn [snd]. intros X. inversion X. reflexivity.
    - cbn [snd]. intros X. inversion X. reflexivity.
  Qed.

  Lemma failed_cases : forall o, failed o = true -> o = OutOfFuel \/ exists k, o = NoRespNode k.
  Proof. intros [| |k|]; try discriminate; eauto. Qed.

  (* an abandoned request: the model ran out of fuel, or the answer of a processor
     without response-side node was dropped *)
  Lemma run_req_abandoned : forall s s2 o,
    snd (run_req fuel beh s s2) = Some o ->
    o = OutOfFuel
    \/ exists k f, o = NoRespNode k /\ In f (sel_flows s) /\ drops f k (fst (run_req fuel beh s s2)).
  Proof.
    intros s s2 o H. unfold run_req in H |- *. unfold sel_flows.
    apply then_some in H. destruct H as [[H E]|[N1 [H E]]]; rewrite E; clear E.
    { destruct (failed_cases _ (run_list_failed _ _ _ H)) as [O|[k O]]; [left; exact O|]. subst o.
      right. destruct (run_list_req_noresp _ _ H) as [f [F D]]. exists k, f.
      split; [reflexivity|]. split; [apply in_or_app; left; exact F|exact D]. }
    pose proof (run_users_req_noresp (s_user s)) as U.
    pose proof (run_users_req_failed (s_user s)) as UF.
    destruct (run_users_req fuel beh (s_user s)) as [[t2 sc] e2]. cbn [fst snd] in *.
    apply then_some in H. cbn [fst snd] in H. destruct H as [[H E]|[N2 [H E]]]; rewrite E; clear E.
    { subst e2. destruct (failed_cases _ (UF o eq_refl)) as [O|[k O]]; [left; exact O|]. subst o.
      right. destruct (U k eq_refl) as [f [F D]]. exists k, f. split; [reflexivity|].
      split; [apply in_or_app; right; apply in_or_app; left; exact F|apply drops_app_r; exact D]. }
    apply then_some in H. destruct H as [[H E]|[N3 [H E]]]; rewrite E; clear E.
    { destruct (failed_cases _ (run_list_failed _ _ _ H)) as [O|[k O]]; [left; exact O|]. subst o.
      right. destruct (run_list_req_noresp _ _ H) as [f [F D]]. exists k, f.
      split; [reflexivity|]. split; [apply in_or_app; right; apply in_or_app; right; exact F|].
      apply drops_app_r. apply drops_app_r. exact D. }
    left. destruct sc as [h|]; [|discriminate]. destruct s2 as [s'|]; [|discriminate].
    eapply run_res_outcome; eauto.
  Qed.

  Notation users_prefix := (users_prefix fuel beh).
  Notation users_prefix_text := (users_prefix_text fuel beh).

  Lemma users_prefix_text_eq : forall fs,
    snd (run_users_req fuel beh fs) = None -> users_prefix_text fs = users_prefix fs.
  Proof.
    induction fs as [|f fs IH]; cbn [run_users_req Spec.users_prefix_text Spec.users_prefix]; [reflexivity|].
    rewrite (flow_impl_is_spec fuel f Req None) by (left; reflexivity).
    fold (flow_walk fuel beh Req None f).
    destruct (snd (flow_walk fuel beh Req None f)) eqn:O.
    - destruct (run_users_req fuel beh fs) as [[t2 sc] e]. cbn [snd] in *. intros H. rewrite (IH H). reflexivity.
    - reflexivity.
    - cbn [snd]. discriminate.
    - cbn [snd]. discriminate.
  Qed.

  Lemma req_order_text_eq : forall s s2,
    snd (run_req fuel beh s s2) = None -> req_order_text fuel beh s s2 = req_order fuel beh s s2.
  Proof.
    intros s s2 H. unfold run_req in H.
    apply then_none in H. destruct H as [_ [H _]].
    pose proof (users_prefix_text_eq (s_user s)) as U.
    destruct (run_users_req fuel beh (s_user s)) as [[t2 sc] e2]. cbn [snd] in U.
    apply then_none in H. destruct H as [H _]. cbn [snd] in H.
    unfold req_order_text, req_order. rewrite (U H). reflexivity.
  Qed.

  Lemma run_req_outside : forall s s2,
    sel_ok fuel s -> (forall s', s2 = Some s' -> sel_ok fuel s') ->
    answer_dropped beh (sel_flows s) (fst (run_req fuel beh s s2)) = false ->
    run_req fuel beh s s2 = (req_order_text fuel beh s s2, None).
  Proof.
    intros s s2 A B D. destruct (snd (run_req fuel beh s s2)) as [o|] eqn:E.
    - exfalso. destruct (run_req_abandoned _ _ _ E) as [O|[k [f [O [F Dr]]]]].
      + subst o. exact (run_req_not_stuck fuel beh s s2 A B E).
      + rewrite (drops_dropped _ _ _ _ F Dr) in D. discriminate.
    - rewrite (req_order_text_eq _ _ E), <- (run_req_order fuel beh _ _ E), <- E.
      destruct (run_req fuel beh s s2); reflexivity.
  Qed.
End Dropped.

(* ====================================================================== *)
(* clause 5, positively: the flow that handed over continues - exactly once -
   from the response connections of the processor that answered; every other
   user flow selected for the response lookup runs from its entry point *)

Section Continue.
  Variable fuel : nat.
  Variable beh : oracles.

  Notation flow_events := (flow_events fuel beh).

  Lemma users_from_root : forall n h fs,
    ~ In n (map fname fs) ->
    flat_map (fun f => flow_events Res (start_for (Some (n, h)) f) f) fs
    = flat_map (flow_events Res None) fs.
  Proof.
    intros n h fs. induction fs as [|f fs IH]; intros N; cbn [flat_map]; [reflexivity|].
    cbn [map] in N. rewrite IH by (intros I; apply N; right; exact I).
    unfold start_for. destruct (n =? fname f) eqn:E; [|reflexivity].
    apply Z.eqb_eq in E. exfalso. apply N. left. symmetry. exact E.
  Qed.

  Lemma users_split : forall h fs f,
    NoDup (map fname fs) -> In f fs ->
    exists us1 us2, fs = us1 ++ f :: us2
      /\ ~ In (fname f) (map fname us1) /\ ~ In (fname f) (map fname us2)
      /\ flat_map (fun f' => flow_events Res (start_for (Some (fname f, h)) f') f') fs
         = flat_map (flow_events Res None) us1 ++ flow_events Res (Some h) f
           ++ flat_map (flow_events Res None) us2.
  Proof.
    intros h fs f N I. destruct (in_split _ _ I) as [us1 [us2 E]]. subst fs.
    rewrite map_app in N. cbn [map] in N.
    assert (N1 : ~ In (fname f) (map fname us1)).
    { intros J. apply NoDup_remove_2 in N. apply N. apply in_or_app. left. exact J. }
    assert (N2 : ~ In (fname f) (map fname us2)).
    { intros J. apply NoDup_remove_2 in N. apply N. apply in_or_app. right. exact J. }
    exists us1, us2. split; [reflexivity|]. split; [exact N1|]. split; [exact N2|].
    rewrite flat_map_app. cbn [flat_map].
    rewrite (users_from_root _ h us1 N1), (users_from_root _ h us2 N2).
    unfold start_for at 1. rewrite Z.eqb_refl. reflexivity.
  Qed.

  Lemma res_order_continues : forall s' f h,
    In f (s_user s') -> NoDup (map fname (s_user s')) ->
    exists us1 us2, rev (s_user s') = us1 ++ f :: us2
      /\ ~ In (fname f) (map fname us1) /\ ~ In (fname f) (map fname us2)
      /\ res_order fuel beh s' (Some (fname f, h))
         = flat_map (flow_events Res None) (rev (s_start s'))
           ++ (flat_map (flow_events Res None) us1 ++ flow_events Res (Some h) f
               ++ flat_map (flow_events Res None) us2)
           ++ flat_map (flow_events Res None) (rev (s_end s')).
  Proof.
    intros s' f h I N.
    assert (N' : NoDup (map fname (rev (s_user s')))) by (rewrite map_rev; apply NoDup_rev; exact N).
    destruct (users_split h (rev (s_user s')) f N' (proj1 (in_rev _ _) I))
      as [us1 [us2 [E [N1 [N2 F]]]]].
    exists us1, us2. split; [exact E|]. split; [exact N1|]. split; [exact N2|].
    unfold res_order. rewrite F. reflexivity.
  Qed.

  Lemma res_order_not_reselected : forall s' n h,
    ~ In n (map fname (s_user s')) ->
    res_order fuel beh s' (Some (n, h)) = res_order fuel beh s' None.
  Proof.
    intros s' n h N. unfold res_order. rewrite users_from_root.
    - reflexivity.
    - rewrite map_rev. intros I. apply N. apply in_rev. exact I.
  Qed.

  (* ---- system flows shaped like those of quotas ---- *)

  Lemma flow_events_no_root : forall d f,
    no_root (gdir f d) = true -> flow_events d None f = [].
  Proof.
    intros d f H. unfold Spec.flow_events, flow_walk, exec_flow_spec, no_root in *.
    destruct (root (gdir f d)); [discriminate|reflexivity].
  Qed.

  Lemma group_no_root : forall d fs,
    forallb (fun f => no_root (gdir f d)) fs = true -> flat_map (flow_events d None) fs = [].
  Proof.
    intros d fs. induction fs as [|f fs IH]; cbn [forallb flat_map]; [reflexivity|].
    intros H. apply andb_true_iff in H. destruct H as [A B].
    rewrite (flow_events_no_root d f A), (IH B). reflexivity.
  Qed.

  Lemma forallb_rev : forall (A : Type) (p : A -> bool) l, forallb p (rev l) = forallb p l.
  Proof.
    intros A p l. destruct (forallb p l) eqn:E.
    - apply forallb_forall. intros x I. rewrite forallb_forall in E. apply E. apply in_rev. exact I.
    - destruct (forallb p (rev l)) eqn:E'; [|reflexivity].
      rewrite forallb_forall in E'. assert (X : forallb p l = true).
      { apply forallb_forall. intros x I. apply E'. apply -> in_rev. exact I. }
      rewrite X in E. discriminate.
  Qed.

  Lemma res_order_quota : forall s sc,
    quota_shape s = true ->
    res_order fuel beh s sc
    = flat_map (fun f => flow_events Res (start_for sc f) f) (rev (s_user s))
      ++ flat_map (flow_events Res None) (rev (s_end s)).
  Proof.
    intros s sc Q. unfold quota_shape in Q. apply andb_true_iff in Q. destruct Q as [A _].
    unfold res_order. rewrite (group_no_root Res); [reflexivity|].
    rewrite forallb_rev. exact A.
  Qed.

  Lemma req_part_quota : forall s,
    quota_shape s = true -> flat_map (flow_events Req None) (s_end s) = [].
  Proof.
    intros s Q. unfold quota_shape in Q. apply andb_true_iff in Q. destruct Q as [_ B].
    apply (group_no_root Req). exact B.
  Qed.
End Continue.
