(* C04 — what a case that passes [Suite.case_ok] guarantees ([case_ok] is evaluated
   on every case of suite "txn" by [Instance.run_case_inst]; the former entry
   point [Suite.run_case_checked] is evaluated by no suite any more). *)
From Coq Require Import List ZArith Bool.
From Verif Require Import C04.Model C04.Spec C04.Proofs C04.Quota C04.QuotaProofs C04.Suite.
Import ListNotations.
Open Scope Z_scope.

Lemma acyclicb_sound : forall g, acyclicb g = true -> acyclic g.
Proof. intros g H. exists (rank_by_relaxation g). apply rankedb_sound. exact H. Qed.

Lemma flow_acyclicb_sound : forall f, flow_acyclicb f = true -> flow_acyclic f.
Proof.
  intros f H. unfold flow_acyclicb in H. apply andb_true_iff in H. destruct H as [A B].
  split; apply acyclicb_sound; assumption.
Qed.

(* the hypotheses of C04_no_fuel_exhaustion / C04_answered_request_holds_outside_F_C04d /
   C04_quota_order hold for the data of a checked case, with the fuel the suite
   runs the model with; and the system flows of the case are the ones
   [Quota.gen_start] / [gen_end] generate from the quota groups of the
   configuration (so C04_quota_flows_run_every_processor speaks about them) *)
Theorem C04_checked_case_hypotheses : forall fl s1 s2 rows isreq obs gs,
  case_ok ((fl, (s1, s2), rows, isreq, obs), gs) = true ->
  let fs := map dec_flow fl in
  let sel_good (s : selection) :=
    sel_ok (fuel_for fs) s /\ quota_shape s = true
    /\ (forall f, In f (s_start s) -> exists g, In g gs /\ In f (gen_start (rep_of g)))
    /\ (forall f, In f (s_end s) -> exists g, In g gs /\ In f (gen_end (rep_of g))) in
  sel_good (dec_sel fs s1)
  /\ (forall e, s2 = Some e -> sel_good (dec_sel fs e))
  /\ (forall g, In g gs ->
        filter (fun f => fname f =? sr_start_name (rep_of g)) fs = gen_start (rep_of g)
        /\ filter (fun f => fname f =? sr_end_name (rep_of g)) fs = gen_end (rep_of g)).
Proof.
  intros fl s1 s2 rows isreq obs gs H fs sel_good. unfold case_ok in H. fold fs in H.
  apply andb_true_iff in H. destruct H as [H G2]. apply andb_true_iff in H. destruct H as [H G1].
  apply andb_true_iff in H. destruct H as [H GO]. apply andb_true_iff in H. destruct H as [H Q2].
  apply andb_true_iff in H. destruct H as [H Q1]. apply andb_true_iff in H. destruct H as [_ A].
  assert (AC : Forall flow_acyclic fs).
  { apply Forall_forall. intros f I. rewrite forallb_forall in A. apply flow_acyclicb_sound, A, I. }
  assert (OK : forall e, sel_ok (fuel_for fs) (dec_sel fs e)).
  { intros e. apply acyclic_sel_ok; [apply dec_sel_incl|].
    apply Forall_forall. intros f I. rewrite Forall_forall in AC. apply AC.
    exact (dec_sel_incl fs e f I). }
  split; [|split].
  - unfold sel_good. split; [apply OK|]. split; [exact Q1|]. apply selected_generated. exact G1.
  - intros e E. subst s2. unfold sel_good. split; [apply OK|]. split; [exact Q2|].
    apply selected_generated. exact G2.
  - intros g I. rewrite forallb_forall in GO. specialize (GO g I). unfold group_ok in GO.
    apply andb_true_iff in GO. destruct GO as [X Y].
    split; apply (list_eqb_eq _ _ flow_eqb_eq); assumption.
Qed.
Print Assumptions C04_checked_case_hypotheses.

(* non-vacuity: the checks pass on the witness graphs of Property.v's shape *)
Example acyclicb_witness :
  acyclicb {| root := Some 1;
              nodes := [(1, [(1, Some 2); (1, Some 3)]); (2, []); (3, [(1, None)])] |} = true
  /\ acyclicb {| root := Some 1; nodes := [(1, [(0, Some 2)]); (2, [(0, Some 1)])] |} = false.
Proof. vm_compute. split; reflexivity. Qed.
