(* C04 — from the connection list AS WRITTEN to the graph of a direction.

   Anchor: flow/flow_builder.go buildConnections / buildConnection (the list is
   read front to back), connectStreamToProcessor (entry point), connectProcessors /
   connectProcessorToStream (getOrCreateNode for the source, then the target, then
   FlowGraphNode.addEdge: appended unless an equal edge is there already).

   Scope: one plain connection list (no `flow:` reference; the harness splices
   the referenced list where the reference stands and hands the model the
   result).  What matters to the walk is, per processor, the ORDER of its
   connections = the order in which they are written; where the entry-point
   connection stands in the list carries no meaning.

   [arranged]: the list may be re-arranged before it is read.  HEAD reads it as
   written.  [entry_first] is the STABLE "entry point first" arrangement (every
   other connection keeps its place relative to the others): it changes nothing
   (OrderProperty.v).  An arrangement that only guarantees "entry first, same
   connections" (an unstable sort: seed C04-9) is refuted there. *)
From Coq Require Import List ZArith Bool.
From Verif Require Import C04.Model.
Import ListNotations.
Open Scope Z_scope.

Inductive conn :=
| CEntry (k : key)                           (* stream start -> processor k *)
| CEdge (k : key) (c : cond) (t : option key) (* processor k [condition c] -> processor t / stream end *)
| CSkip.                                     (* stream start -> stream end *)

Definition is_entry (c : conn) : bool :=
  match c with CEntry _ => true | _ => false end.

Definition edge_eqb (a b : edge) : bool :=
  (fst a =? fst b) &&
  match snd a, snd b with
  | Some x, Some y => x =? y
  | None, None => true
  | _, _ => false
  end.

(* FlowGraphNode.addEdge *)
Definition add_edge (es : list edge) (e : edge) : list edge :=
  if existsb (edge_eqb e) es then es else es ++ [e].

(* getOrCreateNode + an update of the node's connections *)
Fixpoint upd (ns : list (key * list edge)) (k : key) (f : list edge -> list edge)
  : list (key * list edge) :=
  match ns with
  | [] => [(k, f [])]
  | (k', es) :: r => if k' =? k then (k', f es) :: r else (k', es) :: upd r k f
  end.

Definition ensure (ns : list (key * list edge)) (k : key) := upd ns k (fun es => es).

(* buildConnection *)
Definition step (g : dgraph) (c : conn) : dgraph :=
  match c with
  | CEntry k => {| root := Some k; nodes := ensure (nodes g) k |}
  | CEdge k c t =>
      let ns := ensure (nodes g) k in
      let ns := match t with Some t' => ensure ns t' | None => ns end in
      {| root := root g; nodes := upd ns k (fun es => add_edge es (c, t)) |}
  | CSkip => g
  end.

Definition empty_dir : dgraph := {| root := None; nodes := [] |}.

(* buildConnections over the list as it is read *)
Definition build (cs : list conn) : dgraph := fold_left step cs empty_dir.

(* ---- vocabulary of the statements ------------------------------------------ *)

(* the connections of processor k, in the order they are written *)
Fixpoint written (cs : list conn) (k : key) : list edge :=
  match cs with
  | [] => []
  | CEdge k' c t :: r => if k' =? k then (c, t) :: written r k else written r k
  | _ :: r => written r k
  end.

(* a connection written twice is one connection (the first) *)
Definition once (es : list edge) : list edge := fold_left add_edge es [].

(* the entry point a list names (the last one, should there be several) *)
Definition entry_of (cs : list conn) : option key :=
  fold_left (fun r c => match c with CEntry k => Some k | _ => r end) cs None.

(* the stable "entry point first" arrangement *)
Definition entry_first (cs : list conn) : list conn :=
  filter is_entry cs ++ filter (fun c => negb (is_entry c)) cs.

(* the entry-point connection leads the list *)
Definition entry_leads (cs : list conn) : bool :=
  match cs with c :: r => is_entry c && negb (existsb is_entry r) | [] => true end.
