(* C04 — model of flow execution over the configured processor graph.

   Anchors (lunar-engine/streams):
     stream/stream.go      ExecuteFlow            -> [exec_impl] / [loop_impl]
     streams.go            executeFlow            -> [exec_flow_impl]
                           executeReq/executeRes  -> [run_req] / [run_res]
     flow/flow_direction.go, connection_edge.go   -> [dgraph]

   The model describes the code WITH the repairs fix-F-C04 (stop the edge loop
   once a short-circuit node is returned) and fix-F-C04b (after a short circuit
   continue from all connections of the node that caused it, also when the
   response direction has no entry point).  [exec_pinned] keeps the behaviour of
   the pinned tree's edge loop for the refutation in Property.v.

   Reusable by C05: [dgraph], [oracle], the fuelled executor [exec_impl] with
   the distinguished result [OutOfFuel], and [ranked] (acyclicity witness).

   Not modelled: ProcessorIO.ShortCircuit (no processor of the registry sets
   it), processor errors (Execute returning err), actions other than their
   kind.  Builder invariant relied upon: the root of a direction is one of its
   nodes, hence FlowDirection.IsDefined() is implied by root <> nil. *)
From Coq Require Import List ZArith Bool.
Import ListNotations.
Open Scope Z_scope.

(* ------------------------------------------------------------------ graphs *)

Definition key := Z.          (* processor key, interned *)
Definition cond := Z.         (* condition / output name, interned; 0 = "" *)
Inductive dir := Req | Res.
Inductive kind := Plain | Early.   (* Early: ProcessorIO.Type is "response" *)

(* a connection of a node: its condition and its target (None = the stream) *)
Definition edge := (cond * option key)%type.

(* one direction of a flow: entry point and nodes with their connections in
   configuration order *)
Record dgraph := { root : option key; nodes : list (key * list edge) }.

Definition find_node (g : dgraph) (k : key) : option (key * list edge) :=
  find (fun n => fst n =? k) (nodes g).
Definition edges_of (g : dgraph) (k : key) : list edge :=
  match find_node g k with Some n => snd n | None => [] end.
Definition has_node (g : dgraph) (k : key) : bool :=
  match find_node g k with Some _ => true | None => false end.

Record flow := { fname : Z; freq : dgraph; fres : dgraph }.
Definition gdir (f : flow) (d : dir) : dgraph :=
  match d with Req => freq f | Res => fres f end.

(* behaviour of the processors of one flow during one transaction: output
   condition and kind, per processor key and direction *)
Definition oracle := key -> dir -> cond * kind.

Definition is_req (d : dir) : bool := match d with Req => true | Res => false end.
Definition is_early (k : kind) : bool := match k with Early => true | Plain => false end.
(* the processor answers the request itself *)
Definition answers (beh : oracle) (d : dir) (k : key) : bool :=
  is_req d && is_early (snd (beh k d)).

(* ------------------------------------------------------------------ walks *)

Inductive outcome :=
| Done                    (* walk finished, nothing handed over *)
| Handed (k : key)        (* processor k answered the request; its response-side
                             node is the short-circuit node *)
| NoRespNode (k : key)    (* "failed to get response node": error *)
| OutOfFuel.              (* model artefact, excluded by the theorems *)

Definition ev := (key * cond)%type.   (* processor executed, output condition *)

Definition is_done (o : outcome) : bool := match o with Done => true | _ => false end.
(* error (or the model running out of fuel): the transaction is abandoned *)
Definition failed (o : outcome) : bool :=
  match o with NoRespNode _ | OutOfFuel => true | _ => false end.

(* run [r] and, when it finished normally, go on with [rest] *)
Definition andthen (r : list ev * outcome) (rest : unit -> list ev * outcome)
  : list ev * outcome :=
  if is_done (snd r)
  then let r2 := rest tt in (fst r ++ fst r2, snd r2)
  else r.

Section Walk.
  Variable g : dgraph.     (* the direction being walked *)
  Variable gr : dgraph.    (* response direction of the same flow *)
  Variable d : dir.
  Variable beh : oracle.

  (* the edge loop of stream.ExecuteFlow, fixed: a recursive call that returns a
     short-circuit node (or an error) ends the loop *)
  Fixpoint loop_impl (rec : key -> list ev * outcome) (c : cond) (es : list edge)
    : list ev * outcome :=
    match es with
    | [] => ([], Done)
    | (c', None) :: rest => loop_impl rec c rest
    | (c', Some t) :: rest =>
        if c' =? c
        then andthen (rec t) (fun _ => loop_impl rec c rest)
        else loop_impl rec c rest
    end.

  (* stream.ExecuteFlow *)
  Fixpoint exec_impl (fuel : nat) (k : key) : list ev * outcome :=
    match fuel with
    | O => ([], OutOfFuel)
    | S f =>
        let c := fst (beh k d) in
        if answers beh d k
        then ([(k, c)], if has_node gr k then Handed k else NoRespNode k)
        else let r := loop_impl (exec_impl f) c (edges_of g k) in
             ((k, c) :: fst r, snd r)
    end.

  (* the edge loop of the pinned tree: it keeps looping after a recursive call
     returned a short-circuit node and overwrites it with the next result *)
  Fixpoint loop_pinned (rec : key -> list ev * outcome) (c : cond) (es : list edge)
           (sc : outcome) : list ev * outcome :=
    match es with
    | [] => ([], sc)
    | (c', None) :: rest => loop_pinned rec c rest sc
    | (c', Some t) :: rest =>
        if c' =? c
        then let r := rec t in
             if failed (snd r) then r
             else let r2 := loop_pinned rec c rest (snd r) in (fst r ++ fst r2, snd r2)
        else loop_pinned rec c rest sc
    end.

  Fixpoint exec_pinned (fuel : nat) (k : key) : list ev * outcome :=
    match fuel with
    | O => ([], OutOfFuel)
    | S f =>
        let c := fst (beh k d) in
        if answers beh d k
        then ([(k, c)], if has_node gr k then Handed k else NoRespNode k)
        else let r := loop_pinned (exec_pinned f) c (edges_of g k) Done in
             ((k, c) :: fst r, snd r)
    end.

  (* ---------------- reference interpreter, from the property text ----------

     "starting at the stream entry point, after each processor exactly those
     connections whose condition equals the processor's output are followed":
     [walk] lists the processors in that order (depth first, connections in
     configuration order).  "When a processor answers the request itself, the
     rest of the request path is skipped": the processors that run are the
     prefix of that listing up to and including the first one that answers
     ([cut]). *)
  Inductive item := Run (k : key) (c : cond) | Stuck.

  (* targets of the connections of a node that carry condition [c] *)
  Definition targets (c : cond) (es : list edge) : list key :=
    flat_map (fun e => match snd e with
                       | Some t => if fst e =? c then [t] else []
                       | None => []
                       end) es.

  Fixpoint walk (fuel : nat) (k : key) : list item :=
    match fuel with
    | O => [Stuck]
    | S f => Run k (fst (beh k d))
             :: flat_map (walk f) (targets (fst (beh k d)) (edges_of g k))
    end.

  Fixpoint cut (l : list item) : list ev * outcome :=
    match l with
    | [] => ([], Done)
    | Stuck :: _ => ([], OutOfFuel)
    | Run k c :: rest =>
        if answers beh d k
        then ([(k, c)], if has_node gr k then Handed k else NoRespNode k)
        else let r := cut rest in ((k, c) :: fst r, snd r)
    end.

  Definition exec_spec (fuel : nat) (k : key) : list ev * outcome :=
    cut (walk fuel k).

  (* walks from several start nodes one after the other (streams.executeFlow
     after the repair: an error ends the sequence) *)
  Fixpoint starts_impl (rec : key -> list ev * outcome) (ts : list key)
    : list ev * outcome :=
    match ts with
    | [] => ([], Done)
    | t :: rest =>
        let r := rec t in
        if failed (snd r) then r
        else let r2 := starts_impl rec rest in (fst r ++ fst r2, snd r2)
    end.
End Walk.

(* targets of all connections of a node, whatever their condition *)
Definition all_targets (es : list edge) : list key :=
  flat_map (fun e => match snd e with Some t => [t] | None => [] end) es.

(* streams.executeFlow: one direction of one flow.  [start] = the processor that
   answered the request (hand-over), None = walk from the entry point. *)
Definition exec_flow_impl (fuel : nat) (f : flow) (d : dir) (start : option key)
           (beh : oracle) : list ev * outcome :=
  let g := gdir f d in
  match start with
  | Some k => starts_impl (exec_impl g (fres f) d beh fuel) (all_targets (edges_of g k))
  | None => match root g with
            | None => ([], Done)
            | Some r => exec_impl g (fres f) d beh fuel r
            end
  end.

(* the same from the property text: "the response path continues from that
   processor's response connection" *)
Definition exec_flow_spec (fuel : nat) (f : flow) (d : dir) (start : option key)
           (beh : oracle) : list ev * outcome :=
  let g := gdir f d in
  match start with
  | Some k => cut (fres f) d beh
                  (flat_map (walk g d beh fuel) (all_targets (edges_of g k)))
  | None => match root g with
            | None => ([], Done)
            | Some r => exec_spec g (fres f) d beh fuel r
            end
  end.

(* ------------------------------------------------------------ orchestration *)

Record event := { e_flow : Z; e_key : key; e_dir : dir; e_cond : cond }.

Definition tag (f : flow) (d : dir) (t : list ev) : list event :=
  map (fun kc => {| e_flow := fname f; e_key := fst kc; e_dir := d; e_cond := snd kc |}) t.

(* flows selected for a transaction, in selection order *)
Record selection := { s_start : list flow; s_user : list flow; s_end : list flow }.

(* behaviour of every flow's processors, by flow name *)
Definition oracles := Z -> oracle.

Section Orchestration.
  Variable fuel : nat.
  Variable beh : oracles.

  (* system flows (and user flows on responses without hand-over): every flow
     from its entry point; a short-circuit node they return is dropped; an error
     ends the transaction *)
  Fixpoint run_list (d : dir) (fs : list flow) : list event * option outcome :=
    match fs with
    | [] => ([], None)
    | f :: rest =>
        let r := exec_flow_impl fuel f d None (beh (fname f)) in
        if failed (snd r) then (tag f d (fst r), Some (snd r))
        else let r2 := run_list d rest in (tag f d (fst r) ++ fst r2, snd r2)
    end.

  (* user flows of a request: stop at the first flow that hands over *)
  Fixpoint run_users_req (fs : list flow)
    : list event * option (Z * key) * option outcome :=
    match fs with
    | [] => ([], None, None)
    | f :: rest =>
        let r := exec_flow_impl fuel f Req None (beh (fname f)) in
        match snd r with
        | Done => let '(t2, sc, e) := run_users_req rest in (tag f Req (fst r) ++ t2, sc, e)
        | Handed k => (tag f Req (fst r), Some (fname f, k), None)
        | bad => (tag f Req (fst r), None, Some bad)
        end
    end.

  (* user flows of a response; the flow that handed over continues from the
     short-circuit node *)
  Fixpoint run_users_res (sc : option (Z * key)) (fs : list flow)
    : list event * option outcome :=
    match fs with
    | [] => ([], None)
    | f :: rest =>
        let start := match sc with
                     | Some (n, k) => if n =? fname f then Some k else None
                     | None => None
                     end in
        let r := exec_flow_impl fuel f Res start (beh (fname f)) in
        if failed (snd r) then (tag f Res (fst r), Some (snd r))
        else let r2 := run_users_res sc rest in (tag f Res (fst r) ++ fst r2, snd r2)
    end.

  Definition then_ (r : list event * option outcome)
             (rest : unit -> list event * option outcome) : list event * option outcome :=
    match snd r with
    | Some _ => r
    | None => let r2 := rest tt in (fst r ++ fst r2, snd r2)
    end.

  (* streams.executeRes *)
  Definition run_res (s : selection) (sc : option (Z * key)) : list event * option outcome :=
    then_ (run_list Res (rev (s_start s))) (fun _ =>
    then_ (run_users_res sc (rev (s_user s))) (fun _ =>
           run_list Res (rev (s_end s)))).

  (* streams.executeReq; [s2] = the flows selected when the transaction is looked
     up again as a response after a hand-over (None = none found) *)
  Definition run_req (s : selection) (s2 : option selection) : list event * option outcome :=
    then_ (run_list Req (s_start s)) (fun _ =>
    let '(t2, sc, e2) := run_users_req (s_user s) in
    then_ (t2, e2) (fun _ =>
    then_ (run_list Req (s_end s)) (fun _ =>
    match sc, s2 with
    | Some h, Some s' => run_res s' (Some h)
    | _, _ => ([], None)
    end))).
End Orchestration.

(* -------------------------------------------------------- acyclicity witness *)

(* every connection leads to a node of smaller rank *)
Definition ranked (g : dgraph) (rk : key -> nat) : Prop :=
  forall k c t, In (c, Some t) (edges_of g k) -> (rk t < rk k)%nat.

Definition rankedb (g : dgraph) (rk : key -> nat) : bool :=
  forallb (fun n => forallb (fun e => match snd e with
                                      | Some t => Nat.ltb (rk t) (rk (fst n))
                                      | None => true
                                      end) (snd n)) (nodes g).

(* ---------------------------------------------------- correspondence entry *)

Definition dgraph_enc := (option Z * list (Z * list (Z * option Z)))%type.
Definition sel_enc := (list Z * list Z * list Z)%type.

(* (flows, (selection, selection as response after a hand-over),
    oracle rows (flow, key, is-request, output condition, answers-itself),
    transaction is a request,
    observed (events (flow, key, is-request, condition), result code))
   result code: 0 nothing special, 1 the request was answered by a processor,
   2 error *)
Definition case :=
  (list (Z * dgraph_enc * dgraph_enc)
   * (sel_enc * option sel_enc)
   * list (Z * Z * bool * Z * bool)
   * bool
   * (list (Z * Z * bool * Z) * Z))%type.

Definition dec_graph (e : dgraph_enc) : dgraph := {| root := fst e; nodes := snd e |}.
Definition dec_flow (e : Z * dgraph_enc * dgraph_enc) : flow :=
  let '(n, q, s) := e in {| fname := n; freq := dec_graph q; fres := dec_graph s |}.

Definition flows_named (fs : list flow) (ns : list Z) : list flow :=
  flat_map (fun n => match find (fun f => fname f =? n) fs with
                     | Some f => [f] | None => [] end) ns.
Definition dec_sel (fs : list flow) (e : sel_enc) : selection :=
  let '(a, u, z) := e in
  {| s_start := flows_named fs a; s_user := flows_named fs u; s_end := flows_named fs z |}.

Definition dir_of (b : bool) : dir := if b then Req else Res.

Definition dec_oracle (rows : list (Z * Z * bool * Z * bool)) : oracles :=
  fun fl k d =>
    match find (fun r => let '(f', k', q', _, _) := r in
                         (f' =? fl) && (k' =? k) && eqb q' (is_req d)) rows with
    | Some (_, _, _, c, e) => (c, if e then Early else Plain)
    | None => (0, Plain)
    end.

Definition fuel_for (fs : list flow) : nat :=
  S (fold_right (fun f n => (length (nodes (freq f)) + length (nodes (fres f)) + n)%nat) O fs).

Definition enc_event (e : event) : Z * Z * bool * Z :=
  (e_flow e, e_key e, is_req (e_dir e), e_cond e).

Definition result_code (beh : oracles) (r : list event * option outcome) : Z :=
  match snd r with
  | Some OutOfFuel => 3
  | Some _ => 2
  | None => if existsb (fun e => answers (beh (e_flow e)) (e_dir e) (e_key e)) (fst r)
            then 1 else 0
  end.

Fixpoint eq_events (a b : list (Z * Z * bool * Z)) : bool :=
  match a, b with
  | [], [] => true
  | (f, k, q, c) :: a', (f', k', q', c') :: b' =>
      (f =? f') && (k =? k') && eqb q q' && (c =? c') && eq_events a' b'
  | _, _ => false
  end.

(* NOT EVALUATED BY ANY SUITE since the instance round: suite "txn" evaluates
   [OrderSuite.run_case_ord] -> [Instance.run_case_inst], which runs the same
   [run_req] / [run_res] / [result_code] over an oracle derived from the
   instances.  Kept (with [case], [dec_oracle]) because [Suite.case_ok] is stated
   over the [case] type. *)
Definition run_case (k : case) : option (list (Z * Z * bool * Z) * Z) :=
  let '(fl, (s1, s2), rows, isreq, (obs, code)) := k in
  let fs := map dec_flow fl in
  let beh := dec_oracle rows in
  let fuel := fuel_for fs in
  let r := if isreq
           then run_req fuel beh (dec_sel fs s1) (option_map (dec_sel fs) s2)
           else run_res fuel beh (dec_sel fs s1) None in
  let m := (map enc_event (fst r), result_code beh r) in
  if eq_events (fst m) obs && (snd m =? code) then None else Some m.
