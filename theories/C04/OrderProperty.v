(* C04 — "processors run in the order given by the flow's connections": the order
   of a processor's connections in the graph that is walked IS the order in which
   they are written in the connection list, for every list - however long, with
   the entry-point connection written first, in the middle or last.
   Final statements only; definitions in Order.v, lemmas in OrderProofs.v. *)
From Coq Require Import List ZArith Bool Permutation.
From Verif Require Import C04.Model C04.Order C04.OrderProofs.
Import ListNotations.
Open Scope Z_scope.

(* The connections of every processor of the built direction are its connections
   in the list, in written order (one written twice counts once); the entry
   point is the one the list names.  All lists, all processors. *)
Theorem C04_connections_in_written_order : forall cs k,
  edges_of (build cs) k = once (written cs k) /\ root (build cs) = entry_of cs.
Proof. intros. split; [apply edges_written|apply root_build]. Qed.
Print Assumptions C04_connections_in_written_order.

(* Where the entry-point connection stands in the list carries no meaning:
   reading the list with the entry point moved to the front - every other
   connection keeping its place relative to the others - gives the same entry
   point, the same connections of every processor in the same order, and
   therefore the same walk from every processor, for every behaviour of the
   processors, either direction, every fuel. *)
Theorem C04_entry_position_irrelevant : forall cs,
  root (build (entry_first cs)) = root (build cs)
  /\ (forall k, edges_of (build (entry_first cs)) k = edges_of (build cs) k)
  /\ (forall gr d beh fuel k,
        exec_impl (build (entry_first cs)) gr d beh fuel k
        = exec_impl (build cs) gr d beh fuel k).
Proof.
  intros cs.
  assert (E : forall k, edges_of (build (entry_first cs)) k = edges_of (build cs) k)
    by (intros k; rewrite !edges_written, written_entry_first; reflexivity).
  split; [rewrite !root_build; apply entry_of_entry_first|].
  split; [exact E|]. intros. apply exec_same_edges. exact E.
Qed.
Print Assumptions C04_entry_position_irrelevant.

(* More generally: any re-arrangement of the list that keeps every processor's
   connections in their written order gives the same walk. *)
Theorem C04_same_written_order_same_walk : forall cs cs',
  (forall k, written cs' k = written cs k) ->
  forall gr d beh fuel k,
    exec_impl (build cs') gr d beh fuel k = exec_impl (build cs) gr d beh fuel k.
Proof.
  intros cs cs' H gr d beh fuel k. apply exec_same_edges.
  intros k0. rewrite !edges_written, H. reflexivity.
Qed.
Print Assumptions C04_same_written_order_same_walk.

(* "Entry point first, the same connections" alone is NOT enough (seed C04-9: the
   list is put through an unstable sort whose only key is "is the entry point"):
   the full claim - every arrangement of the same connections that leads with the
   entry point gives the same walk - is false. *)
Definition C04_any_entry_first_arrangement_full : Prop :=
  forall cs cs', Permutation cs' cs -> entry_leads cs' = true ->
  forall gr d beh fuel k,
    exec_impl (build cs') gr d beh fuel k = exec_impl (build cs) gr d beh fuel k.

(* fan 1 -> 2, 1 -> 3 (same condition), entry point written last; the
   arrangement leads with the entry point and swaps the two equal elements *)
Definition w_written : list conn := [CEdge 1 1 (Some 2); CEdge 1 1 (Some 3); CEntry 1].
Definition w_sorted : list conn := [CEntry 1; CEdge 1 1 (Some 3); CEdge 1 1 (Some 2)].
Definition w_beh : oracle := fun _ _ => (1, Plain).

Example C04_unstable_witness :
  Permutation w_sorted w_written /\ entry_leads w_sorted = true
  /\ root (build w_sorted) = root (build w_written)
  /\ fst (exec_impl (build w_written) empty_dir Req w_beh 5 1) = [(1, 1); (2, 1); (3, 1)]
  /\ fst (exec_impl (build w_sorted) empty_dir Req w_beh 5 1) = [(1, 1); (3, 1); (2, 1)]
  /\ fst (exec_impl (build (entry_first w_written)) empty_dir Req w_beh 5 1) = [(1, 1); (2, 1); (3, 1)].
Proof.
  split.
  - unfold w_sorted, w_written.
    apply Permutation_trans with (l' := [CEntry 1; CEdge 1 1 (Some 2); CEdge 1 1 (Some 3)]).
    + apply perm_skip. apply perm_swap.
    + apply (Permutation_cons_append [CEdge 1 1 (Some 2); CEdge 1 1 (Some 3)] (CEntry 1)).
  - repeat split; vm_compute; reflexivity.
Qed.

Theorem C04_any_entry_first_arrangement_full_refuted : ~ C04_any_entry_first_arrangement_full.
Proof.
  intros H. destruct C04_unstable_witness as (P & L & _ & W1 & W2 & _).
  specialize (H w_written w_sorted P L empty_dir Req w_beh 5%nat 1).
  rewrite H in W2. rewrite W1 in W2. discriminate W2.
Qed.
Print Assumptions C04_any_entry_first_arrangement_full_refuted.

(* Long list, wide fan-out, entry point last (the shape of the seed's demo):
   14 siblings written in the order 14, 3, 9, ... run in exactly that order. *)
Definition w_sibs : list key := [14; 3; 9; 1; 12; 7; 5; 11; 2; 13; 8; 4; 10; 6].
Definition w_wide : list conn :=
  map (fun s => CEdge 100 1 (Some s)) w_sibs ++ map (fun s => CEdge s 1 None) w_sibs ++ [CEntry 100].

Example C04_wide_witness :
  length w_wide = 29%nat
  /\ entry_leads w_wide = false
  /\ root (build w_wide) = Some 100
  /\ map fst (fst (exec_impl (build w_wide) empty_dir Req w_beh 5 100)) = 100 :: w_sibs.
Proof. repeat split; vm_compute; reflexivity. Qed.
