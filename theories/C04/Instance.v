(* C04 — WHICH processor runs at a node (definitions only).

   Model.v identifies a node of a flow's graph by its key and takes what the
   node's processor outputs from an oracle indexed by (flow, key).  That says
   nothing about which processor INSTANCE the node runs: the same processor key
   may be declared by several flows (each declaration is an instance of its
   own, with its own parameters), and a connection of flow F may name the
   processor of another flow ("G.k").  This file adds that dimension.

   Anchors (lunar-engine/streams):
     config/flow_rep.types.go  ProcessorRef.parseRef       -> [pref]
       "G.k": ReferenceName "G.k", CreatedByFlow G, Name k; "k": ReferenceName k
     processors/processor_util.go
       CreateProcessor(createdByFlow, ...)                 -> an instance is
         (declaring flow, key): processorInstances[flow][key]   [inst]
       GetProcessorInstance(createdByFlow, key)
     flow/flow_graph_node_builder.go buildNode(flowRepName, ref):
         createdByFlow := flowRepName, or ref.CreatedByFlow when it is set;
         GetProcessorInstance(createdByFlow, ref.Name)      -> [resolve ByNamedFlow]
     flow/flow_direction.go getOrCreateNode(flowName, ref): nodes are keyed by the
         REFERENCE name; an existing node is returned as it is, else buildNode
                                                            -> [get_or_create], [build_insts]
     flow/flow_builder.go: the connection lists are read in order; for a
         connection both ends (from, then to); a flow reference reads the
         referenced flow's connections - with THAT flow as flowName - where the
         reference stands                                   -> [mention] lists
         (produced by the harness' own reading, config.go Compile)

   [LocalFirst] is the seeded variant (a reference is looked up among the
   processors of the flow whose connections are being read first, and only then
   in the flow it names): kept as a switch, refuted in InstanceProperty.v. *)
From Coq Require Import List ZArith Bool.
From Verif Require Import C04.Model C04.Spec C04.Quota C04.Suite.
Import ListNotations.
Open Scope Z_scope.

(* ------------------------------------------------------------- instances *)

(* a processor instance: (flow that declares it, its key there) *)
Definition inst := (Z * Z)%type.
Definition inst_eqb (a b : inst) : bool := (fst a =? fst b) && (snd a =? snd b).

(* a processor reference as written in a connection *)
Record pref := {
  r_key : key;        (* reference name = key of the graph node, "G.k" or "k" *)
  r_by : option Z;    (* "G.k": the flow G it names *)
  r_name : Z          (* k *)
}.

(* flow whose connection list is being read, reference *)
Definition mention := (Z * pref)%type.

Inductive resolver := ByNamedFlow | LocalFirst.

Definition declaredb (decl : list inst) (i : inst) : bool := existsb (inst_eqb i) decl.

(* the instance the reference NAMES: the processor of the flow it names, a plain
   key the processor of the flow whose connections mention it *)
Definition named (cur : Z) (r : pref) : inst :=
  (match r_by r with Some g => g | None => cur end, r_name r).

Definition resolve (v : resolver) (decl : list inst) (cur : Z) (r : pref) : inst :=
  match v with
  | ByNamedFlow => named cur r
  | LocalFirst => if declaredb decl (cur, r_name r) then (cur, r_name r) else named cur r
  end.

(* ------------------------------------------------------------- node maps *)

(* FlowDirection.nodes, projected: node key -> instance the node runs *)
Definition node_map := list (key * inst).

Definition lookup (m : node_map) (k : key) : option inst :=
  option_map snd (find (fun p => fst p =? k) m).

(* FlowDirection.getOrCreateNode *)
Definition get_or_create (v : resolver) (decl : list inst) (m : node_map) (mn : mention)
  : node_map :=
  match lookup m (r_key (snd mn)) with
  | Some _ => m
  | None => m ++ [(r_key (snd mn), resolve v decl (fst mn) (snd mn))]
  end.

Definition build_insts (v : resolver) (decl : list inst) (ms : list mention) : node_map :=
  fold_left (get_or_create v decl) ms [].

(* the first mention of a node key *)
Fixpoint first_mention (ms : list mention) (k : key) : option mention :=
  match ms with
  | [] => None
  | m :: rest => if r_key (snd m) =? k then Some m else first_mention rest k
  end.

(* ------------------------------------------------------------- flows with references *)

Record iflow := { i_flow : flow; i_req : list mention; i_res : list mention }.
Definition i_refs (f : iflow) (d : dir) : list mention :=
  match d with Req => i_req f | Res => i_res f end.

Definition find_iflow (ifs : list iflow) (n : Z) : option iflow :=
  find (fun f => fname (i_flow f) =? n) ifs.

Definition imap_of (v : resolver) (decl : list inst) (f : iflow) (d : dir) : node_map :=
  build_insts v decl (i_refs f d).

(* per flow: name, node map of the request direction, of the response direction
   (computed once per configuration) *)
Definition imaps (v : resolver) (decl : list inst) (ifs : list iflow)
  : list (Z * node_map * node_map) :=
  map (fun f => (fname (i_flow f), imap_of v decl f Req, imap_of v decl f Res)) ifs.

(* the instance node k of flow fl runs in direction d *)
Definition ran_in (ms : list (Z * node_map * node_map)) (fl : Z) (d : dir) (k : key)
  : option inst :=
  match find (fun p => fst (fst p) =? fl) ms with
  | Some p => lookup (match d with Req => snd (fst p) | Res => snd p end) k
  | None => None
  end.

Definition ran (v : resolver) (decl : list inst) (ifs : list iflow) :=
  ran_in (imaps v decl ifs).

(* ------------------------------------------------------------- behaviour *)

(* what an INSTANCE outputs in this transaction, per direction *)
Definition ibeh := inst -> dir -> cond * kind.

(* the oracle of Model.v obtained from it: a node outputs what the instance it
   runs outputs *)
Definition beh_of_maps (ms : list (Z * node_map * node_map)) (ib : ibeh) : oracles :=
  fun fl k d => match ran_in ms fl d k with
                | Some i => ib i d
                | None => (0, Plain)
                end.

Definition beh_of (v : resolver) (decl : list inst) (ifs : list iflow) (ib : ibeh) : oracles :=
  beh_of_maps (imaps v decl ifs) ib.

(* ------------------------------------------------------------- transactions *)

(* a processor-executed event together with the instance that ran *)
Definition ievent := (event * option inst)%type.

Definition annotate (v : resolver) (decl : list inst) (ifs : list iflow) (t : list event)
  : list ievent :=
  map (fun e => (e, ran v decl ifs (e_flow e) (e_dir e) (e_key e))) t.

Definition run_req_i (v : resolver) (decl : list inst) (ifs : list iflow) (ib : ibeh)
           (fuel : nat) (s : selection) (s2 : option selection)
  : list ievent * option outcome :=
  let r := run_req fuel (beh_of v decl ifs ib) s s2 in (annotate v decl ifs (fst r), snd r).

Definition run_res_i (v : resolver) (decl : list inst) (ifs : list iflow) (ib : ibeh)
           (fuel : nat) (s : selection) (sc : option (Z * key))
  : list ievent * option outcome :=
  let r := run_res fuel (beh_of v decl ifs ib) s sc in (annotate v decl ifs (fst r), snd r).

(* the event reports the output of its own node *)
Definition own_output (beh : oracles) (e : event) : Prop :=
  e_cond e = fst (beh (e_flow e) (e_key e) (e_dir e)).

(* ------------------------------------------------------------- the two resolvers *)

(* no flow names "G.k" (G another flow) in a connection list read with a flow
   that itself declares k: the only configurations on which the two resolvers
   can differ *)
Definition mention_clash_free (decl : list inst) (m : mention) : bool :=
  match r_by (snd m) with
  | Some g => (g =? fst m) || negb (declaredb decl (fst m, r_name (snd m)))
  | None => true
  end.
Definition clash_free (decl : list inst) (ifs : list iflow) : bool :=
  forallb (fun f => forallb (mention_clash_free decl) (i_req f)
                    && forallb (mention_clash_free decl) (i_res f)) ifs.

(* ------------------------------------------------------------- correspondence entry *)

(* encodings with constructors of their own (case files elaborate much faster
   than with nested tuples); flow ids start at 1, 0 = "names no flow" *)
Inductive mention_enc := Mn (cur key by_ name : Z).
Inductive refs_enc := RF (fl : Z) (rq rs : list mention_enc).
Inductive irow := IR (owner name : Z) (isreq : bool) (c : Z) (early : bool).

Definition dec_mention (e : mention_enc) : mention :=
  let '(Mn cur k b n) := e in
  (cur, {| r_key := k; r_by := if b =? 0 then None else Some b; r_name := n |}).

Definition dec_iflows (fl : list (Z * dgraph_enc * dgraph_enc)) (rf : list refs_enc) : list iflow :=
  map (fun e =>
         let f := dec_flow e in
         match find (fun x => let '(RF n _ _) := x in n =? fname f) rf with
         | Some (RF _ rq rs) => {| i_flow := f; i_req := map dec_mention rq; i_res := map dec_mention rs |}
         | None => {| i_flow := f; i_req := []; i_res := [] |}
         end) fl.

(* rows: declaring flow, key, is-request, output condition, answers-itself *)
Definition row_for (i : inst) (d : dir) (r : irow) : bool :=
  let '(IR o n q _ _) := r in (o =? fst i) && (n =? snd i) && eqb q (is_req d).

(* total for the sake of the interpreter; the default (0, Plain) for an instance
   without row is never used by a case that passes [run_case_inst]: [rows_ok]
   below refuses the case *)
Definition dec_ioracle (rows : list irow) : ibeh :=
  fun i d =>
    match find (row_for i d) rows with
    | Some (IR _ _ _ c e) => (c, if e then Early else Plain)
    | None => (0, Plain)
    end.

Definition has_row (rows : list irow) (i : inst) (d : dir) : bool :=
  existsb (row_for i d) rows.

(* side conditions of a case, evaluated on its own data:
   - every node of every direction has a reference that creates it, and the
     instance it runs is a declared one (the loader refuses anything else);
   - every mention of a node key names the same instance as the first one
     (so "an existing node is returned as it is" never decides anything in the
     configurations of the suite). *)
Definition dir_inst_ok (decl : list inst) (g : dgraph) (refs : list mention) (m : node_map) : bool :=
  forallb (fun n => match lookup m (fst n) with
                    | Some i => declaredb decl i
                    | None => false
                    end) (nodes g)
  && forallb (fun mn => match lookup m (r_key (snd mn)) with
                        | Some i => inst_eqb i (named (fst mn) (snd mn))
                        | None => false
                        end) refs.

Definition inst_ok (decl : list inst) (ifs : list iflow) : bool :=
  forallb (fun f => dir_inst_ok decl (freq (i_flow f)) (i_req f) (imap_of ByNamedFlow decl f Req)
                    && dir_inst_ok decl (fres (i_flow f)) (i_res f) (imap_of ByNamedFlow decl f Res)) ifs.

(* - the instance oracle is given where it is consulted: every node of every
     direction is mapped to an instance that has a row for that direction (so
     neither default - [beh_of_maps] for an unmapped node, [dec_ioracle] for an
     instance without row - can stand in for a processor's output). *)
Definition dir_rows_ok (rows : list irow) (d : dir) (g : dgraph) (m : node_map) : bool :=
  forallb (fun n => match lookup m (fst n) with
                    | Some i => has_row rows i d
                    | None => false
                    end) (nodes g).

Definition rows_ok (rows : list irow) (decl : list inst) (ifs : list iflow) : bool :=
  forallb (fun f => dir_rows_ok rows Req (freq (i_flow f)) (imap_of ByNamedFlow decl f Req)
                    && dir_rows_ok rows Res (fres (i_flow f)) (imap_of ByNamedFlow decl f Res)) ifs.

(* what identifies the instance in the implementation's effect: a processor that
   answers the request appends an early response whose content names the
   instance (status and body are parameters of the declaration); nothing else
   is appended that tells instances apart *)
Definition mark_of (ms : list (Z * node_map * node_map)) (ib : ibeh) (e : event) : option inst :=
  match ran_in ms (e_flow e) (e_dir e) (e_key e) with
  | Some i => if is_req (e_dir e) && is_early (snd (ib i (e_dir e))) then Some i else None
  | None => None
  end.

(* observed: (0, 0) = the event's processor appended no early response *)
Definition mark_eqb (a : option inst) (b : Z * Z) : bool :=
  match a with
  | Some x => inst_eqb x b
  | None => inst_eqb (0, 0) b
  end.

Definition mevent := (Z * Z * bool * Z * option (Z * Z))%type.

Fixpoint eq_mevents (a : list mevent) (b : list (Z * Z * bool * Z)) (mk : list (Z * Z))
  : bool :=
  match a, b, mk with
  | [], [], [] => true
  | (f, k, q, c, m) :: a', (f', k', q', c') :: b', m' :: mk' =>
      (f =? f') && (k =? k') && eqb q q' && (c =? c') && mark_eqb m m' && eq_mevents a' b' mk'
  | _, _, _ => false
  end.

(* (flows, (selection, selection as response after a hand-over), transaction is a
    request, observed (events, result code), quota groups,
    per flow the references of its request / response connections in reading order,
    declared instances, instance oracle rows,
    per observed event the instance its early response names, (0, 0) = none) *)
Definition case_i :=
  (list (Z * dgraph_enc * dgraph_enc)
   * (sel_enc * option sel_enc)
   * bool
   * (list (Z * Z * bool * Z) * Z)
   * list qgroup
   * list refs_enc
   * list (Z * Z)
   * list irow
   * list (Z * Z))%type.

(* None = the model - node -> instance resolved by the NAMED flow, every node
   outputting what its instance outputs - agrees with the implementation's
   events, with the instance each early response names and with the result, AND
   the side conditions (Suite.case_ok; inst_ok and rows_ok) hold.  Otherwise: the
   side conditions (case_ok, inst_ok && rows_ok) and what the model says. *)
Definition run_case_inst (k : case_i) : option (bool * bool * (list mevent * Z)) :=
  let '(fl, (s1, s2), isreq, (obs, code), gs, rf, decl, irows, marks) := k in
  let fs := map dec_flow fl in
  let ifs := dec_iflows fl rf in
  let ms := imaps ByNamedFlow decl ifs in
  let ib := dec_ioracle irows in
  let beh := beh_of_maps ms ib in
  let fuel := fuel_for fs in
  let r := if isreq
           then run_req fuel beh (dec_sel fs s1) (option_map (dec_sel fs) s2)
           else run_res fuel beh (dec_sel fs s1) None in
  let tr := map (fun e => (e_flow e, e_key e, is_req (e_dir e), e_cond e, mark_of ms ib e)) (fst r) in
  let c := result_code beh r in
  let ok1 := case_ok ((fl, (s1, s2), [], isreq, (obs, code)), gs) in
  let ok2 := inst_ok decl ifs && rows_ok irows decl ifs in
  if eq_mevents tr obs marks && (c =? code) && ok1 && ok2 then None
  else Some (ok1, ok2, (tr, c)).
