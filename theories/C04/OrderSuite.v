(* C04 — suite `txn`, entry point: Instance.run_case_inst AND, for every plain
   connection list of the configuration (a direction of a user flow that refers
   to no other flow), the graph the harness read from it (config.go) is the
   graph [Order.build] gives for the list AS WRITTEN: same entry point, the same
   connections of every processor in the same order, the same processors.  So
   the order of a fan-out's siblings in the model is tied to the order of the
   YAML list the engine was given, not only to the harness' reading of it. *)
From Coq Require Import List ZArith Bool.
From Verif Require Import C04.Model C04.Quota C04.Suite C04.Instance C04.Order.
Import ListNotations.
Open Scope Z_scope.

(* flow, request?, its connection list as written *)
Inductive wlist := WL (f : Z) (isreq : bool) (cs : list conn).

Definition case_o := (case_i * list wlist)%type.

Definition edges_eqb (a b : list edge) : bool :=
  (length a =? length b)%nat && forallb (fun p => edge_eqb (fst p) (snd p)) (combine a b).

Definition root_eqb (a b : option key) : bool :=
  match a, b with
  | Some x, Some y => x =? y
  | None, None => true
  | _, _ => false
  end.

Definition dir_agrees (g : dgraph) (cs : list conn) : bool :=
  let b := build cs in
  root_eqb (root b) (root g)
  && forallb (fun n => edges_eqb (edges_of b (fst n)) (snd n)) (nodes g)
  && forallb (fun n => has_node g (fst n)) (nodes b).

Definition list_ok (fs : list flow) (w : wlist) : bool :=
  let '(WL f q cs) := w in
  match find (fun x => fname x =? f) fs with
  | Some x => dir_agrees (gdir x (dir_of q)) cs
  | None => false
  end.

Definition fl_of (k : case_i) : list (Z * dgraph_enc * dgraph_enc) :=
  let '(fl, _, _, _, _, _, _, _, _) := k in fl.

(* result code -1: a connection list and the graph read from it disagree *)
Definition run_case_ord (k : case_o) : option (bool * bool * (list mevent * Z)) :=
  match run_case_inst (fst k) with
  | Some m => Some m
  | None =>
      if forallb (list_ok (map dec_flow (fl_of (fst k)))) (snd k) then None
      else Some (true, true, ([], -1))
  end.
