(* C04 / end-to-end composition — final statements only.

   ONE model of a transaction through the engine ([engine], EndToEnd.v):
     configuration = list of flows in load order, each with its C03 filter (URL
       pattern, methods, headers, query, status), its kind (user / system start
       / system end) and its two C04 graphs;
     selection   = C03's [get_flow] over the tree C03's [build] makes of the
       filters in load order, split by kind into the engine's three lists
       (order preserved), C03's [exec_flow] deciding "nothing selected =>
       untouched";
     execution   = C04's [run_req] (start-system, user up to the first hand-over,
       end-system, then - the transaction looked up again as a response -
       [run_res]) / [run_res];
     combination = C07's [fold_req] / [fold_resp] over the actions the executed
       processors produced, in trace order (an error discards them).
   The statements hold for ALL configurations satisfying [cfg_ok] = C03's stated
   side conditions (every AddFlow succeeded, * only trailing, no host-label /
   path-segment collision) + unique flow names + C05's validity predicate on
   every flow (what C05's [load] guarantees of what it returns:
   [E2E_loaded_is_valid]), all transactions, all processor behaviours, all
   action oracles, and every fuel unless said otherwise.  Proofs
   (EndToEndProofs.v) compose the units' theorems; nothing about tries, walks,
   cycle detection or the action table is proved again. *)
From Coq Require Import String List ZArith Bool.
From Verif Require C03.Trie C03.Model C03.Spec C07.Model C07.Spec.
From Verif Require Import C04.Model C04.Spec.
From Verif Require C05.Model.
From Verif Require Import C04.EndToEnd C04.EndToEndSpec C04.EndToEndProofs.
Import ListNotations.
Open Scope Z_scope.

(* ---- (a) only matching flows run ------------------------------------------------
   Every executed processor belongs to a configured flow whose OWN filter accepts
   the transaction (C03_sound / C03_sound_lax lifted through C04's trace):
   URL pattern (trailing * as coded; in the strict reading of the text under
   C03's side condition wild_kind_ok, i.e. outside the open finding F-C03f) and
   the flow's own method / header / query / status requirements - judged on the
   transaction as it came for request-direction processors, and on the
   transaction typed as a response for response-direction processors (a response,
   or a request answered by a processor, which executeReq looks up again). *)
Theorem E2E_only_matching_flows_run : forall fuel cfg beh x ev,
  cfg_ok cfg -> In ev (o_trace (engine fuel cfg beh x)) ->
  exists e, In e cfg /\ eid e = e_flow ev /\ accepts (ef_filter e) (view x (e_dir ev)).
Proof.
  intros fuel cfg beh x ev OK I.
  destruct (engine_event fuel cfg beh x ev OK I) as [e [A [B [C _]]]]. exists e. auto.
Qed.
Print Assumptions E2E_only_matching_flows_run.

(* ---- (b) no match: untouched ------------------------------------------------------
   No configured filter is satisfied by the transaction => nothing runs, nobody
   is invoked, no error, and the combined action is the neutral one for every
   action oracle (C03_no_match_no_action under its side conditions). *)
Theorem E2E_no_match_untouched : forall fuel cfg beh x,
  cfg_ok cfg ->
  (forall e, In e cfg -> FS.satisfied (ef_filter e) x = false
                         /\ FS.wild_kind_ok (F.pat (ef_filter e)) (url_parts x) = true) ->
  engine fuel cfg beh x = neutral
  /\ (forall ao, action_req ao (engine fuel cfg beh x) = A.RNoOp)
  /\ (forall po, action_res po (engine fuel cfg beh x) = A.PNoOp).
Proof.
  intros fuel cfg beh x OK H. rewrite (engine_no_match fuel cfg beh x OK H).
  repeat split; reflexivity.
Qed.
Print Assumptions E2E_no_match_untouched.

(* ---- (c) path and order -------------------------------------------------------------
   Every executed processor lies, in the graph of its own flow, on a path all of
   whose connections carry the condition output by their source
   (C04_flow_path), starting at the entry point of the direction or - response
   direction only - at the target of a response connection of a processor OF
   THE SAME FLOW THAT ANSWERED THE REQUEST EARLIER IN THIS TRACE (the event of
   that processor precedes the event in question: [on_root_path]); and a
   transaction that is not abandoned runs the groups in the engine's order:
   request = start-system flows, user flows up to and including the first in
   which a processor answers, end-system flows, then - if answered - the
   response order of the flows selected for the transaction typed as a response;
   response = the same groups, each in reverse selection order
   (C04_system_order, C04_system_order_response). *)
Theorem E2E_path : forall fuel cfg beh x,
  cfg_ok cfg ->
  (forall ev, In ev (o_trace (engine fuel cfg beh x)) ->
     exists e, In e cfg /\ eid e = e_flow ev
               /\ on_root_path beh (o_trace (engine fuel cfg beh x)) e ev)
  /\ (o_error (engine fuel cfg beh x) = None ->
      o_trace (engine fuel cfg beh x)
      = if F.t_resp x
        then res_order fuel beh (split cfg (selected cfg x)) None
        else req_order fuel beh (split cfg (selected cfg x)) (reselect cfg x)).
Proof.
  intros fuel cfg beh x OK. split; [|apply engine_order].
  intros ev I. destruct (engine_event fuel cfg beh x ev OK I) as [e [A [B [_ D]]]]. exists e. auto.
Qed.
Print Assumptions E2E_path.

(* ---- (c') clause 5 end to end: "the response path continues from that
   processor's response connection" ---------------------------------------------------
   Request that is not abandoned; a processor of USER flow e answered it.  The
   flow is found again by the second GetFlow exactly when its own status
   requirement allows a response-typed stream that has no response object
   ([found_again] = C03's status_ok on [as_response x]: the flow lists no status
   codes; URL and method are the request's, header / query requirements are not
   judged on a response).  Then, after the request part, flow e contributes -
   exactly once, at its place in the reversed user selection - the walk from the
   targets of all response connections of the answering processor; every other
   flow found runs from its entry point. *)
Theorem E2E_response_continues : forall fuel cfg beh x e ev,
  cfg_ok cfg -> F.t_resp x = false ->
  o_error (engine fuel cfg beh x) = None ->
  In e cfg -> F.f_kind (ef_filter e) = 0 ->
  In ev (o_trace (engine fuel cfg beh x)) ->
  e_flow ev = eid e -> e_dir ev = Req -> ev_answers beh ev = true ->
  found_again e x = true ->
  exists s' us1 us2 reqpart,
    reselect cfg x = Some s'
    /\ rev (s_user s') = us1 ++ graph_of e :: us2
    /\ ~ In (eid e) (map fname us1) /\ ~ In (eid e) (map fname us2)
    /\ Forall (fun e' => e_dir e' = Req) reqpart /\ In ev reqpart
    /\ o_trace (engine fuel cfg beh x)
       = reqpart
         ++ flat_map (flow_events fuel beh Res None) (rev (s_start s'))
         ++ (flat_map (flow_events fuel beh Res None) us1
             ++ flow_events fuel beh Res (Some (e_key ev)) (graph_of e)
             ++ flat_map (flow_events fuel beh Res None) us2)
         ++ flat_map (flow_events fuel beh Res None) (rev (s_end s')).
Proof. exact engine_response_continues. Qed.
Print Assumptions E2E_response_continues.

(* ... and otherwise (the flow lists status codes: no response object can carry
   one) nothing of that flow runs on the response side of the request: its own
   filter does not accept the transaction typed as a response (clause 0). *)
Theorem E2E_not_found_again : forall fuel cfg beh x e ev,
  cfg_ok cfg -> F.t_resp x = false -> In e cfg -> found_again e x = false ->
  In ev (o_trace (engine fuel cfg beh x)) -> e_flow ev = eid e -> e_dir ev = Req.
Proof. exact engine_not_found_again. Qed.
Print Assumptions E2E_not_found_again.

(* ---- (d) termination -------------------------------------------------------------------
   With C05's budget for the loaded graphs the transaction ends with actions or
   with the error "failed to get response node" - never by exhausting the
   budget - and executes at most the explicit bound of C05_transaction_safe
   (sum over the selected flows of (1 + max out-degree)^(budget + 1)). *)
Theorem E2E_terminates : forall cfg beh x,
  cfg_ok cfg ->
  let r := engine (fuel_of cfg) cfg beh x in
  o_error r <> Some OutOfFuel
  /\ (o_error r = None \/ exists k, o_error r = Some (NoRespNode k))
  /\ (length (o_trace r) <= txn_bound cfg x)%nat.
Proof.
  intros cfg beh x OK r. destruct (engine_terminates cfg beh x OK) as [A B]. fold r in A, B.
  split; [|split; assumption]. destruct A as [A|[k A]]; rewrite A; discriminate.
Qed.
Print Assumptions E2E_terminates.

(* the same for a configuration handed to C05's loader, through
   C05_transaction_safe as it is stated; and what the loader accepts satisfies
   the validity part of cfg_ok *)
Theorem E2E_terminates_loaded : forall cf cfg beh x,
  L.load cf = L.Accept (graphs cfg) ->
  let r := engine (fuel_of cfg) cfg beh x in
  (o_error r = None \/ exists k, o_error r = Some (NoRespNode k))
  /\ (length (o_trace r) <= txn_bound cfg x)%nat.
Proof. exact engine_terminates_loaded. Qed.
Print Assumptions E2E_terminates_loaded.

Theorem E2E_loaded_is_valid : forall cf cfg,
  L.load cf = L.Accept (graphs cfg) -> Forall LP.flow_valid (graphs cfg).
Proof. exact loaded_valid. Qed.
Print Assumptions E2E_loaded_is_valid.

(* The error "failed to get response node" is the open finding F-C04d: with
   C05's budget a transaction is abandoned ONLY when it is a request in which an
   executed processor answered without having a node on the response side of
   its flow; outside it ([e2e_dropped] = false on the trace: what the monitor
   computes over the observed events) every transaction ends with actions. *)
Theorem E2E_abandoned_only_by_F_C04d : forall cfg beh x o,
  cfg_ok cfg -> o_error (engine (fuel_of cfg) cfg beh x) = Some o ->
  F.t_resp x = false
  /\ exists k e c, o = NoRespNode k /\ In e cfg
       /\ In {| e_flow := eid e; e_key := k; e_dir := Req; e_cond := c |}
             (o_trace (engine (fuel_of cfg) cfg beh x))
       /\ answers (beh (eid e)) Req k = true /\ has_node (ef_res e) k = false.
Proof. exact engine_abandoned. Qed.
Print Assumptions E2E_abandoned_only_by_F_C04d.

Theorem E2E_never_abandoned_outside_F_C04d : forall cfg beh x,
  cfg_ok cfg ->
  e2e_dropped cfg beh (o_trace (engine (fuel_of cfg) cfg beh x)) = false ->
  o_error (engine (fuel_of cfg) cfg beh x) = None.
Proof. exact engine_outside. Qed.
Print Assumptions E2E_never_abandoned_outside_F_C04d.

(* The budget does not matter once it is C05's: every larger fuel gives the same
   transaction (trace, result, invocations) - so the statements made "for every
   fuel" above are, from [fuel_of cfg] on, statements about ONE behaviour, and
   the two correspondence suites (fuel_for / exec_fuel) evaluate the same
   function whenever both budgets are enough (C04_fuel_independent). *)
Theorem E2E_fuel_independent : forall fuel cfg beh x,
  cfg_ok cfg -> (fuel_of cfg <= fuel)%nat ->
  engine fuel cfg beh x = engine (fuel_of cfg) cfg beh x.
Proof. exact engine_fuel. Qed.
Print Assumptions E2E_fuel_independent.

(* ---- (e) the resulting action ------------------------------------------------------------
   The action handed to the proxy is C07's combination of the actions of the
   executed processors in trace order (none when the transaction errors); hence
   (C07_early_wins_first) the first early response among them, unchanged, when
   there is one, and otherwise (C07_headers_union) not an early response, its
   header edits being the later-wins union of all edits in trace order. *)
Theorem E2E_action : forall fuel cfg beh x ao po,
  let r := engine fuel cfg beh x in
  (o_error r = None ->
     action_req ao r = A.fold_req (req_actions ao (o_trace r))
     /\ action_res po r = A.fold_resp (resp_actions po (o_trace r)))
  /\ (o_error r <> None -> action_req ao r = A.RNoOp /\ action_res po r = A.PNoOp)
  /\ (o_error r = None -> forall a,
        AS.first_early (req_actions ao (o_trace r)) = Some a ->
        action_req ao r = a /\ In a (req_actions ao (o_trace r)))
  /\ (o_error r = None ->
        Forall (fun a => A.is_early a = false) (req_actions ao (o_trace r)) ->
        A.is_early (action_req ao r) = false
        /\ forall k, A.lookup k (A.req_edits (action_req ao r))
                     = AS.last_edit k (map A.req_edits (req_actions ao (o_trace r)))).
Proof.
  intros fuel cfg beh x ao po r. unfold action_req, action_res.
  split; [intros E; rewrite E; split; reflexivity|].
  split; [intros E; destruct (o_error r); [split; reflexivity|contradiction]|].
  split.
  - intros E a H. rewrite E. destruct (AT.C07_early_wins_first _ _ H) as [A1 [_ A3]]. split; assumption.
  - intros E H. rewrite E. destruct (AT.C07_headers_union _ H) as [A1 [A2 _]]. split; assumption.
Qed.
Print Assumptions E2E_action.

(* Early response wins, end to end (C07_early_wins + the cut of C04's walk):
   request that is not abandoned, the two oracles describing the same
   processors, system flows never answering.  If an executed processor answered
   the request then it is the only one, the combined action is exactly its
   early response, nobody before it answered, and after it nothing ran on the
   request side except end-system flows (in particular no later user flow):
   everything else after it is the response direction. *)
Theorem E2E_early_response : forall fuel cfg beh ao x ev,
  cfg_ok cfg -> coherent beh ao -> sys_quiet cfg beh ->
  F.t_resp x = false ->
  o_error (engine fuel cfg beh x) = None ->
  In ev (o_trace (engine fuel cfg beh x)) -> ev_answers beh ev = true ->
  exists pre post a,
    o_trace (engine fuel cfg beh x) = pre ++ ev :: post
    /\ silent beh pre
    /\ ao (e_flow ev) (e_key ev) (e_dir ev) = Some a /\ A.is_early a = true
    /\ action_req ao (engine fuel cfg beh x) = a
    /\ Forall (fun e' => e_dir e' = Res
                         \/ exists e, In e cfg /\ eid e = e_flow e' /\ F.f_kind (ef_filter e) = 2) post.
Proof. exact engine_early_response. Qed.
Print Assumptions E2E_early_response.

(* The two oracle hypotheses of E2E_early_response in the finite form [run_txn]
   checks on every request of suite e2e for the PREDICTED action oracle: they
   imply the quantified ones for the decoded oracles. *)
Theorem E2E_oracle_hypotheses_checked : forall cfg orc areal,
  coherentb orc areal = true -> sys_quietb cfg orc = true ->
  coherent (dec_orc orc) (dec_ao areal) /\ sys_quiet cfg (dec_orc orc).
Proof.
  intros cfg orc areal C S. split; [apply coherentb_sound; exact C|apply sys_quietb_sound; exact S].
Qed.
Print Assumptions E2E_oracle_hypotheses_checked.

(* ======== non-vacuity: a concrete configuration ==================================== *)


(* flow 100  system start on "*":   request  q(10) -> stream
   flow 1    user "api.com/v1/*":   request  F(1) -hit(1)-> Gen(2), F -miss(2)-> stream
                                    response W(3) -> stream [entry], Gen(2) -> T(4) -> stream
   flow 2    user "api.com/v1/items", POST only:
                                    request  H(5) -> stream;  response V(6) -> stream
   flow 101  system end on "api.com/*":  response d(11) -> stream *)
Definition demo_flows : list cflow :=
  [ FL 100 1 "*" [] [] [] [] (GD 10 [GN 10 [GE 0 (-1)]]) (GD (-1) []);
    FL 1 0 "api.com/v1/*" [] [] [] []
       (GD 1 [GN 1 [GE 1 2; GE 2 (-1)]; GN 2 []])
       (GD 3 [GN 3 [GE 1 (-1)]; GN 2 [GE 0 4]; GN 4 [GE 1 (-1)]]);
    FL 2 0 "api.com/v1/items" ["POST"%string] [] [] []
       (GD 5 [GN 5 [GE 1 (-1)]]) (GD 6 [GN 6 [GE 1 (-1)]]);
    FL 101 2 "api.com/*" [] [] [] [] (GD (-1) []) (GD 11 [GN 11 [GE 0 (-1)]]) ].
Definition demo : econfig := map dec_flow demo_flows.

(* F of flow 1 outputs [c]; Gen (flow 1, key 2) answers requests *)
Definition demo_beh (c : Z) : oracles :=
  fun fl k d =>
    if (fl =? 1) && (k =? 2) then (0, if is_req d then Early else Plain)
    else if (fl =? 1) && (k =? 1) then (c, Plain)
    else if k <? 10 then (1, Plain) else (0, Plain).

(* F sets x-a: 1, H sets x-a: 2 and x-b: 1, Gen answers 429, the others: no-op *)
Definition demo_ao : aoracle :=
  fun fl k d =>
    if (fl =? 1) && (k =? 2)
    then if is_req d then Some (A.REarly 429 (F.bs "slow down") [(F.bs "content-type", F.bs "text/plain")])
         else None
    else if k =? 1 then Some (A.RModHeaders [(F.bs "x-a", F.bs "1")])
    else if k =? 5 then Some (A.RModHeaders [(F.bs "x-a", F.bs "2"); (F.bs "x-b", F.bs "1")])
    else if k <? 10 then Some A.RNoOp else None.

Definition ev (f k : Z) (d : dir) (c : Z) : event :=
  {| e_flow := f; e_key := k; e_dir := d; e_cond := c |}.

Example E2E_demo_hypotheses : cfg_ok demo /\ fuel_of demo = 6%nat.
Proof. split; [apply cfg_okb_sound|]; vm_compute; reflexivity. Qed.

Example E2E_demo_oracles : forall c, coherent (demo_beh c) demo_ao /\ sys_quiet demo (demo_beh c).
Proof.
  intros c. split.
  - intros fl k d. unfold demo_beh, demo_ao, answers.
    destruct ((fl =? 1) && (k =? 2)) eqn:G.
    + destruct d; cbn; split; intros; try discriminate; eauto.
    + split.
      * intros H. exfalso.
        destruct ((fl =? 1) && (k =? 1)); [|destruct (k <? 10)]; cbn in H;
          rewrite andb_false_r in H; discriminate H.
      * intros a H E. exfalso.
        destruct (k =? 1); [inversion H; subst a; discriminate E|].
        destruct (k =? 5); [inversion H; subst a; discriminate E|].
        destruct (k <? 10); [inversion H; subst a; discriminate E|discriminate H].
  - intros e I K k. unfold demo, demo_flows in I. cbn [map] in I.
    destruct I as [E|[E|[E|[E|[]]]]]; subst e.
    + vm_compute (eid _). unfold answers, demo_beh. cbn. destruct (k <? 10); reflexivity.
    + exfalso. apply K. reflexivity.
    + exfalso. apply K. reflexivity.
    + vm_compute (eid _). unfold answers, demo_beh. cbn. destruct (k <? 10); reflexivity.
Qed.

(* POST api.com/v1/items, F hits: quota q, then F and Gen of flow 1 (Gen answers:
   flow 2 is NOT entered on the request side), no end-system request processor;
   then, looked up again as a response: start-system flow has no response side,
   user flows in reverse (flow 2's V from its entry, flow 1 from Gen's response
   connection: T), then the end-system d.  The action is Gen's early response. *)
Example E2E_demo_answered :
  let r := engine (fuel_of demo) demo (demo_beh 1) (dec_txn (TX false "api.com/v1/items" "POST" [] [] 0)) in
  r = {| o_trace := [ev 100 10 Req 0; ev 1 1 Req 1; ev 1 2 Req 0;
                     ev 2 6 Res 1; ev 1 4 Res 1; ev 101 11 Res 0];
         o_error := None; o_invoked := [1] |}
  /\ action_req demo_ao r = A.REarly 429 (F.bs "slow down") [(F.bs "content-type", F.bs "text/plain")].
Proof. vm_compute. split; reflexivity. Qed.

(* the same request when F misses: both user flows run in selection order
   (wildcard node before the exact node), header edits merge, the later one wins *)
Example E2E_demo_merged :
  let r := engine (fuel_of demo) demo (demo_beh 2) (dec_txn (TX false "api.com/v1/items" "POST" [] [] 0)) in
  r = {| o_trace := [ev 100 10 Req 0; ev 1 1 Req 2; ev 2 5 Req 1];
         o_error := None; o_invoked := [1; 2] |}
  /\ action_req demo_ao r = A.RModHeaders [(F.bs "x-a", F.bs "2"); (F.bs "x-b", F.bs "1")].
Proof. vm_compute. split; reflexivity. Qed.

(* GET: flow 2 (POST only) is not selected, neither for the request nor for the
   response lookup after Gen answered; the response of a POST runs the groups
   in reverse; another host with a verb outside the system flows' defaults: nothing *)
Example E2E_demo_others :
  o_trace (engine (fuel_of demo) demo (demo_beh 1) (dec_txn (TX false "api.com/v1/items" "GET" [] [] 0)))
  = [ev 100 10 Req 0; ev 1 1 Req 1; ev 1 2 Req 0; ev 1 4 Res 1; ev 101 11 Res 0]
  /\ o_trace (engine (fuel_of demo) demo (demo_beh 1) (dec_txn (TX true "api.com/v1/items" "POST" [] [] 200)))
     = [ev 2 6 Res 1; ev 1 3 Res 1; ev 101 11 Res 0]
  /\ engine (fuel_of demo) demo (demo_beh 1) (dec_txn (TX false "api.org/v1/items" "HEAD" [] [] 0)) = neutral.
Proof. vm_compute. repeat split; reflexivity. Qed.

(* the hypotheses of E2E_no_match_untouched hold for that last transaction, and
   those of E2E_early_response for the first one *)
Example E2E_demo_no_match :
  forall e, In e demo ->
    FS.satisfied (ef_filter e) (dec_txn (TX false "api.org/v1/items" "HEAD" [] [] 0)) = false
    /\ FS.wild_kind_ok (F.pat (ef_filter e)) (url_parts (dec_txn (TX false "api.org/v1/items" "HEAD" [] [] 0))) = true.
Proof.
  intros e I. unfold demo, demo_flows in I. cbn [map] in I.
  destruct I as [E|[E|[E|[E|[]]]]]; subst e; vm_compute; split; reflexivity.
Qed.

Example E2E_demo_early_hypotheses :
  let x := dec_txn (TX false "api.com/v1/items" "POST" [] [] 0) in
  F.t_resp x = false
  /\ o_error (engine (fuel_of demo) demo (demo_beh 1) x) = None
  /\ In (ev 1 2 Req 0) (o_trace (engine (fuel_of demo) demo (demo_beh 1) x))
  /\ ev_answers (demo_beh 1) (ev 1 2 Req 0) = true.
Proof. vm_compute. repeat split; auto. Qed.

(* clause 5 on the demo: Gen (flow 1, key 2) answered the POST; flow 1 lists no
   status codes, so it is found again and continues from Gen's response
   connection (T = 4), flow 2 runs from its entry point (V = 6) *)
Example E2E_demo_continues :
  let x := dec_txn (TX false "api.com/v1/items" "POST" [] [] 0) in
  forall e, In e demo -> eid e = 1 ->
    F.f_kind (ef_filter e) = 0 /\ found_again e x = true
    /\ flow_events (fuel_of demo) (demo_beh 1) Res (Some 2) (graph_of e) = [ev 1 4 Res 1].
Proof.
  intros x e I E. unfold demo, demo_flows in I. cbn [map] in I.
  destruct I as [I|[I|[I|[I|[]]]]]; subst e; vm_compute in E; try discriminate E.
  vm_compute. repeat split; reflexivity.
Qed.

(* the same configuration with a status requirement on flow 1: Gen still answers
   the POST (the action is its early response) but flow 1 is NOT found again by
   the second lookup - a request has no response object - so T does not run;
   flow 2 and the end-system flow see the response as before.  A real 200
   response does select flow 1. *)
Definition demo_st_flows : list cflow :=
  [ FL 100 1 "*" [] [] [] [] (GD 10 [GN 10 [GE 0 (-1)]]) (GD (-1) []);
    FL 1 0 "api.com/v1/*" [] [] [] [200]
       (GD 1 [GN 1 [GE 1 2; GE 2 (-1)]; GN 2 []])
       (GD 3 [GN 3 [GE 1 (-1)]; GN 2 [GE 0 4]; GN 4 [GE 1 (-1)]]);
    FL 2 0 "api.com/v1/items" ["POST"%string] [] [] []
       (GD 5 [GN 5 [GE 1 (-1)]]) (GD 6 [GN 6 [GE 1 (-1)]]);
    FL 101 2 "api.com/*" [] [] [] [] (GD (-1) []) (GD 11 [GN 11 [GE 0 (-1)]]) ].
Definition demo_st : econfig := map dec_flow demo_st_flows.

Example E2E_demo_status :
  cfg_ok demo_st
  /\ (let r := engine (fuel_of demo_st) demo_st (demo_beh 1) (dec_txn (TX false "api.com/v1/items" "POST" [] [] 0)) in
      r = {| o_trace := [ev 100 10 Req 0; ev 1 1 Req 1; ev 1 2 Req 0; ev 2 6 Res 1; ev 101 11 Res 0];
             o_error := None; o_invoked := [1] |}
      /\ action_req demo_ao r = A.REarly 429 (F.bs "slow down") [(F.bs "content-type", F.bs "text/plain")])
  /\ o_trace (engine (fuel_of demo_st) demo_st (demo_beh 1) (dec_txn (TX true "api.com/v1/items" "POST" [] [] 200)))
     = [ev 2 6 Res 1; ev 1 3 Res 1; ev 101 11 Res 0]
  /\ o_trace (engine (fuel_of demo_st) demo_st (demo_beh 1) (dec_txn (TX true "api.com/v1/items" "POST" [] [] 404)))
     = [ev 2 6 Res 1; ev 101 11 Res 0].
Proof.
  split; [apply cfg_okb_sound; vm_compute; reflexivity|]. vm_compute. repeat split; reflexivity.
Qed.

(* F-C04d on the demo shape: Gen without a node on the response side - the
   request is abandoned, the early response dropped (the action is the neutral
   one), and the classifier says so *)
Definition demo_drop_flows : list cflow :=
  [ FL 1 0 "api.com/v1/*" [] [] [] []
       (GD 1 [GN 1 [GE 1 2; GE 2 (-1)]; GN 2 []])
       (GD 3 [GN 3 [GE 1 (-1)]]);
    FL 101 2 "api.com/*" [] [] [] [] (GD (-1) []) (GD 11 [GN 11 [GE 0 (-1)]]) ].
Definition demo_drop : econfig := map dec_flow demo_drop_flows.

Example E2E_demo_dropped :
  cfg_ok demo_drop
  /\ (let r := engine (fuel_of demo_drop) demo_drop (demo_beh 1) (dec_txn (TX false "api.com/v1/items" "POST" [] [] 0)) in
      r = {| o_trace := [ev 1 1 Req 1; ev 1 2 Req 0]; o_error := Some (NoRespNode 2); o_invoked := [1] |}
      /\ action_req demo_ao r = A.RNoOp
      /\ e2e_dropped demo_drop (demo_beh 1) (o_trace r) = true)
  /\ e2e_dropped demo (demo_beh 1)
       (o_trace (engine (fuel_of demo) demo (demo_beh 1) (dec_txn (TX false "api.com/v1/items" "POST" [] [] 0)))) = false.
Proof.
  split; [apply cfg_okb_sound; vm_compute; reflexivity|]. vm_compute. repeat split; reflexivity.
Qed.
