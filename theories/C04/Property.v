(* C04 — Flow execution follows the configured processor graph.
   Final statements only; definitions are in Model.v (the code, with the repairs
   fix-F-C04 / fix-F-C04b) and Spec.v (vocabulary), proofs in Proofs.v.

   Fuel: the executors are structurally recursive on a depth budget; running out
   of it is the distinguished outcome [OutOfFuel].  The statements either hold
   for every fuel (equalities between two executors that consume fuel alike) or
   exclude exhaustion explicitly: on acyclic graphs ([ranked]) with fuel above
   the rank of the start node the result is not [OutOfFuel] and does not depend
   on the fuel. *)
From Coq Require Import List ZArith Bool Lia.
From Verif Require Import C04.Model C04.Spec C04.Proofs.
Import ListNotations.
Open Scope Z_scope.

(* ---- the interpreter is the reference interpreter -------------------------- *)

(* stream.ExecuteFlow (repaired) = the interpreter written from the property
   text, for every graph, every behaviour of the processors, both directions,
   every start node and every fuel. *)
Theorem C04_impl_is_spec_every_fuel : forall g gr d beh fuel k,
  exec_impl g gr d beh fuel k = exec_spec g gr d beh fuel k.
Proof. exact impl_is_spec. Qed.
Print Assumptions C04_impl_is_spec_every_fuel.

(* ... and on acyclic graphs, with fuel above the rank of the start node, both
   terminate with a proper result which no larger or smaller admissible fuel
   changes. *)
Theorem C04_impl_is_spec : forall g gr d beh rk fuel k,
  ranked g rk -> (rk k < fuel)%nat ->
  exec_impl g gr d beh fuel k = exec_spec g gr d beh fuel k
  /\ snd (exec_impl g gr d beh fuel k) <> OutOfFuel
  /\ forall fuel', (rk k < fuel')%nat ->
       exec_impl g gr d beh fuel' k = exec_impl g gr d beh fuel k.
Proof.
  intros g gr d beh rk fuel k R L. split; [apply impl_is_spec|]. split.
  - eapply ranked_not_stuck; eauto.
  - intros fuel' L'. eapply ranked_fuel_irrelevant; eauto.
Qed.
Print Assumptions C04_impl_is_spec.

(* One direction of one flow (streams.executeFlow, repaired): from the entry
   point, or - after a processor answered the request - from all response
   connections of that processor.  (The hand-over only exists in the response
   direction: executeRes.) *)
Theorem C04_flow_impl_is_spec : forall fuel f d start beh,
  start = None \/ d = Res ->
  exec_flow_impl fuel f d start beh = exec_flow_spec fuel f d start beh
  /\ (flow_ok fuel f -> snd (exec_flow_impl fuel f d start beh) <> OutOfFuel).
Proof.
  intros. split; [apply flow_impl_is_spec; assumption|apply flow_not_stuck].
Qed.
Print Assumptions C04_flow_impl_is_spec.

(* ---- no processor off the path runs ---------------------------------------- *)

(* Every processor executed in a walk from s lies on a path from s whose every
   connection carries the condition output by its source and which never goes
   on from a processor that answered the request; the condition reported for it
   is its own output. *)
Theorem C04_path : forall g gr d beh fuel s k c,
  In (k, c) (fst (exec_impl g gr d beh fuel s)) ->
  on_path g d beh s k /\ c = fst (beh k d).
Proof. intros g gr d beh fuel s k c. apply impl_on_path. Qed.
Print Assumptions C04_path.

(* The same for one direction of a flow: the path starts at the entry point,
   or, after a hand-over from processor h, at the target of one of h's response
   connections.  A direction without entry point runs nothing unless handed to. *)
Theorem C04_flow_path : forall fuel f d start beh k c,
  In (k, c) (fst (exec_flow_impl fuel f d start beh)) ->
  c = fst (beh k d) /\
  match start with
  | None => exists r, root (gdir f d) = Some r /\ on_path (gdir f d) d beh r k
  | Some h => exists c' t, In (c', Some t) (edges_of (gdir f d) h)
                           /\ on_path (gdir f d) d beh t k
  end.
Proof. exact flow_on_path. Qed.
Print Assumptions C04_flow_path.

(* Connections are taken in configuration order: after a processor that does
   not answer the request, the walk is the concatenation of the sub-walks of
   the targets of its matching connections, in the order the connections are
   listed, up to the first sub-walk that hands over (or fails); a processor
   that answers the request ends the walk. *)
Theorem C04_config_order : forall g gr d beh fuel k,
  exec_impl g gr d beh (S fuel) k =
  if answers beh d k
  then ([(k, fst (beh k d))], if has_node gr k then Handed k else NoRespNode k)
  else let r := seq_walks (map (exec_impl g gr d beh fuel)
                               (targets (fst (beh k d)) (edges_of g k))) in
       ((k, fst (beh k d)) :: fst r, snd r).
Proof.
  intros. rewrite impl_is_spec, spec_unfold.
  destruct (answers beh d k); [reflexivity|].
  rewrite (map_ext _ _ (impl_is_spec g gr d beh fuel)). reflexivity.
Qed.
Print Assumptions C04_config_order.

(* ---- order of the selected flows ------------------------------------------- *)

(* Request that is not abandoned (no error, fuel not exhausted): first every
   start-system flow in selection order, then the user flows in selection order
   up to and including the first one in which a processor answers the request,
   then every end-system flow in selection order - all in the request
   direction.  If a processor answered, the transaction is looked up again as a
   response (s2) and handled as a response with the hand-over ([res_order]). *)
Theorem C04_system_order : forall fuel beh s s2,
  snd (run_req fuel beh s s2) = None ->
  fst (run_req fuel beh s s2) = req_order fuel beh s s2.
Proof. exact run_req_order. Qed.
Print Assumptions C04_system_order.

(* Response: the same three groups in the same group order (start-system, user,
   end-system), each group in REVERSE selection order; the user flow that
   handed over continues from the response connections of the answering
   processor, every other flow runs from its entry point.  (Quotas put their
   increment into a start-system request flow and their decrement into an
   end-system response flow, so they bracket the user flows: before them on the
   way in, after them on the way out.) *)
Theorem C04_system_order_response : forall fuel beh s sc,
  snd (run_res fuel beh s sc) = None ->
  fst (run_res fuel beh s sc) = res_order fuel beh s sc.
Proof. exact run_res_order. Qed.
Print Assumptions C04_system_order_response.

(* Fuel is never exhausted at transaction level when every selected flow is
   acyclic with ranks below the fuel. *)
Theorem C04_no_fuel_exhaustion : forall fuel beh s s2,
  sel_ok fuel s -> (forall s', s2 = Some s' -> sel_ok fuel s') ->
  snd (run_req fuel beh s s2) <> Some OutOfFuel
  /\ forall sc, snd (run_res fuel beh s sc) <> Some OutOfFuel.
Proof.
  intros fuel beh s s2 A B. split; [apply run_req_not_stuck; assumption|].
  intros sc. apply run_res_not_stuck; assumption.
Qed.
Print Assumptions C04_no_fuel_exhaustion.

(* ---- the pinned tree -------------------------------------------------------- *)

(* witness: F1(1) -hit-> [Gen(2), F2(3)];  response side: Gen(2) -> T1(4) *)
Definition w_req : dgraph :=
  {| root := Some 1;
     nodes := [(1, [(1, Some 2); (1, Some 3)]); (2, []); (3, [(1, None)])] |}.
Definition w_res : dgraph :=
  {| root := None; nodes := [(2, [(0, Some 4)]); (4, [(1, None)])] |}.
Definition w_beh : oracle :=
  fun k d => if k =? 2 then (0, match d with Req => Early | Res => Plain end) else (1, Plain).

(* The edge loop of the pinned tree (it keeps looping after a recursive call
   returned a short-circuit node) is NOT the reference interpreter: the sibling
   F2 runs after Gen answered and the hand-over is lost. *)
Theorem C04_pinned_tree_refuted :
  ~ (forall g gr d beh fuel k,
       exec_pinned g gr d beh fuel k = exec_spec g gr d beh fuel k).
Proof.
  intros H. specialize (H w_req w_res Req w_beh 5%nat 1). vm_compute in H. discriminate.
Qed.
Print Assumptions C04_pinned_tree_refuted.

Example C04_pinned_witness :
  exec_pinned w_req w_res Req w_beh 5 1 = ([(1, 1); (2, 0); (3, 1)], Done)
  /\ exec_impl w_req w_res Req w_beh 5 1 = ([(1, 1); (2, 0)], Handed 2).
Proof. vm_compute. split; reflexivity. Qed.

(* ---- non-vacuity ------------------------------------------------------------ *)

Definition w_rk (k : key) : nat := (Z.to_nat (5 - k) mod 6)%nat.

(* the hypotheses of C04_impl_is_spec are met by the witness graph *)
Example C04_witness_ranked :
  ranked w_req w_rk /\ (w_rk 1%Z < 5)%nat
  /\ ranked w_res w_rk /\ (forall k, (w_rk k < 6)%nat).
Proof.
  split; [apply rankedb_sound; vm_compute; reflexivity|].
  split; [vm_compute; lia|].
  split; [apply rankedb_sound; vm_compute; reflexivity|].
  intros k. unfold w_rk. apply Nat.mod_upper_bound. discriminate.
Qed.

(* a transaction through quota system flows and two user flows: start-system
   flow 100 (request: 10), user flows 1 (the witness) and 2 (request 5,
   response 6), end-system flow 101 (response: 11) *)
Definition w_flows : list flow :=
  [ {| fname := 100; freq := {| root := Some 10; nodes := [(10, [(0, None)])] |};
       fres := {| root := None; nodes := [] |} |};
    {| fname := 1; freq := w_req; fres := w_res |};
    {| fname := 2; freq := {| root := Some 5; nodes := [(5, [(1, None)])] |};
       fres := {| root := Some 6; nodes := [(6, [(1, None)])] |} |};
    {| fname := 101; freq := {| root := None; nodes := [] |};
       fres := {| root := Some 11; nodes := [(11, [(0, None)])] |} |} ].
Definition w_sel : selection :=
  {| s_start := flows_named w_flows [100]; s_user := flows_named w_flows [1; 2];
     s_end := flows_named w_flows [101] |}.
Definition w_behs : oracles := fun _ k d => if k <? 10 then w_beh k d else (0, Plain).

Example C04_order_witness :
  run_req 6 w_behs w_sel (Some w_sel)
  = ([ {| e_flow := 100; e_key := 10; e_dir := Req; e_cond := 0 |};
       {| e_flow := 1; e_key := 1; e_dir := Req; e_cond := 1 |};
       {| e_flow := 1; e_key := 2; e_dir := Req; e_cond := 0 |};
       {| e_flow := 2; e_key := 6; e_dir := Res; e_cond := 1 |};
       {| e_flow := 1; e_key := 4; e_dir := Res; e_cond := 1 |};
       {| e_flow := 101; e_key := 11; e_dir := Res; e_cond := 0 |} ], None)
  /\ fst (run_res 6 w_behs w_sel None)
     = [ {| e_flow := 2; e_key := 6; e_dir := Res; e_cond := 1 |};
         {| e_flow := 101; e_key := 11; e_dir := Res; e_cond := 0 |} ].
Proof. vm_compute. split; reflexivity. Qed.

Example C04_order_witness_ok : sel_ok 6 w_sel.
Proof.
  assert (E : forall g, rankedb g w_rk = true -> dir_ok 6 g).
  { intros g H. exists w_rk. split.
    - apply rankedb_sound. exact H.
    - intros k. unfold w_rk. apply Nat.mod_upper_bound. discriminate. }
  unfold sel_ok, flow_ok. cbn.
  repeat (first [apply Forall_nil | apply Forall_cons | split]);
    apply E; vm_compute; reflexivity.
Qed.

(* ======================================================================== *)
(* ---- responses are never abandoned (acyclic graphs) ------------------------ *)

(* In the response direction no processor "answers the request", so the only
   way to abandon a response in the model is fuel exhaustion - excluded on
   acyclic graphs.  C04_system_order_response without its premise. *)
Theorem C04_response_order_acyclic : forall fuel beh s sc,
  sel_ok fuel s ->
  run_res fuel beh s sc = (res_order fuel beh s sc, None).
Proof.
  intros fuel beh s sc A. destruct (snd (run_res fuel beh s sc)) as [o|] eqn:E.
  - exfalso. pose proof (run_res_outcome fuel beh s sc o E). subst o.
    exact (run_res_not_stuck fuel beh s sc A E).
  - rewrite <- (run_res_order fuel beh s sc E), <- E. destruct (run_res fuel beh s sc); reflexivity.
Qed.
Print Assumptions C04_response_order_acyclic.

(* ---- clause 5: "the response path continues from that processor's response
   connection" ------------------------------------------------------------------ *)

(* Request not abandoned in which processor h of user flow f answered, and f is
   among the user flows found when the transaction is looked up again as a
   response (s'; flow names unique there): the trace is the request part
   followed by the response part in which f contributes - exactly once, at its
   place in the reversed selection - the walk from the targets of ALL response
   connections of h ([flow_events Res (Some h) f], h itself not executed again),
   and every other flow runs from its entry point. *)
Theorem C04_response_continues : forall fuel beh s s' f h,
  snd (run_req fuel beh s (Some s')) = None ->
  snd (users_prefix fuel beh (s_user s)) = Some (fname f, h) ->
  In f (s_user s') -> NoDup (map fname (s_user s')) ->
  exists us1 us2,
    rev (s_user s') = us1 ++ f :: us2
    /\ ~ In (fname f) (map fname us1) /\ ~ In (fname f) (map fname us2)
    /\ fst (run_req fuel beh s (Some s'))
       = flat_map (flow_events fuel beh Req None) (s_start s)
         ++ flat_map (flow_events fuel beh Req None) (fst (users_prefix fuel beh (s_user s)))
         ++ flat_map (flow_events fuel beh Req None) (s_end s)
         ++ flat_map (flow_events fuel beh Res None) (rev (s_start s'))
         ++ (flat_map (flow_events fuel beh Res None) us1
             ++ flow_events fuel beh Res (Some h) f
             ++ flat_map (flow_events fuel beh Res None) us2)
         ++ flat_map (flow_events fuel beh Res None) (rev (s_end s')).
Proof.
  intros fuel beh s s' f h NE H I N.
  destruct (res_order_continues fuel beh s' f h I N) as [us1 [us2 [E [N1 [N2 R]]]]].
  exists us1, us2. split; [exact E|]. split; [exact N1|]. split; [exact N2|].
  rewrite (run_req_order fuel beh s (Some s') NE). unfold req_order. rewrite H, R. reflexivity.
Qed.
Print Assumptions C04_response_continues.

(* non-vacuity: the four hypotheses hold on the order witness (flow 1 of
   [w_flows], answered by its processor 2, selected again for the response), and
   the continuation is not the trivial one: it is the processor 4 behind 2's
   response connection, while flow 1 run from its (absent) response entry point
   would contribute nothing. *)
Definition w_flow1 : flow := {| fname := 1; freq := w_req; fres := w_res |}.
Example C04_response_continues_witness :
  snd (run_req 6 w_behs w_sel (Some w_sel)) = None
  /\ snd (users_prefix 6 w_behs (s_user w_sel)) = Some (fname w_flow1, 2)
  /\ In w_flow1 (s_user w_sel)
  /\ NoDup (map fname (s_user w_sel))
  /\ flow_events 6 w_behs Res (Some 2) w_flow1
     = [ {| e_flow := 1; e_key := 4; e_dir := Res; e_cond := 1 |} ]
  /\ flow_events 6 w_behs Res None w_flow1 = [].
Proof.
  split; [vm_compute; reflexivity|].
  split; [vm_compute; reflexivity|].
  split; [vm_compute; left; reflexivity|].
  split; [|vm_compute; split; reflexivity].
  vm_compute. constructor; [intros [H|[]]; discriminate H|].
  constructor; [intros []|constructor].
Qed.

(* ... and what the continuation consists of: the processors reached from the
   targets of h's response connections (whatever their condition), following
   the output conditions from there on. *)
Theorem C04_continuation_path : forall fuel beh f h ev,
  In ev (flow_events fuel beh Res (Some h) f) ->
  e_flow ev = fname f /\ e_dir ev = Res
  /\ e_cond ev = fst (beh (fname f) (e_key ev) Res)
  /\ exists c t, In (c, Some t) (edges_of (fres f) h)
                 /\ on_path (fres f) Res (beh (fname f)) t (e_key ev).
Proof.
  intros fuel beh f h ev I. unfold flow_events, flow_walk in I.
  rewrite <- (flow_impl_is_spec fuel f Res (Some h) (beh (fname f))) in I by (right; reflexivity).
  unfold tag in I. apply in_map_iff in I. destruct I as [[k c] [E I]]. subst ev. cbn.
  destruct (flow_on_path _ _ _ _ _ _ _ I) as [C P]. cbn [gdir] in P. auto.
Qed.
Print Assumptions C04_continuation_path.

(* The two conditions under which nothing continues (the selection for the
   response lookup is an INPUT of this unit - C03's business; EndToEndProperty.v
   says exactly when the answering flow is found again): no flow found at all,
   or the answering flow not among them - then every flow found runs from its
   entry point, as for a plain response. *)
Theorem C04_no_continuation_unless_reselected : forall fuel beh s n h,
  snd (users_prefix fuel beh (s_user s)) = Some (n, h) ->
  (snd (run_req fuel beh s None) = None ->
     fst (run_req fuel beh s None)
     = flat_map (flow_events fuel beh Req None) (s_start s)
       ++ flat_map (flow_events fuel beh Req None) (fst (users_prefix fuel beh (s_user s)))
       ++ flat_map (flow_events fuel beh Req None) (s_end s))
  /\ (forall s', ~ In n (map fname (s_user s')) ->
      snd (run_req fuel beh s (Some s')) = None ->
      fst (run_req fuel beh s (Some s'))
      = flat_map (flow_events fuel beh Req None) (s_start s)
        ++ flat_map (flow_events fuel beh Req None) (fst (users_prefix fuel beh (s_user s)))
        ++ flat_map (flow_events fuel beh Req None) (s_end s)
        ++ res_order fuel beh s' None).
Proof.
  intros fuel beh s n h H. split.
  - intros NE. rewrite (run_req_order fuel beh s None NE). unfold req_order. rewrite H, app_nil_r.
    reflexivity.
  - intros s' N NE. rewrite (run_req_order fuel beh s (Some s') NE). unfold req_order.
    rewrite H, (res_order_not_reselected fuel beh s' n h N). reflexivity.
Qed.
Print Assumptions C04_no_continuation_unless_reselected.

(* ---- open finding F-C04d: the answer of a processor that has no node on the
   response side of its flow is dropped ------------------------------------------ *)

(* The property, read for every accepted graph: an answering processor ends the
   request path and the request IS answered (nothing continues in that flow when
   it has no response connection): the transaction is never abandoned and runs
   [req_order_text]. *)
Definition C04_answered_request_full : Prop :=
  forall fuel beh s s2,
    sel_ok fuel s -> (forall s', s2 = Some s' -> sel_ok fuel s') ->
    run_req fuel beh s s2 = (req_order_text fuel beh s s2, None).

(* witness: the flows of C04_order_witness, but Gen (2) of flow 1 has no node on
   the response side *)
Definition d_res : dgraph := {| root := None; nodes := [(4, [(1, None)])] |}.
Definition d_flows : list flow :=
  [ {| fname := 100; freq := {| root := Some 10; nodes := [(10, [(0, None)])] |};
       fres := {| root := None; nodes := [] |} |};
    {| fname := 1; freq := w_req; fres := d_res |};
    {| fname := 2; freq := {| root := Some 5; nodes := [(5, [(1, None)])] |};
       fres := {| root := Some 6; nodes := [(6, [(1, None)])] |} |};
    {| fname := 101; freq := {| root := None; nodes := [] |};
       fres := {| root := Some 11; nodes := [(11, [(0, None)])] |} |} ].
Definition d_sel : selection :=
  {| s_start := flows_named d_flows [100]; s_user := flows_named d_flows [1; 2];
     s_end := flows_named d_flows [101] |}.

Lemma d_sel_ok : sel_ok 6 d_sel.
Proof.
  assert (E : forall g, rankedb g w_rk = true -> dir_ok 6 g).
  { intros g H. exists w_rk. split.
    - apply rankedb_sound. exact H.
    - intros k. unfold w_rk. apply Nat.mod_upper_bound. discriminate. }
  unfold sel_ok, flow_ok. cbn.
  repeat (first [apply Forall_nil | apply Forall_cons | split]);
    apply E; vm_compute; reflexivity.
Qed.

(* what the code does (error, the answer dropped, nothing after it) and what the
   text asks for (answered; flow 2 and the end-system flow see the response) *)
Example C04_dropped_answer_witness :
  run_req 6 w_behs d_sel (Some d_sel)
  = ([ {| e_flow := 100; e_key := 10; e_dir := Req; e_cond := 0 |};
       {| e_flow := 1; e_key := 1; e_dir := Req; e_cond := 1 |};
       {| e_flow := 1; e_key := 2; e_dir := Req; e_cond := 0 |} ], Some (NoRespNode 2))
  /\ req_order_text 6 w_behs d_sel (Some d_sel)
     = [ {| e_flow := 100; e_key := 10; e_dir := Req; e_cond := 0 |};
         {| e_flow := 1; e_key := 1; e_dir := Req; e_cond := 1 |};
         {| e_flow := 1; e_key := 2; e_dir := Req; e_cond := 0 |};
         {| e_flow := 2; e_key := 6; e_dir := Res; e_cond := 1 |};
         {| e_flow := 101; e_key := 11; e_dir := Res; e_cond := 0 |} ]
  /\ answer_dropped w_behs (sel_flows d_sel) (fst (run_req 6 w_behs d_sel (Some d_sel))) = true.
Proof. vm_compute. repeat split; reflexivity. Qed.

Theorem C04_answered_request_full_refuted : ~ C04_answered_request_full.
Proof.
  intros H. specialize (H 6%nat w_behs d_sel (Some d_sel) d_sel_ok).
  assert (S2 : forall s', Some d_sel = Some s' -> sel_ok 6 s')
    by (intros s' E; inversion E; subst; exact d_sel_ok).
  specialize (H S2). vm_compute in H. discriminate.
Qed.
Print Assumptions C04_answered_request_full_refuted.

(* Outside the finding - no executed request-direction processor answered
   without having a node on the response side of its flow ([answer_dropped],
   decidable; it is what the monitor computes over the observed events) - and on
   acyclic graphs the statement holds: never abandoned, the order of the text,
   which is then [req_order] of C04_system_order. *)
Theorem C04_answered_request_holds_outside_F_C04d : forall fuel beh s s2,
  sel_ok fuel s -> (forall s', s2 = Some s' -> sel_ok fuel s') ->
  answer_dropped beh (sel_flows s) (fst (run_req fuel beh s s2)) = false ->
  run_req fuel beh s s2 = (req_order_text fuel beh s s2, None)
  /\ req_order_text fuel beh s s2 = req_order fuel beh s s2.
Proof.
  intros fuel beh s s2 A B D. pose proof (run_req_outside fuel beh s s2 A B D) as R.
  split; [exact R|]. apply req_order_text_eq. rewrite R. reflexivity.
Qed.
Print Assumptions C04_answered_request_holds_outside_F_C04d.

(* ... and the finding is the ONLY way a request is abandoned on acyclic graphs:
   the premise "snd (run_req ...) = None" of C04_system_order fails exactly when
   some executed processor of a selected flow answered the request without
   having a node on the response side of that flow. *)
Theorem C04_abandoned_only_by_F_C04d : forall fuel beh s s2 o,
  sel_ok fuel s -> (forall s', s2 = Some s' -> sel_ok fuel s') ->
  snd (run_req fuel beh s s2) = Some o ->
  exists k f c,
    o = NoRespNode k /\ In f (sel_flows s)
    /\ In {| e_flow := fname f; e_key := k; e_dir := Req; e_cond := c |} (fst (run_req fuel beh s s2))
    /\ answers (beh (fname f)) Req k = true /\ has_node (fres f) k = false.
Proof.
  intros fuel beh s s2 o A B E.
  destruct (run_req_abandoned fuel beh s s2 o E) as [O|[k [f [O [F [c [I [An H]]]]]]]].
  - subst o. exfalso. exact (run_req_not_stuck fuel beh s s2 A B E).
  - exists k, f, c. auto.
Qed.
Print Assumptions C04_abandoned_only_by_F_C04d.

(* the side condition is met by the order witness (Gen has a response-side node) *)
Example C04_outside_F_C04d_witness :
  answer_dropped w_behs (sel_flows w_sel) (fst (run_req 6 w_behs w_sel (Some w_sel))) = false.
Proof. vm_compute. reflexivity. Qed.

(* ---- fuel ---------------------------------------------------------------------- *)

(* Acyclic flows (some rank decreases along every connection - no bound asked)
   satisfy the side condition of the theorems above with the fuel the
   correspondence suite runs the model with (total number of nodes + 1). *)
Theorem C04_acyclic_fuel_for : forall fs s,
  incl (sel_flows s) fs -> Forall flow_acyclic (sel_flows s) -> sel_ok (fuel_for fs) s.
Proof. exact acyclic_sel_ok. Qed.
Print Assumptions C04_acyclic_fuel_for.

(* in the shape the suite uses it: selections decoded over the case's flows *)
Theorem C04_suite_fuel_is_enough : forall fs e,
  Forall flow_acyclic fs -> sel_ok (fuel_for fs) (dec_sel fs e).
Proof.
  intros fs e A. apply acyclic_sel_ok; [apply dec_sel_incl|].
  apply Forall_forall. intros f I. rewrite Forall_forall in A. apply A.
  exact (dec_sel_incl fs e f I).
Qed.
Print Assumptions C04_suite_fuel_is_enough.

(* Transaction level: any two fuels that are enough give the same transaction
   (trace and result); in particular every fuel above one that is enough. *)
Theorem C04_fuel_independent : forall f1 f2 beh s s2 sc,
  sel_ok f1 s -> sel_ok f2 s ->
  (forall s', s2 = Some s' -> sel_ok f1 s' /\ sel_ok f2 s') ->
  run_req f1 beh s s2 = run_req f2 beh s s2
  /\ run_res f1 beh s sc = run_res f2 beh s sc.
Proof.
  intros f1 f2 beh s s2 sc A B C. split.
  - apply run_req_fuel_irrelevant; assumption.
  - apply run_res_fuel_irrelevant; assumption.
Qed.
Print Assumptions C04_fuel_independent.

Theorem C04_more_fuel_same_result : forall f1 f2 beh s s2 sc,
  (f1 <= f2)%nat -> sel_ok f1 s -> (forall s', s2 = Some s' -> sel_ok f1 s') ->
  run_req f1 beh s s2 = run_req f2 beh s s2
  /\ run_res f1 beh s sc = run_res f2 beh s sc.
Proof.
  intros f1 f2 beh s s2 sc L A B. split.
  - apply run_req_fuel_le; assumption.
  - apply run_res_fuel_le; assumption.
Qed.
Print Assumptions C04_more_fuel_same_result.

Example C04_fuel_witness :
  Forall flow_acyclic w_flows /\ fuel_for w_flows = 10%nat
  /\ run_req (fuel_for w_flows) w_behs w_sel (Some w_sel) = run_req 6 w_behs w_sel (Some w_sel).
Proof.
  split; [|vm_compute; split; reflexivity].
  assert (E : forall g, rankedb g w_rk = true -> acyclic g).
  { intros g H. exists w_rk. apply rankedb_sound. exact H. }
  unfold w_flows, flow_acyclic. cbn.
  repeat (first [apply Forall_nil | apply Forall_cons | split]); apply E; vm_compute; reflexivity.
Qed.

(* ---- "system flows of quotas run before user flows on requests and in reverse
   order on responses", literally ----------------------------------------------------

   For system flows shaped like those generated from quotas ([quota_shape]:
   start-system flows have no response entry, end-system flows no request
   entry) the group order of C04_system_order(_response) reads: on a request
   every system processor runs BEFORE the user flows, on a response every system
   processor runs AFTER them (each group in reverse selection order). *)
Theorem C04_quota_order : forall fuel beh s,
  quota_shape s = true ->
  (forall sc, snd (run_res fuel beh s sc) = None ->
     fst (run_res fuel beh s sc)
     = flat_map (fun f => flow_events fuel beh Res (start_for sc f) f) (rev (s_user s))
       ++ flat_map (flow_events fuel beh Res None) (rev (s_end s)))
  /\ (forall s2, snd (run_req fuel beh s s2) = None ->
      (forall s', s2 = Some s' -> quota_shape s' = true) ->
      fst (run_req fuel beh s s2)
      = flat_map (flow_events fuel beh Req None) (s_start s)
        ++ flat_map (flow_events fuel beh Req None) (fst (users_prefix fuel beh (s_user s)))
        ++ match snd (users_prefix fuel beh (s_user s)), s2 with
           | Some h, Some s' =>
               flat_map (fun f => flow_events fuel beh Res (start_for (Some h) f) f) (rev (s_user s'))
               ++ flat_map (flow_events fuel beh Res None) (rev (s_end s'))
           | _, _ => []
           end).
Proof.
  intros fuel beh s Q. split.
  - intros sc NE. rewrite (run_res_order fuel beh s sc NE). apply res_order_quota. exact Q.
  - intros s2 NE Q2. rewrite (run_req_order fuel beh s s2 NE). unfold req_order.
    rewrite (req_part_quota fuel beh s Q). cbn [app].
    destruct (snd (users_prefix fuel beh (s_user s))) as [h|]; [|reflexivity].
    destruct s2 as [s'|]; [|reflexivity].
    rewrite (res_order_quota fuel beh s' (Some h) (Q2 s' eq_refl)). reflexivity.
Qed.
Print Assumptions C04_quota_order.

(* the shape is needed: a start-system flow WITH a response entry runs before the
   user flows on a response too (same group order in both directions) *)
Example C04_quota_shape_needed :
  let sys := {| fname := 100; freq := {| root := Some 10; nodes := [(10, [(0, None)])] |};
                fres := {| root := Some 12; nodes := [(12, [(0, None)])] |} |} in
  let s := {| s_start := [sys]; s_user := flows_named w_flows [2]; s_end := [] |} in
  quota_shape s = false
  /\ fst (run_res 6 w_behs s None)
     = [ {| e_flow := 100; e_key := 12; e_dir := Res; e_cond := 0 |};
         {| e_flow := 2; e_key := 6; e_dir := Res; e_cond := 1 |} ].
Proof. vm_compute. split; reflexivity. Qed.

Example C04_quota_shape_witness : quota_shape w_sel = true /\ quota_shape d_sel = true.
Proof. vm_compute. split; reflexivity. Qed.
