(* C04 — Flow execution follows the configured processor graph.
   Final statements only; definitions are in Model.v (the code, with the repairs
   fix-F-C04 / fix-F-C04b) and Spec.v (vocabulary), proofs in Proofs.v.

   Fuel: the executors are structurally recursive on a depth budget; running out
   of it is the distinguished outcome [OutOfFuel].  The statements either hold
   for every fuel (equalities between two executors that consume fuel alike) or
   exclude exhaustion explicitly: on acyclic graphs ([ranked]) with fuel above
   the rank of the start node the result is not [OutOfFuel] and does not depend
   on the fuel. *)
From Coq Require Import List ZArith Bool Lia.
From Verif Require Import C04.Model C04.Spec C04.Proofs.
Import ListNotations.
Open Scope Z_scope.

(* ---- the interpreter is the reference interpreter -------------------------- *)

(* stream.ExecuteFlow (repaired) = the interpreter written from the property
   text, for every graph, every behaviour of the processors, both directions,
   every start node and every fuel. *)
Theorem C04_impl_is_spec_every_fuel : forall g gr d beh fuel k,
  exec_impl g gr d beh fuel k = exec_spec g gr d beh fuel k.
Proof. exact impl_is_spec. Qed.
Print Assumptions C04_impl_is_spec_every_fuel.

(* ... and on acyclic graphs, with fuel above the rank of the start node, both
   terminate with a proper result which no larger or smaller admissible fuel
   changes. *)
Theorem C04_impl_is_spec : forall g gr d beh rk fuel k,
  ranked g rk -> (rk k < fuel)%nat ->
  exec_impl g gr d beh fuel k = exec_spec g gr d beh fuel k
  /\ snd (exec_impl g gr d beh fuel k) <> OutOfFuel
  /\ forall fuel', (rk k < fuel')%nat ->
       exec_impl g gr d beh fuel' k = exec_impl g gr d beh fuel k.
Proof.
  intros g gr d beh rk fuel k R L. split; [apply impl_is_spec|]. split.
  - eapply ranked_not_stuck; eauto.
  - intros fuel' L'. eapply ranked_fuel_irrelevant; eauto.
Qed.
Print Assumptions C04_impl_is_spec.

(* One direction of one flow (streams.executeFlow, repaired): from the entry
   point, or - after a processor answered the request - from all response
   connections of that processor.  (The hand-over only exists in the response
   direction: executeRes.) *)
Theorem C04_flow_impl_is_spec : forall fuel f d start beh,
  start = None \/ d = Res ->
  exec_flow_impl fuel f d start beh = exec_flow_spec fuel f d start beh
  /\ (flow_ok fuel f -> snd (exec_flow_impl fuel f d start beh) <> OutOfFuel).
Proof.
  intros. split; [apply flow_impl_is_spec; assumption|apply flow_not_stuck].
Qed.
Print Assumptions C04_flow_impl_is_spec.

(* ---- no processor off the path runs ---------------------------------------- *)

(* Every processor executed in a walk from s lies on a path from s whose every
   connection carries the condition output by its source and which never goes
   on from a processor that answered the request; the condition reported for it
   is its own output. *)
Theorem C04_path : forall g gr d beh fuel s k c,
  In (k, c) (fst (exec_impl g gr d beh fuel s)) ->
  on_path g d beh s k /\ c = fst (beh k d).
Proof. intros g gr d beh fuel s k c. apply impl_on_path. Qed.
Print Assumptions C04_path.

(* The same for one direction of a flow: the path starts at the entry point,
   or, after a hand-over from processor h, at the target of one of h's response
   connections.  A direction without entry point runs nothing unless handed to. *)
Theorem C04_flow_path : forall fuel f d start beh k c,
  In (k, c) (fst (exec_flow_impl fuel f d start beh)) ->
  c = fst (beh k d) /\
  match start with
  | None => exists r, root (gdir f d) = Some r /\ on_path (gdir f d) d beh r k
  | Some h => exists c' t, In (c', Some t) (edges_of (gdir f d) h)
                           /\ on_path (gdir f d) d beh t k
  end.
Proof. exact flow_on_path. Qed.
Print Assumptions C04_flow_path.

(* Connections are taken in configuration order: after a processor that does
   not answer the request, the walk is the concatenation of the sub-walks of
   the targets of its matching connections, in the order the connections are
   listed, up to the first sub-walk that hands over (or fails); a processor
   that answers the request ends the walk. *)
Theorem C04_config_order : forall g gr d beh fuel k,
  exec_impl g gr d beh (S fuel) k =
  if answers beh d k
  then ([(k, fst (beh k d))], if has_node gr k then Handed k else NoRespNode k)
  else let r := seq_walks (map (exec_impl g gr d beh fuel)
                               (targets (fst (beh k d)) (edges_of g k))) in
       ((k, fst (beh k d)) :: fst r, snd r).
Proof.
  intros. rewrite impl_is_spec, spec_unfold.
  destruct (answers beh d k); [reflexivity|].
  rewrite (map_ext _ _ (impl_is_spec g gr d beh fuel)). reflexivity.
Qed.
Print Assumptions C04_config_order.

(* ---- order of the selected flows ------------------------------------------- *)

(* Request that is not abandoned (no error, fuel not exhausted): first every
   start-system flow in selection order, then the user flows in selection order
   up to and including the first one in which a processor answers the request,
   then every end-system flow in selection order - all in the request
   direction.  If a processor answered, the transaction is looked up again as a
   response (s2) and handled as a response with the hand-over ([res_order]). *)
Theorem C04_system_order : forall fuel beh s s2,
  snd (run_req fuel beh s s2) = None ->
  fst (run_req fuel beh s s2) = req_order fuel beh s s2.
Proof. exact run_req_order. Qed.
Print Assumptions C04_system_order.

(* Response: the same three groups in the same group order (start-system, user,
   end-system), each group in REVERSE selection order; the user flow that
   handed over continues from the response connections of the answering
   processor, every other flow runs from its entry point.  (Quotas put their
   increment into a start-system request flow and their decrement into an
   end-system response flow, so they bracket the user flows: before them on the
   way in, after them on the way out.) *)
Theorem C04_system_order_response : forall fuel beh s sc,
  snd (run_res fuel beh s sc) = None ->
  fst (run_res fuel beh s sc) = res_order fuel beh s sc.
Proof. exact run_res_order. Qed.
Print Assumptions C04_system_order_response.

(* Fuel is never exhausted at transaction level when every selected flow is
   acyclic with ranks below the fuel. *)
Theorem C04_no_fuel_exhaustion : forall fuel beh s s2,
  sel_ok fuel s -> (forall s', s2 = Some s' -> sel_ok fuel s') ->
  snd (run_req fuel beh s s2) <> Some OutOfFuel
  /\ forall sc, snd (run_res fuel beh s sc) <> Some OutOfFuel.
Proof.
  intros fuel beh s s2 A B. split; [apply run_req_not_stuck; assumption|].
  intros sc. apply run_res_not_stuck; assumption.
Qed.
Print Assumptions C04_no_fuel_exhaustion.

(* ---- the pinned tree -------------------------------------------------------- *)

(* witness: F1(1) -hit-> [Gen(2), F2(3)];  response side: Gen(2) -> T1(4) *)
Definition w_req : dgraph :=
  {| root := Some 1;
     nodes := [(1, [(1, Some 2); (1, Some 3)]); (2, []); (3, [(1, None)])] |}.
Definition w_res : dgraph :=
  {| root := None; nodes := [(2, [(0, Some 4)]); (4, [(1, None)])] |}.
Definition w_beh : oracle :=
  fun k d => if k =? 2 then (0, match d with Req => Early | Res => Plain end) else (1, Plain).

(* The edge loop of the pinned tree (it keeps looping after a recursive call
   returned a short-circuit node) is NOT the reference interpreter: the sibling
   F2 runs after Gen answered and the hand-over is lost. *)
Theorem C04_pinned_tree_refuted :
  ~ (forall g gr d beh fuel k,
       exec_pinned g gr d beh fuel k = exec_spec g gr d beh fuel k).
Proof.
  intros H. specialize (H w_req w_res Req w_beh 5%nat 1). vm_compute in H. discriminate.
Qed.
Print Assumptions C04_pinned_tree_refuted.

Example C04_pinned_witness :
  exec_pinned w_req w_res Req w_beh 5 1 = ([(1, 1); (2, 0); (3, 1)], Done)
  /\ exec_impl w_req w_res Req w_beh 5 1 = ([(1, 1); (2, 0)], Handed 2).
Proof. vm_compute. split; reflexivity. Qed.

(* ---- non-vacuity ------------------------------------------------------------ *)

Definition w_rk (k : key) : nat := (Z.to_nat (5 - k) mod 6)%nat.

(* the hypotheses of C04_impl_is_spec are met by the witness graph *)
Example C04_witness_ranked :
  ranked w_req w_rk /\ (w_rk 1%Z < 5)%nat
  /\ ranked w_res w_rk /\ (forall k, (w_rk k < 6)%nat).
Proof.
  split; [apply rankedb_sound; vm_compute; reflexivity|].
  split; [vm_compute; lia|].
  split; [apply rankedb_sound; vm_compute; reflexivity|].
  intros k. unfold w_rk. apply Nat.mod_upper_bound. discriminate.
Qed.

(* a transaction through quota system flows and two user flows: start-system
   flow 100 (request: 10), user flows 1 (the witness) and 2 (request 5,
   response 6), end-system flow 101 (response: 11) *)
Definition w_flows : list flow :=
  [ {| fname := 100; freq := {| root := Some 10; nodes := [(10, [(0, None)])] |};
       fres := {| root := None; nodes := [] |} |};
    {| fname := 1; freq := w_req; fres := w_res |};
    {| fname := 2; freq := {| root := Some 5; nodes := [(5, [(1, None)])] |};
       fres := {| root := Some 6; nodes := [(6, [(1, None)])] |} |};
    {| fname := 101; freq := {| root := None; nodes := [] |};
       fres := {| root := Some 11; nodes := [(11, [(0, None)])] |} |} ].
Definition w_sel : selection :=
  {| s_start := flows_named w_flows [100]; s_user := flows_named w_flows [1; 2];
     s_end := flows_named w_flows [101] |}.
Definition w_behs : oracles := fun _ k d => if k <? 10 then w_beh k d else (0, Plain).

Example C04_order_witness :
  run_req 6 w_behs w_sel (Some w_sel)
  = ([ {| e_flow := 100; e_key := 10; e_dir := Req; e_cond := 0 |};
       {| e_flow := 1; e_key := 1; e_dir := Req; e_cond := 1 |};
       {| e_flow := 1; e_key := 2; e_dir := Req; e_cond := 0 |};
       {| e_flow := 2; e_key := 6; e_dir := Res; e_cond := 1 |};
       {| e_flow := 1; e_key := 4; e_dir := Res; e_cond := 1 |};
       {| e_flow := 101; e_key := 11; e_dir := Res; e_cond := 0 |} ], None)
  /\ fst (run_res 6 w_behs w_sel None)
     = [ {| e_flow := 2; e_key := 6; e_dir := Res; e_cond := 1 |};
         {| e_flow := 101; e_key := 11; e_dir := Res; e_cond := 0 |} ].
Proof. vm_compute. split; reflexivity. Qed.

Example C04_order_witness_ok : sel_ok 6 w_sel.
Proof.
  assert (E : forall g, rankedb g w_rk = true -> dir_ok 6 g).
  { intros g H. exists w_rk. split.
    - apply rankedb_sound. exact H.
    - intros k. unfold w_rk. apply Nat.mod_upper_bound. discriminate. }
  unfold sel_ok, flow_ok. cbn.
  repeat (first [apply Forall_nil | apply Forall_cons | split]);
    apply E; vm_compute; reflexivity.
Qed.
