(* C04 / end-to-end composition — lemmas.  The final statements
   (EndToEndProperty.v) are obtained by COMPOSING the theorems of the units:
     C03_sound / C03_sound_lax / C03_no_match_no_action      (selection)
     C04_flow_path / C04_system_order / C04_system_order_response /
     C04_flow_impl_is_spec / C04_no_fuel_exhaustion           (execution)
     C05.Proofs: load_accept_valid, valid_flows_ok, sel_from_ok,
       run_req_failed / run_res_failed, run_req_length / run_res_length,
       and C05_transaction_safe                               (acceptance)
     C07_early_wins / C07_early_wins_first / C07_headers_union (combination)
   What is proved here is the glue: the adapter between C03's selection and
   C04's [selection] record, the lifting of membership through C04's
   orchestration (unconditional: C04_system_order only speaks about
   transactions that are not abandoned), and the shape of a request walk around
   the processor that answers (C04 has no statement "the answering processor is
   the last request event of its flow and the only one"). *)
From Coq Require Import List ZArith Bool Lia.
From Verif Require C03.Trie C03.Model C03.Spec C03.Proofs C03.Property.
From Verif Require Import C04.Model C04.Spec C04.Proofs C04.Property.
From Verif Require C05.Model C05.Proofs C05.Property.
From Verif Require C07.Model C07.Spec C07.Proofs C07.Property.
From Verif Require Import C04.EndToEnd C04.EndToEndSpec.
Import ListNotations.
Open Scope Z_scope.

Module FP := Verif.C03.Proofs.
Module FT := Verif.C03.Property.
Module LT := Verif.C05.Property.
Module AS := Verif.C07.Spec.
Module AT := Verif.C07.Property.

(* ================================================================ names *)

Lemma nodupZ_NoDup : forall l, nodupZ l = true -> NoDup l.
Proof.
  induction l as [|x l IH]; cbn [nodupZ]; intros H; [constructor|].
  apply andb_true_iff in H. destruct H as [H1 H2]. constructor; [|apply IH; exact H2].
  intros I. apply negb_true_iff in H1.
  assert (E : existsb (Z.eqb x) l = true).
  { apply existsb_exists. exists x. split; [exact I|apply Z.eqb_refl]. }
  rewrite E in H1. discriminate.
Qed.

Lemma find_eid : forall cfg e,
  NoDup (map eid cfg) -> In e cfg -> find (fun e' => eid e' =? eid e) cfg = Some e.
Proof.
  induction cfg as [|e0 cfg IH]; intros e N I; [contradiction|].
  cbn [map] in N. inversion N as [|? ? N1 N2]; subst.
  cbn [find]. destruct (eid e0 =? eid e) eqn:E.
  - apply Z.eqb_eq in E. destruct I as [I|I]; [subst; reflexivity|].
    exfalso. apply N1. rewrite E. apply in_map. exact I.
  - destruct I as [I|I]; [subst; rewrite Z.eqb_refl in E; discriminate|].
    apply IH; assumption.
Qed.

Lemma graph_for_filter : forall cfg e,
  NoDup (map eid cfg) -> In e cfg -> graph_for cfg (ef_filter e) = [graph_of e].
Proof.
  intros cfg e N I. unfold graph_for. fold (eid e). rewrite (find_eid cfg e N I). reflexivity.
Qed.

Lemma graph_for_incl : forall cfg f, incl (graph_for cfg f) (graphs cfg).
Proof.
  intros cfg f g I. unfold graph_for in I.
  destruct (find (fun e => eid e =? F.f_id f) cfg) as [e|] eqn:E; [|contradiction].
  destruct I as [I|[]]. subst g. apply find_some in E. destruct E as [E _].
  unfold graphs. apply in_map. exact E.
Qed.

Lemma group_incl : forall cfg k sel, incl (group cfg k sel) (graphs cfg).
Proof.
  intros cfg k sel g I. unfold group in I. apply in_flat_map in I.
  destruct I as [f [_ I]]. eapply graph_for_incl; eauto.
Qed.

(* the adapter: a flow in one of the three lists is the flow of a selected
   filter of that kind *)
Lemma group_in : forall cfg k sel g,
  NoDup (map eid cfg) -> incl sel (filters cfg) -> In g (group cfg k sel) ->
  exists e, In e cfg /\ g = graph_of e /\ F.f_kind (ef_filter e) = k /\ In (ef_filter e) sel.
Proof.
  intros cfg k sel g N S I. unfold group in I. apply in_flat_map in I.
  destruct I as [f [F1 I]]. apply filter_In in F1. destruct F1 as [F1 K].
  apply Z.eqb_eq in K. pose proof (S f F1) as M. unfold filters in M.
  apply in_map_iff in M. destruct M as [e [E M]]. subst f.
  rewrite (graph_for_filter cfg e N M) in I. destruct I as [I|[]].
  exists e. repeat split; auto.
Qed.

Definition all_sel (s : selection) : list flow := s_start s ++ s_user s ++ s_end s.

Lemma split_sel_from : forall cfg sel, LP.sel_from (graphs cfg) (split cfg sel).
Proof. intros. unfold LP.sel_from, split. cbn. repeat split; apply group_incl. Qed.

Lemma all_sel_in : forall cfg sel g,
  NoDup (map eid cfg) -> incl sel (filters cfg) -> In g (all_sel (split cfg sel)) ->
  exists e, In e cfg /\ g = graph_of e /\ In (ef_filter e) sel.
Proof.
  intros cfg sel g N S I. unfold all_sel, split in I. cbn in I.
  apply in_app_or in I. destruct I as [I|I]; [|apply in_app_or in I; destruct I as [I|I]];
    destruct (group_in _ _ _ _ N S I) as [e [A [B [_ D]]]]; exists e; auto.
Qed.

(* the decidable form of the hypotheses *)
Lemma cfg_okb_sound : forall cfg, cfg_okb cfg = true -> cfg_ok cfg.
Proof.
  intros cfg H. unfold cfg_okb in H.
  apply andb_true_iff in H. destruct H as [H V].
  apply andb_true_iff in H. destruct H as [H N].
  apply andb_true_iff in H. destruct H as [H K].
  apply andb_true_iff in H. destruct H as [Ld St].
  constructor; try assumption.
  - apply nodupZ_NoDup. exact N.
  - apply Forall_forall. intros f I. rewrite forallb_forall in V. specialize (V f I).
    unfold validb in V. unfold LP.flow_valid.
    destruct (L.validate_dir true Req (freq f)); try discriminate.
    destruct (L.validate_dir true Res (fres f)); try discriminate.
    split; reflexivity.
Qed.

(* ================================================================ selection (C03) *)

Lemma as_response_id : forall x, F.t_resp x = true -> as_response x = x.
Proof. intros [r u m h q s] H. cbn in H. subst r. reflexivity. Qed.

(* C03_sound_lax + C03_sound: what is selected is loaded and accepted *)
Lemma selected_accepts : forall cfg x f,
  cfg_ok cfg -> In f (selected cfg x) -> In f (filters cfg) /\ accepts f x.
Proof.
  intros cfg x f [HL HS HK _ _] I. unfold selected in I.
  change (ftree_of cfg) with (FP.tree_of (filters cfg)) in I.
  destruct (FT.C03_sound_lax _ _ _ HL HS HK I) as [A [B C]].
  split; [exact A|]. unfold accepts. change (url_parts x) with (FP.url_of x).
  split; [exact B|]. split; [exact C|].
  intros W. destruct (FT.C03_sound _ _ _ HL HS HK I W) as [_ [M _]]. exact M.
Qed.

Lemma selected_incl : forall cfg x, cfg_ok cfg -> incl (selected cfg x) (filters cfg).
Proof. intros cfg x OK f I. apply (selected_accepts cfg x f OK I). Qed.

(* a flow that runs for a lookup of y is the flow of a filter that accepts y *)
Lemma sel_flow_accepts : forall cfg y g,
  cfg_ok cfg -> In g (all_sel (split cfg (selected cfg y))) ->
  exists e, In e cfg /\ g = graph_of e /\ accepts (ef_filter e) y.
Proof.
  intros cfg y g OK I.
  destruct (all_sel_in cfg _ g (ok_ids cfg OK) (selected_incl cfg y OK) I) as [e [A [B D]]].
  exists e. split; [exact A|]. split; [exact B|].
  exact (proj2 (selected_accepts cfg y _ OK D)).
Qed.

Lemma reselect_some : forall cfg x s',
  reselect cfg x = Some s' -> s' = split cfg (selected cfg (as_response x)).
Proof.
  intros cfg x s'. unfold reselect, selected.
  destruct (F.get_flow (ftree_of cfg) (as_response x)); [discriminate|].
  intros H. inversion H. reflexivity.
Qed.

(* ================================================================ the engine, unfolded *)

Lemma run_selected_nil : forall fuel cfg beh x, run_selected fuel cfg beh [] x = neutral.
Proof.
  intros. unfold run_selected. destruct (F.t_resp x); reflexivity.
Qed.

Lemma engine_unfold : forall fuel cfg beh x,
  engine fuel cfg beh x = run_selected fuel cfg beh (selected cfg x) x.
Proof.
  intros. unfold engine, F.exec_flow, selected.
  destruct (F.get_flow (ftree_of cfg) x) eqn:E; [|reflexivity].
  cbn [fst]. rewrite run_selected_nil. reflexivity.
Qed.

Lemma engine_trace : forall fuel cfg beh x,
  o_trace (engine fuel cfg beh x)
  = if F.t_resp x
    then fst (run_res fuel beh (split cfg (selected cfg x)) None)
    else fst (run_req fuel beh (split cfg (selected cfg x)) (reselect cfg x)).
Proof. intros. rewrite engine_unfold. unfold run_selected. destruct (F.t_resp x); reflexivity. Qed.

Lemma engine_error : forall fuel cfg beh x,
  o_error (engine fuel cfg beh x)
  = if F.t_resp x
    then snd (run_res fuel beh (split cfg (selected cfg x)) None)
    else snd (run_req fuel beh (split cfg (selected cfg x)) (reselect cfg x)).
Proof. intros. rewrite engine_unfold. unfold run_selected. destruct (F.t_resp x); reflexivity. Qed.

(* ================================================================ membership through C04's orchestration *)

Section Lift.
  Variable fuel : nat.
  Variable beh : oracles.

  Notation from_flow := (from_flow fuel beh).

  Lemma tag_in : forall f d t ev,
    In ev (tag f d t) -> e_flow ev = fname f /\ e_dir ev = d /\ In (e_key ev, e_cond ev) t.
  Proof.
    intros f d t ev I. unfold tag in I. apply in_map_iff in I.
    destruct I as [[k c] [E I]]. subst ev. cbn. auto.
  Qed.

  Lemma run_list_in : forall d fs ev,
    In ev (fst (run_list fuel beh d fs)) -> exists f, In f fs /\ from_flow f d None ev.
  Proof.
    intros d fs ev. induction fs as [|f fs IH]; cbn [run_list]; [intros []|].
    destruct (failed (snd (exec_flow_impl fuel f d None (beh (fname f))))); cbn [fst]; intros I.
    - exists f. split; [left; reflexivity|]. apply tag_in. exact I.
    - apply in_app_or in I. destruct I as [I|I].
      + exists f. split; [left; reflexivity|]. apply tag_in. exact I.
      + destruct (IH I) as [f' [A B]]. exists f'. split; [right; exact A|exact B].
  Qed.

  Lemma run_users_req_in : forall fs ev,
    In ev (fst (fst (run_users_req fuel beh fs))) -> exists f, In f fs /\ from_flow f Req None ev.
  Proof.
    intros fs ev. induction fs as [|f fs IH]; cbn [run_users_req]; [intros []|].
    destruct (snd (exec_flow_impl fuel f Req None (beh (fname f)))) eqn:O.
    - destruct (run_users_req fuel beh fs) as [[t2 sc] e]. cbn [fst] in *. intros I.
      apply in_app_or in I. destruct I as [I|I].
      + exists f. split; [left; reflexivity|]. apply tag_in. exact I.
      + destruct (IH I) as [f' [A B]]. exists f'. split; [right; exact A|exact B].
    - cbn [fst]. intros I. exists f. split; [left; reflexivity|]. apply tag_in. exact I.
    - cbn [fst]. intros I. exists f. split; [left; reflexivity|]. apply tag_in. exact I.
    - cbn [fst]. intros I. exists f. split; [left; reflexivity|]. apply tag_in. exact I.
  Qed.

  Lemma run_users_res_in : forall sc fs ev,
    In ev (fst (run_users_res fuel beh sc fs)) ->
    exists f, In f fs /\ from_flow f Res (start_for sc f) ev.
  Proof.
    intros sc fs ev. induction fs as [|f fs IH]; cbn [run_users_res]; [intros []|].
    fold (start_for sc f).
    destruct (failed (snd (exec_flow_impl fuel f Res (start_for sc f) (beh (fname f)))));
      cbn [fst]; intros I.
    - exists f. split; [left; reflexivity|]. apply tag_in. exact I.
    - apply in_app_or in I. destruct I as [I|I].
      + exists f. split; [left; reflexivity|]. apply tag_in. exact I.
      + destruct (IH I) as [f' [A B]]. exists f'. split; [right; exact A|exact B].
  Qed.

  Lemma then_in : forall r rest ev,
    In ev (fst (then_ r rest)) -> In ev (fst r) \/ In ev (fst (rest tt)).
  Proof.
    intros r rest ev. unfold then_. destruct (snd r); [auto|].
    cbn [fst]. intros I. apply in_app_or in I. exact I.
  Qed.

  Lemma run_res_in : forall s sc ev,
    In ev (fst (run_res fuel beh s sc)) ->
    exists f st, In f (all_sel s) /\ from_flow f Res st ev.
  Proof.
    intros s sc ev I. unfold run_res in I. unfold all_sel.
    apply then_in in I. destruct I as [I|I].
    - apply run_list_in in I. destruct I as [f [A B]]. exists f, None.
      split; [|exact B]. apply in_or_app. left. apply in_rev. exact A.
    - apply then_in in I. destruct I as [I|I].
      + apply run_users_res_in in I. destruct I as [f [A B]]. exists f, (start_for sc f).
        split; [|exact B]. apply in_or_app. right. apply in_or_app. left. apply in_rev. exact A.
      + apply run_list_in in I. destruct I as [f [A B]]. exists f, None.
        split; [|exact B]. apply in_or_app. right. apply in_or_app. right. apply in_rev. exact A.
  Qed.

  (* finer: system flows and the user flows that did not hand over run from their
     entry point; a user flow runs from a hand-over only when [start_for] says so *)
  Lemma run_res_in_strong : forall s sc ev,
    In ev (fst (run_res fuel beh s sc)) ->
    (exists f, In f (all_sel s) /\ from_flow f Res None ev)
    \/ (exists f h, In f (s_user s) /\ start_for sc f = Some h /\ from_flow f Res (Some h) ev).
  Proof.
    intros s sc ev I. unfold run_res in I. unfold all_sel.
    apply then_in in I. destruct I as [I|I].
    - left. apply run_list_in in I. destruct I as [f [A B]]. exists f.
      split; [|exact B]. apply in_or_app. left. apply in_rev. exact A.
    - apply then_in in I. destruct I as [I|I].
      + apply run_users_res_in in I. destruct I as [f [A B]].
        destruct (start_for sc f) as [h|] eqn:St.
        * right. exists f, h. split; [apply in_rev; exact A|]. split; [exact St|exact B].
        * left. exists f. split; [|exact B].
          apply in_or_app. right. apply in_or_app. left. apply in_rev. exact A.
      + left. apply run_list_in in I. destruct I as [f [A B]]. exists f.
        split; [|exact B]. apply in_or_app. right. apply in_or_app. right. apply in_rev. exact A.
  Qed.

  Lemma run_req_in : forall s s2 ev,
    In ev (fst (run_req fuel beh s s2)) ->
    (exists f, In f (all_sel s) /\ from_flow f Req None ev)
    \/ (exists s' f st, s2 = Some s' /\ In f (all_sel s') /\ from_flow f Res st ev).
  Proof.
    intros s s2 ev I. unfold run_req in I. unfold all_sel.
    apply then_in in I. destruct I as [I|I].
    { left. apply run_list_in in I. destruct I as [f [A B]]. exists f.
      split; [|exact B]. apply in_or_app. left. exact A. }
    pose proof (run_users_req_in (s_user s) ev) as U.
    destruct (run_users_req fuel beh (s_user s)) as [[t2 sc] e2]. cbn [fst] in U.
    apply then_in in I. cbn [fst] in I. destruct I as [I|I].
    { left. destruct (U I) as [f [A B]]. exists f.
      split; [|exact B]. apply in_or_app. right. apply in_or_app. left. exact A. }
    apply then_in in I. destruct I as [I|I].
    { left. apply run_list_in in I. destruct I as [f [A B]]. exists f.
      split; [|exact B]. apply in_or_app. right. apply in_or_app. right. exact A. }
    destruct sc as [h|]; [|destruct I]. destruct s2 as [s'|]; [|destruct I].
    right. apply run_res_in in I. destruct I as [f [st [A B]]]. exists s', f, st. auto.
  Qed.
End Lift.

(* ================================================================ (a) only matching flows run *)

(* (moved below [flow_req_shape]: the path of an event after a hand-over is tied to
   the answering event, which needs the shape of a request walk) *)

(* ================================================================ (b) no match *)

Lemma engine_no_match : forall fuel cfg beh x,
  cfg_ok cfg ->
  (forall e, In e cfg -> FS.satisfied (ef_filter e) x = false
                         /\ FS.wild_kind_ok (F.pat (ef_filter e)) (url_parts x) = true) ->
  engine fuel cfg beh x = neutral.
Proof.
  intros fuel cfg beh x [HL HS HK _ _] H. unfold engine.
  change (ftree_of cfg) with (FP.tree_of (filters cfg)).
  rewrite (FT.C03_no_match_no_action result
             (fun fl x' _ => run_selected fuel cfg beh fl x') (filters cfg) x neutral HL HS HK).
  - reflexivity.
  - intros f I. unfold filters in I. apply in_map_iff in I. destruct I as [e [E I]]. subst f.
    exact (H e I).
Qed.

(* ================================================================ (d) termination *)

Lemma cfg_sel_ok : forall cfg sel, cfg_ok cfg -> sel_ok (fuel_of cfg) (split cfg sel).
Proof.
  intros cfg sel OK. eapply LP.sel_from_ok; [|apply split_sel_from].
  apply LP.valid_flows_ok. exact (ok_valid cfg OK).
Qed.

Lemma outcome_cases : forall r : list event * option outcome,
  (forall o, snd r = Some o -> failed o = true) -> snd r <> Some OutOfFuel ->
  snd r = None \/ exists k, snd r = Some (NoRespNode k).
Proof.
  intros r F N. destruct (snd r) as [o|] eqn:E; [|left; reflexivity].
  specialize (F o eq_refl). destruct o; try discriminate; [right; eauto|contradiction].
Qed.

Lemma engine_terminates : forall cfg beh x,
  cfg_ok cfg ->
  let r := engine (fuel_of cfg) cfg beh x in
  (o_error r = None \/ exists k, o_error r = Some (NoRespNode k))
  /\ (length (o_trace r) <= txn_bound cfg x)%nat.
Proof.
  intros cfg beh x OK r. subst r. rewrite engine_error, engine_trace. unfold txn_bound.
  pose proof (cfg_sel_ok cfg (selected cfg x) OK) as S1.
  assert (S2 : forall s', reselect cfg x = Some s' -> sel_ok (fuel_of cfg) s').
  { intros s' E. apply reselect_some in E. subst s'. apply cfg_sel_ok. exact OK. }
  destruct (C04_no_fuel_exhaustion (fuel_of cfg) beh _ _ S1 S2) as [NQ NS].
  destruct (F.t_resp x).
  - split; [|apply LP.run_res_length].
    apply outcome_cases; [apply LP.run_res_failed|apply NS].
  - split; [|apply LP.run_req_length].
    apply outcome_cases; [apply LP.run_req_failed|exact NQ].
Qed.

(* the same from C05_transaction_safe as it is stated (configuration given to
   C05's loader) *)
Lemma engine_terminates_loaded : forall cf cfg beh x,
  L.load cf = L.Accept (graphs cfg) ->
  let r := engine (fuel_of cfg) cfg beh x in
  (o_error r = None \/ exists k, o_error r = Some (NoRespNode k))
  /\ (length (o_trace r) <= txn_bound cfg x)%nat.
Proof.
  intros cf cfg beh x LD r. subst r. rewrite engine_error, engine_trace. unfold txn_bound.
  assert (S2 : forall s', reselect cfg x = Some s' -> LP.sel_from (graphs cfg) s').
  { intros s' E. apply reselect_some in E. subst s'. apply split_sel_from. }
  destruct (LT.C05_transaction_safe cf (graphs cfg) beh (split cfg (selected cfg x))
              (reselect cfg x) LD (split_sel_from cfg _) S2) as [A [B C]].
  fold (fuel_of cfg) in A, B, C.
  destruct (F.t_resp x).
  - destruct (C None) as [C1 C2]. split; assumption.
  - split; assumption.
Qed.

(* C05's loader output satisfies the validity part of [cfg_ok] *)
Lemma loaded_valid : forall cf cfg,
  L.load cf = L.Accept (graphs cfg) -> Forall LP.flow_valid (graphs cfg).
Proof. intros cf cfg H. exact (LP.load_accept_valid cf _ H). Qed.

(* ================================================================ (c) order *)

Lemma engine_order : forall fuel cfg beh x,
  o_error (engine fuel cfg beh x) = None ->
  o_trace (engine fuel cfg beh x)
  = if F.t_resp x
    then res_order fuel beh (split cfg (selected cfg x)) None
    else req_order fuel beh (split cfg (selected cfg x)) (reselect cfg x).
Proof.
  intros fuel cfg beh x. rewrite engine_error, engine_trace. destruct (F.t_resp x).
  - apply C04_system_order_response.
  - apply C04_system_order.
Qed.

(* ================================================================ (e) the answering processor *)

Section Cut.
  Variable gr : dgraph.
  Variable d : dir.
  Variable beh : oracle.

  Definition quiet (l : list ev) : Prop := Forall (fun kc => answers beh d (fst kc) = false) l.

  (* the processors that run are a prefix that does not answer, possibly
     followed by ONE processor that answers, which is then the last *)
  Definition walk_shape (r : list ev * outcome) : Prop :=
    match snd r with
    | Handed k | NoRespNode k =>
        exists pre c, fst r = pre ++ [(k, c)] /\ quiet pre /\ answers beh d k = true
    | _ => quiet (fst r)
    end.

  Lemma cut_shape : forall l, walk_shape (cut gr d beh l).
  Proof.
    induction l as [|[k c|] l IH]; cbn [cut].
    - constructor.
    - destruct (answers beh d k) eqn:An.
      + unfold walk_shape. cbn [fst snd].
        destruct (has_node gr k); exists [], c; repeat split; auto; constructor.
      + unfold walk_shape in *. cbn [fst snd]. destruct (snd (cut gr d beh l)).
        * constructor; [exact An|exact IH].
        * destruct IH as [pre [c' [E [Q An']]]]. exists ((k, c) :: pre), c'.
          rewrite E. repeat split; auto. constructor; [exact An|exact Q].
        * destruct IH as [pre [c' [E [Q An']]]]. exists ((k, c) :: pre), c'.
          rewrite E. repeat split; auto. constructor; [exact An|exact Q].
        * constructor; [exact An|exact IH].
    - constructor.
  Qed.
End Cut.

Lemma flow_req_shape : forall fuel f beh,
  walk_shape Req beh (exec_flow_impl fuel f Req None beh).
Proof.
  intros fuel f beh.
  destruct (C04_flow_impl_is_spec fuel f Req None beh (or_introl eq_refl)) as [E _]. rewrite E.
  unfold exec_flow_spec. destruct (root (gdir f Req)) as [r|]; [apply cut_shape|constructor].
Qed.


(* ================================================================ (a) only matching flows run, on their paths *)

Lemma flow_path_root : forall fuel beh tr e d ev,
  from_flow fuel beh (graph_of e) d None ev ->
  eid e = e_flow ev /\ on_root_path beh tr e ev.
Proof.
  intros fuel beh tr e d ev [A [B C]]. cbn [graph_of fname] in A. split; [symmetry; exact A|].
  apply C04_flow_path in C. cbn [graph_of fname] in C. destruct C as [C P].
  unfold on_root_path. rewrite B. split; [exact C|]. left. exact P.
Qed.

Lemma flow_path_handover : forall fuel beh tr e h ev c0 pre post,
  from_flow fuel beh (graph_of e) Res (Some h) ev ->
  tr = pre ++ {| e_flow := eid e; e_key := h; e_dir := Req; e_cond := c0 |} :: post ->
  In ev post -> answers (beh (eid e)) Req h = true ->
  eid e = e_flow ev /\ on_root_path beh tr e ev.
Proof.
  intros fuel beh tr e h ev c0 pre post [A [B C]] T I An. cbn [graph_of fname] in A.
  split; [symmetry; exact A|].
  apply C04_flow_path in C. cbn [graph_of fname] in C. destruct C as [C [c' [t [P1 P2]]]].
  unfold on_root_path. rewrite B. split; [exact C|]. right. split; [reflexivity|].
  exists h, c0, pre, post, c', t. auto.
Qed.

Lemma then_fst : forall r rest,
  fst (then_ r rest) = fst r ++ match snd r with Some _ => [] | None => fst (rest tt) end.
Proof. intros. unfold then_. destruct (snd r); cbn [fst]; [rewrite app_nil_r|]; reflexivity. Qed.

Section Handover.
  Variable fuel : nat.
  Variable beh : oracles.

  (* the user flows of a request that hand over: the LAST event is the processor
     that answered *)
  Lemma run_users_req_handed : forall fs n k,
    snd (fst (run_users_req fuel beh fs)) = Some (n, k) ->
    exists f pre c, In f fs /\ fname f = n
      /\ fst (fst (run_users_req fuel beh fs))
         = pre ++ [{| e_flow := n; e_key := k; e_dir := Req; e_cond := c |}]
      /\ answers (beh n) Req k = true.
  Proof.
    intros fs n k. induction fs as [|f fs IH]; cbn [run_users_req]; [discriminate|].
    pose proof (flow_req_shape fuel f (beh (fname f))) as SH. unfold walk_shape in SH.
    destruct (snd (exec_flow_impl fuel f Req None (beh (fname f)))) eqn:O.
    - destruct (run_users_req fuel beh fs) as [[t2 sc] e]. cbn [fst snd] in *. intros H.
      destruct (IH H) as [f' [pre [c [F [N [E An]]]]]].
      exists f', (tag f Req (fst (exec_flow_impl fuel f Req None (beh (fname f)))) ++ pre), c.
      split; [right; exact F|]. split; [exact N|]. split; [|exact An].
      rewrite E, app_assoc. reflexivity.
    - cbn [fst snd]. intros H. inversion H; subst n k0.
      destruct SH as [pre [c [E [_ An]]]]. exists f, (tag f Req pre), c.
      split; [left; reflexivity|]. split; [reflexivity|]. split; [|exact An].
      rewrite E. unfold tag. rewrite map_app. reflexivity.
    - cbn [fst snd]. discriminate.
    - cbn [fst snd]. discriminate.
  Qed.

  (* where an event of a request trace comes from; an event of a hand-over
     continuation comes AFTER the event of the processor that answered, which is
     a request event of a user flow of the same name *)
  Lemma run_req_in_strong : forall s s2 ev,
    In ev (fst (run_req fuel beh s s2)) ->
    (exists f, In f (all_sel s) /\ from_flow fuel beh f Req None ev)
    \/ (exists s' f, s2 = Some s' /\ In f (all_sel s') /\ from_flow fuel beh f Res None ev)
    \/ (exists s' f f0 h c pre post,
          s2 = Some s' /\ In f (s_user s') /\ from_flow fuel beh f Res (Some h) ev
          /\ In f0 (s_user s) /\ fname f0 = fname f
          /\ fst (run_req fuel beh s s2)
             = pre ++ {| e_flow := fname f; e_key := h; e_dir := Req; e_cond := c |} :: post
          /\ In ev post /\ answers (beh (fname f)) Req h = true).
  Proof.
    intros s s2 ev. unfold run_req, all_sel.
    pose proof (run_users_req_in fuel beh (s_user s) ev) as U.
    pose proof (run_users_req_handed (s_user s)) as HD.
    destruct (run_users_req fuel beh (s_user s)) as [[t2 sc] e2]. cbn [fst snd] in U, HD.
    rewrite !then_fst. cbn [fst snd]. intros I.
    apply in_app_or in I. destruct I as [I|I].
    { left. apply run_list_in in I. destruct I as [f [A B]]. exists f.
      split; [|exact B]. apply in_or_app. left. exact A. }
    destruct (snd (run_list fuel beh Req (s_start s))); [destruct I|].
    apply in_app_or in I. destruct I as [I|I].
    { left. destruct (U I) as [f [A B]]. exists f.
      split; [|exact B]. apply in_or_app. right. apply in_or_app. left. exact A. }
    destruct e2; [destruct I|].
    apply in_app_or in I. destruct I as [I|I].
    { left. apply run_list_in in I. destruct I as [f [A B]]. exists f.
      split; [|exact B]. apply in_or_app. right. apply in_or_app. right. exact A. }
    destruct (snd (run_list fuel beh Req (s_end s))); [destruct I|].
    destruct sc as [[n k]|]; [|destruct I]. destruct s2 as [s'|]; [|destruct I].
    right. pose proof I as I0.
    apply run_res_in_strong in I. destruct I as [[f [A B]]|[f [h [A [St B]]]]].
    - left. exists s', f. auto.
    - right. unfold start_for in St. destruct (n =? fname f) eqn:En; [|discriminate].
      apply Z.eqb_eq in En. inversion St; subst h n.
      destruct (HD _ _ eq_refl) as [f0 [pre [c [F0 [N0 [E An]]]]]].
      exists s', f, f0, k, c, (fst (run_list fuel beh Req (s_start s)) ++ pre),
             (fst (run_list fuel beh Req (s_end s)) ++ fst (run_res fuel beh s' (Some (fname f, k)))).
      split; [reflexivity|]. split; [exact A|]. split; [exact B|]. split; [exact F0|].
      split; [exact N0|]. split; [|split; [|exact An]].
      + rewrite E, <- !app_assoc. reflexivity.
      + apply in_or_app. right. exact I0.
  Qed.
End Handover.

Lemma eid_inj : forall cfg e1 e2,
  NoDup (map eid cfg) -> In e1 cfg -> In e2 cfg -> eid e1 = eid e2 -> e1 = e2.
Proof.
  intros cfg e1 e2 N I1 I2 E. pose proof (find_eid cfg e1 N I1) as F1.
  pose proof (find_eid cfg e2 N I2) as F2. rewrite E in F1. rewrite F1 in F2.
  inversion F2. reflexivity.
Qed.

Lemma engine_event : forall fuel cfg beh x ev,
  cfg_ok cfg -> In ev (o_trace (engine fuel cfg beh x)) ->
  exists e, In e cfg /\ eid e = e_flow ev
            /\ accepts (ef_filter e) (view x (e_dir ev))
            /\ on_root_path beh (o_trace (engine fuel cfg beh x)) e ev.
Proof.
  intros fuel cfg beh x ev OK I. rewrite engine_trace in I |- *.
  destruct (F.t_resp x) eqn:R.
  - apply run_res_in_strong in I. destruct I as [[g [A B]]|[g [h [_ [St _]]]]]; [|discriminate St].
    destruct (sel_flow_accepts cfg x g OK A) as [e [E1 [E2 E3]]]. subst g.
    destruct (flow_path_root _ _ (fst (run_res fuel beh (split cfg (selected cfg x)) None)) _ _ _ B) as [N P].
    exists e. split; [exact E1|]. split; [exact N|]. split; [|exact P].
    destruct B as [_ [D _]]. rewrite D. cbn [view]. rewrite (as_response_id x R). exact E3.
  - set (tr := fst (run_req fuel beh (split cfg (selected cfg x)) (reselect cfg x))) in *.
    apply run_req_in_strong in I.
    destruct I as [[g [A B]]|[[s' [g [S [A B]]]]|[s' [g [g0 [h [c [pre [post [S [A [B [A0 [N0 [T [Ip An]]]]]]]]]]]]]]]].
    + destruct (sel_flow_accepts cfg x g OK A) as [e [E1 [E2 E3]]]. subst g.
      destruct (flow_path_root _ _ tr _ _ _ B) as [N P].
      exists e. split; [exact E1|]. split; [exact N|]. split; [|exact P].
      destruct B as [_ [D _]]. rewrite D. exact E3.
    + apply reselect_some in S. subst s'.
      destruct (sel_flow_accepts cfg (as_response x) g OK A) as [e [E1 [E2 E3]]]. subst g.
      destruct (flow_path_root _ _ tr _ _ _ B) as [N P].
      exists e. split; [exact E1|]. split; [exact N|]. split; [|exact P].
      destruct B as [_ [D _]]. rewrite D. exact E3.
    + apply reselect_some in S. subst s'.
      assert (A' : In g (all_sel (split cfg (selected cfg (as_response x))))).
      { unfold all_sel. apply in_or_app. right. apply in_or_app. left. exact A. }
      destruct (sel_flow_accepts cfg (as_response x) g OK A') as [e [E1 [E2 E3]]]. subst g.
      cbn [graph_of fname] in T, An.
      destruct (flow_path_handover _ _ tr _ _ _ _ _ _ B T Ip An) as [N P].
      exists e. split; [exact E1|]. split; [exact N|]. split; [|exact P].
      destruct B as [_ [D _]]. rewrite D. exact E3.
Qed.

Section Answer.
  Variable fuel : nat.
  Variable beh : oracles.

  Definition silent (t : list event) : Prop := Forall (fun e => ev_answers beh e = false) t.

  Lemma tag_silent : forall f d t,
    quiet d (beh (fname f)) t -> silent (tag f d t).
  Proof.
    intros f d t Q. unfold silent, tag. apply Forall_forall. intros e I.
    apply in_map_iff in I. destruct I as [[k c] [E I]]. subst e.
    unfold quiet in Q. rewrite Forall_forall in Q. exact (Q _ I).
  Qed.

  Lemma res_silent : forall t, Forall (fun e => e_dir e = Res) t -> silent t.
  Proof.
    intros t H. unfold silent. eapply Forall_impl; [|exact H].
    intros e D. unfold ev_answers, answers. rewrite D. reflexivity.
  Qed.

  (* the user flows of a request that is not abandoned: nobody answers, or the
     LAST event is the one processor that does *)
  Lemma run_users_req_shape : forall fs,
    snd (run_users_req fuel beh fs) = None ->
    match snd (fst (run_users_req fuel beh fs)) with
    | None => silent (fst (fst (run_users_req fuel beh fs)))
    | Some (n, k) =>
        exists pre c, fst (fst (run_users_req fuel beh fs))
                      = pre ++ [{| e_flow := n; e_key := k; e_dir := Req; e_cond := c |}]
                      /\ silent pre /\ answers (beh n) Req k = true
    end.
  Proof.
    induction fs as [|f fs IH]; cbn [run_users_req]; [intros _; constructor|].
    pose proof (flow_req_shape fuel f (beh (fname f))) as SH. unfold walk_shape in SH.
    destruct (snd (exec_flow_impl fuel f Req None (beh (fname f)))) eqn:O.
    - destruct (run_users_req fuel beh fs) as [[t2 sc] e]. cbn [fst snd] in *. intros H.
      specialize (IH H). apply tag_silent in SH. destruct sc as [[n k]|].
      + destruct IH as [pre [c [E [Q An]]]]. exists (tag f Req (fst (exec_flow_impl fuel f Req None (beh (fname f)))) ++ pre), c.
        rewrite E, app_assoc. repeat split; auto. apply Forall_app. split; assumption.
      + apply Forall_app. split; assumption.
    - intros _. cbn [fst snd]. destruct SH as [pre [c [E [Q An]]]].
      exists (tag f Req pre), c. rewrite E. unfold tag at 1. rewrite map_app. cbn [map fst snd].
      repeat split; auto. apply tag_silent. exact Q.
    - cbn [snd]. discriminate.
    - cbn [snd]. discriminate.
  Qed.
End Answer.

(* the request actions of events that do not answer are not early responses *)
Lemma silent_actions : forall beh ao t,
  coherent beh ao -> silent beh t ->
  Forall (fun a => A.is_early a = false) (req_actions ao t).
Proof.
  intros beh ao t CO S. unfold req_actions. apply Forall_forall. intros a I.
  apply in_flat_map in I. destruct I as [e [E I]].
  unfold silent in S. rewrite Forall_forall in S. specialize (S e E).
  destruct (ao (e_flow e) (e_key e) (e_dir e)) as [a'|] eqn:AO; [|contradiction].
  destruct I as [I|[]]. subst a'.
  destruct (A.is_early a) eqn:EA; [|reflexivity].
  destruct (CO (e_flow e) (e_key e) (e_dir e)) as [_ C2].
  specialize (C2 a AO EA). unfold ev_answers in S. rewrite S in C2. discriminate.
Qed.

Lemma req_actions_app : forall ao t1 t2,
  req_actions ao (t1 ++ t2) = req_actions ao t1 ++ req_actions ao t2.
Proof. intros. unfold req_actions. apply flat_map_app. Qed.

Lemma then_none' : forall r rest,
  snd (then_ r rest) = None ->
  snd r = None /\ snd (rest tt) = None /\ fst (then_ r rest) = fst r ++ fst (rest tt).
Proof. exact then_none. Qed.

(* Request that is not abandoned, system flows never answer: if some executed
   processor answered, the trace is  pre ++ that event :: post  with nobody
   answering in pre, every event of post either in the response direction or a
   request event of an end-system flow, and the combined action is that
   processor's early response. *)
Lemma engine_early_response : forall fuel cfg beh ao x ev,
  cfg_ok cfg -> coherent beh ao -> sys_quiet cfg beh ->
  F.t_resp x = false ->
  o_error (engine fuel cfg beh x) = None ->
  In ev (o_trace (engine fuel cfg beh x)) -> ev_answers beh ev = true ->
  exists pre post a,
    o_trace (engine fuel cfg beh x) = pre ++ ev :: post
    /\ silent beh pre
    /\ ao (e_flow ev) (e_key ev) (e_dir ev) = Some a /\ A.is_early a = true
    /\ action_req ao (engine fuel cfg beh x) = a
    /\ Forall (fun e' => e_dir e' = Res
                         \/ exists e, In e cfg /\ eid e = e_flow e' /\ F.f_kind (ef_filter e) = 2) post.
Proof.
  intros fuel cfg beh ao x ev OK CO SQ R NE I AN.
  unfold action_req. rewrite NE. revert NE I. rewrite engine_error, engine_trace, R.
  set (sel := selected cfg x). intros NE I.
  (* the system groups are silent *)
  assert (SYS : forall k fs, k <> 0 -> fs = group cfg k sel ->
                  silent beh (fst (run_list fuel beh Req fs))).
  { intros k fs K E. unfold silent. apply Forall_forall. intros e' I'.
    apply run_list_in in I'. destruct I' as [g [G [B1 [B2 _]]]]. subst fs.
    destruct (group_in cfg k sel g (ok_ids cfg OK) (selected_incl cfg x OK) G) as [e [E1 [E2 [E3 _]]]].
    subst g. unfold ev_answers. rewrite B1, B2. cbn [graph_of fname].
    apply SQ; [exact E1|]. rewrite E3. exact K. }
  unfold run_req in NE, I |- *.
  apply then_none' in NE. destruct NE as [N1 [NE E1]]. rewrite E1 in I |- *. clear E1.
  pose proof (run_users_req_shape fuel beh (s_user (split cfg sel))) as SH.
  destruct (run_users_req fuel beh (s_user (split cfg sel))) as [[t2 sc] e2] eqn:RU.
  apply then_none' in NE. destruct NE as [N2 [NE E2]]. rewrite E2 in I |- *. clear E2.
  apply then_none' in NE. destruct NE as [N3 [N4 E3]]. rewrite E3 in I |- *. clear E3.
  cbn [fst snd] in *. specialize (SH N2).
  set (T1 := fst (run_list fuel beh Req (s_start (split cfg sel)))) in *.
  set (T3 := fst (run_list fuel beh Req (s_end (split cfg sel)))) in *.
  set (T4 := fst (match sc with
                  | Some h => match reselect cfg x with
                              | Some s' => run_res fuel beh s' (Some h)
                              | None => ([], None)
                              end
                  | None => ([], None)
                  end)) in *.
  assert (S1 : silent beh T1) by (apply (SYS 1 _ ltac:(discriminate) eq_refl)).
  assert (S3 : silent beh T3) by (apply (SYS 2 _ ltac:(discriminate) eq_refl)).
  assert (D4 : Forall (fun e' => e_dir e' = Res) T4).
  { subst T4. apply Forall_forall. intros e' I'.
    destruct sc as [h|]; [|destruct I']. destruct (reselect cfg x) as [s'|]; [|destruct I'].
    apply run_res_in in I'. destruct I' as [g [st [_ [_ [B _]]]]]. exact B. }
  assert (S4 : silent beh T4) by (apply res_silent; exact D4).
  assert (NOT : forall t, silent beh t -> In ev t -> False).
  { intros t S J. unfold silent in S. rewrite Forall_forall in S. rewrite (S _ J) in AN. discriminate. }
  destruct sc as [[n k]|].
  2:{ exfalso. apply in_app_or in I. destruct I as [I|I]; [exact (NOT _ S1 I)|].
      apply in_app_or in I. destruct I as [I|I]; [exact (NOT _ SH I)|].
      apply in_app_or in I. destruct I as [I|I]; [exact (NOT _ S3 I)|exact (NOT _ S4 I)]. }
  destruct SH as [pre [c [E [Q An]]]]. subst t2.
  assert (EV : ev = {| e_flow := n; e_key := k; e_dir := Req; e_cond := c |}).
  { apply in_app_or in I. destruct I as [I|I]; [exfalso; exact (NOT _ S1 I)|].
    apply in_app_or in I. destruct I as [I|I].
    - apply in_app_or in I. destruct I as [I|I]; [exfalso; exact (NOT _ Q I)|].
      destruct I as [I|[]]. symmetry. exact I.
    - exfalso. apply in_app_or in I. destruct I as [I|I]; [exact (NOT _ S3 I)|exact (NOT _ S4 I)]. }
  destruct (CO (e_flow ev) (e_key ev) (e_dir ev)) as [C1 _].
  destruct (C1 AN) as [a [AO EA]].
  exists (T1 ++ pre), (T3 ++ T4), a.
  assert (TR : T1 ++ (pre ++ [{| e_flow := n; e_key := k; e_dir := Req; e_cond := c |}]) ++ T3 ++ T4
               = (T1 ++ pre) ++ ev :: T3 ++ T4).
  { rewrite EV, <- !app_assoc. reflexivity. }
  rewrite TR.
  assert (SP : silent beh (T1 ++ pre)) by (apply Forall_app; split; assumption).
  split; [reflexivity|]. split; [exact SP|]. split; [exact AO|]. split; [exact EA|]. split.
  - rewrite req_actions_app. cbn [req_actions flat_map]. rewrite AO. cbn [app].
    apply AT.C07_early_wins; [|exact EA]. apply (silent_actions beh ao _ CO SP).
  - apply Forall_app. split.
    + apply Forall_forall. intros e' I'. right. subst T3.
      apply run_list_in in I'. destruct I' as [g [G [B1 _]]].
      destruct (group_in cfg 2 sel g (ok_ids cfg OK) (selected_incl cfg x OK) G) as [e [E1 [E2 [E3 _]]]].
      subst g. exists e. repeat split; auto.
    + eapply Forall_impl; [|exact D4]. intros e' D. left. exact D.
Qed.

(* ================================================================ (f) clause 5 end to end: re-selection *)

Lemma NoDup_map_inj : forall (A B : Type) (f : A -> B) (l : list A) a b,
  NoDup (map f l) -> In a l -> In b l -> f a = f b -> a = b.
Proof.
  intros A B f l a b. induction l as [|x l IH]; intros N Ia Ib E; [contradiction|].
  cbn [map] in N. inversion N as [|? ? N1 N2]; subst.
  destruct Ia as [Ia|Ia], Ib as [Ib|Ib].
  - subst. reflexivity.
  - subst x. exfalso. apply N1. rewrite E. apply in_map. exact Ib.
  - subst x. exfalso. apply N1. rewrite <- E. apply in_map. exact Ia.
  - apply IH; assumption.
Qed.

Lemma NoDup_map_on : forall (A B : Type) (f : A -> B) (l : list A),
  (forall a b, In a l -> In b l -> f a = f b -> a = b) -> NoDup l -> NoDup (map f l).
Proof.
  intros A B f l. induction l as [|x l IH]; intros Inj N; cbn [map]; [constructor|].
  inversion N as [|? ? N1 N2]; subst. constructor.
  - intros I. apply in_map_iff in I. destruct I as [y [E I]].
    assert (y = x) by (apply Inj; [right; exact I|left; reflexivity|exact E]). subst y. contradiction.
  - apply IH; [|exact N2]. intros a b Ia Ib. apply Inj; right; assumption.
Qed.

Lemma filters_ids : forall cfg, map F.f_id (filters cfg) = map eid cfg.
Proof. intros. unfold filters, eid. rewrite map_map. reflexivity. Qed.

Lemma filters_nodup : forall cfg, NoDup (map eid cfg) -> NoDup (filters cfg).
Proof. intros cfg N. rewrite <- filters_ids in N. exact (NoDup_map_inv _ _ N). Qed.

Lemma selected_nodup : forall cfg x, cfg_ok cfg -> NoDup (selected cfg x).
Proof.
  intros cfg x OK. unfold selected. change (ftree_of cfg) with (FP.tree_of (filters cfg)).
  apply FT.C03_at_most_once; [exact (ok_load cfg OK)|apply filters_nodup; exact (ok_ids cfg OK)].
Qed.

Lemma group_names : forall cfg k sel,
  NoDup (map eid cfg) -> incl sel (filters cfg) ->
  map fname (group cfg k sel) = map F.f_id (filter (fun f => F.f_kind f =? k) sel).
Proof.
  intros cfg k sel N. unfold group. induction sel as [|f sel IH]; intros S; [reflexivity|].
  assert (S' : incl sel (filters cfg)) by (intros y Y; apply S; right; exact Y).
  cbn [filter]. destruct (F.f_kind f =? k); [|apply IH; exact S'].
  cbn [flat_map map]. rewrite map_app, (IH S'). f_equal.
  pose proof (S f (or_introl eq_refl)) as M. unfold filters in M. apply in_map_iff in M.
  destruct M as [e [E M]]. subst f. rewrite (graph_for_filter cfg e N M). reflexivity.
Qed.

Lemma group_nodup : forall cfg k sel,
  NoDup (map eid cfg) -> incl sel (filters cfg) -> NoDup sel ->
  NoDup (map fname (group cfg k sel)).
Proof.
  intros cfg k sel N S D. rewrite (group_names cfg k sel N S).
  apply NoDup_map_on; [|apply NoDup_filter; exact D].
  intros a b Ia Ib E. apply filter_In in Ia. apply filter_In in Ib.
  apply (NoDup_map_inj _ _ F.f_id (filters cfg)); [rewrite filters_ids; exact N| | |exact E].
  - apply S. apply Ia.
  - apply S. apply Ib.
Qed.

Lemma group_has : forall cfg k sel e,
  NoDup (map eid cfg) -> In e cfg -> In (ef_filter e) sel -> F.f_kind (ef_filter e) = k ->
  In (graph_of e) (group cfg k sel).
Proof.
  intros cfg k sel e N I S K. unfold group. apply in_flat_map. exists (ef_filter e). split.
  - apply filter_In. split; [exact S|]. apply Z.eqb_eq. exact K.
  - rewrite (graph_for_filter cfg e N I). left. reflexivity.
Qed.

(* the second GetFlow finds again every flow selected for the request whose
   status requirement allows a response-typed stream without response object:
   URL and method are those of the request, header and query requirements are
   not judged on a response *)
Lemma reselect_keeps : forall cfg x f,
  In f (selected cfg x) -> F.status_ok f (as_response x) = true ->
  In f (selected cfg (as_response x)).
Proof.
  intros cfg x f I S. unfold selected, F.get_flow in *.
  apply in_flat_map in I. destruct I as [n [Nn I]]. apply filter_In in I. destruct I as [I Q].
  apply in_flat_map. exists n. split; [exact Nn|]. apply filter_In. split; [exact I|].
  unfold F.qualifies in *. rewrite !andb_true_iff in Q. destruct Q as [[[_ _] M] _].
  rewrite S. unfold F.headers_ok, F.query_ok. cbn [as_response F.t_resp orb andb].
  unfold F.method_ok in *. cbn [as_response F.t_method]. rewrite M. reflexivity.
Qed.

Lemma found_again_false_not_selected : forall cfg x e,
  found_again e x = false -> ~ In (ef_filter e) (selected cfg (as_response x)).
Proof.
  intros cfg x e FA I. unfold selected, F.get_flow in I.
  apply in_flat_map in I. destruct I as [n [_ I]]. apply filter_In in I. destruct I as [_ Q].
  unfold F.qualifies in Q. rewrite !andb_true_iff in Q. destruct Q as [[[_ S] _] _].
  unfold found_again in FA. rewrite S in FA. discriminate.
Qed.

(* a request event of a USER flow whose processor answered, in a request that is
   not abandoned: it is the hand-over of the transaction *)
Lemma engine_answerer : forall fuel cfg beh x e ev,
  cfg_ok cfg -> F.t_resp x = false ->
  o_error (engine fuel cfg beh x) = None ->
  In e cfg -> F.f_kind (ef_filter e) = 0 ->
  In ev (o_trace (engine fuel cfg beh x)) ->
  e_flow ev = eid e -> e_dir ev = Req -> ev_answers beh ev = true ->
  snd (users_prefix fuel beh (s_user (split cfg (selected cfg x)))) = Some (eid e, e_key ev)
  /\ In (ef_filter e) (selected cfg x).
Proof.
  intros fuel cfg beh x e ev OK R NE Ie K I Fl Dr AN.
  revert NE I. rewrite engine_error, engine_trace, R. set (sel := selected cfg x). intros NE I.
  assert (SYS : forall k fs, k <> 0 -> fs = group cfg k sel ->
                  ~ In ev (fst (run_list fuel beh Req fs))).
  { intros k fs K' E I'. apply run_list_in in I'. destruct I' as [g [G [B1 _]]]. subst fs.
    destruct (group_in cfg k sel g (ok_ids cfg OK) (selected_incl cfg x OK) G) as [e' [E1 [E2 [E3 _]]]].
    subst g. cbn [graph_of fname] in B1.
    assert (e' = e) by (apply (eid_inj cfg); [exact (ok_ids cfg OK)|exact E1|exact Ie|congruence]).
    subst e'. congruence. }
  unfold run_req in NE, I.
  apply then_none' in NE. destruct NE as [N1 [NE E1]]. rewrite E1 in I. clear E1.
  pose proof (run_users_req_shape fuel beh (s_user (split cfg sel))) as SH.
  pose proof (run_users_req_order fuel beh (s_user (split cfg sel))) as UO.
  pose proof (run_users_req_in fuel beh (s_user (split cfg sel)) ev) as UI.
  destruct (run_users_req fuel beh (s_user (split cfg sel))) as [[t2 sc] e2] eqn:RU.
  apply then_none' in NE. destruct NE as [N2 [NE E2]]. rewrite E2 in I. clear E2.
  apply then_none' in NE. destruct NE as [N3 [N4 E3]]. rewrite E3 in I. clear E3.
  cbn [fst snd] in *. specialize (SH N2). destruct (UO N2) as [_ UO2].
  apply in_app_or in I. destruct I as [I|I]; [exfalso; exact (SYS 1 _ ltac:(discriminate) eq_refl I)|].
  apply in_app_or in I. destruct I as [I|I].
  2:{ exfalso. apply in_app_or in I. destruct I as [I|I]; [exact (SYS 2 _ ltac:(discriminate) eq_refl I)|].
      destruct sc as [h|]; [|destruct I]. destruct (reselect cfg x) as [s'|]; [|destruct I].
      apply run_res_in in I. destruct I as [g [st [_ [_ [B _]]]]]. congruence. }
  assert (SEL : In (ef_filter e) sel).
  { destruct (UI I) as [g [G [B1 _]]].
    destruct (group_in cfg 0 sel g (ok_ids cfg OK) (selected_incl cfg x OK) G) as [e' [E1 [E2 [_ E4]]]].
    subst g. cbn [graph_of fname] in B1.
    assert (e' = e) by (apply (eid_inj cfg); [exact (ok_ids cfg OK)|exact E1|exact Ie|congruence]).
    subst e'. exact E4. }
  split; [|exact SEL]. rewrite <- UO2.
  destruct sc as [[n k]|].
  - destruct SH as [pre [c [E [Q An]]]]. subst t2.
    apply in_app_or in I. destruct I as [I|I].
    + exfalso. unfold silent in Q. rewrite Forall_forall in Q. rewrite (Q _ I) in AN. discriminate.
    + destruct I as [I|[]]. subst ev. cbn [e_flow e_key] in *. subst n. reflexivity.
  - exfalso. unfold silent in SH. rewrite Forall_forall in SH. rewrite (SH _ I) in AN. discriminate.
Qed.

Lemma engine_response_continues : forall fuel cfg beh x e ev,
  cfg_ok cfg -> F.t_resp x = false ->
  o_error (engine fuel cfg beh x) = None ->
  In e cfg -> F.f_kind (ef_filter e) = 0 ->
  In ev (o_trace (engine fuel cfg beh x)) ->
  e_flow ev = eid e -> e_dir ev = Req -> ev_answers beh ev = true ->
  found_again e x = true ->
  exists s' us1 us2 reqpart,
    reselect cfg x = Some s'
    /\ rev (s_user s') = us1 ++ graph_of e :: us2
    /\ ~ In (eid e) (map fname us1) /\ ~ In (eid e) (map fname us2)
    /\ Forall (fun e' => e_dir e' = Req) reqpart /\ In ev reqpart
    /\ o_trace (engine fuel cfg beh x)
       = reqpart
         ++ flat_map (flow_events fuel beh Res None) (rev (s_start s'))
         ++ (flat_map (flow_events fuel beh Res None) us1
             ++ flow_events fuel beh Res (Some (e_key ev)) (graph_of e)
             ++ flat_map (flow_events fuel beh Res None) us2)
         ++ flat_map (flow_events fuel beh Res None) (rev (s_end s')).
Proof.
  intros fuel cfg beh x e ev OK R NE Ie K I Fl Dr AN FA.
  destruct (engine_answerer fuel cfg beh x e ev OK R NE Ie K I Fl Dr AN) as [UP SEL].
  pose proof (reselect_keeps cfg x _ SEL FA) as SEL'.
  set (sel' := selected cfg (as_response x)) in *.
  assert (RS : reselect cfg x = Some (split cfg sel')).
  { unfold reselect. fold (selected cfg (as_response x)). fold sel'.
    destruct sel' as [|f0 l]; [destruct SEL'|reflexivity]. }
  assert (IU : In (graph_of e) (s_user (split cfg sel')))
    by (apply group_has; [exact (ok_ids cfg OK)|exact Ie|exact SEL'|exact K]).
  assert (ND : NoDup (map fname (s_user (split cfg sel'))))
    by (apply group_nodup; [exact (ok_ids cfg OK)|apply selected_incl; exact OK|apply selected_nodup; exact OK]).
  revert NE I. rewrite engine_error, engine_trace, R, RS. intros NE I.
  change (eid e) with (fname (graph_of e)) in UP.
  destruct (C04_response_continues fuel beh _ _ _ _ NE UP IU ND) as [us1 [us2 [E [N1 [N2 T]]]]].
  exists (split cfg sel'), us1, us2,
    (flat_map (flow_events fuel beh Req None) (s_start (split cfg (selected cfg x)))
     ++ flat_map (flow_events fuel beh Req None) (fst (users_prefix fuel beh (s_user (split cfg (selected cfg x)))))
     ++ flat_map (flow_events fuel beh Req None) (s_end (split cfg (selected cfg x)))).
  split; [reflexivity|]. split; [exact E|]. split; [exact N1|]. split; [exact N2|].
  assert (RQ : forall fs, Forall (fun e' => e_dir e' = Req) (flat_map (flow_events fuel beh Req None) fs)).
  { intros fs. apply Forall_forall. intros e' I'. apply in_flat_map in I'. destruct I' as [f [_ I']].
    unfold flow_events in I'. apply tag_in in I'. apply I'. }
  split; [repeat (apply Forall_app; split); apply RQ|]. split.
  - rewrite T in I. rewrite !app_assoc in I. repeat rewrite <- app_assoc in I.
    apply in_app_or in I. destruct I as [I|I]; [apply in_or_app; left; exact I|].
    apply in_app_or in I. destruct I as [I|I]; [apply in_or_app; right; apply in_or_app; left; exact I|].
    apply in_app_or in I. destruct I as [I|I]; [apply in_or_app; right; apply in_or_app; right; exact I|].
    exfalso.
    assert (RS' : forall st fs, Forall (fun e' => e_dir e' = Res)
                    (flat_map (fun f => flow_events fuel beh Res (st f) f) fs)).
    { intros st fs. apply Forall_forall. intros e' I'. apply in_flat_map in I'. destruct I' as [f [_ I']].
      unfold flow_events in I'. apply tag_in in I'. apply I'. }
    assert (RE : forall l, Forall (fun e' => e_dir e' = Res) l -> In ev l -> False).
    { intros l Fa J. rewrite Forall_forall in Fa. rewrite (Fa _ J) in Dr. discriminate. }
    apply in_app_or in I. destruct I as [I|I]; [exact (RE _ (RS' (fun _ => None) _) I)|].
    apply in_app_or in I. destruct I as [I|I]; [exact (RE _ (RS' (fun _ => None) _) I)|].
    apply in_app_or in I. destruct I as [I|I].
    { unfold flow_events in I. apply tag_in in I. destruct I as [_ [D _]]. congruence. }
    apply in_app_or in I. destruct I as [I|I]; exact (RE _ (RS' (fun _ => None) _) I).
  - rewrite T. rewrite <- !app_assoc. reflexivity.
Qed.

(* the other way round: a flow whose status requirement excludes a stream without
   response object runs nothing on the response side of a request *)
Lemma engine_not_found_again : forall fuel cfg beh x e ev,
  cfg_ok cfg -> F.t_resp x = false -> In e cfg -> found_again e x = false ->
  In ev (o_trace (engine fuel cfg beh x)) -> e_flow ev = eid e -> e_dir ev = Req.
Proof.
  intros fuel cfg beh x e ev OK R Ie FA I Fl. rewrite engine_trace, R in I.
  apply run_req_in in I. destruct I as [[g [_ [_ [D _]]]]|[s' [g [st [S [A [B1 [D _]]]]]]]]; [exact D|].
  exfalso. apply reselect_some in S. subst s'.
  destruct (all_sel_in cfg _ g (ok_ids cfg OK) (selected_incl cfg (as_response x) OK) A) as [e' [E1 [E2 E3]]].
  subst g. cbn [graph_of fname] in B1.
  assert (e' = e) by (apply (eid_inj cfg); [exact (ok_ids cfg OK)|exact E1|exact Ie|congruence]).
  subst e'. exact (found_again_false_not_selected cfg x e FA E3).
Qed.

(* ================================================================ (g) abandoned only by F-C04d *)

Lemma dropped_mono : forall beh fs fs' t,
  incl fs fs' -> answer_dropped beh fs t = true -> answer_dropped beh fs' t = true.
Proof.
  intros beh fs fs' t S H. unfold answer_dropped in *. apply existsb_exists in H.
  destruct H as [e [I D]]. apply existsb_exists. exists e. split; [exact I|].
  unfold dropped_event in *. rewrite !andb_true_iff in *. destruct D as [D1 D2]. split; [exact D1|].
  apply existsb_exists in D2. destruct D2 as [f [F D2]]. apply existsb_exists. exists f.
  split; [apply S; exact F|exact D2].
Qed.

Lemma sel_flows_incl : forall cfg sel, incl (sel_flows (split cfg sel)) (graphs cfg).
Proof.
  intros cfg sel g I. unfold sel_flows, split in I. cbn [s_start s_user s_end] in I.
  apply in_app_or in I. destruct I as [I|I]; [eapply group_incl; eauto|].
  apply in_app_or in I. destruct I as [I|I]; eapply group_incl; eauto.
Qed.

Lemma engine_abandoned : forall cfg beh x o,
  cfg_ok cfg -> o_error (engine (fuel_of cfg) cfg beh x) = Some o ->
  F.t_resp x = false
  /\ exists k e c, o = NoRespNode k /\ In e cfg
       /\ In {| e_flow := eid e; e_key := k; e_dir := Req; e_cond := c |}
             (o_trace (engine (fuel_of cfg) cfg beh x))
       /\ answers (beh (eid e)) Req k = true /\ has_node (ef_res e) k = false.
Proof.
  intros cfg beh x o OK. rewrite engine_error, engine_trace.
  pose proof (cfg_sel_ok cfg (selected cfg x) OK) as S1.
  assert (S2 : forall s', reselect cfg x = Some s' -> sel_ok (fuel_of cfg) s').
  { intros s' E. apply reselect_some in E. subst s'. apply cfg_sel_ok. exact OK. }
  destruct (F.t_resp x).
  - intros E. exfalso.
    rewrite (C04_response_order_acyclic (fuel_of cfg) beh _ None S1) in E. discriminate.
  - intros E. split; [reflexivity|].
    destruct (C04_abandoned_only_by_F_C04d _ _ _ _ _ S1 S2 E) as [k [f [c [O [F [I [An H]]]]]]].
    pose proof (sel_flows_incl cfg _ f F) as G. unfold graphs in G. apply in_map_iff in G.
    destruct G as [e [G1 G2]]. subst f. exists k, e, c. cbn [graph_of fname fres] in *. auto.
Qed.

Lemma engine_outside : forall cfg beh x,
  cfg_ok cfg ->
  e2e_dropped cfg beh (o_trace (engine (fuel_of cfg) cfg beh x)) = false ->
  o_error (engine (fuel_of cfg) cfg beh x) = None.
Proof.
  intros cfg beh x OK D. destruct (o_error (engine (fuel_of cfg) cfg beh x)) as [o|] eqn:E; [|reflexivity].
  exfalso. destruct (engine_abandoned cfg beh x o OK E) as [_ [k [e [c [_ [Ie [I [An H]]]]]]]].
  unfold e2e_dropped, answer_dropped in D.
  assert (X : existsb (dropped_event beh (graphs cfg)) (o_trace (engine (fuel_of cfg) cfg beh x)) = true).
  { apply existsb_exists. eexists. split; [exact I|]. unfold dropped_event.
    cbn [e_dir e_flow e_key is_req]. rewrite An. cbn [andb]. apply existsb_exists.
    exists (graph_of e). split; [unfold graphs; apply in_map; exact Ie|].
    cbn [graph_of fname fres]. rewrite Z.eqb_refl, H. reflexivity. }
  rewrite X in D. discriminate.
Qed.

(* ================================================================ (h) fuel *)

Lemma users_invoked_fuel_le : forall f1 f2 beh fs,
  (f1 <= f2)%nat -> Forall (flow_ok f1) fs -> users_invoked f1 beh fs = users_invoked f2 beh fs.
Proof.
  intros f1 f2 beh fs L H. induction H as [|f fs F _ IH]; cbn [users_invoked]; [reflexivity|].
  rewrite (flow_fuel_le f1 f2 f Req None _ F L), IH. reflexivity.
Qed.

Lemma engine_fuel : forall fuel cfg beh x,
  cfg_ok cfg -> (fuel_of cfg <= fuel)%nat ->
  engine fuel cfg beh x = engine (fuel_of cfg) cfg beh x.
Proof.
  intros fuel cfg beh x OK L. rewrite !engine_unfold. unfold run_selected.
  pose proof (cfg_sel_ok cfg (selected cfg x) OK) as S1.
  assert (S2 : forall s', reselect cfg x = Some s' -> sel_ok (fuel_of cfg) s').
  { intros s' E. apply reselect_some in E. subst s'. apply cfg_sel_ok. exact OK. }
  destruct (F.t_resp x).
  - rewrite <- (run_res_fuel_le (fuel_of cfg) fuel beh L _ None S1). reflexivity.
  - rewrite <- (run_req_fuel_le (fuel_of cfg) fuel beh L _ _ S1 S2).
    unfold invoked. destruct S1 as [A [U Z]].
    rewrite <- (run_list_fuel_le (fuel_of cfg) fuel beh L Req _ A).
    rewrite <- (users_invoked_fuel_le (fuel_of cfg) fuel beh _ L U). reflexivity.
Qed.

(* ================================================================ (i) the oracle hypotheses, finitely *)

Lemma dec_orc_row : forall rows fl k d c kd,
  dec_orc rows fl k d = (c, kd) -> kd = Early ->
  exists c' , In (OR fl k (is_req d) c' true) rows.
Proof.
  intros rows fl k d c kd H E. unfold dec_orc in H.
  destruct (find (fun r => let '(OR f' k' q' _ _) := r in (f' =? fl) && (k' =? k) && eqb q' (is_req d)) rows)
    as [[f' k' q' c' e']|] eqn:Fd.
  - apply find_some in Fd. destruct Fd as [I M]. rewrite !andb_true_iff in M. destruct M as [[M1 M2] M3].
    apply Z.eqb_eq in M1. apply Z.eqb_eq in M2. apply eqb_prop in M3. subst f' k' q'.
    injection H as H1 H2. subst kd. destruct e'; [|discriminate]. exists c'. exact I.
  - injection H as H1 H2. subst kd. discriminate.
Qed.

Lemma dir_of_is_req : forall d, dir_of (is_req d) = d.
Proof. destruct d; reflexivity. Qed.

Lemma coherentb_sound : forall orc areal,
  coherentb orc areal = true -> coherent (dec_orc orc) (dec_ao areal).
Proof.
  intros orc areal H. unfold coherentb in H. apply andb_true_iff in H. destruct H as [H1 H2].
  rewrite forallb_forall in H1, H2.
  assert (AT : forall fl k d,
            answers (dec_orc orc fl) d k = true \/ (exists a, dec_ao areal fl k d = Some a /\ A.is_early a = true) ->
            coherent_at (dec_orc orc) (dec_ao areal) fl k d = true).
  { intros fl k d [An|[a [AO EA]]].
    - unfold answers in An. apply andb_true_iff in An. destruct An as [_ An].
      destruct (dec_orc orc fl k d) as [c kd] eqn:DO. cbn [snd] in An.
      destruct (dec_orc_row orc fl k d c kd DO) as [c' I]; [destruct kd; [discriminate|reflexivity]|].
      specialize (H1 _ I). cbn beta iota in H1. rewrite dir_of_is_req in H1. exact H1.
    - unfold dec_ao, find_arow in AO.
      destruct (find (fun r => let '(AR f' k' q' _) := r in (f' =? fl) && (k' =? k) && eqb q' (is_req d)) areal)
        as [[f' k' q' a']|] eqn:Fd; [|discriminate].
      apply find_some in Fd. destruct Fd as [I M]. rewrite !andb_true_iff in M. destruct M as [[M1 M2] M3].
      apply Z.eqb_eq in M1. apply Z.eqb_eq in M2. apply eqb_prop in M3. subst f' k' q'.
      specialize (H2 _ I). cbn beta iota in H2. rewrite dir_of_is_req in H2. exact H2. }
  intros fl k d. split.
  - intros An. pose proof (AT fl k d (or_introl An)) as C. unfold coherent_at in C. rewrite An in C.
    destruct (dec_ao areal fl k d) as [a|]; [|discriminate]. exists a. split; [reflexivity|].
    apply eqb_prop in C. symmetry. exact C.
  - intros a AO EA. pose proof (AT fl k d (or_intror (ex_intro _ a (conj AO EA)))) as C.
    unfold coherent_at in C. rewrite AO, EA in C. apply eqb_prop in C. exact C.
Qed.

Lemma sys_quietb_sound : forall cfg orc,
  sys_quietb cfg orc = true -> sys_quiet cfg (dec_orc orc).
Proof.
  intros cfg orc H e I K k. unfold sys_quietb in H. rewrite forallb_forall in H. specialize (H e I).
  apply orb_true_iff in H. destruct H as [H|H]; [apply Z.eqb_eq in H; contradiction|].
  destruct (answers (dec_orc orc (eid e)) Req k) eqn:An; [|reflexivity]. exfalso.
  pose proof An as An'. unfold answers in An'. apply andb_true_iff in An'. destruct An' as [_ An'].
  destruct (dec_orc orc (eid e) k Req) as [c kd] eqn:DO. cbn [snd] in An'.
  destruct (dec_orc_row orc (eid e) k Req c kd DO) as [c' J]; [destruct kd; [discriminate|reflexivity]|].
  rewrite forallb_forall in H. specialize (H _ J). cbn beta iota in H.
  rewrite Z.eqb_refl, An in H. discriminate.
Qed.
