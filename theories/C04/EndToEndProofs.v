(* C04 / end-to-end composition — lemmas.  The final statements
   (EndToEndProperty.v) are obtained by COMPOSING the theorems of the units:
     C03_sound / C03_sound_lax / C03_no_match_no_action      (selection)
     C04_flow_path / C04_system_order / C04_system_order_response /
     C04_flow_impl_is_spec / C04_no_fuel_exhaustion           (execution)
     C05.Proofs: load_accept_valid, valid_flows_ok, sel_from_ok,
       run_req_failed / run_res_failed, run_req_length / run_res_length,
       and C05_transaction_safe                               (acceptance)
     C07_early_wins / C07_early_wins_first / C07_headers_union (combination)
   What is proved here is the glue: the adapter between C03's selection and
   C04's [selection] record, the lifting of membership through C04's
   orchestration (unconditional: C04_system_order only speaks about
   transactions that are not abandoned), and the shape of a request walk around
   the processor that answers (C04 has no statement "the answering processor is
   the last request event of its flow and the only one"). *)
From Coq Require Import List ZArith Bool Lia.
From Verif Require C03.Trie C03.Model C03.Spec C03.Proofs C03.Property.
From Verif Require Import C04.Model C04.Spec C04.Proofs C04.Property.
From Verif Require C05.Model C05.Proofs C05.Property.
From Verif Require C07.Model C07.Spec C07.Proofs C07.Property.
From Verif Require Import C04.EndToEnd C04.EndToEndSpec.
Import ListNotations.
Open Scope Z_scope.

Module FP := Verif.C03.Proofs.
Module FT := Verif.C03.Property.
Module LT := Verif.C05.Property.
Module AS := Verif.C07.Spec.
Module AT := Verif.C07.Property.

(* ================================================================ names *)

Lemma nodupZ_NoDup : forall l, nodupZ l = true -> NoDup l.
Proof.
  induction l as [|x l IH]; cbn [nodupZ]; intros H; [constructor|].
  apply andb_true_iff in H. destruct H as [H1 H2]. constructor; [|apply IH; exact H2].
  intros I. apply negb_true_iff in H1.
  assert (E : existsb (Z.eqb x) l = true).
  { apply existsb_exists. exists x. split; [exact I|apply Z.eqb_refl]. }
  rewrite E in H1. discriminate.
Qed.

Lemma find_eid : forall cfg e,
  NoDup (map eid cfg) -> In e cfg -> find (fun e' => eid e' =? eid e) cfg = Some e.
Proof.
  induction cfg as [|e0 cfg IH]; intros e N I; [contradiction|].
  cbn [map] in N. inversion N as [|? ? N1 N2]; subst.
  cbn [find]. destruct (eid e0 =? eid e) eqn:E.
  - apply Z.eqb_eq in E. destruct I as [I|I]; [subst; reflexivity|].
    exfalso. apply N1. rewrite E. apply in_map. exact I.
  - destruct I as [I|I]; [subst; rewrite Z.eqb_refl in E; discriminate|].
    apply IH; assumption.
Qed.

Lemma graph_for_filter : forall cfg e,
  NoDup (map eid cfg) -> In e cfg -> graph_for cfg (ef_filter e) = [graph_of e].
Proof.
  intros cfg e N I. unfold graph_for. fold (eid e). rewrite (find_eid cfg e N I). reflexivity.
Qed.

Lemma graph_for_incl : forall cfg f, incl (graph_for cfg f) (graphs cfg).
Proof.
  intros cfg f g I. unfold graph_for in I.
  destruct (find (fun e => eid e =? F.f_id f) cfg) as [e|] eqn:E; [|contradiction].
  destruct I as [I|[]]. subst g. apply find_some in E. destruct E as [E _].
  unfold graphs. apply in_map. exact E.
Qed.

Lemma group_incl : forall cfg k sel, incl (group cfg k sel) (graphs cfg).
Proof.
  intros cfg k sel g I. unfold group in I. apply in_flat_map in I.
  destruct I as [f [_ I]]. eapply graph_for_incl; eauto.
Qed.

(* the adapter: a flow in one of the three lists is the flow of a selected
   filter of that kind *)
Lemma group_in : forall cfg k sel g,
  NoDup (map eid cfg) -> incl sel (filters cfg) -> In g (group cfg k sel) ->
  exists e, In e cfg /\ g = graph_of e /\ F.f_kind (ef_filter e) = k /\ In (ef_filter e) sel.
Proof.
  intros cfg k sel g N S I. unfold group in I. apply in_flat_map in I.
  destruct I as [f [F1 I]]. apply filter_In in F1. destruct F1 as [F1 K].
  apply Z.eqb_eq in K. pose proof (S f F1) as M. unfold filters in M.
  apply in_map_iff in M. destruct M as [e [E M]]. subst f.
  rewrite (graph_for_filter cfg e N M) in I. destruct I as [I|[]].
  exists e. repeat split; auto.
Qed.

Definition all_sel (s : selection) : list flow := s_start s ++ s_user s ++ s_end s.

Lemma split_sel_from : forall cfg sel, LP.sel_from (graphs cfg) (split cfg sel).
Proof. intros. unfold LP.sel_from, split. cbn. repeat split; apply group_incl. Qed.

Lemma all_sel_in : forall cfg sel g,
  NoDup (map eid cfg) -> incl sel (filters cfg) -> In g (all_sel (split cfg sel)) ->
  exists e, In e cfg /\ g = graph_of e /\ In (ef_filter e) sel.
Proof.
  intros cfg sel g N S I. unfold all_sel, split in I. cbn in I.
  apply in_app_or in I. destruct I as [I|I]; [|apply in_app_or in I; destruct I as [I|I]];
    destruct (group_in _ _ _ _ N S I) as [e [A [B [_ D]]]]; exists e; auto.
Qed.

(* the decidable form of the hypotheses *)
Lemma cfg_okb_sound : forall cfg, cfg_okb cfg = true -> cfg_ok cfg.
Proof.
  intros cfg H. unfold cfg_okb in H.
  apply andb_true_iff in H. destruct H as [H V].
  apply andb_true_iff in H. destruct H as [H N].
  apply andb_true_iff in H. destruct H as [H K].
  apply andb_true_iff in H. destruct H as [Ld St].
  constructor; try assumption.
  - apply nodupZ_NoDup. exact N.
  - apply Forall_forall. intros f I. rewrite forallb_forall in V. specialize (V f I).
    unfold validb in V. unfold LP.flow_valid.
    destruct (L.validate_dir true Req (freq f)); try discriminate.
    destruct (L.validate_dir true Res (fres f)); try discriminate.
    split; reflexivity.
Qed.

(* ================================================================ selection (C03) *)

Lemma as_response_id : forall x, F.t_resp x = true -> as_response x = x.
Proof. intros [r u m h q s] H. cbn in H. subst r. reflexivity. Qed.

(* C03_sound_lax + C03_sound: what is selected is loaded and accepted *)
Lemma selected_accepts : forall cfg x f,
  cfg_ok cfg -> In f (selected cfg x) -> In f (filters cfg) /\ accepts f x.
Proof.
  intros cfg x f [HL HS HK _ _] I. unfold selected in I.
  change (ftree_of cfg) with (FP.tree_of (filters cfg)) in I.
  destruct (FT.C03_sound_lax _ _ _ HL HS HK I) as [A [B C]].
  split; [exact A|]. unfold accepts. change (url_parts x) with (FP.url_of x).
  split; [exact B|]. split; [exact C|].
  intros W. destruct (FT.C03_sound _ _ _ HL HS HK I W) as [_ [M _]]. exact M.
Qed.

Lemma selected_incl : forall cfg x, cfg_ok cfg -> incl (selected cfg x) (filters cfg).
Proof. intros cfg x OK f I. apply (selected_accepts cfg x f OK I). Qed.

(* a flow that runs for a lookup of y is the flow of a filter that accepts y *)
Lemma sel_flow_accepts : forall cfg y g,
  cfg_ok cfg -> In g (all_sel (split cfg (selected cfg y))) ->
  exists e, In e cfg /\ g = graph_of e /\ accepts (ef_filter e) y.
Proof.
  intros cfg y g OK I.
  destruct (all_sel_in cfg _ g (ok_ids cfg OK) (selected_incl cfg y OK) I) as [e [A [B D]]].
  exists e. split; [exact A|]. split; [exact B|].
  exact (proj2 (selected_accepts cfg y _ OK D)).
Qed.

Lemma reselect_some : forall cfg x s',
  reselect cfg x = Some s' -> s' = split cfg (selected cfg (as_response x)).
Proof.
  intros cfg x s'. unfold reselect, selected.
  destruct (F.get_flow (ftree_of cfg) (as_response x)); [discriminate|].
  intros H. inversion H. reflexivity.
Qed.

(* ================================================================ the engine, unfolded *)

Lemma run_selected_nil : forall fuel cfg beh x, run_selected fuel cfg beh [] x = neutral.
Proof.
  intros. unfold run_selected. destruct (F.t_resp x); reflexivity.
Qed.

Lemma engine_unfold : forall fuel cfg beh x,
  engine fuel cfg beh x = run_selected fuel cfg beh (selected cfg x) x.
Proof.
  intros. unfold engine, F.exec_flow, selected.
  destruct (F.get_flow (ftree_of cfg) x) eqn:E; [|reflexivity].
  cbn [fst]. rewrite run_selected_nil. reflexivity.
Qed.

Lemma engine_trace : forall fuel cfg beh x,
  o_trace (engine fuel cfg beh x)
  = if F.t_resp x
    then fst (run_res fuel beh (split cfg (selected cfg x)) None)
    else fst (run_req fuel beh (split cfg (selected cfg x)) (reselect cfg x)).
Proof. intros. rewrite engine_unfold. unfold run_selected. destruct (F.t_resp x); reflexivity. Qed.

Lemma engine_error : forall fuel cfg beh x,
  o_error (engine fuel cfg beh x)
  = if F.t_resp x
    then snd (run_res fuel beh (split cfg (selected cfg x)) None)
    else snd (run_req fuel beh (split cfg (selected cfg x)) (reselect cfg x)).
Proof. intros. rewrite engine_unfold. unfold run_selected. destruct (F.t_resp x); reflexivity. Qed.

(* ================================================================ membership through C04's orchestration *)

Section Lift.
  Variable fuel : nat.
  Variable beh : oracles.

  Notation from_flow := (from_flow fuel beh).

  Lemma tag_in : forall f d t ev,
    In ev (tag f d t) -> e_flow ev = fname f /\ e_dir ev = d /\ In (e_key ev, e_cond ev) t.
  Proof.
    intros f d t ev I. unfold tag in I. apply in_map_iff in I.
    destruct I as [[k c] [E I]]. subst ev. cbn. auto.
  Qed.

  Lemma run_list_in : forall d fs ev,
    In ev (fst (run_list fuel beh d fs)) -> exists f, In f fs /\ from_flow f d None ev.
  Proof.
    intros d fs ev. induction fs as [|f fs IH]; cbn [run_list]; [intros []|].
    destruct (failed (snd (exec_flow_impl fuel f d None (beh (fname f))))); cbn [fst]; intros I.
    - exists f. split; [left; reflexivity|]. apply tag_in. exact I.
    - apply in_app_or in I. destruct I as [I|I].
      + exists f. split; [left; reflexivity|]. apply tag_in. exact I.
      + destruct (IH I) as [f' [A B]]. exists f'. split; [right; exact A|exact B].
  Qed.

  Lemma run_users_req_in : forall fs ev,
    In ev (fst (fst (run_users_req fuel beh fs))) -> exists f, In f fs /\ from_flow f Req None ev.
  Proof.
    intros fs ev. induction fs as [|f fs IH]; cbn [run_users_req]; [intros []|].
    destruct (snd (exec_flow_impl fuel f Req None (beh (fname f)))) eqn:O.
    - destruct (run_users_req fuel beh fs) as [[t2 sc] e]. cbn [fst] in *. intros I.
      apply in_app_or in I. destruct I as [I|I].
      + exists f. split; [left; reflexivity|]. apply tag_in. exact I.
      + destruct (IH I) as [f' [A B]]. exists f'. split; [right; exact A|exact B].
    - cbn [fst]. intros I. exists f. split; [left; reflexivity|]. apply tag_in. exact I.
    - cbn [fst]. intros I. exists f. split; [left; reflexivity|]. apply tag_in. exact I.
    - cbn [fst]. intros I. exists f. split; [left; reflexivity|]. apply tag_in. exact I.
  Qed.

  Lemma run_users_res_in : forall sc fs ev,
    In ev (fst (run_users_res fuel beh sc fs)) ->
    exists f, In f fs /\ from_flow f Res (start_for sc f) ev.
  Proof.
    intros sc fs ev. induction fs as [|f fs IH]; cbn [run_users_res]; [intros []|].
    fold (start_for sc f).
    destruct (failed (snd (exec_flow_impl fuel f Res (start_for sc f) (beh (fname f)))));
      cbn [fst]; intros I.
    - exists f. split; [left; reflexivity|]. apply tag_in. exact I.
    - apply in_app_or in I. destruct I as [I|I].
      + exists f. split; [left; reflexivity|]. apply tag_in. exact I.
      + destruct (IH I) as [f' [A B]]. exists f'. split; [right; exact A|exact B].
  Qed.

  Lemma then_in : forall r rest ev,
    In ev (fst (then_ r rest)) -> In ev (fst r) \/ In ev (fst (rest tt)).
  Proof.
    intros r rest ev. unfold then_. destruct (snd r); [auto|].
    cbn [fst]. intros I. apply in_app_or in I. exact I.
  Qed.

  Lemma run_res_in : forall s sc ev,
    In ev (fst (run_res fuel beh s sc)) ->
    exists f st, In f (all_sel s) /\ from_flow f Res st ev.
  Proof.
    intros s sc ev I. unfold run_res in I. unfold all_sel.
    apply then_in in I. destruct I as [I|I].
    - apply run_list_in in I. destruct I as [f [A B]]. exists f, None.
      split; [|exact B]. apply in_or_app. left. apply in_rev. exact A.
    - apply then_in in I. destruct I as [I|I].
      + apply run_users_res_in in I. destruct I as [f [A B]]. exists f, (start_for sc f).
        split; [|exact B]. apply in_or_app. right. apply in_or_app. left. apply in_rev. exact A.
      + apply run_list_in in I. destruct I as [f [A B]]. exists f, None.
        split; [|exact B]. apply in_or_app. right. apply in_or_app. right. apply in_rev. exact A.
  Qed.

  Lemma run_req_in : forall s s2 ev,
    In ev (fst (run_req fuel beh s s2)) ->
    (exists f, In f (all_sel s) /\ from_flow f Req None ev)
    \/ (exists s' f st, s2 = Some s' /\ In f (all_sel s') /\ from_flow f Res st ev).
  Proof.
    intros s s2 ev I. unfold run_req in I. unfold all_sel.
    apply then_in in I. destruct I as [I|I].
    { left. apply run_list_in in I. destruct I as [f [A B]]. exists f.
      split; [|exact B]. apply in_or_app. left. exact A. }
    pose proof (run_users_req_in (s_user s) ev) as U.
    destruct (run_users_req fuel beh (s_user s)) as [[t2 sc] e2]. cbn [fst] in U.
    apply then_in in I. cbn [fst] in I. destruct I as [I|I].
    { left. destruct (U I) as [f [A B]]. exists f.
      split; [|exact B]. apply in_or_app. right. apply in_or_app. left. exact A. }
    apply then_in in I. destruct I as [I|I].
    { left. apply run_list_in in I. destruct I as [f [A B]]. exists f.
      split; [|exact B]. apply in_or_app. right. apply in_or_app. right. exact A. }
    destruct sc as [h|]; [|destruct I]. destruct s2 as [s'|]; [|destruct I].
    right. apply run_res_in in I. destruct I as [f [st [A B]]]. exists s', f, st. auto.
  Qed.
End Lift.

(* ================================================================ (a) only matching flows run *)

Lemma flow_path_of : forall fuel beh e d st ev,
  from_flow fuel beh (graph_of e) d st ev -> (st = None \/ d = Res) ->
  eid e = e_flow ev /\ on_root_path beh e ev.
Proof.
  intros fuel beh e d st ev [A [B C]] S. cbn [graph_of fname] in A. split; [symmetry; exact A|].
  apply C04_flow_path in C. cbn [graph_of fname] in C. destruct C as [C P].
  unfold on_root_path. rewrite B. split; [exact C|].
  destruct st as [h|].
  - destruct S as [S|S]; [discriminate|]. clear B. subst d. right. split; [reflexivity|].
    destruct P as [c' [t [P1 P2]]]. exists h, c', t. auto.
  - left. exact P.
Qed.

Lemma engine_event : forall fuel cfg beh x ev,
  cfg_ok cfg -> In ev (o_trace (engine fuel cfg beh x)) ->
  exists e, In e cfg /\ eid e = e_flow ev
            /\ accepts (ef_filter e) (view x (e_dir ev))
            /\ on_root_path beh e ev.
Proof.
  intros fuel cfg beh x ev OK I. rewrite engine_trace in I.
  destruct (F.t_resp x) eqn:R.
  - apply run_res_in in I. destruct I as [g [st [A B]]].
    destruct (sel_flow_accepts cfg x g OK A) as [e [E1 [E2 E3]]]. subst g.
    destruct (flow_path_of _ _ _ _ _ _ B (or_intror eq_refl)) as [N P].
    exists e. split; [exact E1|]. split; [exact N|]. split; [|exact P].
    destruct B as [_ [D _]]. rewrite D. cbn [view]. rewrite (as_response_id x R). exact E3.
  - apply run_req_in in I. destruct I as [[g [A B]]|[s' [g [st [S [A B]]]]]].
    + destruct (sel_flow_accepts cfg x g OK A) as [e [E1 [E2 E3]]]. subst g.
      destruct (flow_path_of _ _ _ _ _ _ B (or_introl eq_refl)) as [N P].
      exists e. split; [exact E1|]. split; [exact N|]. split; [|exact P].
      destruct B as [_ [D _]]. rewrite D. exact E3.
    + apply reselect_some in S. subst s'.
      destruct (sel_flow_accepts cfg (as_response x) g OK A) as [e [E1 [E2 E3]]]. subst g.
      destruct (flow_path_of _ _ _ _ _ _ B (or_intror eq_refl)) as [N P].
      exists e. split; [exact E1|]. split; [exact N|]. split; [|exact P].
      destruct B as [_ [D _]]. rewrite D. exact E3.
Qed.

(* ================================================================ (b) no match *)

Lemma engine_no_match : forall fuel cfg beh x,
  cfg_ok cfg ->
  (forall e, In e cfg -> FS.satisfied (ef_filter e) x = false
                         /\ FS.wild_kind_ok (F.pat (ef_filter e)) (url_parts x) = true) ->
  engine fuel cfg beh x = neutral.
Proof.
  intros fuel cfg beh x [HL HS HK _ _] H. unfold engine.
  change (ftree_of cfg) with (FP.tree_of (filters cfg)).
  rewrite (FT.C03_no_match_no_action result
             (fun fl x' _ => run_selected fuel cfg beh fl x') (filters cfg) x neutral HL HS HK).
  - reflexivity.
  - intros f I. unfold filters in I. apply in_map_iff in I. destruct I as [e [E I]]. subst f.
    exact (H e I).
Qed.

(* ================================================================ (d) termination *)

Lemma cfg_sel_ok : forall cfg sel, cfg_ok cfg -> sel_ok (fuel_of cfg) (split cfg sel).
Proof.
  intros cfg sel OK. eapply LP.sel_from_ok; [|apply split_sel_from].
  apply LP.valid_flows_ok. exact (ok_valid cfg OK).
Qed.

Lemma outcome_cases : forall r : list event * option outcome,
  (forall o, snd r = Some o -> failed o = true) -> snd r <> Some OutOfFuel ->
  snd r = None \/ exists k, snd r = Some (NoRespNode k).
Proof.
  intros r F N. destruct (snd r) as [o|] eqn:E; [|left; reflexivity].
  specialize (F o eq_refl). destruct o; try discriminate; [right; eauto|contradiction].
Qed.

Lemma engine_terminates : forall cfg beh x,
  cfg_ok cfg ->
  let r := engine (fuel_of cfg) cfg beh x in
  (o_error r = None \/ exists k, o_error r = Some (NoRespNode k))
  /\ (length (o_trace r) <= txn_bound cfg x)%nat.
Proof.
  intros cfg beh x OK r. subst r. rewrite engine_error, engine_trace. unfold txn_bound.
  pose proof (cfg_sel_ok cfg (selected cfg x) OK) as S1.
  assert (S2 : forall s', reselect cfg x = Some s' -> sel_ok (fuel_of cfg) s').
  { intros s' E. apply reselect_some in E. subst s'. apply cfg_sel_ok. exact OK. }
  destruct (C04_no_fuel_exhaustion (fuel_of cfg) beh _ _ S1 S2) as [NQ NS].
  destruct (F.t_resp x).
  - split; [|apply LP.run_res_length].
    apply outcome_cases; [apply LP.run_res_failed|apply NS].
  - split; [|apply LP.run_req_length].
    apply outcome_cases; [apply LP.run_req_failed|exact NQ].
Qed.

(* the same from C05_transaction_safe as it is stated (configuration given to
   C05's loader) *)
Lemma engine_terminates_loaded : forall cf cfg beh x,
  L.load cf = L.Accept (graphs cfg) ->
  let r := engine (fuel_of cfg) cfg beh x in
  (o_error r = None \/ exists k, o_error r = Some (NoRespNode k))
  /\ (length (o_trace r) <= txn_bound cfg x)%nat.
Proof.
  intros cf cfg beh x LD r. subst r. rewrite engine_error, engine_trace. unfold txn_bound.
  assert (S2 : forall s', reselect cfg x = Some s' -> LP.sel_from (graphs cfg) s').
  { intros s' E. apply reselect_some in E. subst s'. apply split_sel_from. }
  destruct (LT.C05_transaction_safe cf (graphs cfg) beh (split cfg (selected cfg x))
              (reselect cfg x) LD (split_sel_from cfg _) S2) as [A [B C]].
  fold (fuel_of cfg) in A, B, C.
  destruct (F.t_resp x).
  - destruct (C None) as [C1 C2]. split; assumption.
  - split; assumption.
Qed.

(* C05's loader output satisfies the validity part of [cfg_ok] *)
Lemma loaded_valid : forall cf cfg,
  L.load cf = L.Accept (graphs cfg) -> Forall LP.flow_valid (graphs cfg).
Proof. intros cf cfg H. exact (LP.load_accept_valid cf _ H). Qed.

(* ================================================================ (c) order *)

Lemma engine_order : forall fuel cfg beh x,
  o_error (engine fuel cfg beh x) = None ->
  o_trace (engine fuel cfg beh x)
  = if F.t_resp x
    then res_order fuel beh (split cfg (selected cfg x)) None
    else req_order fuel beh (split cfg (selected cfg x)) (reselect cfg x).
Proof.
  intros fuel cfg beh x. rewrite engine_error, engine_trace. destruct (F.t_resp x).
  - apply C04_system_order_response.
  - apply C04_system_order.
Qed.

(* ================================================================ (e) the answering processor *)

Section Cut.
  Variable gr : dgraph.
  Variable d : dir.
  Variable beh : oracle.

  Definition quiet (l : list ev) : Prop := Forall (fun kc => answers beh d (fst kc) = false) l.

  (* the processors that run are a prefix that does not answer, possibly
     followed by ONE processor that answers, which is then the last *)
  Definition walk_shape (r : list ev * outcome) : Prop :=
    match snd r with
    | Handed k | NoRespNode k =>
        exists pre c, fst r = pre ++ [(k, c)] /\ quiet pre /\ answers beh d k = true
    | _ => quiet (fst r)
    end.

  Lemma cut_shape : forall l, walk_shape (cut gr d beh l).
  Proof.
    induction l as [|[k c|] l IH]; cbn [cut].
    - constructor.
    - destruct (answers beh d k) eqn:An.
      + unfold walk_shape. cbn [fst snd].
        destruct (has_node gr k); exists [], c; repeat split; auto; constructor.
      + unfold walk_shape in *. cbn [fst snd]. destruct (snd (cut gr d beh l)).
        * constructor; [exact An|exact IH].
        * destruct IH as [pre [c' [E [Q An']]]]. exists ((k, c) :: pre), c'.
          rewrite E. repeat split; auto. constructor; [exact An|exact Q].
        * destruct IH as [pre [c' [E [Q An']]]]. exists ((k, c) :: pre), c'.
          rewrite E. repeat split; auto. constructor; [exact An|exact Q].
        * constructor; [exact An|exact IH].
    - constructor.
  Qed.
End Cut.

Lemma flow_req_shape : forall fuel f beh,
  walk_shape Req beh (exec_flow_impl fuel f Req None beh).
Proof.
  intros fuel f beh.
  destruct (C04_flow_impl_is_spec fuel f Req None beh (or_introl eq_refl)) as [E _]. rewrite E.
  unfold exec_flow_spec. destruct (root (gdir f Req)) as [r|]; [apply cut_shape|constructor].
Qed.

Section Answer.
  Variable fuel : nat.
  Variable beh : oracles.

  Definition silent (t : list event) : Prop := Forall (fun e => ev_answers beh e = false) t.

  Lemma tag_silent : forall f d t,
    quiet d (beh (fname f)) t -> silent (tag f d t).
  Proof.
    intros f d t Q. unfold silent, tag. apply Forall_forall. intros e I.
    apply in_map_iff in I. destruct I as [[k c] [E I]]. subst e.
    unfold quiet in Q. rewrite Forall_forall in Q. exact (Q _ I).
  Qed.

  Lemma res_silent : forall t, Forall (fun e => e_dir e = Res) t -> silent t.
  Proof.
    intros t H. unfold silent. eapply Forall_impl; [|exact H].
    intros e D. unfold ev_answers, answers. rewrite D. reflexivity.
  Qed.

  (* the user flows of a request that is not abandoned: nobody answers, or the
     LAST event is the one processor that does *)
  Lemma run_users_req_shape : forall fs,
    snd (run_users_req fuel beh fs) = None ->
    match snd (fst (run_users_req fuel beh fs)) with
    | None => silent (fst (fst (run_users_req fuel beh fs)))
    | Some (n, k) =>
        exists pre c, fst (fst (run_users_req fuel beh fs))
                      = pre ++ [{| e_flow := n; e_key := k; e_dir := Req; e_cond := c |}]
                      /\ silent pre /\ answers (beh n) Req k = true
    end.
  Proof.
    induction fs as [|f fs IH]; cbn [run_users_req]; [intros _; constructor|].
    pose proof (flow_req_shape fuel f (beh (fname f))) as SH. unfold walk_shape in SH.
    destruct (snd (exec_flow_impl fuel f Req None (beh (fname f)))) eqn:O.
    - destruct (run_users_req fuel beh fs) as [[t2 sc] e]. cbn [fst snd] in *. intros H.
      specialize (IH H). apply tag_silent in SH. destruct sc as [[n k]|].
      + destruct IH as [pre [c [E [Q An]]]]. exists (tag f Req (fst (exec_flow_impl fuel f Req None (beh (fname f)))) ++ pre), c.
        rewrite E, app_assoc. repeat split; auto. apply Forall_app. split; assumption.
      + apply Forall_app. split; assumption.
    - intros _. cbn [fst snd]. destruct SH as [pre [c [E [Q An]]]].
      exists (tag f Req pre), c. rewrite E. unfold tag at 1. rewrite map_app. cbn [map fst snd].
      repeat split; auto. apply tag_silent. exact Q.
    - cbn [snd]. discriminate.
    - cbn [snd]. discriminate.
  Qed.
End Answer.

(* the request actions of events that do not answer are not early responses *)
Lemma silent_actions : forall beh ao t,
  coherent beh ao -> silent beh t ->
  Forall (fun a => A.is_early a = false) (req_actions ao t).
Proof.
  intros beh ao t CO S. unfold req_actions. apply Forall_forall. intros a I.
  apply in_flat_map in I. destruct I as [e [E I]].
  unfold silent in S. rewrite Forall_forall in S. specialize (S e E).
  destruct (ao (e_flow e) (e_key e) (e_dir e)) as [a'|] eqn:AO; [|contradiction].
  destruct I as [I|[]]. subst a'.
  destruct (A.is_early a) eqn:EA; [|reflexivity].
  destruct (CO (e_flow e) (e_key e) (e_dir e)) as [_ C2].
  specialize (C2 a AO EA). unfold ev_answers in S. rewrite S in C2. discriminate.
Qed.

Lemma req_actions_app : forall ao t1 t2,
  req_actions ao (t1 ++ t2) = req_actions ao t1 ++ req_actions ao t2.
Proof. intros. unfold req_actions. apply flat_map_app. Qed.

Lemma then_none' : forall r rest,
  snd (then_ r rest) = None ->
  snd r = None /\ snd (rest tt) = None /\ fst (then_ r rest) = fst r ++ fst (rest tt).
Proof. exact then_none. Qed.

(* Request that is not abandoned, system flows never answer: if some executed
   processor answered, the trace is  pre ++ that event :: post  with nobody
   answering in pre, every event of post either in the response direction or a
   request event of an end-system flow, and the combined action is that
   processor's early response. *)
Lemma engine_early_response : forall fuel cfg beh ao x ev,
  cfg_ok cfg -> coherent beh ao -> sys_quiet cfg beh ->
  F.t_resp x = false ->
  o_error (engine fuel cfg beh x) = None ->
  In ev (o_trace (engine fuel cfg beh x)) -> ev_answers beh ev = true ->
  exists pre post a,
    o_trace (engine fuel cfg beh x) = pre ++ ev :: post
    /\ silent beh pre
    /\ ao (e_flow ev) (e_key ev) (e_dir ev) = Some a /\ A.is_early a = true
    /\ action_req ao (engine fuel cfg beh x) = a
    /\ Forall (fun e' => e_dir e' = Res
                         \/ exists e, In e cfg /\ eid e = e_flow e' /\ F.f_kind (ef_filter e) = 2) post.
Proof.
  intros fuel cfg beh ao x ev OK CO SQ R NE I AN.
  unfold action_req. rewrite NE. revert NE I. rewrite engine_error, engine_trace, R.
  set (sel := selected cfg x). intros NE I.
  (* the system groups are silent *)
  assert (SYS : forall k fs, k <> 0 -> fs = group cfg k sel ->
                  silent beh (fst (run_list fuel beh Req fs))).
  { intros k fs K E. unfold silent. apply Forall_forall. intros e' I'.
    apply run_list_in in I'. destruct I' as [g [G [B1 [B2 _]]]]. subst fs.
    destruct (group_in cfg k sel g (ok_ids cfg OK) (selected_incl cfg x OK) G) as [e [E1 [E2 [E3 _]]]].
    subst g. unfold ev_answers. rewrite B1, B2. cbn [graph_of fname].
    apply SQ; [exact E1|]. rewrite E3. exact K. }
  unfold run_req in NE, I |- *.
  apply then_none' in NE. destruct NE as [N1 [NE E1]]. rewrite E1 in I |- *. clear E1.
  pose proof (run_users_req_shape fuel beh (s_user (split cfg sel))) as SH.
  destruct (run_users_req fuel beh (s_user (split cfg sel))) as [[t2 sc] e2] eqn:RU.
  apply then_none' in NE. destruct NE as [N2 [NE E2]]. rewrite E2 in I |- *. clear E2.
  apply then_none' in NE. destruct NE as [N3 [N4 E3]]. rewrite E3 in I |- *. clear E3.
  cbn [fst snd] in *. specialize (SH N2).
  set (T1 := fst (run_list fuel beh Req (s_start (split cfg sel)))) in *.
  set (T3 := fst (run_list fuel beh Req (s_end (split cfg sel)))) in *.
  set (T4 := fst (match sc with
                  | Some h => match reselect cfg x with
                              | Some s' => run_res fuel beh s' (Some h)
                              | None => ([], None)
                              end
                  | None => ([], None)
                  end)) in *.
  assert (S1 : silent beh T1) by (apply (SYS 1 _ ltac:(discriminate) eq_refl)).
  assert (S3 : silent beh T3) by (apply (SYS 2 _ ltac:(discriminate) eq_refl)).
  assert (D4 : Forall (fun e' => e_dir e' = Res) T4).
  { subst T4. apply Forall_forall. intros e' I'.
    destruct sc as [h|]; [|destruct I']. destruct (reselect cfg x) as [s'|]; [|destruct I'].
    apply run_res_in in I'. destruct I' as [g [st [_ [_ [B _]]]]]. exact B. }
  assert (S4 : silent beh T4) by (apply res_silent; exact D4).
  assert (NOT : forall t, silent beh t -> In ev t -> False).
  { intros t S J. unfold silent in S. rewrite Forall_forall in S. rewrite (S _ J) in AN. discriminate. }
  destruct sc as [[n k]|].
  2:{ exfalso. apply in_app_or in I. destruct I as [I|I]; [exact (NOT _ S1 I)|].
      apply in_app_or in I. destruct I as [I|I]; [exact (NOT _ SH I)|].
      apply in_app_or in I. destruct I as [I|I]; [exact (NOT _ S3 I)|exact (NOT _ S4 I)]. }
  destruct SH as [pre [c [E [Q An]]]]. subst t2.
  assert (EV : ev = {| e_flow := n; e_key := k; e_dir := Req; e_cond := c |}).
  { apply in_app_or in I. destruct I as [I|I]; [exfalso; exact (NOT _ S1 I)|].
    apply in_app_or in I. destruct I as [I|I].
    - apply in_app_or in I. destruct I as [I|I]; [exfalso; exact (NOT _ Q I)|].
      destruct I as [I|[]]. symmetry. exact I.
    - exfalso. apply in_app_or in I. destruct I as [I|I]; [exact (NOT _ S3 I)|exact (NOT _ S4 I)]. }
  destruct (CO (e_flow ev) (e_key ev) (e_dir ev)) as [C1 _].
  destruct (C1 AN) as [a [AO EA]].
  exists (T1 ++ pre), (T3 ++ T4), a.
  assert (TR : T1 ++ (pre ++ [{| e_flow := n; e_key := k; e_dir := Req; e_cond := c |}]) ++ T3 ++ T4
               = (T1 ++ pre) ++ ev :: T3 ++ T4).
  { rewrite EV, <- !app_assoc. reflexivity. }
  rewrite TR.
  assert (SP : silent beh (T1 ++ pre)) by (apply Forall_app; split; assumption).
  split; [reflexivity|]. split; [exact SP|]. split; [exact AO|]. split; [exact EA|]. split.
  - rewrite req_actions_app. cbn [req_actions flat_map]. rewrite AO. cbn [app].
    apply AT.C07_early_wins; [|exact EA]. apply (silent_actions beh ao _ CO SP).
  - apply Forall_app. split.
    + apply Forall_forall. intros e' I'. right. subst T3.
      apply run_list_in in I'. destruct I' as [g [G [B1 _]]].
      destruct (group_in cfg 2 sel g (ok_ids cfg OK) (selected_incl cfg x OK) G) as [e [E1 [E2 [E3 _]]]].
      subst g. exists e. repeat split; auto.
    + eapply Forall_impl; [|exact D4]. intros e' D. left. exact D.
Qed.
