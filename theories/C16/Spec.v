(* C16 — vocabulary of the property: structured paths, what an exclusion string
   denotes, shape of a document, side conditions.  Definitions only. *)
From Coq Require Import List ZArith Bool.
From Verif Require Import C16.Model.
Import ListNotations.
Open Scope Z_scope.

(* One step of a structured path.  The exclusion notations do not distinguish
   array positions ("[]" stands for every element), so a path records only
   that an array was entered. *)
Inductive pstep := PKey (k : bytes) | PAny.
Definition path := list pstep.

(* the text of one step and of a whole path in the cursor notation *)
Definition render (s : pstep) : bytes :=
  match s with PKey k => c_dot :: k | PAny => [c_lbr; c_rbr] end.

Fixpoint cursor (p : path) : bytes :=
  match p with [] => [] | s :: p' => render s ++ cursor p' end.

(* ---- addressing nodes by position ---- *)

(* i-th child of a node: i-th element of an array / i-th entry of an object *)
Definition child (j : json) (i : nat) : option (pstep * json) :=
  match j with
  | JArr l => option_map (fun x => (PAny, x)) (nth_error l i)
  | JObj l => option_map (fun kv => (PKey (fst kv), snd kv)) (nth_error l i)
  | _ => None
  end.

(* follow a list of positions; result = structured path walked and node found *)
Fixpoint descend (j : json) (ps : list nat) : option (path * json) :=
  match ps with
  | [] => Some ([], j)
  | i :: ps' =>
      match child j i with
      | None => None
      | Some (s, x) =>
          match descend x ps' with
          | None => None
          | Some (p, v) => Some (s :: p, v)
          end
      end
  end.

(* primitive leaves and the text the code hashes for them *)
Definition is_prim (j : json) : bool :=
  match j with JArr _ | JObj _ => false | _ => true end.

Definition text (j : json) : bytes :=
  match j with
  | JNull => t_null
  | JBool true => t_true
  | JBool false => t_false
  | JNum _ t => t
  | JStr s => s
  | _ => []
  end.

(* ---- shape: keys, nesting, array lengths ---- *)
Inductive shape :=
| ShLeaf
| ShArr (l : list shape)
| ShObj (l : list (bytes * shape)).

Fixpoint shape_of (j : json) : shape :=
  match j with
  | JArr l => ShArr (map shape_of l)
  | JObj l => ShObj (map (fun kv => (fst kv, shape_of (snd kv))) l)
  | _ => ShLeaf
  end.

(* ---- what an exclusion denotes ---- *)

(* the body-relative text of an exclusion: what follows `$.request.body` /
   `$.response.body`, or the exclusion itself in the plain notation *)
Definition body_path (e : bytes) : bytes :=
  match cut_prefix pre_request e with
  | Some r => r
  | None => match cut_prefix pre_response e with
            | Some r => r
            | None => e
            end
  end.

(* a key that can be written in the notations without ambiguity *)
Definition clean_key (k : bytes) : bool :=
  forallb (fun c => negb (c =? c_dot) && negb (c =? c_lbr)) k.

Definition clean_step (s : pstep) : bool :=
  match s with PKey k => clean_key k | PAny => true end.

Definition clean_path (p : path) : bool := forallb clean_step p.

(* exclusion [e] denotes the structured path [p]: its body-relative text is the
   concatenation of ".key" / "[]" for the steps of p *)
Definition denotes (e : bytes) (p : path) : Prop :=
  clean_path p = true /\ cursor p = body_path e.

Definition is_prefix (p q : path) : Prop := exists r, q = p ++ r.

(* a leaf at path [q] is on or under a path matched by an exclusion of the set:
   some prefix of q has the body-relative text of some exclusion as its cursor *)
Definition on_excluded (excl : list bytes) (q : path) : Prop :=
  exists e p, In e excl /\ is_prefix p q /\ cursor p = body_path e.

(* ---- side conditions (decidable) ---- *)
Fixpoint nodupb (l : list bytes) : bool :=
  match l with [] => true | k :: l' => negb (mem k l') && nodupb l' end.

(* no object of the document repeats a key *)
Fixpoint nodup_keys (j : json) : bool :=
  match j with
  | JArr l => forallb nodup_keys l
  | JObj l => nodupb (map fst l) && forallb (fun kv => nodup_keys (snd kv)) l
  | _ => true
  end.

(* no key of the document contains '.' or '[' *)
Fixpoint clean_keys (j : json) : bool :=
  match j with
  | JArr l => forallb clean_keys l
  | JObj l => forallb (fun kv => clean_key (fst kv) && clean_keys (snd kv)) l
  | _ => true
  end.

(* ---- what an exclusion names in a given document (no condition on keys) ---- *)

(* all node paths of a document, root included, in document order *)
Fixpoint paths_of (j : json) : list path :=
  [] :: match j with
        | JArr l => flat_map (fun x => map (cons PAny) (paths_of x)) l
        | JObj l =>
            flat_map (fun kv => map (cons (PKey (fst kv))) (paths_of (snd kv))) l
        | _ => []
        end.

Definition pstep_eqb (a b : pstep) : bool :=
  match a, b with
  | PKey k, PKey k' => beq k k'
  | PAny, PAny => true
  | _, _ => false
  end.

Fixpoint path_eqb (p q : path) : bool :=
  match p, q with
  | [], [] => true
  | s :: p', t :: q' => pstep_eqb s t && path_eqb p' q'
  | _, _ => false
  end.

(* the node paths of [j] whose text in the cursor notation is the body-relative
   text of the exclusion [e]: every path the exclusion can be read as in j *)
Definition named (e : bytes) (j : json) : list path :=
  filter (fun p => beq (cursor p) (body_path e)) (paths_of j).

Definition names (e : bytes) (j : json) (p : path) : Prop := In p (named e j).

(* finding F-C16c: the text of the exclusion is the cursor of two DIFFERENT
   structured paths of the document (possible only when a key contains '.' or
   '[': ".a.b" is key "a.b" and also key "b" under key "a").  Decidable; this
   is what the monitor's classifier computes. *)
Definition ambiguous (e : bytes) (j : json) : bool :=
  match named e j with
  | [] => false
  | p :: l => negb (forallb (path_eqb p) l)
  end.

(* a leaf the single exclusion [e] keeps in clear whatever the hash function *)
Definition kept_by (e : bytes) (j : json) (ps : list nat) (q : path) (v : json)
  : Prop :=
  descend j ps = Some (q, v) /\ is_prim v = true /\
  forall H, descend (obfuscate_json H [e] j) ps = Some (q, v).

(* finding F-C16d: the exact condition under which the walk changes the
   structure: an object that is actually walked (not inside a subtree returned
   whole because it is excluded) repeats a key *)
Fixpoint nodup_walked (ex : bytes -> bool) (cur : bytes) (j : json) {struct j}
  : bool :=
  if ex cur then true else
  match j with
  | JArr l => forallb (nodup_walked ex (cur ++ [c_lbr; c_rbr])) l
  | JObj l =>
      nodupb (map fst l)
      && forallb (fun kv => nodup_walked ex (cur ++ c_dot :: fst kv) (snd kv)) l
  | _ => true
  end.
