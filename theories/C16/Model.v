(* C16 — model of utils/obfuscation/obfuscate.go (Obfuscator.ObfuscateJSON) and of
   the body path of streams/processors/har-collector/api_stream_obfuscator.go.

   The model describes /repo as it is (fix F-C16 is in /repo:
   isCursorInExcludedPath compares the cursor with the exclusion itself or with
   what follows its `$.request.body` / `$.response.body` prefix).  The test of
   the tree before the fix (strings.HasSuffix(path, cursor)) is kept as
   [excluded_suffix] for the refutation witness in Property.v only.

   Strings are lists of byte codes.  A number node carries its raw token (what
   is written back when the node is kept) and the text the code feeds to the
   hasher (strconv.FormatFloat(v, 'f', 2, 64) of the parsed value); the float
   parsing/formatting itself is outside the model (the harness computes the
   text with strconv independently of the code under test).

   The hash function is the argument [H]. *)
From Coq Require Import List ZArith Bool.
Import ListNotations.
Open Scope Z_scope.

Definition bytes := list Z.

Inductive json :=
| JNull
| JBool (b : bool)
| JNum (raw txt : bytes)
| JStr (s : bytes)
| JArr (l : list json)
| JObj (l : list (bytes * json)).

(* ---- byte strings ---- *)
Fixpoint beq (a b : bytes) : bool :=
  match a, b with
  | [], [] => true
  | x :: a', y :: b' => (x =? y) && beq a' b'
  | _, _ => false
  end.

(* strings.CutPrefix *)
Fixpoint cut_prefix (p s : bytes) : option bytes :=
  match p with
  | [] => Some s
  | c :: p' => match s with
               | [] => None
               | d :: s' => if c =? d then cut_prefix p' s' else None
               end
  end.

Definition has_prefix (p s : bytes) : bool :=
  match cut_prefix p s with Some _ => true | None => false end.

(* strings.HasSuffix(s, suf) *)
Definition has_suffix (s suf : bytes) : bool := has_prefix (rev suf) (rev s).

Definition mem (k : bytes) (l : list bytes) : bool := existsb (beq k) l.

(* "$.request.body" / "$.response.body" *)
Definition pre_request : bytes :=
  [36;46;114;101;113;117;101;115;116;46;98;111;100;121].
Definition pre_response : bytes :=
  [36;46;114;101;115;112;111;110;115;101;46;98;111;100;121].
Definition body_prefixes : list bytes := [pre_request; pre_response].

Definition t_true : bytes := [116;114;117;101].
Definition t_false : bytes := [102;97;108;115;101].
Definition t_null : bytes := [110;117;108;108].
Definition c_dot : Z := 46.
Definition c_lbr : Z := 91.
Definition c_rbr : Z := 93.

(* ---- isCursorInExcludedPath ---- *)

(* patched code: slices.Contains(excludedPaths, cursor) || some path, some body
   prefix: CutPrefix(path, prefix) = (rest, true) && rest == cursor *)
Definition excluded_fixed (excl : list bytes) (cur : bytes) : bool :=
  existsb (fun e => beq e cur) excl
  || existsb (fun e =>
       existsb (fun pre => match cut_prefix pre e with
                           | Some r => beq r cur
                           | None => false
                           end) body_prefixes) excl.

(* unpatched code: Contains || (cursor != "" && some path has the cursor as a suffix) *)
Definition excluded_suffix (excl : list bytes) (cur : bytes) : bool :=
  existsb (fun e => beq e cur) excl
  || match cur with
     | [] => false
     | _ => existsb (fun e => has_suffix e cur) excl
     end.

(* ---- the walk ---- *)

(* what the loop `for key in getKeys(o) { new.Set(key, f(o.Get(key))) }` leaves
   for an object with repeated keys: one entry per distinct key, at the place of
   its first occurrence, computed from the first occurrence *)
Fixpoint first_per_key (seen : list bytes) (o : list (bytes * json))
  : list (bytes * json) :=
  match o with
  | [] => []
  | kv :: o' =>
      if mem (fst kv) seen then first_per_key seen o'
      else kv :: first_per_key (fst kv :: seen) o'
  end.

Section Walk.
  Variable H : bytes -> bytes.
  (* isCursorInExcludedPath(cursor, excludedPaths) for the given exclusions *)
  Variable ex : bytes -> bool.

  (* obfuscateJSON(raw, arena, cursor, excludedPaths, onExcludedPath).
     The flag onExcludedPath is false on every call that is actually made (an
     excluded node is returned whole, without recursion), so it is not a
     parameter here. *)
  Fixpoint obf (cur : bytes) (j : json) {struct j} : json :=
    if ex cur then j else
    match j with
    | JArr l => JArr (map (obf (cur ++ [c_lbr; c_rbr])) l)
    | JObj l =>
        JObj (first_per_key []
                (map (fun kv => (fst kv, obf (cur ++ c_dot :: fst kv) (snd kv))) l))
    | JNum _ t => JStr (H t)
    | JStr s => JStr (H s)
    | JBool true => JStr (H t_true)
    | JBool false => JStr (H t_false)
    | JNull => JStr (H t_null)
    end.
End Walk.

(* Obfuscator.ObfuscateJSON(raw, excludedPaths) on a document that parses *)
Definition obfuscate_json (H : bytes -> bytes) (excl : list bytes) (j : json) : json :=
  obf H (excluded_fixed excl) [] j.

(* the same with the test of the unpatched tree *)
Definition obfuscate_json_suffix (H : bytes -> bytes) (excl : list bytes) (j : json)
  : json :=
  obf H (excluded_suffix excl) [] j.

(* apiStreamObfuscator.obfuscateBody(body, prefix) with obfuscation enabled and a
   non-empty body that parses: filterBodyExclusions keeps the exclusions that
   start with the prefix of the direction; request = true *)
Definition dir_prefix (request : bool) : bytes :=
  if request then pre_request else pre_response.

Definition filter_body_exclusions (request : bool) (excl : list bytes) : list bytes :=
  filter (has_prefix (dir_prefix request)) excl.

Definition collector_body (H : bytes -> bytes) (request : bool) (excl : list bytes)
           (j : json) : json :=
  obfuscate_json H (filter_body_exclusions request excl) j.

(* ---- correspondence entry points ---- *)

Fixpoint json_eqb (a b : json) {struct a} : bool :=
  match a, b with
  | JNull, JNull => true
  | JBool x, JBool y => eqb x y
  | JNum r t, JNum r' t' => beq r r' && beq t t'
  | JStr s, JStr s' => beq s s'
  | JArr l, JArr m =>
      (fix go (l m : list json) : bool :=
         match l, m with
         | [], [] => true
         | x :: l', y :: m' => json_eqb x y && go l' m'
         | _, _ => false
         end) l m
  | JObj l, JObj m =>
      (fix go (l m : list (bytes * json)) : bool :=
         match l, m with
         | [], [] => true
         | x :: l', y :: m' =>
             beq (fst x) (fst y) && json_eqb (snd x) (snd y) && go l' m'
         | _, _ => false
         end) l m
  | _, _ => false
  end.

(* the hash function as the harness reports it: text -> digest, for every leaf
   text of the document *)
Definition lookup (t : list (bytes * bytes)) (x : bytes) : bytes :=
  match find (fun p => beq (fst p) x) t with
  | Some p => snd p
  | None => []
  end.

(* A number kept verbatim is read back by the harness from the output text: its
   hasher text is recomputed from the token, so only the token is compared
   (json_eqb compares both, and both agree when the token does). *)

(* (exclusions, document, hash table, observed output) *)
Definition case_direct := (list bytes * json * list (bytes * bytes) * json)%type.

Definition run_direct (k : case_direct) : option json :=
  let '(excl, doc, tbl, observed) := k in
  let out := obfuscate_json (lookup tbl) excl doc in
  if json_eqb out observed then None else Some out.

(* (request?, exclusions, document, hash table, observed output) *)
Definition case_collector :=
  (bool * list bytes * json * list (bytes * bytes) * json)%type.

Definition run_collector (k : case_collector) : option json :=
  let '(req, excl, doc, tbl, observed) := k in
  let out := collector_body (lookup tbl) req excl doc in
  if json_eqb out observed then None else Some out.

(* ---- the two call sites as a whole (body as text) ---- *)

(* [parsed] = the document when fastjson parses the body, None on a parse error.
   The result is the JSON text of a document or a plain text. *)
Inductive body_out := OutText (t : bytes) | OutJson (j : json).

(* apiStreamObfuscator.obfuscateBody(body, prefix):
     if !obfuscateEnabled || body == "" { return body }
     ObfuscateJSON(body, filterBodyExclusions(prefix)); on error ObfuscateString(body) *)
Definition obfuscate_body (H : bytes -> bytes) (enabled request : bool)
           (excl : list bytes) (body : bytes) (parsed : option json) : body_out :=
  if negb enabled then OutText body else
  match body with
  | [] => OutText []
  | _ => match parsed with
         | Some j => OutJson (collector_body H request excl j)
         | None => OutText (H body)
         end
  end.

(* HARGeneratorPlugin.extractBody(rawBody, enabled, excludedBodyPaths, ""):
     if !obfuscationEnabled { return body }
     ObfuscateJSON(body, paths); on error ObfuscateString(body)   (also for "") *)
Definition plugin_body (H : bytes -> bytes) (enabled : bool)
           (excl : list bytes) (body : bytes) (parsed : option json) : body_out :=
  if negb enabled then OutText body else
  match parsed with
  | Some j => OutJson (obfuscate_json H excl j)
  | None => OutText (H body)
  end.

(* suite rawbody: bodies that do not parse (or obfuscation disabled); the output
   is compared as text.
   (plugin call site?, enabled, request?, exclusions, body, hash table, observed) *)
Definition case_rawbody :=
  (bool * bool * bool * list bytes * bytes * list (bytes * bytes) * bytes)%type.

Definition run_rawbody (k : case_rawbody) : option bytes :=
  let '(plugin, enabled, req, excl, body, tbl, observed) := k in
  let out := if plugin then plugin_body (lookup tbl) enabled excl body None
             else obfuscate_body (lookup tbl) enabled req excl body None in
  match out with
  | OutText t => if beq t observed then None else Some t
  | OutJson _ => Some []
  end.

(* suite plugin (Audit 2): the legacy plugin's call site on bodies that DO parse,
   obfuscation enabled - the OutJson branch of [plugin_body] evaluated as a call
   site (HARGeneratorPlugin.GenerateHAR -> extractBody), not only through its
   callee [obfuscate_json].
   (exclusions, body text, document, hash table, observed output) *)
Definition case_plugin :=
  (list bytes * bytes * json * list (bytes * bytes) * json)%type.

Definition run_plugin (k : case_plugin) : option json :=
  let '(excl, body, doc, tbl, observed) := k in
  match plugin_body (lookup tbl) true excl body (Some doc) with
  | OutJson out => if json_eqb out observed then None else Some out
  | OutText _ => Some JNull
  end.
