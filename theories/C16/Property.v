(* C16 — Obfuscation hides every value that is not explicitly excluded.
   Final statements only; proofs are in Proofs.v / ProofsAll.v.

   [obfuscate_json] models Obfuscator.ObfuscateJSON as it is in /repo (with
   fix F-C16: exact match of the body-relative exclusion text); [collector_body]
   the body path of the HAR collector; [obfuscate_body] / [plugin_body] the two
   call sites as a whole (disabled, empty, unparsable bodies).  Every statement
   quantifies over all hash functions H, all exclusion sets (arbitrary byte
   strings, both notations) and all documents.

   Part A (below, unchanged): positional statements under the decidable side
   conditions nodup_keys j / clean_keys j.
   Part B: the same without side condition where the statement survives (hiding
   for ALL documents), and otherwise the full statement, its refutation and the
   statement under the EXACT decidable condition of the open finding:
     F-C16c  ambiguous e j   — the text of exclusion e is the cursor of two
                               different paths of j (needs a key with '.'/'[');
     F-C16d  nodup_walked .. — an object the walk rebuilds repeats a key
                               (the rebuilt object keeps one entry per key).
   Part C: the whole export path of the HAR collector (Execute: generateHAR,
   size decision, export; Export.v): hiding holds for every record handed to
   the exporter whatever the size decision; what is dropped is dropped
   entirely; the decision reads the declared sizes only.
   Part D: the value level (Variants.v): every string is hashed (digest-like
   ones included), an excluded number keeps its raw token; variant switch with
   the refutations of "hash once" and "rebuild the excluded subtree". *)
From Coq Require Import List ZArith Bool.
From Verif Require Import C16.Model C16.Spec C16.Proofs C16.ProofsAll.
From Verif Require Import C16.Export C16.ExportSpec C16.ExportProofs.
From Verif Require Import C16.Variants C16.VariantsProofs.
Import ListNotations.
Open Scope Z_scope.

(* Keys, their order, nesting and array lengths are preserved, whatever is
   excluded. *)
Theorem C16_structure : forall H excl j,
  nodup_keys j = true ->
  shape_of (obfuscate_json H excl j) = shape_of j.
Proof. intros H excl j Hnd. apply shape_obf. exact Hnd. Qed.
Print Assumptions C16_structure.

Theorem C16_structure_collector : forall H req excl j,
  nodup_keys j = true ->
  shape_of (collector_body H req excl j) = shape_of j.
Proof. intros H req excl j Hnd. apply shape_obf. exact Hnd. Qed.
Print Assumptions C16_structure_collector.

(* Every primitive leaf (string, number, boolean, null), found at position [ps]
   and structured path [q], is found at the same position and path of the output
   and is there
     - verbatim when q lies on or under a path written by some exclusion, and
     - the string H(text of the leaf) otherwise (never both by accident: the
       two cases are separated by the decidable [on_excluded]). *)
Theorem C16_hidden_or_excluded : forall H excl j ps q v,
  nodup_keys j = true ->
  descend j ps = Some (q, v) -> is_prim v = true ->
  (on_excluded excl q /\
   descend (obfuscate_json H excl j) ps = Some (q, v))
  \/
  (~ on_excluded excl q /\
   descend (obfuscate_json H excl j) ps = Some (q, JStr (H (text v)))).
Proof. exact hidden_or_excluded. Qed.
Print Assumptions C16_hidden_or_excluded.

(* The same in terms of what exclusions denote, for documents whose keys can be
   written in the notations: a leaf is kept verbatim iff some exclusion denotes
   its path or a prefix of it, and is replaced by its hash otherwise. *)
Theorem C16_kept_iff_denoted : forall H excl j ps q v,
  nodup_keys j = true -> clean_keys j = true ->
  descend j ps = Some (q, v) -> is_prim v = true ->
  ((exists e p, In e excl /\ denotes e p /\ is_prefix p q) /\
   descend (obfuscate_json H excl j) ps = Some (q, v))
  \/
  (~ (exists e p, In e excl /\ denotes e p /\ is_prefix p q) /\
   descend (obfuscate_json H excl j) ps = Some (q, JStr (H (text v)))).
Proof. exact kept_iff_denoted. Qed.
Print Assumptions C16_kept_iff_denoted.

(* An exclusion string denotes at most one structured path. *)
Theorem C16_denotation_unique : forall e p p',
  denotes e p -> denotes e p' -> p = p'.
Proof. exact denotes_unique. Qed.
Print Assumptions C16_denotation_unique.

(* No cross exposure: a leaf whose path is not on or under the path denoted by
   any exclusion of the set is replaced by its hash. *)
Theorem C16_no_cross_exposure : forall H excl j ps q v,
  nodup_keys j = true -> clean_keys j = true ->
  descend j ps = Some (q, v) -> is_prim v = true ->
  (forall e p, In e excl -> denotes e p -> ~ is_prefix p q) ->
  descend (obfuscate_json H excl j) ps = Some (q, JStr (H (text v))).
Proof. exact no_cross_exposure. Qed.
Print Assumptions C16_no_cross_exposure.

(* The same for one exclusion written for the path p (either notation): it never
   keeps a leaf at a path that is not p or under p — e.g. a field of the same
   name elsewhere in the document. *)
Theorem C16_no_cross_exposure_single : forall H e p j ps q v,
  denotes e p ->
  nodup_keys j = true -> clean_keys j = true ->
  descend j ps = Some (q, v) -> is_prim v = true ->
  ~ is_prefix p q ->
  descend (obfuscate_json H [e] j) ps = Some (q, JStr (H (text v))).
Proof. exact no_cross_exposure_single. Qed.
Print Assumptions C16_no_cross_exposure_single.

(* HAR collector: exclusions written for the other direction
   (`$.response.body…` while a request body is obfuscated, and conversely) have
   no effect at all. *)
Theorem C16_collector_direction : forall H req excl j,
  collector_body H req excl j =
  collector_body H req
    (filter (fun e => negb (has_prefix (dir_prefix (negb req)) e)) excl) j.
Proof. exact collector_direction. Qed.
Print Assumptions C16_collector_direction.

(* ---- concrete material ---- *)

Definition s_name : bytes := [110;97;109;101].
Definition s_user : bytes := [117;115;101;114].
Definition s_id : bytes := [105;100].
Definition s_items : bytes := [105;116;101;109;115].
(* ".user.name" and "$.request.body.user.name" *)
Definition e_user_name : bytes := [46;117;115;101;114;46;110;97;109;101].
Definition e_user_name_jp : bytes := pre_request ++ e_user_name.

(* {"name":"top","user":{"name":"n","id":7},"items":[{"name":"x"},{"name":null}]} *)
Definition doc : json :=
  JObj [(s_name, JStr [116;111;112]);
        (s_user, JObj [(s_name, JStr [110]); (s_id, JNum [55] [55;46;48;48])]);
        (s_items, JArr [JObj [(s_name, JStr [120])]; JObj [(s_name, JNull)]])].

Definition Hx (t : bytes) : bytes := 35 :: t.

(* The test of the unpatched tree, strings.HasSuffix(path, cursor), violates
   C16_no_cross_exposure: with the single exclusion ".user.name" the top-level
   "name" is kept verbatim although no exclusion denotes a prefix of its path. *)
Theorem C16_suffix_test_exposes :
  exists excl j ps q v,
    nodup_keys j = true /\ clean_keys j = true /\
    descend j ps = Some (q, v) /\ is_prim v = true /\
    (forall e p, In e excl -> denotes e p -> ~ is_prefix p q) /\
    forall H, descend (obfuscate_json_suffix H excl j) ps = Some (q, v).
Proof.
  exists [e_user_name], doc, [0%nat], [PKey s_name], (JStr [116;111;112]).
  repeat split; try reflexivity.
  intros e p [<-|[]] Hden.
  assert (E : p = [PKey s_user; PKey s_name]).
  { apply (denotes_unique e_user_name); [exact Hden|split; reflexivity]. }
  subst p. intros [r Er]. discriminate Er.
Qed.
Print Assumptions C16_suffix_test_exposes.

(* Non-vacuity.  Both notations denote [user; name]; on [doc] the patched walk
   keeps exactly that leaf and hashes the same-named fields elsewhere, numbers
   by their two-decimal text, null by "null". *)
Example C16_denotes_both :
  denotes e_user_name [PKey s_user; PKey s_name] /\
  denotes e_user_name_jp [PKey s_user; PKey s_name].
Proof. split; split; reflexivity. Qed.

Example C16_side_conditions_met : nodup_keys doc = true /\ clean_keys doc = true.
Proof. split; reflexivity. Qed.

Example C16_walk_on_doc :
  obfuscate_json Hx [e_user_name_jp] doc =
  JObj [(s_name, JStr [35;116;111;112]);
        (s_user, JObj [(s_name, JStr [110]); (s_id, JStr [35;55;46;48;48])]);
        (s_items, JArr [JObj [(s_name, JStr [35;120])];
                        JObj [(s_name, JStr [35;110;117;108;108])]])]
  /\ obfuscate_json Hx [e_user_name] doc = obfuscate_json Hx [e_user_name_jp] doc
  /\ descend doc [1%nat; 0%nat] = Some ([PKey s_user; PKey s_name], JStr [110])
  /\ descend doc [2%nat; 1%nat; 0%nat] = Some ([PKey s_items; PAny; PKey s_name], JNull).
Proof. vm_compute. repeat split; reflexivity. Qed.

(* the unpatched test on the same input also keeps the top-level "name" *)
Example C16_suffix_walk_on_doc :
  obfuscate_json_suffix Hx [e_user_name_jp] doc =
  JObj [(s_name, JStr [116;111;112]);
        (s_user, JObj [(s_name, JStr [110]); (s_id, JStr [35;55;46;48;48])]);
        (s_items, JArr [JObj [(s_name, JStr [35;120])];
                        JObj [(s_name, JStr [35;110;117;108;108])]])].
Proof. vm_compute. reflexivity. Qed.

(* collector: a response exclusion does nothing on a request body, a request
   exclusion does *)
Example C16_collector_on_doc :
  collector_body Hx true [pre_response ++ e_user_name] doc = obfuscate_json Hx [] doc
  /\ collector_body Hx true [e_user_name_jp] doc = obfuscate_json Hx [e_user_name] doc
  /\ collector_body Hx true [e_user_name] doc = obfuscate_json Hx [] doc.
Proof. vm_compute. repeat split; reflexivity. Qed.

(* ================================================================== *)
(* Part B                                                              *)

(* ---- clause 1, safety half, ALL documents ------------------------- *)

(* Whatever the document (repeated keys, keys with '.'/'[', any nesting) and
   whatever the exclusions: every primitive leaf of the OUTPUT, at structured
   path q, is
     - an input primitive leaf at the same path q, verbatim, and q lies on or
       under a path written by some exclusion, or
     - the string H(text v) of an input primitive leaf v at the same path q,
       and q is not on or under any excluded path.
   Nothing else can appear in the output: no value that is not excluded leaves
   in clear, no value moves to another path. *)
Theorem C16_hiding_all_documents : forall H excl j ps q w,
  descend (obfuscate_json H excl j) ps = Some (q, w) -> is_prim w = true ->
  exists ps' v, descend j ps' = Some (q, v) /\ is_prim v = true /\
    ((on_excluded excl q /\ w = v) \/
     (~ on_excluded excl q /\ w = JStr (H (text v)))).
Proof. exact hiding_all_documents. Qed.
Print Assumptions C16_hiding_all_documents.

Theorem C16_hiding_all_documents_collector : forall H req excl j ps q w,
  descend (collector_body H req excl j) ps = Some (q, w) -> is_prim w = true ->
  exists ps' v, descend j ps' = Some (q, v) /\ is_prim v = true /\
    ((on_excluded (filter_body_exclusions req excl) q /\ w = v) \/
     (~ on_excluded (filter_body_exclusions req excl) q /\ w = JStr (H (text v)))).
Proof. intros H req excl j. exact (hiding_all_documents H _ j). Qed.
Print Assumptions C16_hiding_all_documents_collector.

(* [on_excluded] is decided by a boolean function of the exclusions and the path *)
Theorem C16_on_excluded_decidable : forall excl q,
  excl_upto (excluded_fixed excl) [] q = true <-> on_excluded excl q.
Proof. exact on_excluded_iff. Qed.
Print Assumptions C16_on_excluded_decidable.

(* ---- clause 2: structure; finding F-C16d -------------------------- *)

Definition C16_structure_full : Prop :=
  forall H excl j, shape_of (obfuscate_json H excl j) = shape_of j.

Definition s_a : bytes := [97].
Definition s_b : bytes := [98].
(* {"a":"s","b":true,"a":"t"} *)
Definition doc_dup : json :=
  JObj [(s_a, JStr [115]); (s_b, JBool true); (s_a, JStr [116])].

Theorem C16_structure_full_refuted : ~ C16_structure_full.
Proof. intro C. specialize (C Hx [] doc_dup). vm_compute in C. discriminate C. Qed.
Print Assumptions C16_structure_full_refuted.

(* the structure is preserved EXACTLY when no object the walk rebuilds repeats a
   key (objects inside an excluded subtree are returned whole, repeated keys
   included) *)
Theorem C16_structure_holds_outside_repeated_keys : forall H excl j,
  shape_of (obfuscate_json H excl j) = shape_of j <->
  nodup_walked (excluded_fixed excl) [] j = true.
Proof. intros H excl j. apply shape_obf_exact. Qed.
Print Assumptions C16_structure_holds_outside_repeated_keys.

Theorem C16_structure_collector_holds_outside_repeated_keys : forall H req excl j,
  shape_of (collector_body H req excl j) = shape_of j <->
  nodup_walked (excluded_fixed (filter_body_exclusions req excl)) [] j = true.
Proof. intros H req excl j. apply shape_obf_exact. Qed.
Print Assumptions C16_structure_collector_holds_outside_repeated_keys.

(* nodup_keys (Part A) is a special case of the exact condition *)
Theorem C16_nodup_keys_is_outside_repeated_keys : forall excl j,
  nodup_keys j = true -> nodup_walked (excluded_fixed excl) [] j = true.
Proof. intros excl j. apply nodup_keys_walked. Qed.
Print Assumptions C16_nodup_keys_is_outside_repeated_keys.

(* ---- clauses 1 and 3 by position, under the exact condition -------- *)

(* C16_hidden_or_excluded with nodup_keys narrowed to nodup_walked *)
Theorem C16_hidden_or_excluded_holds_outside_repeated_keys : forall H excl j ps q v,
  nodup_walked (excluded_fixed excl) [] j = true ->
  descend j ps = Some (q, v) -> is_prim v = true ->
  (on_excluded excl q /\
   descend (obfuscate_json H excl j) ps = Some (q, v))
  \/
  (~ on_excluded excl q /\
   descend (obfuscate_json H excl j) ps = Some (q, JStr (H (text v)))).
Proof. exact hidden_or_excluded_w. Qed.
Print Assumptions C16_hidden_or_excluded_holds_outside_repeated_keys.

Theorem C16_hidden_or_excluded_collector : forall H req excl j ps q v,
  nodup_walked (excluded_fixed (filter_body_exclusions req excl)) [] j = true ->
  descend j ps = Some (q, v) -> is_prim v = true ->
  (on_excluded (filter_body_exclusions req excl) q /\
   descend (collector_body H req excl j) ps = Some (q, v))
  \/
  (~ on_excluded (filter_body_exclusions req excl) q /\
   descend (collector_body H req excl j) ps = Some (q, JStr (H (text v)))).
Proof. intros H req excl j. exact (hidden_or_excluded_w H _ j). Qed.
Print Assumptions C16_hidden_or_excluded_collector.

(* clause 3 for containers too: ANY node (object, array or leaf) on or under an
   excluded path is found verbatim at the same position of the output *)
Theorem C16_excluded_subtree_verbatim : forall H excl j ps q x,
  nodup_walked (excluded_fixed excl) [] j = true ->
  descend j ps = Some (q, x) -> on_excluded excl q ->
  descend (obfuscate_json H excl j) ps = Some (q, x).
Proof. exact excluded_subtree_verbatim. Qed.
Print Assumptions C16_excluded_subtree_verbatim.

(* ---- clause 4: no cross exposure; finding F-C16c ------------------- *)

(* Full statement, ALL documents: the leaves one exclusion keeps in clear
   (whatever the hash function) all lie on or under ONE structured path, whose
   text is the exclusion. *)
Definition C16_no_cross_exposure_full : Prop :=
  forall e j ps q v ps' q' v',
    kept_by e j ps q v -> kept_by e j ps' q' v' ->
    exists p, cursor p = body_path e /\ is_prefix p q /\ is_prefix p q'.

Definition s_ab : bytes := [97;46;98].                 (* "a.b" *)
Definition e_a_b : bytes := [46;97;46;98].             (* ".a.b" *)
(* {"a.b":"s","a":{"b":"t"}} *)
Definition doc_amb : json :=
  JObj [(s_ab, JStr [115]); (s_a, JObj [(s_b, JStr [116])])].

(* the exclusion ".a.b" keeps BOTH the value of key "a.b" and the value of key
   "b" under key "a": whichever the user meant, the other one is exposed *)
Theorem C16_no_cross_exposure_full_refuted : ~ C16_no_cross_exposure_full.
Proof.
  intro C.
  destruct (C e_a_b doc_amb [0%nat] [PKey s_ab] (JStr [115])
              [1%nat; 0%nat] [PKey s_a; PKey s_b] (JStr [116]))
    as [p [Ec [[r1 E1] [r2 E2]]]].
  - split; [reflexivity|]. split; [reflexivity|]. intro H. reflexivity.
  - split; [reflexivity|]. split; [reflexivity|]. intro H. reflexivity.
  - destruct p as [|s p]; [vm_compute in Ec; discriminate Ec|].
    simpl in E1, E2. inversion E1. inversion E2. subst s. discriminate.
Qed.
Print Assumptions C16_no_cross_exposure_full_refuted.

(* outside the finding — the exclusion text is not the cursor of two different
   paths of the document (decidable, [ambiguous]) — the full statement holds,
   for ALL such documents (repeated keys included) *)
Theorem C16_no_cross_exposure_holds_outside_ambiguous_notation :
  forall e j ps q v ps' q' v',
    ambiguous e j = false ->
    kept_by e j ps q v -> kept_by e j ps' q' v' ->
    exists p, cursor p = body_path e /\ is_prefix p q /\ is_prefix p q'.
Proof. exact no_cross_exposure_outside_ambiguous. Qed.
Print Assumptions C16_no_cross_exposure_holds_outside_ambiguous_notation.

(* [ambiguous] says exactly: two different paths of the document carry the text *)
Theorem C16_ambiguous_iff : forall e j,
  ambiguous e j = true <-> exists p p', names e j p /\ names e j p' /\ p <> p'.
Proof. exact ambiguous_two_names. Qed.
Print Assumptions C16_ambiguous_iff.

(* clean_keys (Part A) is a special case: no ambiguity without '.'/'[' in keys *)
Theorem C16_clean_keys_is_outside_ambiguous_notation : forall e j,
  clean_keys j = true -> ambiguous e j = false.
Proof. exact clean_keys_unambiguous. Qed.
Print Assumptions C16_clean_keys_is_outside_ambiguous_notation.

(* sets of exclusions, no condition on keys: a leaf is kept iff it lies on or
   under a path of THIS document that some exclusion names (its text is the
   exclusion); outside [ambiguous] that path is unique per exclusion *)
Theorem C16_kept_iff_named : forall H excl j ps q v,
  nodup_walked (excluded_fixed excl) [] j = true ->
  descend j ps = Some (q, v) -> is_prim v = true ->
  ((exists e p, In e excl /\ names e j p /\ is_prefix p q) /\
   descend (obfuscate_json H excl j) ps = Some (q, v))
  \/
  (~ (exists e p, In e excl /\ names e j p /\ is_prefix p q) /\
   descend (obfuscate_json H excl j) ps = Some (q, JStr (H (text v)))).
Proof.
  intros H excl j ps q v Hnd Hd Hp.
  destruct (hidden_or_excluded_w H excl j ps q v Hnd Hd Hp) as [[Hon E]|[Hon E]].
  - left. split; [apply (on_excluded_named excl j ps q v Hd); exact Hon|exact E].
  - right. split; [|exact E]. intro C. apply Hon.
    apply (on_excluded_named excl j ps q v Hd). exact C.
Qed.
Print Assumptions C16_kept_iff_named.

Theorem C16_named_unique_outside_ambiguous_notation : forall e j p p',
  ambiguous e j = false -> names e j p -> names e j p' -> p = p'.
Proof. exact named_unique. Qed.
Print Assumptions C16_named_unique_outside_ambiguous_notation.

(* the notation-level statements of Part A (C16_kept_iff_denoted,
   C16_no_cross_exposure) with their hypotheses narrowed: nodup_keys j to the
   exact nodup_walked, clean_keys j to clean_path q (only the keys on the way to
   the leaf have to be writable in the notations) *)
Theorem C16_kept_iff_denoted_clean_path : forall H excl j ps q v,
  nodup_walked (excluded_fixed excl) [] j = true -> clean_path q = true ->
  descend j ps = Some (q, v) -> is_prim v = true ->
  ((exists e p, In e excl /\ denotes e p /\ is_prefix p q) /\
   descend (obfuscate_json H excl j) ps = Some (q, v))
  \/
  (~ (exists e p, In e excl /\ denotes e p /\ is_prefix p q) /\
   descend (obfuscate_json H excl j) ps = Some (q, JStr (H (text v)))).
Proof. exact kept_iff_denoted_w. Qed.
Print Assumptions C16_kept_iff_denoted_clean_path.

Theorem C16_no_cross_exposure_clean_path : forall H excl j ps q v,
  nodup_walked (excluded_fixed excl) [] j = true -> clean_path q = true ->
  descend j ps = Some (q, v) -> is_prim v = true ->
  (forall e p, In e excl -> denotes e p -> ~ is_prefix p q) ->
  descend (obfuscate_json H excl j) ps = Some (q, JStr (H (text v))).
Proof. exact no_cross_exposure_w. Qed.
Print Assumptions C16_no_cross_exposure_clean_path.

(* on the ambiguous witness the top-level "other"-like clean leaf is still
   covered: path [a; b] is clean, path ["a.b"] is not *)
Example C16_clean_path_on_witness :
  clean_path [PKey s_a; PKey s_b] = true /\ clean_path [PKey s_ab] = false /\
  clean_keys doc_amb = false.
Proof. vm_compute. repeat split; reflexivity. Qed.

(* ---- collector ----------------------------------------------------- *)

(* an exclusion that does not start with the prefix of the direction being
   obfuscated (other direction, plain cursor notation, headers, ...) is ignored *)
Theorem C16_collector_ignores : forall H req excl1 e excl2 j,
  has_prefix (dir_prefix req) e = false ->
  collector_body H req (excl1 ++ e :: excl2) j = collector_body H req (excl1 ++ excl2) j.
Proof. exact collector_ignores. Qed.
Print Assumptions C16_collector_ignores.

(* ---- the call sites as a whole (clause 0) -------------------------- *)

(* collector, obfuscation enabled: the body leaves as "" (empty body), as the
   hash of the whole text (not JSON), or as the obfuscated document *)
Theorem C16_body_as_a_whole : forall H req excl body parsed,
  obfuscate_body H true req excl body parsed =
  match body, parsed with
  | [], _ => OutText []
  | _, None => OutText (H body)
  | _, Some j => OutJson (collector_body H req excl j)
  end.
Proof. intros H req excl body parsed. destruct body; reflexivity. Qed.
Print Assumptions C16_body_as_a_whole.

Theorem C16_plugin_body_as_a_whole : forall H excl body parsed,
  plugin_body H true excl body parsed =
  match parsed with
  | None => OutText (H body)
  | Some j => OutJson (obfuscate_json H excl j)
  end.
Proof. reflexivity. Qed.
Print Assumptions C16_plugin_body_as_a_whole.

(* ---- Examples for Part B ------------------------------------------- *)

(* the side conditions of the findings on the witnesses and on [doc] *)
Example C16_finding_conditions :
  ambiguous e_a_b doc_amb = true /\ nodup_keys doc_amb = true /\
  clean_keys doc_amb = false /\
  nodup_walked (excluded_fixed []) [] doc_dup = false /\
  ambiguous e_user_name doc = false /\
  nodup_walked (excluded_fixed [e_user_name]) [] doc = true /\
  (* a repeated key inside an excluded subtree does not matter *)
  nodup_walked (excluded_fixed [[]]) [] doc_dup = true /\
  nodup_keys doc_dup = false.
Proof. vm_compute. repeat split; reflexivity. Qed.

(* what the walk does on the two witnesses *)
Example C16_walk_on_witnesses :
  obfuscate_json Hx [e_a_b] doc_amb = doc_amb /\
  obfuscate_json Hx [] doc_dup =
    JObj [(s_a, JStr [35;115]); (s_b, JStr [35;116;114;117;101])] /\
  obfuscate_json Hx [[]] doc_dup = doc_dup.
Proof. vm_compute. repeat split; reflexivity. Qed.

(* kept_by is satisfiable on an unambiguous document, and the path is [user;name] *)
Example C16_kept_by_on_doc :
  kept_by e_user_name doc [1%nat; 0%nat] [PKey s_user; PKey s_name] (JStr [110]) /\
  names e_user_name doc [PKey s_user; PKey s_name].
Proof.
  split; [split; [reflexivity|split; [reflexivity|intro H; reflexivity]]|].
  vm_compute. left. reflexivity.
Qed.

(* hiding on a document with a repeated key: position 0 of the output carries
   the hash of the FIRST "a"; the second "a" is dropped, not exposed *)
Example C16_hiding_on_dup :
  descend (obfuscate_json Hx [] doc_dup) [0%nat] = Some ([PKey s_a], JStr [35;115]) /\
  descend doc_dup [0%nat] = Some ([PKey s_a], JStr [115]) /\
  ~ on_excluded [] [PKey s_a].
Proof.
  split; [reflexivity|]. split; [reflexivity|].
  intros [e [p [[] _]]].
Qed.

Example C16_body_cases :
  obfuscate_body Hx true true [] [] None = OutText [] /\
  obfuscate_body Hx true true [] [120] None = OutText [35;120] /\
  obfuscate_body Hx false true [] [120] None = OutText [120] /\
  plugin_body Hx true [] [] None = OutText [35] /\
  obfuscate_body Hx true true [e_user_name_jp] [123] (Some doc) =
    OutJson (obfuscate_json Hx [e_user_name] doc).
Proof. vm_compute. repeat split; reflexivity. Qed.

(* ================================================================== *)
(* Part C — the export path of the HAR collector (Export.v)            *)

(* With obfuscation enabled, both bodies of EVERY record that Execute hands to
   the exporter are hidden ([hidden_body]: empty, or the hash of the whole text
   when the body is not JSON, or a document every leaf of which is an excluded
   input leaf at the same path or the hash of an input leaf at the same path) —
   for every size limit (given or not), every declared content-length (absent,
   accurate, too small, too large, negative), every content-encoding, every real
   body size, every exclusion set, every hash function. *)
Theorem C16_export_hides_whatever_the_size_decision : export_hides_for VHead.
Proof. exact export_hides_head. Qed.
Print Assumptions C16_export_hides_whatever_the_size_decision.

(* the bodies of an exported record ARE the call-site function of Parts A/B
   applied to the body that goes into the HAR: every theorem about
   [collector_body] / [obfuscate_body] (structure, excluded kept verbatim, no
   cross exposure) speaks about the export path *)
Theorem C16_export_bodies : forall H c rq rs,
  execute VHead H c rq rs =
  if too_large c rq rs then []
  else [(obfuscate_body H (c_enabled c) true (c_excl c)
           (fst (effective rq)) (snd (effective rq)),
         obfuscate_body H (c_enabled c) false (c_excl c)
           (fst (effective rs)) (snd (effective rs)))].
Proof.
  intros H c rq rs. unfold execute. rewrite !har_body_head. reflexivity.
Qed.
Print Assumptions C16_export_bodies.

(* what is dropped is dropped entirely; what is not is exported once *)
Theorem C16_export_dropped_entirely : forall v H c rq rs,
  max_size c < declared_size rq rs -> execute v H c rq rs = [].
Proof. exact execute_dropped. Qed.
Print Assumptions C16_export_dropped_entirely.

Theorem C16_export_exported_once : forall v H c rq rs,
  declared_size rq rs <= max_size c ->
  execute v H c rq rs = [(har_body v H c true rq, har_body v H c false rs)].
Proof. exact execute_exported. Qed.
Print Assumptions C16_export_exported_once.

(* the size decision reads the limit and the two declared content-lengths only:
   bodies, encodings, exclusions, the obfuscation switch, the hash function and
   the variant of buildHARBody have no influence on it *)
Theorem C16_export_decision_reads_declared_sizes_only :
  forall v v' H H' c c' rq rs rq' rs',
    max_size c = max_size c' ->
    s_clen rq = s_clen rq' -> s_clen rs = s_clen rs' ->
    (execute v H c rq rs = [] <-> execute v' H' c' rq' rs' = []).
Proof. exact decision_declared_only. Qed.
Print Assumptions C16_export_decision_reads_declared_sizes_only.

(* Seeded change C16-8 (buildHARBody returns a body that is, on its own, longer
   than a configured limit without obfuscating it): the statement is false.
   Witness: limit 4, a chunked response (no content-length: declared size 0, so
   the transaction is exported) with the 9-byte body {"a":"s"}. *)
Definition side_empty : side := mkSide None EncNone [] None None.
Definition body_as : bytes := [123;34;97;34;58;34;115;34;125].     (* {"a":"s"} *)
Definition doc_as : json := JObj [(s_a, JStr [115])].
Definition side_chunked : side := mkSide None EncNone body_as (Some doc_as) None.
Definition cfg4 : config := mkConfig (Some 4) true [].

Theorem C16_export_skip_oversize_refuted : ~ export_hides_for VSkipOversize.
Proof.
  intro C.
  destruct (C Hx cfg4 side_empty side_chunked
              (OutText [], OutJson doc_as) eq_refl (or_introl eq_refl)) as [_ Hs].
  unfold hidden_body in Hs. cbn in Hs. destruct Hs as [_ [j [Ej Hl]]].
  injection Ej as <-.
  destruct (Hl [0%nat] [PKey s_a] (JStr [115]) eq_refl eq_refl)
    as [ps' [v [_ [_ [[[e [p [[] _]]] _]|[_ Ew]]]]]].
  discriminate Ew.
Qed.
Print Assumptions C16_export_skip_oversize_refuted.

(* ... and it differs from /repo only where a declared size does not cover the
   real size of the body that goes into the HAR (chunked, gzip, wrong header) *)
Theorem C16_export_skip_oversize_same_when_declared_covers : forall H c rq rs,
  blen (fst (effective rq)) <= extract_size rq ->
  blen (fst (effective rs)) <= extract_size rs ->
  execute VSkipOversize H c rq rs = execute VHead H c rq rs.
Proof. exact skip_oversize_same_when_declared_covers. Qed.
Print Assumptions C16_export_skip_oversize_same_when_declared_covers.

(* Non-vacuity: on the witness /repo exports the hashed document, the seeded
   variant the document in clear; with an accurate content-length both drop;
   limit not given = 0: anything with a positive declared size is dropped, a
   chunked one is exported; a gzip body is obfuscated as the decompressed document
   while the decision sees the compressed length only. *)
Definition side_accurate : side := mkSide (Some 9) EncNone body_as (Some doc_as) None.
Definition side_gzip : side :=
  mkSide (Some 3) EncGzip [31;139;8] None (Some (body_as, Some doc_as)).

Example C16_export_on_witness :
  execute VHead Hx cfg4 side_empty side_chunked =
    [(OutText [], OutJson (JObj [(s_a, JStr [35;115])]))] /\
  execute VSkipOversize Hx cfg4 side_empty side_chunked =
    [(OutText [], OutJson doc_as)] /\
  execute VHead Hx cfg4 side_empty side_accurate = [] /\
  execute VSkipOversize Hx cfg4 side_empty side_accurate = [] /\
  execute VHead Hx (mkConfig None true []) side_empty side_accurate = [] /\
  execute VHead Hx (mkConfig None true []) side_chunked side_empty =
    [(OutJson (JObj [(s_a, JStr [35;115])]), OutText [])] /\
  execute VHead Hx cfg4 side_empty side_gzip =
    [(OutText [], OutJson (JObj [(s_a, JStr [35;115])]))] /\
  execute VSkipOversize Hx cfg4 side_empty side_gzip =
    [(OutText [], OutJson doc_as)] /\
  execute VHead Hx (mkConfig (Some 4) true [pre_response ++ [46;97]]) side_empty side_chunked =
    [(OutText [], OutJson doc_as)].
Proof. vm_compute. repeat split; reflexivity. Qed.

(* ================================================================== *)
(* Part D — the value level: what counts as "a string" and what "verbatim"
   means for a number (Variants.v).  [obfuscate_json_v v] is the walk with a
   switch: LHead = /repo; LHashOnce d = a string the detector d accepts is left
   as it is (seeded change C16-9, d = looks_like_md5); LRebuildExcluded r = an
   excluded subtree is rebuilt value by value, number tokens re-printed by r
   (seeded change C16-10, r = float64 round trip). *)

(* /repo is the head variant: Parts A-C speak about obfuscate_json_v LHead *)
Theorem C16_leaf_variant_head : forall H excl j,
  obfuscate_json_v LHead H excl j = obfuscate_json H excl j.
Proof. exact obfuscate_json_v_head. Qed.
Print Assumptions C16_leaf_variant_head.

(* clause 1, all documents, all strings — digests, UUIDs, the hash of another
   leaf included: a string leaf is an arbitrary byte list *)
Theorem C16_hides_every_string : hides_for LHead.
Proof. exact hides_for_head. Qed.
Print Assumptions C16_hides_every_string.

(* clause 3: an excluded node comes back as it was written, a number with its
   raw token (JNum raw _), whatever float64 would make of it *)
Theorem C16_excluded_kept_as_written : keeps_excluded_for LHead.
Proof. exact keeps_excluded_for_head. Qed.
Print Assumptions C16_excluded_kept_as_written.

(* an "already hashed" detector is compatible with the property exactly when it
   never fires *)
Theorem C16_hash_once_hides_iff_never_keeps : forall d,
  hides_for (LHashOnce d) <-> (forall s, d s = false).
Proof. exact hash_once_hides_iff. Qed.
Print Assumptions C16_hash_once_hides_iff_never_keeps.

Definition s_md5 : bytes := [53;102;52;100;99;99;51;98;53;97;97;55;54;53;100;54;49;100;56;51;50;55;100;101;98;56;56;50;99;102;57;57].   (* 5f4dcc3b5aa765d61d8327deb882cf99 *)

Theorem C16_hash_once_refuted : ~ hides_for (LHashOnce looks_like_md5).
Proof. apply (hash_once_refuted looks_like_md5 s_md5). vm_compute. reflexivity. Qed.
Print Assumptions C16_hash_once_refuted.

(* re-printing the numbers of an excluded subtree breaks "kept verbatim" as soon
   as one token is printed differently (every token float64 can not hold, and
   every other spelling: 1E2 -> 100) *)
Theorem C16_rebuild_excluded_refuted : forall r tok,
  r tok <> tok -> ~ keeps_excluded_for (LRebuildExcluded r).
Proof. exact rebuild_excluded_refuted. Qed.
Print Assumptions C16_rebuild_excluded_refuted.

Definition tok_2p53_1 : bytes := [57;48;48;55;49;57;57;50;53;52;55;52;48;57;57;51].           (* 9007199254740993 *)
Definition tok_2p53_1_f64 : bytes := [57;46;48;48;55;49;57;57;50;53;52;55;52;48;57;57;50;101;43;49;53].   (* 9.007199254740992e+15 *)
Definition txt_2p53_1 : bytes := [57;48;48;55;49;57;57;50;53;52;55;52;48;57;57;50;46;48;48].    (* 9007199254740992.00 *)
Definition reprint_f64 : bytes -> bytes :=
  reprint_table [(tok_2p53_1, tok_2p53_1_f64); ([49;69;50], [49;48;48])].  (* 1E2 -> 100 *)
Definition e_id : bytes := [46;105;100].   (* ".id" *)
Definition doc_token : json := JObj [(s_id, JStr s_md5); (s_name, JStr [97])].
Definition doc_order : json := JObj [(s_id, JNum tok_2p53_1 txt_2p53_1); (s_name, JStr [97])].

Example C16_leaf_variants_on_witnesses :
  (* /repo hashes the digest-like string; the detector keeps it (and nothing else:
     upper case and 31 characters do not look like an MD5 digest) *)
  obfuscate_json_v LHead Hx [] doc_token =
    JObj [(s_id, JStr (35 :: s_md5)); (s_name, JStr [35;97])] /\
  obfuscate_json_v (LHashOnce looks_like_md5) Hx [] doc_token =
    JObj [(s_id, JStr s_md5); (s_name, JStr [35;97])] /\
  looks_like_md5 (tl s_md5) = false /\ looks_like_md5 (70 :: tl s_md5) = false /\
  (* /repo keeps the excluded number token; the rebuilt one is another number;
     not excluded, both hash the two-decimal text *)
  obfuscate_json_v LHead Hx [e_id] doc_order =
    JObj [(s_id, JNum tok_2p53_1 txt_2p53_1); (s_name, JStr [35;97])] /\
  obfuscate_json_v (LRebuildExcluded reprint_f64) Hx [e_id] doc_order =
    JObj [(s_id, JNum tok_2p53_1_f64 txt_2p53_1); (s_name, JStr [35;97])] /\
  obfuscate_json_v (LRebuildExcluded reprint_f64) Hx [] doc_order =
    obfuscate_json_v LHead Hx [] doc_order /\
  (* the rebuilt subtree also loses repeated keys that /repo keeps *)
  obfuscate_json_v LHead Hx [[]] doc_dup = doc_dup /\
  obfuscate_json_v (LRebuildExcluded reprint_f64) Hx [[]] doc_dup =
    JObj [(s_a, JStr [115]); (s_b, JBool true)].
Proof. vm_compute. repeat split; reflexivity. Qed.

(* natural witnesses of the two refutations above, stated on the documents
   themselves (Audit 2, item 22): a member of an object, a non-empty exclusion;
   the general lemmas (VariantsProofs) use {"id": s} / {"id": tok} with ".id" *)
Example C16_leaf_variants_refuted_on_documents :
  (* C16-9: leaf .id of doc_token, not excluded, comes out in clear *)
  descend doc_token [0%nat] = Some ([PKey s_id], JStr s_md5) /\
  excl_upto (excluded_fixed []) [] [PKey s_id] = false /\
  descend (obfuscate_json_v (LHashOnce looks_like_md5) Hx [] doc_token) [0%nat] =
    Some ([PKey s_id], JStr s_md5) /\
  descend (obfuscate_json_v LHead Hx [] doc_token) [0%nat] =
    Some ([PKey s_id], JStr (Hx s_md5)) /\
  (* C16-10: node .id of doc_order, excluded by ".id", comes out as another token *)
  nodup_walked (excluded_fixed [e_id]) [] doc_order = true /\
  descend doc_order [0%nat] = Some ([PKey s_id], JNum tok_2p53_1 txt_2p53_1) /\
  excl_upto (excluded_fixed [e_id]) [] [PKey s_id] = true /\
  descend (obfuscate_json_v (LRebuildExcluded reprint_f64) Hx [e_id] doc_order) [0%nat] =
    Some ([PKey s_id], JNum tok_2p53_1_f64 txt_2p53_1) /\
  descend (obfuscate_json_v LHead Hx [e_id] doc_order) [0%nat] =
    Some ([PKey s_id], JNum tok_2p53_1 txt_2p53_1).
Proof. vm_compute. repeat split; reflexivity. Qed.

(* ---- Part D, the call sites as a whole (Audit 2, item 22) ------------
   The seeded change C16-9 also changes Obfuscator.ObfuscateString - the
   fallback of both call sites for a body that does not parse.
   [obfuscate_body_v v] / [plugin_body_v v] carry the switch on that path too;
   [body_hides f] = the per-body statement of Part C for a call-site function. *)

Theorem C16_body_variant_head : forall H en rq excl body parsed,
  obfuscate_body_v LHead H en rq excl body parsed = obfuscate_body H en rq excl body parsed /\
  plugin_body_v LHead H en excl body parsed = plugin_body H en excl body parsed.
Proof. intros. split; [apply obfuscate_body_v_head|apply plugin_body_v_head]. Qed.
Print Assumptions C16_body_variant_head.

(* /repo: whatever the body (JSON or not, empty, compressed), it leaves hidden *)
Theorem C16_body_hides : body_hides obfuscate_body.
Proof. exact body_hides_head. Qed.
Print Assumptions C16_body_hides.

(* with the detector on both paths: compatible exactly when it never fires *)
Theorem C16_hash_once_body_hides_iff_never_keeps : forall d,
  body_hides (obfuscate_body_v (LHashOnce d)) <-> (forall s, d s = false).
Proof. exact hash_once_body_hides_iff. Qed.
Print Assumptions C16_hash_once_body_hides_iff_never_keeps.

(* refuted through the TEXT path: the non-JSON body 5f4dcc3b5aa765d61d8327deb882cf99 *)
Theorem C16_hash_once_text_path_refuted :
  ~ body_hides (obfuscate_body_v (LHashOnce looks_like_md5)).
Proof.
  apply (hash_once_text_refuted looks_like_md5 s_md5); [discriminate|].
  vm_compute. reflexivity.
Qed.
Print Assumptions C16_hash_once_text_path_refuted.

(* ================================================================== *)
(* Part E - seeded change C16-12 (Audit 2, item 23): a fast path of
   obfuscateBody returns the body as it is when one of the exclusions of the
   direction is the body prefix or the prefix + "[]" - without looking at the
   body ([obfuscate_body_fast], Variants.v).  "[]" names the items of a root
   array only; for any other body the statement is false. *)
Theorem C16_whole_body_fast_path_refuted : ~ body_hides obfuscate_body_fast.
Proof. exact fast_path_refuted. Qed.
Print Assumptions C16_whole_body_fast_path_refuted.

Theorem C16_whole_body_fast_path_same_when_not_fired : forall H en rq excl body parsed,
  whole_body_excluded rq excl = false ->
  obfuscate_body_fast H en rq excl body parsed = obfuscate_body H en rq excl body parsed.
Proof. exact fast_path_same_when_not_fired. Qed.
Print Assumptions C16_whole_body_fast_path_same_when_not_fired.

Definition side_md5_text : side := mkSide None EncNone s_md5 None None.

Example C16_body_variants_on_witnesses :
  (* text path: /repo hashes the digest-like body, the detector lets it through,
     at both call sites *)
  obfuscate_body_v LHead Hx true false [] s_md5 None = OutText (35 :: s_md5) /\
  obfuscate_body_v (LHashOnce looks_like_md5) Hx true false [] s_md5 None = OutText s_md5 /\
  plugin_body_v LHead Hx true [] s_md5 None = OutText (35 :: s_md5) /\
  plugin_body_v (LHashOnce looks_like_md5) Hx true [] s_md5 None = OutText s_md5 /\
  (* fast path: fires on the exclusion alone; /repo hashes the object body, and
     agrees with the fast path on a list body; other exclusions do not fire *)
  whole_body_excluded false [e_resp_items] = true /\
  obfuscate_body_fast Hx true false [e_resp_items] body_as (Some doc_as) = OutJson doc_as /\
  obfuscate_body Hx true false [e_resp_items] body_as (Some doc_as) =
    OutJson (JObj [(s_a, JStr [35;115])]) /\
  obfuscate_body_fast Hx true false [e_resp_items] [91] (Some (JArr [JStr [115]])) =
    OutJson (JArr [JStr [115]]) /\
  obfuscate_body Hx true false [e_resp_items] [91] (Some (JArr [JStr [115]])) =
    OutJson (JArr [JStr [115]]) /\
  whole_body_excluded true [e_resp_items] = false /\
  whole_body_excluded false [pre_response ++ [46;97]] = false /\
  whole_body_excluded false [pre_response] = true.
Proof. vm_compute. repeat split; reflexivity. Qed.

(* the clear text is not a hidden body *)
Example C16_text_in_clear_is_not_hidden :
  ~ hidden_body Hx false [] side_md5_text (OutText s_md5).
Proof.
  unfold hidden_body. cbn. intros [[E _]|[_ E]]; [discriminate E|].
  vm_compute in E. discriminate E.
Qed.

(* suite plugin: the Some-branch of plugin_body as the suite evaluates it *)
Example C16_run_plugin_on_doc :
  run_plugin ([], body_as, doc_as, [([115], [35;115])], JObj [(s_a, JStr [35;115])]) = None /\
  run_plugin ([], body_as, doc_as, [([115], [35;115])], doc_as) =
    Some (JObj [(s_a, JStr [35;115])]).
Proof. vm_compute. split; reflexivity. Qed.

(* Part C, small print (Audit 2, C16 items 4-5): the single hypothesis
   [c_enabled c = true] is needed - switched off, the body is exported in clear,
   which is not a hidden body; a negative declared length is just an integer of
   the sum (9 + -5 = 4 <= 4: exported, both bodies hashed); the comparison of
   suite export tells a text from a document. *)
Definition side_negative : side := mkSide (Some (-5)) EncNone body_as (Some doc_as) None.

Example C16_export_small_print :
  execute VHead Hx (mkConfig (Some 4) false []) side_empty side_chunked =
    [(OutText [], OutText body_as)] /\
  execute VHead Hx cfg4 side_accurate side_negative =
    [(OutJson (JObj [(s_a, JStr [35;115])]), OutJson (JObj [(s_a, JStr [35;115])]))] /\
  execute VHead Hx cfg4 side_accurate side_empty = [] /\
  records_eqb [(OutText [], OutText body_as)] [(ObsText [], ObsJson doc_as)] = false /\
  records_eqb [(OutText [], OutJson doc_as)] [(ObsText [], ObsText body_as)] = false /\
  records_eqb [(OutText [], OutJson doc_as)] [(ObsText [], ObsJson doc_as)] = true.
Proof. vm_compute. repeat split; reflexivity. Qed.

Example C16_export_enabled_is_needed :
  ~ hidden_body Hx false [] side_chunked (OutText body_as).
Proof.
  unfold hidden_body. cbn. intros [[E _]|[E _]]; discriminate E.
Qed.
