(* C16 — Obfuscation hides every value that is not explicitly excluded.
   Final statements only; proofs are in Proofs.v.

   [obfuscate_json] models Obfuscator.ObfuscateJSON with
   patches/C16/fix-F-C16.patch applied; [collector_body] the body path of the HAR
   collector.  Every statement quantifies over all hash functions H, all
   exclusion sets (arbitrary byte strings, both notations) and all documents
   subject only to the decidable side conditions written in it:
     nodup_keys j  — no object of the document repeats a key
                     (the walk keeps one entry per distinct key);
     clean_keys j  — no key contains '.' or '[' (needed only where a statement
                     speaks of the path an exclusion *denotes*: the notations
                     cannot escape these characters). *)
From Coq Require Import List ZArith Bool.
From Verif Require Import C16.Model C16.Spec C16.Proofs.
Import ListNotations.
Open Scope Z_scope.

(* Keys, their order, nesting and array lengths are preserved, whatever is
   excluded. *)
Theorem C16_structure : forall H excl j,
  nodup_keys j = true ->
  shape_of (obfuscate_json H excl j) = shape_of j.
Proof. intros H excl j Hnd. apply shape_obf. exact Hnd. Qed.
Print Assumptions C16_structure.

Theorem C16_structure_collector : forall H req excl j,
  nodup_keys j = true ->
  shape_of (collector_body H req excl j) = shape_of j.
Proof. intros H req excl j Hnd. apply shape_obf. exact Hnd. Qed.
Print Assumptions C16_structure_collector.

(* Every primitive leaf (string, number, boolean, null), found at position [ps]
   and structured path [q], is found at the same position and path of the output
   and is there
     - verbatim when q lies on or under a path written by some exclusion, and
     - the string H(text of the leaf) otherwise (never both by accident: the
       two cases are separated by the decidable [on_excluded]). *)
Theorem C16_hidden_or_excluded : forall H excl j ps q v,
  nodup_keys j = true ->
  descend j ps = Some (q, v) -> is_prim v = true ->
  (on_excluded excl q /\
   descend (obfuscate_json H excl j) ps = Some (q, v))
  \/
  (~ on_excluded excl q /\
   descend (obfuscate_json H excl j) ps = Some (q, JStr (H (text v)))).
Proof. exact hidden_or_excluded. Qed.
Print Assumptions C16_hidden_or_excluded.

(* The same in terms of what exclusions denote, for documents whose keys can be
   written in the notations: a leaf is kept verbatim iff some exclusion denotes
   its path or a prefix of it, and is replaced by its hash otherwise. *)
Theorem C16_kept_iff_denoted : forall H excl j ps q v,
  nodup_keys j = true -> clean_keys j = true ->
  descend j ps = Some (q, v) -> is_prim v = true ->
  ((exists e p, In e excl /\ denotes e p /\ is_prefix p q) /\
   descend (obfuscate_json H excl j) ps = Some (q, v))
  \/
  (~ (exists e p, In e excl /\ denotes e p /\ is_prefix p q) /\
   descend (obfuscate_json H excl j) ps = Some (q, JStr (H (text v)))).
Proof. exact kept_iff_denoted. Qed.
Print Assumptions C16_kept_iff_denoted.

(* An exclusion string denotes at most one structured path. *)
Theorem C16_denotation_unique : forall e p p',
  denotes e p -> denotes e p' -> p = p'.
Proof. exact denotes_unique. Qed.
Print Assumptions C16_denotation_unique.

(* No cross exposure: a leaf whose path is not on or under the path denoted by
   any exclusion of the set is replaced by its hash. *)
Theorem C16_no_cross_exposure : forall H excl j ps q v,
  nodup_keys j = true -> clean_keys j = true ->
  descend j ps = Some (q, v) -> is_prim v = true ->
  (forall e p, In e excl -> denotes e p -> ~ is_prefix p q) ->
  descend (obfuscate_json H excl j) ps = Some (q, JStr (H (text v))).
Proof. exact no_cross_exposure. Qed.
Print Assumptions C16_no_cross_exposure.

(* The same for one exclusion written for the path p (either notation): it never
   keeps a leaf at a path that is not p or under p — e.g. a field of the same
   name elsewhere in the document. *)
Theorem C16_no_cross_exposure_single : forall H e p j ps q v,
  denotes e p ->
  nodup_keys j = true -> clean_keys j = true ->
  descend j ps = Some (q, v) -> is_prim v = true ->
  ~ is_prefix p q ->
  descend (obfuscate_json H [e] j) ps = Some (q, JStr (H (text v))).
Proof. exact no_cross_exposure_single. Qed.
Print Assumptions C16_no_cross_exposure_single.

(* HAR collector: exclusions written for the other direction
   (`$.response.body…` while a request body is obfuscated, and conversely) have
   no effect at all. *)
Theorem C16_collector_direction : forall H req excl j,
  collector_body H req excl j =
  collector_body H req
    (filter (fun e => negb (has_prefix (dir_prefix (negb req)) e)) excl) j.
Proof. exact collector_direction. Qed.
Print Assumptions C16_collector_direction.

(* ---- concrete material ---- *)

Definition s_name : bytes := [110;97;109;101].
Definition s_user : bytes := [117;115;101;114].
Definition s_id : bytes := [105;100].
Definition s_items : bytes := [105;116;101;109;115].
(* ".user.name" and "$.request.body.user.name" *)
Definition e_user_name : bytes := [46;117;115;101;114;46;110;97;109;101].
Definition e_user_name_jp : bytes := pre_request ++ e_user_name.

(* {"name":"top","user":{"name":"n","id":7},"items":[{"name":"x"},{"name":null}]} *)
Definition doc : json :=
  JObj [(s_name, JStr [116;111;112]);
        (s_user, JObj [(s_name, JStr [110]); (s_id, JNum [55] [55;46;48;48])]);
        (s_items, JArr [JObj [(s_name, JStr [120])]; JObj [(s_name, JNull)]])].

Definition Hx (t : bytes) : bytes := 35 :: t.

(* The test of the unpatched tree, strings.HasSuffix(path, cursor), violates
   C16_no_cross_exposure: with the single exclusion ".user.name" the top-level
   "name" is kept verbatim although no exclusion denotes a prefix of its path. *)
Theorem C16_suffix_test_exposes :
  exists excl j ps q v,
    nodup_keys j = true /\ clean_keys j = true /\
    descend j ps = Some (q, v) /\ is_prim v = true /\
    (forall e p, In e excl -> denotes e p -> ~ is_prefix p q) /\
    forall H, descend (obfuscate_json_suffix H excl j) ps = Some (q, v).
Proof.
  exists [e_user_name], doc, [0%nat], [PKey s_name], (JStr [116;111;112]).
  repeat split; try reflexivity.
  intros e p [<-|[]] Hden.
  assert (E : p = [PKey s_user; PKey s_name]).
  { apply (denotes_unique e_user_name); [exact Hden|split; reflexivity]. }
  subst p. intros [r Er]. discriminate Er.
Qed.
Print Assumptions C16_suffix_test_exposes.

(* Non-vacuity.  Both notations denote [user; name]; on [doc] the patched walk
   keeps exactly that leaf and hashes the same-named fields elsewhere, numbers
   by their two-decimal text, null by "null". *)
Example C16_denotes_both :
  denotes e_user_name [PKey s_user; PKey s_name] /\
  denotes e_user_name_jp [PKey s_user; PKey s_name].
Proof. split; split; reflexivity. Qed.

Example C16_side_conditions_met : nodup_keys doc = true /\ clean_keys doc = true.
Proof. split; reflexivity. Qed.

Example C16_walk_on_doc :
  obfuscate_json Hx [e_user_name_jp] doc =
  JObj [(s_name, JStr [35;116;111;112]);
        (s_user, JObj [(s_name, JStr [110]); (s_id, JStr [35;55;46;48;48])]);
        (s_items, JArr [JObj [(s_name, JStr [35;120])];
                        JObj [(s_name, JStr [35;110;117;108;108])]])]
  /\ obfuscate_json Hx [e_user_name] doc = obfuscate_json Hx [e_user_name_jp] doc
  /\ descend doc [1%nat; 0%nat] = Some ([PKey s_user; PKey s_name], JStr [110])
  /\ descend doc [2%nat; 1%nat; 0%nat] = Some ([PKey s_items; PAny; PKey s_name], JNull).
Proof. vm_compute. repeat split; reflexivity. Qed.

(* the unpatched test on the same input also keeps the top-level "name" *)
Example C16_suffix_walk_on_doc :
  obfuscate_json_suffix Hx [e_user_name_jp] doc =
  JObj [(s_name, JStr [116;111;112]);
        (s_user, JObj [(s_name, JStr [110]); (s_id, JStr [35;55;46;48;48])]);
        (s_items, JArr [JObj [(s_name, JStr [35;120])];
                        JObj [(s_name, JStr [35;110;117;108;108])]])].
Proof. vm_compute. reflexivity. Qed.

(* collector: a response exclusion does nothing on a request body, a request
   exclusion does *)
Example C16_collector_on_doc :
  collector_body Hx true [pre_response ++ e_user_name] doc = obfuscate_json Hx [] doc
  /\ collector_body Hx true [e_user_name_jp] doc = obfuscate_json Hx [e_user_name] doc
  /\ collector_body Hx true [e_user_name] doc = obfuscate_json Hx [] doc.
Proof. vm_compute. repeat split; reflexivity. Qed.
