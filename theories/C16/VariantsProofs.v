(* C16 — lemmas about the variants of Variants.v.  Final statements: Property.v, Part D. *)
From Coq Require Import List ZArith Bool Lia.
From Verif Require Import C16.Model C16.Spec C16.Proofs C16.ProofsAll C16.Variants.
Import ListNotations.
Open Scope Z_scope.

(* a variant that keeps excluded nodes as they are and hashes every string IS the
   walk of Model.v *)
Lemma obf_v_same : forall v H ex,
  (forall j, keep v j = j) -> (forall s, hash_str v H s = H s) ->
  forall j cur, obf_v v H ex cur j = obf H ex cur j.
Proof.
  intros v H ex Hk Hs.
  induction j as [|b|r t|s|l IH|l IH] using json_ind'; intro cur; simpl;
    try (rewrite Hk; reflexivity).
  - rewrite Hk, Hs. reflexivity.
  - rewrite Hk. destruct (ex cur); [reflexivity|]. f_equal.
    apply map_ext_in. intros x Hx. rewrite Forall_forall in IH. apply IH, Hx.
  - rewrite Hk. destruct (ex cur); [reflexivity|]. do 2 f_equal.
    apply map_ext_in. intros kv Hkv. rewrite Forall_forall in IH.
    rewrite (IH kv Hkv). reflexivity.
Qed.

Lemma obf_v_head : forall H ex j cur, obf_v LHead H ex cur j = obf H ex cur j.
Proof. intros H ex. apply obf_v_same; reflexivity. Qed.

Lemma obfuscate_json_v_head : forall H excl j,
  obfuscate_json_v LHead H excl j = obfuscate_json H excl j.
Proof. intros. apply obf_v_head. Qed.

Lemma obfuscate_json_v_never : forall d H excl j,
  (forall s, d s = false) ->
  obfuscate_json_v (LHashOnce d) H excl j = obfuscate_json H excl j.
Proof.
  intros d H excl j Hd. apply obf_v_same; [reflexivity|].
  intro s. simpl. rewrite Hd. reflexivity.
Qed.

Lemma hides_for_head : hides_for LHead.
Proof.
  intros H excl j ps q w. rewrite obfuscate_json_v_head. apply hiding_all_documents.
Qed.

Lemma keeps_excluded_for_head : keeps_excluded_for LHead.
Proof.
  intros H excl j ps q x. rewrite obfuscate_json_v_head. apply excluded_subtree_verbatim.
Qed.

Lemma descend_prim_root : forall j ps q x,
  is_prim j = true -> descend j ps = Some (q, x) -> ps = [] /\ q = [] /\ x = j.
Proof.
  intros j [|i ps] q x Hp Hd.
  - simpl in Hd. inversion Hd. auto.
  - destruct j; simpl in Hp, Hd; discriminate.
Qed.

(* any detector that accepts at least one string exposes it *)
Lemma hash_once_refuted : forall d s, d s = true -> ~ hides_for (LHashOnce d).
Proof.
  intros d s Hd Hh.
  specialize (Hh (fun t => 0 :: t) [] (JStr s) [] [] (JStr s)).
  unfold obfuscate_json_v in Hh. simpl in Hh. rewrite Hd in Hh.
  destruct (Hh eq_refl eq_refl) as (ps' & x & Hx & _ & Hc).
  apply descend_prim_root in Hx; [|reflexivity]. destruct Hx as (_ & _ & ->).
  destruct Hc as [[(e & p & Hin & _) _] | [_ Hw]].
  - destruct Hin.
  - simpl in Hw. injection Hw as Hw. apply (f_equal (@length Z)) in Hw. simpl in Hw. lia.
Qed.

Lemma hash_once_hides_iff : forall d,
  hides_for (LHashOnce d) <-> (forall s, d s = false).
Proof.
  intro d. split.
  - intros Hh s. destruct (d s) eqn:E; [|reflexivity].
    exfalso. exact (hash_once_refuted d s E Hh).
  - intros Hd H excl j ps q w. rewrite obfuscate_json_v_never by exact Hd.
    apply hiding_all_documents.
Qed.

(* any re-printing of number tokens that changes at least one token breaks
   "kept verbatim" *)
Lemma rebuild_excluded_refuted : forall r tok,
  r tok <> tok -> ~ keeps_excluded_for (LRebuildExcluded r).
Proof.
  intros r tok Hr Hk.
  specialize (Hk (fun t => t) [[]] (JNum tok []) [] [] (JNum tok []) eq_refl eq_refl).
  assert (Hex : on_excluded [[]] []).
  { exists [], []. split; [left; reflexivity|]. split; [exists []; reflexivity|reflexivity]. }
  specialize (Hk Hex). unfold obfuscate_json_v in Hk. simpl in Hk.
  injection Hk as Hk. exact (Hr Hk).
Qed.
