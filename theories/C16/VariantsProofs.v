(* C16 — lemmas about the variants of Variants.v.  Final statements: Property.v, Part D. *)
From Coq Require Import List ZArith Bool Lia.
From Verif Require Import C16.Model C16.Spec C16.Proofs C16.ProofsAll C16.Variants.
From Verif Require Import C16.Export C16.ExportSpec C16.ExportProofs.
Import ListNotations.
Open Scope Z_scope.

(* a variant that keeps excluded nodes as they are and hashes every string IS the
   walk of Model.v *)
Lemma obf_v_same : forall v H ex,
  (forall j, keep v j = j) -> (forall s, hash_str v H s = H s) ->
  forall j cur, obf_v v H ex cur j = obf H ex cur j.
Proof.
  intros v H ex Hk Hs.
  induction j as [|b|r t|s|l IH|l IH] using json_ind'; intro cur; simpl;
    try (rewrite Hk; reflexivity).
  - rewrite Hk, Hs. reflexivity.
  - rewrite Hk. destruct (ex cur); [reflexivity|]. f_equal.
    apply map_ext_in. intros x Hx. rewrite Forall_forall in IH. apply IH, Hx.
  - rewrite Hk. destruct (ex cur); [reflexivity|]. do 2 f_equal.
    apply map_ext_in. intros kv Hkv. rewrite Forall_forall in IH.
    rewrite (IH kv Hkv). reflexivity.
Qed.

Lemma obf_v_head : forall H ex j cur, obf_v LHead H ex cur j = obf H ex cur j.
Proof. intros H ex. apply obf_v_same; reflexivity. Qed.

Lemma obfuscate_json_v_head : forall H excl j,
  obfuscate_json_v LHead H excl j = obfuscate_json H excl j.
Proof. intros. apply obf_v_head. Qed.

Lemma obfuscate_json_v_never : forall d H excl j,
  (forall s, d s = false) ->
  obfuscate_json_v (LHashOnce d) H excl j = obfuscate_json H excl j.
Proof.
  intros d H excl j Hd. apply obf_v_same; [reflexivity|].
  intro s. simpl. rewrite Hd. reflexivity.
Qed.

Lemma hides_for_head : hides_for LHead.
Proof.
  intros H excl j ps q w. rewrite obfuscate_json_v_head. apply hiding_all_documents.
Qed.

Lemma keeps_excluded_for_head : keeps_excluded_for LHead.
Proof.
  intros H excl j ps q x. rewrite obfuscate_json_v_head. apply excluded_subtree_verbatim.
Qed.

Lemma descend_prim_root : forall j ps q x,
  is_prim j = true -> descend j ps = Some (q, x) -> ps = [] /\ q = [] /\ x = j.
Proof.
  intros j [|i ps] q x Hp Hd.
  - simpl in Hd. inversion Hd. auto.
  - destruct j; simpl in Hp, Hd; discriminate.
Qed.

(* any detector that accepts at least one string exposes it.  Witness (Audit 2:
   a natural one, not a root leaf): the document {"id": s}, no exclusion; the
   leaf at position [0], path [id]. *)
Definition k_id : bytes := [105;100].

Lemma descend_single : forall k v ps q x,
  is_prim v = true -> descend (JObj [(k, v)]) ps = Some (q, x) -> is_prim x = true ->
  q = [PKey k] /\ x = v.
Proof.
  intros k v ps q x Hv Hd Hx.
  destruct ps as [|i ps].
  - simpl in Hd. inversion Hd; subst. discriminate Hx.
  - destruct i as [|i].
    + simpl in Hd. destruct (descend v ps) as [[p w]|] eqn:E; [|discriminate Hd].
      apply descend_prim_root in E; [|exact Hv]. destruct E as (_ & -> & ->).
      inversion Hd; subst. split; reflexivity.
    + simpl in Hd. destruct i; discriminate Hd.
Qed.

Lemma hash_once_refuted : forall d s, d s = true -> ~ hides_for (LHashOnce d).
Proof.
  intros d s Hd Hh.
  specialize (Hh (fun t => 0 :: t) [] (JObj [(k_id, JStr s)]) [0%nat] [PKey k_id] (JStr s)).
  unfold obfuscate_json_v in Hh. simpl in Hh. rewrite Hd in Hh.
  destruct (Hh eq_refl eq_refl) as (ps' & x & Hx & Hp & Hc).
  apply descend_single in Hx; [|reflexivity|exact Hp]. destruct Hx as (_ & ->).
  destruct Hc as [[(e & p & Hin & _) _] | [_ Hw]].
  - destruct Hin.
  - simpl in Hw. injection Hw as Hw. apply (f_equal (@length Z)) in Hw. simpl in Hw. lia.
Qed.

Lemma hash_once_hides_iff : forall d,
  hides_for (LHashOnce d) <-> (forall s, d s = false).
Proof.
  intro d. split.
  - intros Hh s. destruct (d s) eqn:E; [|reflexivity].
    exfalso. exact (hash_once_refuted d s E Hh).
  - intros Hd H excl j ps q w. rewrite obfuscate_json_v_never by exact Hd.
    apply hiding_all_documents.
Qed.

(* any re-printing of number tokens that changes at least one token breaks
   "kept verbatim".  Witness (Audit 2: a natural one): the document {"id": tok}
   with the exclusion ".id"; the node at position [0], path [id]. *)
Definition e_dot_id : bytes := [46;105;100].

Lemma rebuild_excluded_refuted : forall r tok,
  r tok <> tok -> ~ keeps_excluded_for (LRebuildExcluded r).
Proof.
  intros r tok Hr Hk.
  specialize (Hk (fun t => t) [e_dot_id] (JObj [(k_id, JNum tok [])]) [0%nat] [PKey k_id]
                 (JNum tok []) eq_refl eq_refl).
  assert (Hex : on_excluded [e_dot_id] [PKey k_id]).
  { apply on_excluded_iff. reflexivity. }
  specialize (Hk Hex). unfold obfuscate_json_v in Hk. simpl in Hk.
  injection Hk as Hk. exact (Hr Hk).
Qed.

(* ---- the call sites as a whole with the switch (Audit 2, item 22) ---- *)

Lemma obfuscate_body_v_same : forall v H en rq excl body parsed,
  (forall j, keep v j = j) -> (forall s, hash_str v H s = H s) ->
  obfuscate_body_v v H en rq excl body parsed = obfuscate_body H en rq excl body parsed.
Proof.
  intros v H en rq excl body parsed Hk Hs.
  unfold obfuscate_body_v, obfuscate_body, collector_body, obfuscate_json_v, obfuscate_json.
  destruct (negb en); [reflexivity|]. destruct body as [|b body']; [reflexivity|].
  destruct parsed as [j|]; [|rewrite Hs; reflexivity].
  rewrite (obf_v_same v H _ Hk Hs). reflexivity.
Qed.

Lemma obfuscate_body_v_head : forall H en rq excl body parsed,
  obfuscate_body_v LHead H en rq excl body parsed = obfuscate_body H en rq excl body parsed.
Proof. intros. apply obfuscate_body_v_same; reflexivity. Qed.

Lemma plugin_body_v_head : forall H en excl body parsed,
  plugin_body_v LHead H en excl body parsed = plugin_body H en excl body parsed.
Proof.
  intros H en excl body parsed. unfold plugin_body_v, plugin_body.
  destruct (negb en); [reflexivity|]. destruct parsed as [j|]; [|reflexivity].
  rewrite obfuscate_json_v_head. reflexivity.
Qed.

Lemma body_hides_head : body_hides obfuscate_body.
Proof.
  intros H request excl s.
  pose proof (har_body_head_hidden H (mkConfig None true excl) request s eq_refl) as Hh.
  rewrite har_body_head in Hh. exact Hh.
Qed.

Lemma body_hides_ext : forall f g,
  (forall H rq excl body parsed, f H true rq excl body parsed = g H true rq excl body parsed) ->
  body_hides g -> body_hides f.
Proof. intros f g E Hg H request excl s. rewrite E. apply Hg. Qed.

Lemma body_hides_v_head : body_hides (obfuscate_body_v LHead).
Proof.
  apply (body_hides_ext _ obfuscate_body); [|exact body_hides_head].
  intros. apply obfuscate_body_v_head.
Qed.

(* the detector on the TEXT path (ObfuscateString of the seeded change C16-9): a
   non-empty body that does not parse and that the detector accepts leaves as it is *)
Lemma hash_once_text_refuted : forall d s,
  s <> [] -> d s = true -> ~ body_hides (obfuscate_body_v (LHashOnce d)).
Proof.
  intros d s Hn Hd Hb.
  specialize (Hb (fun t => 0 :: t) true [] (mkSide None EncNone s None None)).
  destruct s as [|c s']; [congruence|].
  unfold hidden_body, obfuscate_body_v in Hb. cbn in Hb. rewrite Hd in Hb.
  destruct Hb as [[E _]|[_ E]]; [discriminate E|].
  apply (f_equal (@length Z)) in E. simpl in E. lia.
Qed.

(* ... and on the JSON path of the same call site (any accepted string, the
   empty one included) *)
Lemma not_hidden_self : forall s,
  ~ leaves_hidden (fun t => 0 :: t) [] (JStr s) (JStr s).
Proof.
  intros s Hl.
  destruct (Hl [] [] (JStr s) eq_refl eq_refl) as (ps' & x & Hx & _ & Hc).
  apply descend_prim_root in Hx; [|reflexivity]. destruct Hx as (_ & _ & ->).
  destruct Hc as [[(e & p & Hin & _) _] | [_ Hw]].
  - destruct Hin.
  - simpl in Hw. injection Hw as Hw. apply (f_equal (@length Z)) in Hw. simpl in Hw. lia.
Qed.

Lemma hash_once_body_refuted : forall d s,
  d s = true -> ~ body_hides (obfuscate_body_v (LHashOnce d)).
Proof.
  intros d s Hd Hb.
  specialize (Hb (fun t => 0 :: t) true [] (mkSide None EncNone [0] (Some (JStr s)) None)).
  unfold hidden_body, obfuscate_body_v, obfuscate_json_v in Hb. cbn in Hb. rewrite Hd in Hb.
  destruct Hb as [_ (j & Ej & Hl)]. injection Ej as <-.
  exact (not_hidden_self s Hl).
Qed.

Lemma hash_once_body_hides_iff : forall d,
  body_hides (obfuscate_body_v (LHashOnce d)) <-> (forall s, d s = false).
Proof.
  intro d. split.
  - intros Hb s. destruct (d s) eqn:E; [|reflexivity].
    exfalso. exact (hash_once_body_refuted d s E Hb).
  - intro Hd. apply (body_hides_ext _ obfuscate_body); [|exact body_hides_head].
    intros. apply obfuscate_body_v_same; [reflexivity|].
    intro s. simpl. rewrite Hd. reflexivity.
Qed.

(* ---- seeded change C16-12: the "whole body excluded" fast path ---- *)

(* witness: response exclusion `$.response.body[]` (the items of a ROOT ARRAY),
   response body {"a":"s"} - an object: nothing of it lies on or under "[]" *)
Definition e_resp_items : bytes := pre_response ++ [c_lbr; c_rbr].

Lemma fast_path_refuted : ~ body_hides obfuscate_body_fast.
Proof.
  intro Hb.
  specialize (Hb (fun _ => []) false [e_resp_items]
                 (mkSide None EncNone [0] (Some (JObj [([97], JStr [115])])) None)).
  unfold hidden_body in Hb. cbn in Hb.
  destruct Hb as [_ (j & Ej & Hl)]. injection Ej as <-.
  destruct (Hl [0%nat] [PKey [97]] (JStr [115]) eq_refl eq_refl)
    as (ps' & x & _ & _ & [[Hex _]|[_ Ew]]).
  - apply on_excluded_iff in Hex. vm_compute in Hex. discriminate Hex.
  - discriminate Ew.
Qed.

(* the fast path is /repo wherever it does not fire *)
Lemma fast_path_same_when_not_fired : forall H en rq excl body parsed,
  whole_body_excluded rq excl = false ->
  obfuscate_body_fast H en rq excl body parsed = obfuscate_body H en rq excl body parsed.
Proof.
  intros H en rq excl body parsed Hw. unfold obfuscate_body_fast. rewrite Hw.
  unfold obfuscate_body. destruct (negb en); [reflexivity|].
  destruct body; reflexivity.
Qed.
