(* C16 — model of the WHOLE export path of the HAR collector
   (streams/processors/har-collector/har_collector.go, harCollectorProcessor.Execute):

     harObject := generateHAR(apiStream)          -- both bodies: ensureDecompressedBody,
                                                     then apiStreamObfuscator.Obfuscate*Body
     ensureTransactionSize(harObject)             -- the size decision
     exportHAR(harObject)                         -- one Write to the file exporter

   The size decision as coded at HEAD reads the DECLARED sizes only:
     size = Request.BodySize + Response.Size, both = extractSize(headers)
          = strconv.Atoi(headers["content-length"]), 0 when the header is absent
            or not a number;
     dropped iff size > transactionMaxSize   (0 when transaction_max_size_bytes
                                              is not among the parameters).
   It never looks at the bodies that are put into the HAR (decompressed ones).

   What is outside the model is an input of it: the result of strconv.Atoi on the
   header, whether the content-encoding header is gzip (case-insensitively),
   the result of compression.DecompressGZip on the wire body, whether a body
   parses.  Definitions only. *)
From Coq Require Import List ZArith Bool.
From Verif Require Import C16.Model.
Import ListNotations.
Open Scope Z_scope.

(* the content-encoding header of one message: absent or "" / "gzip" in any case /
   anything else *)
Inductive encoding := EncNone | EncGzip | EncOther.

(* one message (request or response) as the collector sees it *)
Record side := mkSide {
  s_clen : option Z;                 (* Atoi(content-length): None = absent or not a number *)
  s_enc : encoding;
  s_raw : bytes;                     (* the body as received *)
  s_raw_parsed : option json;        (* does it parse *)
  s_gunzip : option (bytes * option json)  (* DecompressGZip(raw): None = error; text, parse *)
}.

(* extractSize(headers) *)
Definition extract_size (s : side) : Z :=
  match s_clen s with Some n => n | None => 0 end.

(* ensureDecompressedBody(rawBody, contentEncHeaderValue), with the parse of the
   result: the body that is obfuscated and put into the HAR *)
Definition effective (s : side) : bytes * option json :=
  match s_enc s with
  | EncGzip => match s_gunzip s with
               | Some d => d
               | None => (s_raw s, s_raw_parsed s)
               end
  | _ => (s_raw s, s_raw_parsed s)
  end.

Record config := mkConfig {
  c_max : option Z;                  (* transaction_max_size_bytes; None = not given *)
  c_enabled : bool;                  (* obfuscate_enabled *)
  c_excl : list bytes                (* obfuscate_exclusions *)
}.

Definition max_size (c : config) : Z :=
  match c_max c with Some n => n | None => 0 end.

(* ensureTransactionSize: size > p.transactionMaxSize *)
Definition declared_size (rq rs : side) : Z := extract_size rq + extract_size rs.
Definition too_large (c : config) (rq rs : side) : bool :=
  max_size c <? declared_size rq rs.

(* Variants of buildHARBody.
   VHead          = /repo: obfuscationFunc(ensureDecompressedBody(raw, enc)).
   VSkipOversize  = seeded change C16-8: a body that is, on its own, longer than a
                    configured (> 0) limit is returned as it is, "because the
                    transaction is dropped anyway" — but the drop decision reads
                    the declared sizes. *)
Inductive variant := VHead | VSkipOversize.

Definition blen (b : bytes) : Z := Z.of_nat (length b).

Definition exceeds (c : config) (body : bytes) : bool :=
  (0 <? max_size c) && (max_size c <? blen body).

(* a body that leaves as it is: the document when it is one *)
Definition verbatim (body : bytes) (parsed : option json) : body_out :=
  match parsed with Some j => OutJson j | None => OutText body end.

Definition har_body (v : variant) (H : bytes -> bytes) (c : config) (request : bool)
           (s : side) : body_out :=
  let '(body, parsed) := effective s in
  match v with
  | VHead => obfuscate_body H (c_enabled c) request (c_excl c) body parsed
  | VSkipOversize =>
      if exceeds c body then verbatim body parsed
      else obfuscate_body H (c_enabled c) request (c_excl c) body parsed
  end.

(* Execute: what is handed to the exporter — nothing, or one record with the
   request body and the response body of the entry *)
Definition execute (v : variant) (H : bytes -> bytes) (c : config) (rq rs : side)
  : list (body_out * body_out) :=
  if too_large c rq rs then []
  else [(har_body v H c true rq, har_body v H c false rs)].

(* ---- correspondence entry point (suite export) ---- *)

(* an exported body as the harness reads it back: a JSON document when the body
   that went in was one and the exported text parses, the text otherwise *)
Inductive obs_body := ObsText (t : bytes) | ObsJson (j : json).

Definition body_eqb (m : body_out) (o : obs_body) : bool :=
  match m, o with
  | OutText t, ObsText t' => beq t t'
  | OutJson j, ObsJson j' => json_eqb j j'
  | _, _ => false
  end.

Fixpoint records_eqb (m : list (body_out * body_out)) (o : list (obs_body * obs_body))
  : bool :=
  match m, o with
  | [], [] => true
  | x :: m', y :: o' =>
      body_eqb (fst x) (fst y) && body_eqb (snd x) (snd y) && records_eqb m' o'
  | _, _ => false
  end.

Record case_export := mkExport {
  x_cfg : config;
  x_req : side;
  x_resp : side;
  x_tbl : list (bytes * bytes);      (* hash table: text -> digest *)
  x_obs : list (obs_body * obs_body) (* the records the exporter received *)
}.

Definition run_export (k : case_export) : option (list (body_out * body_out)) :=
  let out := execute VHead (lookup (x_tbl k)) (x_cfg k) (x_req k) (x_resp k) in
  if records_eqb out (x_obs k) then None else Some out.
