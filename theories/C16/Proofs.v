(* C16 — lemmas.  Final statements are in Property.v. *)
From Coq Require Import List ZArith Bool Lia.
From Verif Require Import C16.Model C16.Spec.
Import ListNotations.
Open Scope Z_scope.

(* ------------------------------------------------------------------ *)
(* induction principle for the nested inductive                        *)

Section JsonInd.
  Variable P : json -> Prop.
  Hypothesis HNull : P JNull.
  Hypothesis HBool : forall b, P (JBool b).
  Hypothesis HNum : forall r t, P (JNum r t).
  Hypothesis HStr : forall s, P (JStr s).
  Hypothesis HArr : forall l, Forall P l -> P (JArr l).
  Hypothesis HObj : forall l, Forall (fun kv => P (snd kv)) l -> P (JObj l).

  Fixpoint json_ind' (j : json) : P j :=
    match j with
    | JNull => HNull
    | JBool b => HBool b
    | JNum r t => HNum r t
    | JStr s => HStr s
    | JArr l =>
        HArr l ((fix go (l : list json) : Forall P l :=
                   match l with
                   | [] => Forall_nil P
                   | x :: l' => Forall_cons x (json_ind' x) (go l')
                   end) l)
    | JObj l =>
        HObj l ((fix go (l : list (bytes * json))
                 : Forall (fun kv => P (snd kv)) l :=
                   match l with
                   | [] => Forall_nil _
                   | kv :: l' =>
                       Forall_cons (P := fun kv => P (snd kv)) kv
                                   (match kv return P (snd kv) with
                                    | (k, v) => json_ind' v
                                    end) (go l')
                   end) l)
    end.
End JsonInd.

(* ------------------------------------------------------------------ *)
(* byte strings                                                        *)

Lemma beq_eq : forall a b, beq a b = true <-> a = b.
Proof.
  induction a as [|x a IH]; destruct b as [|y b]; simpl; split; intro E;
    try reflexivity; try discriminate.
  - apply andb_true_iff in E. destruct E as [E1 E2].
    apply Z.eqb_eq in E1. apply IH in E2. subst. reflexivity.
  - inversion E; subst. rewrite Z.eqb_refl. simpl. apply IH. reflexivity.
Qed.

Lemma beq_refl : forall a, beq a a = true.
Proof. intro a. apply beq_eq. reflexivity. Qed.

Lemma cut_prefix_spec : forall p s r, cut_prefix p s = Some r <-> s = p ++ r.
Proof.
  induction p as [|c p IH]; intros s r; simpl.
  - split; intro E; [inversion E|subst]; reflexivity.
  - destruct s as [|d s].
    + split; intro E; discriminate.
    + destruct (c =? d) eqn:Ecd.
      * apply Z.eqb_eq in Ecd. subst d. rewrite IH. split; intro E.
        -- subst. reflexivity.
        -- inversion E. reflexivity.
      * apply Z.eqb_neq in Ecd. split; intro E; [discriminate|].
        inversion E. congruence.
Qed.

Lemma mem_cons : forall k x l, mem k (x :: l) = beq k x || mem k l.
Proof. reflexivity. Qed.

(* ------------------------------------------------------------------ *)
(* cursors                                                             *)

Lemma cursor_app : forall p q, cursor (p ++ q) = cursor p ++ cursor q.
Proof.
  induction p as [|s p IH]; intro q; simpl; [reflexivity|].
  rewrite IH, app_assoc. reflexivity.
Qed.

(* a cursor is empty or starts with '.' or '[' *)
Definition boundary (r : bytes) : Prop :=
  r = [] \/ exists c r', r = c :: r' /\ (c = c_dot \/ c = c_lbr).

Lemma cursor_boundary : forall p, boundary (cursor p).
Proof.
  destruct p as [|s p]; [left; reflexivity|right].
  destruct s as [k|]; simpl.
  - exists c_dot, (k ++ cursor p). split; [reflexivity|left; reflexivity].
  - exists c_lbr, (c_rbr :: cursor p). split; [reflexivity|right; reflexivity].
Qed.

Lemma body_path_cursor : forall p, body_path (cursor p) = cursor p.
Proof.
  intro p. destruct (cursor_boundary p) as [E|[c [r [E [Hc|Hc]]]]];
    rewrite E; subst; reflexivity.
Qed.

Lemma prefixes_disjoint : forall e r r',
  cut_prefix pre_request e = Some r -> cut_prefix pre_response e = Some r' -> False.
Proof.
  intros e r r' E1 E2.
  apply cut_prefix_spec in E1. apply cut_prefix_spec in E2.
  rewrite E1 in E2. unfold pre_request, pre_response in E2. simpl in E2.
  discriminate E2.
Qed.

(* the test of the patched code on a real cursor = "some exclusion has this
   cursor as its body-relative text" *)
Lemma excluded_fixed_iff : forall excl p,
  excluded_fixed excl (cursor p) = true <->
  exists e, In e excl /\ body_path e = cursor p.
Proof.
  intros excl p. unfold excluded_fixed. rewrite orb_true_iff. split.
  - intros [E|E]; apply existsb_exists in E; destruct E as [e [Hin E]];
      exists e; split; try exact Hin.
    + apply beq_eq in E. subst e. apply body_path_cursor.
    + unfold body_prefixes in E. cbn [existsb] in E. rewrite orb_false_r in E.
      apply orb_true_iff in E. unfold body_path. destruct E as [E|E].
      * destruct (cut_prefix pre_request e) as [r|]; [|discriminate].
        apply beq_eq in E. exact E.
      * destruct (cut_prefix pre_response e) as [r'|] eqn:E2; [|discriminate].
        destruct (cut_prefix pre_request e) as [r|] eqn:E1.
        -- exfalso. exact (prefixes_disjoint e r r' E1 E2).
        -- apply beq_eq in E. exact E.
  - intros [e [Hin E]]. unfold body_path in E.
    destruct (cut_prefix pre_request e) as [r|] eqn:E1.
    + right. apply existsb_exists. exists e. split; [exact Hin|].
      unfold body_prefixes. cbn [existsb]. rewrite E1. subst r. rewrite beq_refl.
      reflexivity.
    + destruct (cut_prefix pre_response e) as [r|] eqn:E2.
      * right. apply existsb_exists. exists e. split; [exact Hin|].
        unfold body_prefixes. cbn [existsb]. rewrite E1, E2. subst r.
        rewrite beq_refl. reflexivity.
      * left. apply existsb_exists. exists e. split; [exact Hin|].
        subst e. apply beq_refl.
Qed.

(* ------------------------------------------------------------------ *)
(* objects without repeated keys                                       *)

Lemma first_per_key_id : forall o seen,
  nodupb (map fst o) = true ->
  (forall k, mem k seen = true -> mem k (map fst o) = false) ->
  first_per_key seen o = o.
Proof.
  induction o as [|kv o IH]; intros seen Hnd Hdis; simpl; [reflexivity|].
  simpl in Hnd. apply andb_true_iff in Hnd. destruct Hnd as [Hk Hnd].
  apply negb_true_iff in Hk.
  destruct (mem (fst kv) seen) eqn:Hm.
  - apply Hdis in Hm. simpl in Hm. rewrite beq_refl in Hm. discriminate.
  - f_equal. apply IH; [exact Hnd|]. intros k Hks.
    rewrite mem_cons in Hks. apply orb_true_iff in Hks. destruct Hks as [Hks|Hks].
    + apply beq_eq in Hks. subst k. exact Hk.
    + apply Hdis in Hks. simpl in Hks. apply orb_false_iff in Hks. apply Hks.
Qed.

Lemma first_per_key_nodup : forall o,
  nodupb (map fst o) = true -> first_per_key [] o = o.
Proof. intros o Hnd. apply first_per_key_id; [exact Hnd|]. intros k Hk. discriminate. Qed.

Section WalkFacts.
  Variable H : bytes -> bytes.
  Variable ex : bytes -> bool.

  Lemma obf_excluded : forall c j, ex c = true -> obf H ex c j = j.
  Proof. intros c j E. destruct j; simpl; rewrite E; reflexivity. Qed.

  Lemma obf_arr : forall c l, ex c = false ->
    obf H ex c (JArr l) = JArr (map (obf H ex (c ++ [c_lbr; c_rbr])) l).
  Proof. intros c l E. simpl. rewrite E. reflexivity. Qed.

  Lemma obf_obj : forall c l, ex c = false -> nodupb (map fst l) = true ->
    obf H ex c (JObj l) =
    JObj (map (fun kv => (fst kv, obf H ex (c ++ c_dot :: fst kv) (snd kv))) l).
  Proof.
    intros c l E Hnd. simpl. rewrite E. f_equal. apply first_per_key_nodup.
    rewrite map_map. simpl. exact Hnd.
  Qed.

  Lemma obf_prim : forall c v, is_prim v = true ->
    obf H ex c v = if ex c then v else JStr (H (text v)).
  Proof.
    intros c v Hp. destruct v as [|b|r t|s|l|l]; simpl in *; try discriminate;
      destruct (ex c); try reflexivity. destruct b; reflexivity.
  Qed.

  (* ---------------------------------------------------------------- *)
  (* shape                                                            *)

  Lemma shape_obf : forall j c, nodup_keys j = true ->
    shape_of (obf H ex c j) = shape_of j.
  Proof.
    induction j as [|b|r t|s|l IH|l IH] using json_ind'; intros c Hnd;
      destruct (ex c) eqn:E;
      try (rewrite obf_excluded by exact E; reflexivity);
      try (simpl; rewrite E; try destruct b; reflexivity).
    - rewrite obf_arr by exact E. simpl. f_equal. rewrite map_map.
      apply map_ext_in. intros x Hin. simpl in Hnd.
      rewrite Forall_forall in IH. apply IH; [exact Hin|].
      rewrite forallb_forall in Hnd. apply Hnd. exact Hin.
    - simpl in Hnd. apply andb_true_iff in Hnd. destruct Hnd as [Hk Hnd].
      rewrite obf_obj by assumption. simpl. f_equal. rewrite map_map.
      apply map_ext_in. intros kv Hin. simpl. f_equal.
      rewrite Forall_forall in IH. apply IH; [exact Hin|].
      rewrite forallb_forall in Hnd. apply Hnd. exact Hin.
  Qed.

  (* ---------------------------------------------------------------- *)
  (* what the walk leaves at a given position                          *)

  (* some proper prefix pre, pre+1, ... of pre ++ q (q itself excluded) passes
     the exclusion test *)
  Fixpoint excl_strict (pre q : path) : bool :=
    match q with
    | [] => false
    | s :: q' => ex (cursor pre) || excl_strict (pre ++ [s]) q'
    end.

  (* the same, pre ++ q included *)
  Fixpoint excl_upto (pre q : path) : bool :=
    ex (cursor pre)
    || match q with [] => false | s :: q' => excl_upto (pre ++ [s]) q' end.

  Lemma excl_upto_strict : forall q pre,
    excl_strict pre q || ex (cursor (pre ++ q)) = excl_upto pre q.
  Proof.
    induction q as [|s q IH]; intro pre; simpl.
    - rewrite app_nil_r, orb_false_r. reflexivity.
    - rewrite <- IH, <- app_assoc. simpl. rewrite orb_assoc. reflexivity.
  Qed.

  Lemma excl_upto_spec : forall q pre,
    excl_upto pre q = true <->
    exists p r, q = p ++ r /\ ex (cursor (pre ++ p)) = true.
  Proof.
    induction q as [|s q IH]; intro pre; simpl.
    - rewrite orb_false_r. split.
      + intro E. exists [], []. rewrite (app_nil_r pre). split; [reflexivity|exact E].
      + intros [p [r [E1 E2]]]. symmetry in E1. apply app_eq_nil in E1.
        destruct E1; subst. rewrite app_nil_r in E2. exact E2.
    - rewrite orb_true_iff, IH. split.
      + intros [E|[p [r [E1 E2]]]].
        * exists [], (s :: q). rewrite (app_nil_r pre). split; [reflexivity|exact E].
        * exists (s :: p), r. subst q. split; [reflexivity|].
          rewrite <- app_assoc in E2. exact E2.
      + intros [p [r [E1 E2]]]. destruct p as [|s' p].
        * left. rewrite app_nil_r in E2. exact E2.
        * right. simpl in E1. inversion E1; subst. exists p, r.
          split; [reflexivity|]. rewrite <- app_assoc. exact E2.
  Qed.

  Lemma nodup_child : forall j i s x,
    nodup_keys j = true -> child j i = Some (s, x) -> nodup_keys x = true.
  Proof.
    intros j i s x Hnd Hc. destruct j as [| | | |l|l]; simpl in Hc; try discriminate.
    - destruct (nth_error l i) as [y|] eqn:Hn; simpl in Hc; [|discriminate].
      inversion Hc; subst. simpl in Hnd. rewrite forallb_forall in Hnd.
      apply Hnd. eapply nth_error_In. exact Hn.
    - destruct (nth_error l i) as [kv|] eqn:Hn; simpl in Hc; [|discriminate].
      inversion Hc; subst. simpl in Hnd. apply andb_true_iff in Hnd.
      destruct Hnd as [_ Hnd]. rewrite forallb_forall in Hnd.
      apply (Hnd kv). eapply nth_error_In. exact Hn.
  Qed.

  Lemma descend_obf : forall ps j pre q v,
    nodup_keys j = true ->
    descend j ps = Some (q, v) ->
    descend (obf H ex (cursor pre) j) ps =
    Some (q, if excl_strict pre q then v else obf H ex (cursor (pre ++ q)) v).
  Proof.
    induction ps as [|i ps IH]; intros j pre q v Hnd Hd.
    - simpl in Hd. inversion Hd; subst. simpl. rewrite app_nil_r. reflexivity.
    - simpl in Hd. destruct (child j i) as [[s x]|] eqn:Hc; [|discriminate].
      destruct (descend x ps) as [[p' v']|] eqn:Hd'; [|discriminate].
      inversion Hd; subst q v'. clear Hd.
      assert (Hndx : nodup_keys x = true) by (eapply nodup_child; eauto).
      cbn [excl_strict]. destruct (ex (cursor pre)) eqn:Hex.
      + rewrite obf_excluded by exact Hex. simpl. rewrite Hc, Hd'. reflexivity.
      + specialize (IH x (pre ++ [s]) p' v Hndx Hd').
        rewrite <- app_assoc in IH. simpl in IH.
        rewrite cursor_app in IH. simpl in IH. rewrite app_nil_r in IH.
        destruct j as [| | | |l|l]; simpl in Hc; try discriminate.
        * destruct (nth_error l i) as [y|] eqn:Hn; simpl in Hc; [|discriminate].
          inversion Hc; subst s y. clear Hc.
          rewrite obf_arr by exact Hex. cbn [descend child].
          rewrite (map_nth_error _ _ _ Hn). cbn [option_map].
          cbn [render] in IH. rewrite IH. simpl. reflexivity.
        * destruct (nth_error l i) as [[k y]|] eqn:Hn; simpl in Hc; [|discriminate].
          inversion Hc; subst s y. clear Hc.
          simpl in Hnd. apply andb_true_iff in Hnd. destruct Hnd as [Hk _].
          rewrite obf_obj by assumption. cbn [descend child].
          rewrite (map_nth_error _ _ _ Hn). cbn [option_map fst snd].
          cbn [render] in IH. rewrite IH. simpl. reflexivity.
  Qed.

  Lemma descend_obf_prim : forall ps j q v,
    nodup_keys j = true -> descend j ps = Some (q, v) -> is_prim v = true ->
    descend (obf H ex [] j) ps =
    Some (q, if excl_upto [] q then v else JStr (H (text v))).
  Proof.
    intros ps j q v Hnd Hd Hp.
    pose proof (descend_obf ps j [] q v Hnd Hd) as E. simpl in E. rewrite E.
    rewrite <- excl_upto_strict. simpl.
    destruct (excl_strict [] q); [reflexivity|]. simpl.
    rewrite obf_prim by exact Hp. reflexivity.
  Qed.
End WalkFacts.

(* ------------------------------------------------------------------ *)
(* on_excluded is what the patched walk computes                       *)

Lemma on_excluded_iff : forall excl q,
  excl_upto (excluded_fixed excl) [] q = true <-> on_excluded excl q.
Proof.
  intros excl q. rewrite excl_upto_spec. unfold on_excluded, is_prefix. split.
  - intros [p [r [E1 E2]]]. simpl in E2. apply excluded_fixed_iff in E2.
    destruct E2 as [e [Hin E2]]. exists e, p. split; [exact Hin|].
    split; [exists r; exact E1|symmetry; exact E2].
  - intros [e [p [Hin [[r E1] E2]]]]. exists p, r. split; [exact E1|].
    simpl. apply excluded_fixed_iff. exists e. split; [exact Hin|].
    symmetry. exact E2.
Qed.

Lemma hidden_or_excluded : forall H excl j ps q v,
  nodup_keys j = true -> descend j ps = Some (q, v) -> is_prim v = true ->
  (on_excluded excl q /\
   descend (obfuscate_json H excl j) ps = Some (q, v))
  \/
  (~ on_excluded excl q /\
   descend (obfuscate_json H excl j) ps = Some (q, JStr (H (text v)))).
Proof.
  intros H excl j ps q v Hnd Hd Hp. unfold obfuscate_json.
  rewrite (descend_obf_prim H (excluded_fixed excl) ps j q v Hnd Hd Hp).
  destruct (excl_upto (excluded_fixed excl) [] q) eqn:E.
  - left. split; [apply on_excluded_iff; exact E|reflexivity].
  - right. split; [|reflexivity]. intro C. apply on_excluded_iff in C.
    rewrite C in E. discriminate.
Qed.

(* ------------------------------------------------------------------ *)
(* clean keys: the notation is unambiguous                             *)

Lemma clean_key_cons : forall a k, clean_key (a :: k) = true ->
  a <> c_dot /\ a <> c_lbr /\ clean_key k = true.
Proof.
  intros a k E. unfold clean_key in E. simpl in E.
  apply andb_true_iff in E. destruct E as [E1 E2].
  apply andb_true_iff in E1. destruct E1 as [E1 E3].
  apply negb_true_iff in E1. apply negb_true_iff in E3.
  apply Z.eqb_neq in E1. apply Z.eqb_neq in E3. auto.
Qed.

Lemma key_split : forall k k' r r',
  clean_key k = true -> clean_key k' = true -> boundary r -> boundary r' ->
  k ++ r = k' ++ r' -> k = k' /\ r = r'.
Proof.
  induction k as [|a k IH]; intros k' r r' Hk Hk' Hr Hr' E.
  - destruct k' as [|c k']; [split; [reflexivity|exact E]|]. exfalso.
    simpl in E. apply clean_key_cons in Hk'. destruct Hk' as [H1 [H2 _]].
    destruct Hr as [Hr|[c' [r0 [Hr [Hc|Hc]]]]]; subst r; try discriminate;
      inversion E; congruence.
  - destruct k' as [|c k'].
    + exfalso. simpl in E. apply clean_key_cons in Hk. destruct Hk as [H1 [H2 _]].
      destruct Hr' as [Hr'|[c' [r0 [Hr' [Hc|Hc]]]]]; subst r'; try discriminate;
        inversion E; congruence.
    + simpl in E. inversion E; subst c.
      apply clean_key_cons in Hk. apply clean_key_cons in Hk'.
      destruct Hk as [_ [_ Hk]]. destruct Hk' as [_ [_ Hk']].
      destruct (IH k' r r' Hk Hk' Hr Hr' H1) as [E1 E2]. subst. split; reflexivity.
Qed.

Lemma cursor_inj : forall p q,
  clean_path p = true -> clean_path q = true -> cursor p = cursor q -> p = q.
Proof.
  induction p as [|s p IH]; intros q Hp Hq E.
  - destruct q as [|t q]; [reflexivity|]. destruct t; simpl in E; discriminate.
  - destruct q as [|t q]; [destruct s; simpl in E; discriminate|].
    simpl in Hp, Hq. apply andb_true_iff in Hp. apply andb_true_iff in Hq.
    destruct Hp as [Hs Hp]. destruct Hq as [Ht Hq].
    destruct s as [k|]; destruct t as [k'|]; simpl in E.
    + inversion E as [E'].
      destruct (key_split k k' (cursor p) (cursor q) Hs Ht
                          (cursor_boundary p) (cursor_boundary q) E') as [E1 E2].
      subst k'. f_equal. apply IH; assumption.
    + unfold c_dot, c_lbr in E. discriminate.
    + unfold c_dot, c_lbr in E. discriminate.
    + inversion E as [E']. f_equal. apply IH; assumption.
Qed.

Lemma denotes_unique : forall e p q, denotes e p -> denotes e q -> p = q.
Proof.
  intros e p q [Hp Ep] [Hq Eq]. apply cursor_inj; try assumption. congruence.
Qed.

Lemma clean_child : forall j i s x,
  clean_keys j = true -> child j i = Some (s, x) ->
  clean_step s = true /\ clean_keys x = true.
Proof.
  intros j i s x Hc Hch. destruct j as [| | | |l|l]; simpl in Hch; try discriminate.
  - destruct (nth_error l i) as [y|] eqn:Hn; simpl in Hch; [|discriminate].
    inversion Hch; subst. simpl in Hc. rewrite forallb_forall in Hc.
    split; [reflexivity|]. apply Hc. eapply nth_error_In. exact Hn.
  - destruct (nth_error l i) as [kv|] eqn:Hn; simpl in Hch; [|discriminate].
    inversion Hch; subst. simpl in Hc. rewrite forallb_forall in Hc.
    specialize (Hc kv (nth_error_In _ _ Hn)). apply andb_true_iff in Hc.
    exact Hc.
Qed.

Lemma descend_clean : forall ps j q v,
  clean_keys j = true -> descend j ps = Some (q, v) -> clean_path q = true.
Proof.
  induction ps as [|i ps IH]; intros j q v Hc Hd; simpl in Hd.
  - inversion Hd; subst. reflexivity.
  - destruct (child j i) as [[s x]|] eqn:Hch; [|discriminate].
    destruct (descend x ps) as [[p' v']|] eqn:Hd'; [|discriminate].
    inversion Hd; subst. destruct (clean_child j i s x Hc Hch) as [Hs Hx].
    simpl. rewrite Hs. simpl. eapply IH; eauto.
Qed.

Lemma clean_path_prefix : forall p r, clean_path (p ++ r) = true -> clean_path p = true.
Proof.
  intros p r E. unfold clean_path in *. rewrite forallb_app in E.
  apply andb_true_iff in E. apply E.
Qed.

Lemma no_cross_exposure : forall H excl j ps q v,
  nodup_keys j = true -> clean_keys j = true ->
  descend j ps = Some (q, v) -> is_prim v = true ->
  (forall e p, In e excl -> denotes e p -> ~ is_prefix p q) ->
  descend (obfuscate_json H excl j) ps = Some (q, JStr (H (text v))).
Proof.
  intros H excl j ps q v Hnd Hcl Hd Hp Hno.
  destruct (hidden_or_excluded H excl j ps q v Hnd Hd Hp) as [[Hon _]|[_ E]];
    [exfalso|exact E].
  destruct Hon as [e [p [Hin [Hpre Ec]]]].
  apply (Hno e p Hin); [|exact Hpre]. split; [|exact Ec].
  destruct Hpre as [r Er]. apply (clean_path_prefix p r). rewrite <- Er.
  eapply descend_clean; eauto.
Qed.

Lemma on_excluded_denotes : forall excl q,
  clean_path q = true ->
  (on_excluded excl q <->
   exists e p, In e excl /\ denotes e p /\ is_prefix p q).
Proof.
  intros excl q Hq. unfold on_excluded. split.
  - intros [e [p [Hin [Hpre Ec]]]]. exists e, p. split; [exact Hin|].
    split; [|exact Hpre]. split; [|exact Ec].
    destruct Hpre as [r Er]. apply (clean_path_prefix p r). rewrite <- Er. exact Hq.
  - intros [e [p [Hin [[_ Ec] Hpre]]]]. exists e, p. auto.
Qed.

Lemma kept_iff_denoted : forall H excl j ps q v,
  nodup_keys j = true -> clean_keys j = true ->
  descend j ps = Some (q, v) -> is_prim v = true ->
  ((exists e p, In e excl /\ denotes e p /\ is_prefix p q) /\
   descend (obfuscate_json H excl j) ps = Some (q, v))
  \/
  (~ (exists e p, In e excl /\ denotes e p /\ is_prefix p q) /\
   descend (obfuscate_json H excl j) ps = Some (q, JStr (H (text v)))).
Proof.
  intros H excl j ps q v Hnd Hcl Hd Hp.
  assert (Hq : clean_path q = true) by (eapply descend_clean; eauto).
  destruct (hidden_or_excluded H excl j ps q v Hnd Hd Hp) as [[Hon E]|[Hon E]].
  - left. split; [apply on_excluded_denotes; assumption|exact E].
  - right. split; [|exact E]. intro C. apply Hon.
    apply on_excluded_denotes; assumption.
Qed.

Lemma no_cross_exposure_single : forall H e p j ps q v,
  denotes e p ->
  nodup_keys j = true -> clean_keys j = true ->
  descend j ps = Some (q, v) -> is_prim v = true ->
  ~ is_prefix p q ->
  descend (obfuscate_json H [e] j) ps = Some (q, JStr (H (text v))).
Proof.
  intros H e p j ps q v Hden Hnd Hcl Hd Hp Hno.
  apply no_cross_exposure; try assumption.
  intros e' p' [Hin|[]] Hden'. subst e'.
  rewrite (denotes_unique e p' p Hden' Hden). exact Hno.
Qed.

(* ------------------------------------------------------------------ *)
(* collector: exclusions of the other direction play no role           *)

Lemma other_direction_dropped : forall req e,
  has_prefix (dir_prefix (negb req)) e = true ->
  has_prefix (dir_prefix req) e = false.
Proof.
  intros req e E. unfold has_prefix in *.
  destruct (cut_prefix (dir_prefix (negb req)) e) as [r|] eqn:E1; [|discriminate].
  destruct (cut_prefix (dir_prefix req) e) as [r'|] eqn:E2; [|reflexivity].
  exfalso. destruct req; simpl in E1, E2.
  - exact (prefixes_disjoint e r' r E2 E1).
  - exact (prefixes_disjoint e r r' E1 E2).
Qed.

Lemma collector_direction : forall H req excl j,
  collector_body H req excl j =
  collector_body H req
    (filter (fun e => negb (has_prefix (dir_prefix (negb req)) e)) excl) j.
Proof.
  intros H req excl j. unfold collector_body, filter_body_exclusions. f_equal.
  induction excl as [|e excl IH]; simpl; [reflexivity|].
  destruct (has_prefix (dir_prefix (negb req)) e) eqn:E; simpl.
  - rewrite (other_direction_dropped req e E). exact IH.
  - destruct (has_prefix (dir_prefix req) e); [f_equal|]; exact IH.
Qed.
