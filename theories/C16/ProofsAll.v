(* C16 — lemmas for the statements that speak of ALL documents (repeated keys,
   keys containing '.' / '[' included), for the exact side conditions of the two
   findings (F-C16c ambiguous notation, F-C16d repeated keys collapsed) and for
   the collector corollaries.  Final statements are in Property.v. *)
From Coq Require Import List ZArith Bool Lia.
From Verif Require Import C16.Model C16.Spec C16.Proofs.
Import ListNotations.
Open Scope Z_scope.

(* ------------------------------------------------------------------ *)
(* lists                                                               *)

Lemma nth_error_map_inv : forall (A B : Type) (f : A -> B) l n y,
  nth_error (map f l) n = Some y -> exists x, nth_error l n = Some x /\ y = f x.
Proof.
  intros A B f. induction l as [|a l IH]; intros n y E; destruct n; simpl in E;
    try discriminate.
  - inversion E. exists a. split; reflexivity.
  - apply IH. exact E.
Qed.

Lemma map_eq_pointwise : forall (A B : Type) (f g : A -> B) l,
  map f l = map g l -> forall a, In a l -> f a = g a.
Proof.
  intros A B f g. induction l as [|x l IH]; intros E a Hin; [contradiction|].
  simpl in E. inversion E as [[E1 E2]]. destruct Hin as [<-|Hin]; [exact E1|].
  apply IH; assumption.
Qed.

(* first_per_key only drops entries *)
Lemma first_per_key_incl : forall o seen kv,
  In kv (first_per_key seen o) -> In kv o.
Proof.
  induction o as [|x o IH]; intros seen kv Hin; simpl in *; [exact Hin|].
  destruct (mem (fst x) seen).
  - right. eapply IH. exact Hin.
  - destruct Hin as [E|Hin]; [left; exact E|right; eapply IH; exact Hin].
Qed.

Lemma mem_true_iff : forall k l, mem k l = true <-> In k l.
Proof.
  intros k l. unfold mem. rewrite existsb_exists. split.
  - intros [x [Hin E]]. apply beq_eq in E. subst. exact Hin.
  - intro Hin. exists k. split; [exact Hin|apply beq_refl].
Qed.

(* what first_per_key leaves has no repeated key and no key of [seen] *)
Lemma first_per_key_keys : forall o seen,
  nodupb (map fst (first_per_key seen o)) = true /\
  (forall k, mem k seen = true -> mem k (map fst (first_per_key seen o)) = false).
Proof.
  induction o as [|kv o IH]; intro seen; simpl.
  - split; [reflexivity|]. intros k _. reflexivity.
  - destruct (mem (fst kv) seen) eqn:Hm; [apply IH|].
    destruct (IH (fst kv :: seen)) as [Hnd Hdis]. simpl. split.
    + rewrite Hnd, andb_true_r. apply negb_true_iff. apply Hdis.
      rewrite mem_cons, beq_refl. reflexivity.
    + intros k Hk. apply orb_false_iff. split.
      * destruct (beq k (fst kv)) eqn:E; [|reflexivity].
        apply beq_eq in E. subst k. congruence.
      * apply Hdis. rewrite mem_cons, Hk, orb_true_r. reflexivity.
Qed.

(* ------------------------------------------------------------------ *)
(* paths                                                               *)

Lemma pstep_eqb_eq : forall a b, pstep_eqb a b = true <-> a = b.
Proof.
  intros [k|] [k'|]; simpl; split; intro E; try discriminate; try reflexivity.
  - apply beq_eq in E. subst. reflexivity.
  - inversion E. apply beq_refl.
Qed.

Lemma path_eqb_eq : forall p q, path_eqb p q = true <-> p = q.
Proof.
  induction p as [|s p IH]; destruct q as [|t q]; simpl; split; intro E;
    try discriminate; try reflexivity.
  - apply andb_true_iff in E. destruct E as [E1 E2].
    apply pstep_eqb_eq in E1. apply IH in E2. subst. reflexivity.
  - inversion E; subst. apply andb_true_iff. split.
    + apply pstep_eqb_eq. reflexivity.
    + apply IH. reflexivity.
Qed.

Lemma paths_of_arr : forall l,
  paths_of (JArr l) = [] :: flat_map (fun x => map (cons PAny) (paths_of x)) l.
Proof. reflexivity. Qed.

Lemma paths_of_obj : forall l,
  paths_of (JObj l) =
  [] :: flat_map (fun kv => map (cons (PKey (fst kv))) (paths_of (snd kv))) l.
Proof. reflexivity. Qed.

Lemma paths_of_root : forall j, In [] (paths_of j).
Proof. intro j. destruct j; left; reflexivity. Qed.

(* the structured path of every node is listed by paths_of *)
Lemma descend_in_paths : forall ps j q v,
  descend j ps = Some (q, v) -> In q (paths_of j).
Proof.
  induction ps as [|i ps IH]; intros j q v Hd; simpl in Hd.
  - inversion Hd; subst. apply paths_of_root.
  - destruct (child j i) as [[s x]|] eqn:Hc; [|discriminate].
    destruct (descend x ps) as [[p' v']|] eqn:Hd'; [|discriminate].
    inversion Hd; subst q v'. clear Hd. apply IH in Hd'.
    destruct j as [| | | |l|l]; simpl in Hc; try discriminate.
    + destruct (nth_error l i) as [y|] eqn:Hn; simpl in Hc; [|discriminate].
      inversion Hc; subst s y. rewrite paths_of_arr. right.
      apply in_flat_map. exists x. split; [eapply nth_error_In; exact Hn|].
      apply in_map. exact Hd'.
    + destruct (nth_error l i) as [kv|] eqn:Hn; simpl in Hc; [|discriminate].
      inversion Hc; subst s x. rewrite paths_of_obj. right.
      apply in_flat_map. exists kv. split; [eapply nth_error_In; exact Hn|].
      apply in_map. exact Hd'.
Qed.

(* a prefix of a node path is a node path *)
Lemma descend_prefix : forall p ps j r v,
  descend j ps = Some (p ++ r, v) -> exists ps1 x, descend j ps1 = Some (p, x).
Proof.
  induction p as [|s p IH]; intros ps j r v Hd.
  - exists [], j. reflexivity.
  - destruct ps as [|i ps]; simpl in Hd; [inversion Hd|].
    destruct (child j i) as [[s0 x0]|] eqn:Hc; [|discriminate].
    destruct (descend x0 ps) as [[q0 v0]|] eqn:Hd'; [|discriminate].
    inversion Hd; subst s0 q0 v0. clear Hd.
    destruct (IH ps x0 r v Hd') as [ps1 [x Hx]].
    exists (i :: ps1), x. simpl. rewrite Hc, Hx. reflexivity.
Qed.

Lemma paths_clean : forall j p,
  clean_keys j = true -> In p (paths_of j) -> clean_path p = true.
Proof.
  induction j as [|b|r t|s|l IH|l IH] using json_ind'; intros p Hc Hin;
    try (destruct Hin as [<-|[]]; reflexivity).
  - rewrite paths_of_arr in Hin. destruct Hin as [<-|Hin]; [reflexivity|].
    apply in_flat_map in Hin. destruct Hin as [x [Hx Hin]].
    apply in_map_iff in Hin. destruct Hin as [y [<- Hy]].
    simpl in Hc. rewrite forallb_forall in Hc. rewrite Forall_forall in IH.
    simpl. apply (IH x Hx y (Hc x Hx) Hy).
  - rewrite paths_of_obj in Hin. destruct Hin as [<-|Hin]; [reflexivity|].
    apply in_flat_map in Hin. destruct Hin as [kv [Hx Hin]].
    apply in_map_iff in Hin. destruct Hin as [y [<- Hy]].
    simpl in Hc. rewrite forallb_forall in Hc. rewrite Forall_forall in IH.
    specialize (Hc kv Hx). apply andb_true_iff in Hc. destruct Hc as [Hk Hc].
    simpl. rewrite Hk. simpl. apply (IH kv Hx y Hc Hy).
Qed.

(* ------------------------------------------------------------------ *)
(* names / ambiguous                                                   *)

Lemma names_iff : forall e j p,
  names e j p <-> In p (paths_of j) /\ cursor p = body_path e.
Proof.
  intros e j p. unfold names, named. rewrite filter_In, beq_eq. reflexivity.
Qed.

Lemma named_unique : forall e j p p',
  ambiguous e j = false -> names e j p -> names e j p' -> p = p'.
Proof.
  intros e j p p' Ha Hp Hp'. unfold ambiguous, names in *.
  destruct (named e j) as [|p0 l]; [contradiction|].
  apply negb_false_iff in Ha. rewrite forallb_forall in Ha.
  assert (E : forall x, In x (p0 :: l) -> x = p0).
  { intros x [<-|Hx]; [reflexivity|]. symmetry. apply path_eqb_eq. apply Ha. exact Hx. }
  rewrite (E p Hp), (E p' Hp'). reflexivity.
Qed.

Lemma ambiguous_two_names : forall e j,
  ambiguous e j = true <-> exists p p', names e j p /\ names e j p' /\ p <> p'.
Proof.
  intros e j. split.
  - intro Ha. unfold ambiguous, names in *.
    destruct (named e j) as [|p0 l]; [discriminate|].
    apply negb_true_iff in Ha.
    assert (Hex : existsb (fun x => negb (path_eqb p0 x)) l = true).
    { clear - Ha. induction l as [|x l IH]; simpl in *; [discriminate|].
      destruct (path_eqb p0 x); simpl in *; [apply IH; exact Ha|reflexivity]. }
    apply existsb_exists in Hex. destruct Hex as [x [Hx Ex]].
    exists p0, x. split; [left; reflexivity|]. split; [right; exact Hx|].
    intro C. subst x. apply negb_true_iff in Ex.
    assert (T : path_eqb p0 p0 = true) by (apply path_eqb_eq; reflexivity).
    congruence.
  - intros [p [p' [Hp [Hp' Hne]]]]. destruct (ambiguous e j) eqn:Ha; [reflexivity|].
    exfalso. apply Hne. eapply named_unique; eassumption.
Qed.

Lemma clean_keys_unambiguous : forall e j,
  clean_keys j = true -> ambiguous e j = false.
Proof.
  intros e j Hc. destruct (ambiguous e j) eqn:Ha; [|reflexivity]. exfalso.
  apply ambiguous_two_names in Ha. destruct Ha as [p [p' [Hp [Hp' Hne]]]].
  apply names_iff in Hp. apply names_iff in Hp'.
  destruct Hp as [Hin Ec]. destruct Hp' as [Hin' Ec'].
  apply Hne. apply cursor_inj; try (eapply paths_clean; eassumption). congruence.
Qed.

(* ------------------------------------------------------------------ *)
(* the walk on arbitrary documents                                     *)

Section WalkAll.
  Variable H : bytes -> bytes.
  Variable ex : bytes -> bool.

  Lemma obf_walked_prim_inv : forall c x,
    ex c = false -> is_prim (obf H ex c x) = true ->
    is_prim x = true /\ obf H ex c x = JStr (H (text x)).
  Proof.
    intros c x E Hp. destruct x as [|b|r t|s|l|l]; try destruct b;
      simpl in *; rewrite E in *; simpl in *; try discriminate; split; reflexivity.
  Qed.

  (* every node of the output comes from a node of the input at the same
     structured path: a node inside a subtree that was returned whole, or the
     walk applied to an input node *)
  Lemma descend_obf_inv : forall ps j pre q w,
    descend (obf H ex (cursor pre) j) ps = Some (q, w) ->
    exists ps' x, descend j ps' = Some (q, x) /\
      w = if excl_strict ex pre q then x else obf H ex (cursor (pre ++ q)) x.
  Proof.
    induction ps as [|i ps IH]; intros j pre q w Hd.
    - simpl in Hd. inversion Hd; subst. exists [], j. simpl. rewrite app_nil_r.
      split; reflexivity.
    - destruct (ex (cursor pre)) eqn:Hex.
      + rewrite obf_excluded in Hd by exact Hex.
        exists (i :: ps), w. split; [exact Hd|].
        simpl in Hd. destruct (child j i) as [[s x]|]; [|discriminate].
        destruct (descend x ps) as [[p' v']|]; [|discriminate].
        inversion Hd; subst. simpl. rewrite Hex. reflexivity.
      + destruct j as [|b|r t|s|l|l].
        * simpl in Hd. rewrite Hex in Hd. simpl in Hd. discriminate.
        * simpl in Hd. rewrite Hex in Hd. destruct b; simpl in Hd; discriminate.
        * simpl in Hd. rewrite Hex in Hd. simpl in Hd. discriminate.
        * simpl in Hd. rewrite Hex in Hd. simpl in Hd. discriminate.
        * rewrite obf_arr in Hd by exact Hex. cbn [descend child] in Hd.
          destruct (nth_error (map (obf H ex (cursor pre ++ [c_lbr; c_rbr])) l) i)
            as [y|] eqn:Hn; cbn [option_map] in Hd; [|discriminate].
          apply nth_error_map_inv in Hn. destruct Hn as [x0 [Hn Ey]]. subst y.
          destruct (descend (obf H ex (cursor pre ++ [c_lbr; c_rbr]) x0) ps)
            as [[p' w']|] eqn:Hd'; [|discriminate].
          inversion Hd; subst q w'. clear Hd.
          assert (Ec : cursor pre ++ [c_lbr; c_rbr] = cursor (pre ++ [PAny])).
          { rewrite cursor_app. simpl. rewrite ?app_nil_r. reflexivity. }
          rewrite Ec in Hd'.
          destruct (IH x0 (pre ++ [PAny]) p' w Hd') as [ps' [x [Hx Ew]]].
          exists (i :: ps'), x. split.
          -- cbn [descend child]. rewrite Hn. cbn [option_map]. rewrite Hx. reflexivity.
          -- cbn [excl_strict]. rewrite Hex. cbn [orb].
             rewrite <- app_assoc in Ew. exact Ew.
        * assert (Eo : obf H ex (cursor pre) (JObj l) =
                       JObj (first_per_key []
                         (map (fun kv => (fst kv, obf H ex (cursor pre ++ c_dot :: fst kv) (snd kv))) l))).
          { simpl. rewrite Hex. reflexivity. }
          rewrite Eo in Hd. clear Eo. cbn [descend child] in Hd.
          match type of Hd with
          | context [nth_error ?o i] => destruct (nth_error o i) as [kw|] eqn:Hn
          end; cbn [option_map] in Hd; [|discriminate].
          apply nth_error_In in Hn. apply first_per_key_incl in Hn.
          apply in_map_iff in Hn. destruct Hn as [kv [Ekw Hin]]. subst kw.
          unfold bytes in *.
          cbn [fst snd] in Hd.
          destruct (descend (obf H ex (cursor pre ++ c_dot :: fst kv) (snd kv)) ps)
            as [[p' w']|] eqn:Hd'; [|discriminate].
          inversion Hd; subst q w'. clear Hd.
          assert (Ec : cursor pre ++ c_dot :: fst kv = cursor (pre ++ [PKey (fst kv)])).
          { rewrite cursor_app. simpl. rewrite ?app_nil_r. reflexivity. }
          rewrite Ec in Hd'.
          destruct (IH (snd kv) (pre ++ [PKey (fst kv)]) p' w Hd') as [ps' [x [Hx Ew]]].
          apply In_nth_error in Hin. destruct Hin as [i' Hi'].
          exists (i' :: ps'), x. split.
          -- cbn [descend child]. unfold bytes in *. rewrite Hi'.
             cbn [option_map fst snd]. unfold bytes in *. rewrite Hx. reflexivity.
          -- cbn [excl_strict]. rewrite Hex. cbn [orb].
             rewrite <- app_assoc in Ew. exact Ew.
  Qed.

  Lemma descend_obf_inv_prim : forall ps j q w,
    descend (obf H ex [] j) ps = Some (q, w) -> is_prim w = true ->
    exists ps' v, descend j ps' = Some (q, v) /\ is_prim v = true /\
      w = if excl_upto ex [] q then v else JStr (H (text v)).
  Proof.
    intros ps j q w Hd Hp.
    destruct (descend_obf_inv ps j [] q w Hd) as [ps' [x [Hx Ew]]].
    exists ps', x. split; [exact Hx|]. rewrite <- excl_upto_strict.
    cbn [app] in *. destruct (excl_strict ex [] q) eqn:Es; cbn [orb].
    - subst w. split; [exact Hp|reflexivity].
    - destruct (ex (cursor q)) eqn:Eq.
      + rewrite obf_excluded in Ew by exact Eq. subst w. split; [exact Hp|reflexivity].
      + subst w. destruct (obf_walked_prim_inv (cursor q) x Eq Hp) as [Hpx Ew].
        split; [exact Hpx|exact Ew].
  Qed.

  (* ---------------------------------------------------------------- *)
  (* exact side condition of the positional statements: nodup_walked    *)

  Lemma nodup_walked_excluded : forall c j, ex c = true -> nodup_walked ex c j = true.
  Proof. intros c j E. destruct j; simpl; rewrite E; reflexivity. Qed.

  Lemma nodup_walked_arr : forall c l, ex c = false ->
    nodup_walked ex c (JArr l) = forallb (nodup_walked ex (c ++ [c_lbr; c_rbr])) l.
  Proof. intros c l E. simpl. rewrite E. reflexivity. Qed.

  Lemma nodup_walked_obj : forall c l, ex c = false ->
    nodup_walked ex c (JObj l) =
    nodupb (map fst l)
    && forallb (fun kv => nodup_walked ex (c ++ c_dot :: fst kv) (snd kv)) l.
  Proof. intros c l E. simpl. rewrite E. reflexivity. Qed.

  (* the walk preserves the shape EXACTLY when no walked object repeats a key *)
  Lemma shape_obf_exact : forall j c,
    shape_of (obf H ex c j) = shape_of j <-> nodup_walked ex c j = true.
  Proof.
    induction j as [|b|r t|s|l IH|l IH] using json_ind'; intro c;
      destruct (ex c) eqn:E;
      try (rewrite obf_excluded by exact E; rewrite nodup_walked_excluded by exact E;
           split; reflexivity);
      try (simpl; rewrite E; try destruct b; split; reflexivity).
    - rewrite obf_arr, nodup_walked_arr by exact E. simpl. rewrite map_map.
      rewrite forallb_forall. rewrite Forall_forall in IH. split.
      + intros Es x Hx. apply IH; [exact Hx|]. inversion Es as [Em].
        apply (map_eq_pointwise _ _ _ _ l Em x Hx).
      + intro Hw. f_equal. apply map_ext_in. intros x Hx. apply IH; [exact Hx|].
        apply Hw. exact Hx.
    - rewrite nodup_walked_obj by exact E. rewrite Forall_forall in IH.
      set (g := fun kv : bytes * json =>
                  (fst kv, obf H ex (c ++ c_dot :: fst kv) (snd kv))).
      assert (Eo : obf H ex c (JObj l) = JObj (first_per_key [] (map g l))).
      { simpl. rewrite E. reflexivity. }
      rewrite Eo. clear Eo.
      assert (Ek : map fst (map g l) = map fst l) by (rewrite map_map; reflexivity).
      split.
      + intro Es. simpl in Es. inversion Es as [Em].
        assert (Hk : map fst (first_per_key [] (map g l)) = map fst l).
        { pose proof (f_equal (map fst) Em) as Hk'. rewrite !map_map in Hk'.
          simpl in Hk'. exact Hk'. }
        assert (Hnd : nodupb (map fst l) = true).
        { rewrite <- Hk. apply first_per_key_keys. }
        rewrite Hnd. cbn [andb]. rewrite forallb_forall. intros kv Hkv.
        rewrite first_per_key_nodup in Em by (rewrite Ek; exact Hnd).
        rewrite map_map in Em. apply IH; [exact Hkv|].
        pose proof (map_eq_pointwise _ _ _ _ l Em kv Hkv) as Ep. simpl in Ep.
        inversion Ep. reflexivity.
      + intro Hw. apply andb_true_iff in Hw. destruct Hw as [Hnd Hw].
        rewrite forallb_forall in Hw.
        rewrite first_per_key_nodup by (rewrite Ek; exact Hnd).
        simpl. f_equal. rewrite map_map. apply map_ext_in. intros kv Hkv. simpl.
        f_equal. apply IH; [exact Hkv|]. apply Hw. exact Hkv.
  Qed.

  (* descend_obf under the exact condition *)
  Lemma descend_obf_w : forall ps j pre q v,
    nodup_walked ex (cursor pre) j = true ->
    descend j ps = Some (q, v) ->
    descend (obf H ex (cursor pre) j) ps =
    Some (q, if excl_strict ex pre q then v else obf H ex (cursor (pre ++ q)) v).
  Proof.
    induction ps as [|i ps IH]; intros j pre q v Hnd Hd.
    - simpl in Hd. inversion Hd; subst. simpl. rewrite app_nil_r. reflexivity.
    - simpl in Hd. destruct (child j i) as [[s x]|] eqn:Hc; [|discriminate].
      destruct (descend x ps) as [[p' v']|] eqn:Hd'; [|discriminate].
      inversion Hd; subst q v'. clear Hd.
      cbn [excl_strict]. destruct (ex (cursor pre)) eqn:Hex.
      + rewrite obf_excluded by exact Hex. simpl. rewrite Hc, Hd'. reflexivity.
      + destruct j as [| | | |l|l]; simpl in Hc; try discriminate.
        * destruct (nth_error l i) as [y|] eqn:Hn; simpl in Hc; [|discriminate].
          inversion Hc; subst s y. clear Hc.
          rewrite nodup_walked_arr in Hnd by exact Hex. rewrite forallb_forall in Hnd.
          assert (Ec : cursor pre ++ [c_lbr; c_rbr] = cursor (pre ++ [PAny])).
          { rewrite cursor_app. simpl. rewrite ?app_nil_r. reflexivity. }
          assert (Hx : nodup_walked ex (cursor (pre ++ [PAny])) x = true).
          { rewrite <- Ec. apply Hnd. eapply nth_error_In. exact Hn. }
          specialize (IH x (pre ++ [PAny]) p' v Hx Hd').
          rewrite <- app_assoc in IH. simpl in IH.
          rewrite obf_arr by exact Hex. cbn [descend child].
          rewrite (map_nth_error _ _ _ Hn). cbn [option_map].
          rewrite Ec, IH. simpl. reflexivity.
        * destruct (nth_error l i) as [[k y]|] eqn:Hn; simpl in Hc; [|discriminate].
          inversion Hc; subst s y. clear Hc.
          rewrite nodup_walked_obj in Hnd by exact Hex.
          apply andb_true_iff in Hnd. destruct Hnd as [Hk Hnd].
          rewrite forallb_forall in Hnd.
          assert (Ec : cursor pre ++ c_dot :: k = cursor (pre ++ [PKey k])).
          { rewrite cursor_app. simpl. rewrite ?app_nil_r. reflexivity. }
          assert (Hx : nodup_walked ex (cursor (pre ++ [PKey k])) x = true).
          { rewrite <- Ec. apply (Hnd (k, x)). eapply nth_error_In. exact Hn. }
          specialize (IH x (pre ++ [PKey k]) p' v Hx Hd').
          rewrite <- app_assoc in IH. simpl in IH.
          rewrite obf_obj by assumption. cbn [descend child].
          rewrite (map_nth_error _ _ _ Hn). cbn [option_map fst snd].
          rewrite Ec, IH. simpl. reflexivity.
  Qed.

  Lemma descend_obf_w_prim : forall ps j q v,
    nodup_walked ex [] j = true -> descend j ps = Some (q, v) -> is_prim v = true ->
    descend (obf H ex [] j) ps =
    Some (q, if excl_upto ex [] q then v else JStr (H (text v))).
  Proof.
    intros ps j q v Hnd Hd Hp.
    pose proof (descend_obf_w ps j [] q v Hnd Hd) as E. simpl in E. rewrite E.
    rewrite <- excl_upto_strict. simpl.
    destruct (excl_strict ex [] q); [reflexivity|]. simpl.
    rewrite obf_prim by exact Hp. reflexivity.
  Qed.

  (* any node (container or leaf) on or under an excluded path is returned whole *)
  Lemma descend_obf_w_excluded : forall ps j q x,
    nodup_walked ex [] j = true -> descend j ps = Some (q, x) ->
    excl_upto ex [] q = true ->
    descend (obf H ex [] j) ps = Some (q, x).
  Proof.
    intros ps j q x Hnd Hd Hu.
    pose proof (descend_obf_w ps j [] q x Hnd Hd) as E. simpl in E. rewrite E.
    rewrite <- excl_upto_strict in Hu. simpl in Hu.
    destruct (excl_strict ex [] q); [reflexivity|]. simpl in Hu.
    rewrite obf_excluded by exact Hu. reflexivity.
  Qed.
End WalkAll.

(* nodup_keys (no object at all repeats a key) implies the exact condition *)
Lemma nodup_keys_walked : forall ex j, nodup_keys j = true -> nodup_walked ex [] j = true.
Proof.
  intros ex j Hnd. apply (shape_obf_exact (fun t => t) ex j []).
  apply shape_obf. exact Hnd.
Qed.

(* ------------------------------------------------------------------ *)
(* statements about obfuscate_json                                     *)

Lemma hiding_all_documents : forall H excl j ps q w,
  descend (obfuscate_json H excl j) ps = Some (q, w) -> is_prim w = true ->
  exists ps' v, descend j ps' = Some (q, v) /\ is_prim v = true /\
    ((on_excluded excl q /\ w = v) \/
     (~ on_excluded excl q /\ w = JStr (H (text v)))).
Proof.
  intros H excl j ps q w Hd Hp. unfold obfuscate_json in Hd.
  destruct (descend_obf_inv_prim H (excluded_fixed excl) ps j q w Hd Hp)
    as [ps' [v [Hv [Hpv Ew]]]].
  exists ps', v. split; [exact Hv|]. split; [exact Hpv|].
  destruct (excl_upto (excluded_fixed excl) [] q) eqn:E.
  - left. split; [apply on_excluded_iff; exact E|exact Ew].
  - right. split; [|exact Ew]. intro C. apply on_excluded_iff in C. congruence.
Qed.

Lemma hidden_or_excluded_w : forall H excl j ps q v,
  nodup_walked (excluded_fixed excl) [] j = true ->
  descend j ps = Some (q, v) -> is_prim v = true ->
  (on_excluded excl q /\
   descend (obfuscate_json H excl j) ps = Some (q, v))
  \/
  (~ on_excluded excl q /\
   descend (obfuscate_json H excl j) ps = Some (q, JStr (H (text v)))).
Proof.
  intros H excl j ps q v Hnd Hd Hp. unfold obfuscate_json.
  rewrite (descend_obf_w_prim H (excluded_fixed excl) ps j q v Hnd Hd Hp).
  destruct (excl_upto (excluded_fixed excl) [] q) eqn:E.
  - left. split; [apply on_excluded_iff; exact E|reflexivity].
  - right. split; [|reflexivity]. intro C. apply on_excluded_iff in C. congruence.
Qed.

Lemma excluded_subtree_verbatim : forall H excl j ps q x,
  nodup_walked (excluded_fixed excl) [] j = true ->
  descend j ps = Some (q, x) -> on_excluded excl q ->
  descend (obfuscate_json H excl j) ps = Some (q, x).
Proof.
  intros H excl j ps q x Hnd Hd Hon. unfold obfuscate_json.
  apply descend_obf_w_excluded; try assumption. apply on_excluded_iff. exact Hon.
Qed.

(* a leaf kept in clear for every hash function lies on or under a path whose
   text is the exclusion *)
Lemma kept_by_on_excluded : forall e j ps q v,
  kept_by e j ps q v -> on_excluded [e] q.
Proof.
  intros e j ps q v [Hd [Hp Hk]].
  destruct (hiding_all_documents (fun t => 1 :: t) [e] j ps q v (Hk _) Hp)
    as [ps1 [v1 [_ [_ [[Hon _]|[_ E1]]]]]]; [exact Hon|].
  destruct (hiding_all_documents (fun t => 2 :: t) [e] j ps q v (Hk _) Hp)
    as [ps2 [v2 [_ [_ [[Hon _]|[_ E2]]]]]]; [exact Hon|].
  rewrite E1 in E2. inversion E2.
Qed.

Lemma on_excluded_names : forall e j ps q v,
  descend j ps = Some (q, v) -> on_excluded [e] q ->
  exists p, names e j p /\ is_prefix p q.
Proof.
  intros e j ps q v Hd [e' [p [[<-|[]] [Hpre Ec]]]].
  exists p. split; [|exact Hpre]. apply names_iff. split; [|exact Ec].
  destruct Hpre as [r Er]. subst q.
  destruct (descend_prefix p ps j r v Hd) as [ps1 [x Hx]].
  eapply descend_in_paths. exact Hx.
Qed.

Lemma no_cross_exposure_outside_ambiguous : forall e j ps q v ps' q' v',
  ambiguous e j = false ->
  kept_by e j ps q v -> kept_by e j ps' q' v' ->
  exists p, cursor p = body_path e /\ is_prefix p q /\ is_prefix p q'.
Proof.
  intros e j ps q v ps' q' v' Ha Hk Hk'.
  pose proof (kept_by_on_excluded _ _ _ _ _ Hk) as Hon.
  pose proof (kept_by_on_excluded _ _ _ _ _ Hk') as Hon'.
  destruct Hk as [Hd _]. destruct Hk' as [Hd' _].
  destruct (on_excluded_names e j ps q v Hd Hon) as [p [Hn Hpre]].
  destruct (on_excluded_names e j ps' q' v' Hd' Hon') as [p' [Hn' Hpre']].
  assert (p = p') by (eapply named_unique; eassumption). subst p'.
  exists p. split; [apply names_iff in Hn; apply Hn|]. split; assumption.
Qed.

(* kept iff on or under a path the exclusion names in this document *)
Lemma on_excluded_named : forall excl j ps q v,
  descend j ps = Some (q, v) ->
  (on_excluded excl q <-> exists e p, In e excl /\ names e j p /\ is_prefix p q).
Proof.
  intros excl j ps q v Hd. split.
  - intros [e [p [Hin [Hpre Ec]]]]. exists e, p. split; [exact Hin|].
    split; [|exact Hpre]. apply names_iff. split; [|exact Ec].
    destruct Hpre as [r Er]. subst q.
    destruct (descend_prefix p ps j r v Hd) as [ps1 [x Hx]].
    eapply descend_in_paths. exact Hx.
  - intros [e [p [Hin [Hn Hpre]]]]. apply names_iff in Hn.
    exists e, p. split; [exact Hin|]. split; [exact Hpre|apply Hn].
Qed.

(* the notation-level statements of Part A with their hypotheses narrowed:
   nodup_keys -> nodup_walked, clean_keys j -> clean_path q (only the keys on the
   way to the leaf matter) *)
Lemma kept_iff_denoted_w : forall H excl j ps q v,
  nodup_walked (excluded_fixed excl) [] j = true -> clean_path q = true ->
  descend j ps = Some (q, v) -> is_prim v = true ->
  ((exists e p, In e excl /\ denotes e p /\ is_prefix p q) /\
   descend (obfuscate_json H excl j) ps = Some (q, v))
  \/
  (~ (exists e p, In e excl /\ denotes e p /\ is_prefix p q) /\
   descend (obfuscate_json H excl j) ps = Some (q, JStr (H (text v)))).
Proof.
  intros H excl j ps q v Hnd Hq Hd Hp.
  destruct (hidden_or_excluded_w H excl j ps q v Hnd Hd Hp) as [[Hon E]|[Hon E]].
  - left. split; [apply on_excluded_denotes; assumption|exact E].
  - right. split; [|exact E]. intro C. apply Hon.
    apply on_excluded_denotes; assumption.
Qed.

Lemma no_cross_exposure_w : forall H excl j ps q v,
  nodup_walked (excluded_fixed excl) [] j = true -> clean_path q = true ->
  descend j ps = Some (q, v) -> is_prim v = true ->
  (forall e p, In e excl -> denotes e p -> ~ is_prefix p q) ->
  descend (obfuscate_json H excl j) ps = Some (q, JStr (H (text v))).
Proof.
  intros H excl j ps q v Hnd Hq Hd Hp Hno.
  destruct (kept_iff_denoted_w H excl j ps q v Hnd Hq Hd Hp) as [[[e [p [Hin [Hden Hpre]]]] _]|[_ E]];
    [exfalso; exact (Hno e p Hin Hden Hpre)|exact E].
Qed.

(* ------------------------------------------------------------------ *)
(* collector                                                           *)

Lemma collector_ignores : forall H req excl1 e excl2 j,
  has_prefix (dir_prefix req) e = false ->
  collector_body H req (excl1 ++ e :: excl2) j = collector_body H req (excl1 ++ excl2) j.
Proof.
  intros H req excl1 e excl2 j Hf. unfold collector_body, filter_body_exclusions.
  rewrite !filter_app. simpl. rewrite Hf. reflexivity.
Qed.

Lemma filter_body_in : forall req excl e,
  In e (filter_body_exclusions req excl) <->
  In e excl /\ has_prefix (dir_prefix req) e = true.
Proof. intros req excl e. unfold filter_body_exclusions. apply filter_In. Qed.
