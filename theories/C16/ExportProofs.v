(* C16 — lemmas about the export path (Export.v). *)
From Coq Require Import List ZArith Bool Lia.
From Verif Require Import C16.Model C16.Spec C16.Proofs C16.ProofsAll C16.Export C16.ExportSpec.
Import ListNotations.
Open Scope Z_scope.

Lemma har_body_head : forall H c request s,
  har_body VHead H c request s =
  obfuscate_body H (c_enabled c) request (c_excl c) (fst (effective s)) (snd (effective s)).
Proof.
  intros H c request s. unfold har_body. destruct (effective s) as [body parsed].
  reflexivity.
Qed.

Lemma har_body_head_hidden : forall H c request s,
  c_enabled c = true ->
  hidden_body H request (c_excl c) s (har_body VHead H c request s).
Proof.
  intros H c request s Hen. unfold hidden_body, har_body.
  destruct (effective s) as [body parsed]. unfold obfuscate_body. rewrite Hen.
  cbn [negb]. destruct body as [|b body'].
  - left. split; reflexivity.
  - destruct parsed as [j|].
    + split; [discriminate|]. exists j. split; [reflexivity|].
      intros ps q w Hd Hp.
      exact (hiding_all_documents H (filter_body_exclusions request (c_excl c)) j ps q w Hd Hp).
    + right. split; reflexivity.
Qed.

Lemma export_hides_head : export_hides_for VHead.
Proof.
  intros H c rq rs r Hen Hin. unfold execute in Hin.
  destruct (too_large c rq rs); [destruct Hin|].
  destruct Hin as [<-|[]]. cbn [fst snd].
  split; apply har_body_head_hidden; exact Hen.
Qed.

Lemma execute_dropped : forall v H c rq rs,
  max_size c < declared_size rq rs -> execute v H c rq rs = [].
Proof.
  intros v H c rq rs Hlt. unfold execute, too_large.
  destruct (max_size c <? declared_size rq rs) eqn:E; [reflexivity|].
  apply Z.ltb_ge in E. lia.
Qed.

Lemma execute_exported : forall v H c rq rs,
  declared_size rq rs <= max_size c ->
  execute v H c rq rs = [(har_body v H c true rq, har_body v H c false rs)].
Proof.
  intros v H c rq rs Hle. unfold execute, too_large.
  destruct (max_size c <? declared_size rq rs) eqn:E; [|reflexivity].
  apply Z.ltb_lt in E. lia.
Qed.

Lemma execute_nil_iff : forall v H c rq rs,
  execute v H c rq rs = [] <-> max_size c < declared_size rq rs.
Proof.
  intros v H c rq rs. split.
  - intro E. destruct (Z_lt_le_dec (max_size c) (declared_size rq rs)) as [L|L]; [exact L|].
    rewrite (execute_exported v H c rq rs L) in E. discriminate E.
  - apply execute_dropped.
Qed.

Lemma decision_declared_only : forall v v' H H' c c' rq rs rq' rs',
  max_size c = max_size c' ->
  s_clen rq = s_clen rq' -> s_clen rs = s_clen rs' ->
  (execute v H c rq rs = [] <-> execute v' H' c' rq' rs' = []).
Proof.
  intros v v' H H' c c' rq rs rq' rs' Em Eq Es.
  rewrite !execute_nil_iff. unfold declared_size, extract_size.
  rewrite Em, Eq, Es. reflexivity.
Qed.

(* the seeded variant is harmless exactly where the declared sizes cover the
   real ones *)
Lemma skip_oversize_same_when_declared_covers : forall H c rq rs,
  blen (fst (effective rq)) <= extract_size rq ->
  blen (fst (effective rs)) <= extract_size rs ->
  execute VSkipOversize H c rq rs = execute VHead H c rq rs.
Proof.
  intros H c rq rs Hq Hs. unfold execute, too_large.
  destruct (max_size c <? declared_size rq rs) eqn:E; [reflexivity|].
  apply Z.ltb_ge in E. unfold declared_size in E.
  assert (Nq : 0 <= blen (fst (effective rq))) by (unfold blen; lia).
  assert (Ns : 0 <= blen (fst (effective rs))) by (unfold blen; lia).
  assert (Xq : exceeds c (fst (effective rq)) = false).
  { unfold exceeds. apply andb_false_iff. right. apply Z.ltb_ge. lia. }
  assert (Xs : exceeds c (fst (effective rs)) = false).
  { unfold exceeds. apply andb_false_iff. right. apply Z.ltb_ge. lia. }
  unfold har_body.
  destruct (effective rq) as [bq pq]. destruct (effective rs) as [bs ps].
  cbn [fst] in Xq, Xs. rewrite Xq, Xs. reflexivity.
Qed.
