(* C16 — correspondence entry point for the monitor's classifier of finding
   F-C16c: the harness reports, for every exclusion that reaches ObfuscateJSON at
   the call site, whether its own matcher (which consumes the exclusion text
   along the document) reads it as two different paths of the document; this
   must be the Coq predicate [ambiguous] (Spec.v), the side condition of
   C16_no_cross_exposure_holds_outside_ambiguous_notation.  Definitions only. *)
From Coq Require Import List ZArith Bool.
From Verif Require Import C16.Model C16.Spec.
Import ListNotations.
Open Scope Z_scope.

Fixpoint bools_eqb (a b : list bool) : bool :=
  match a, b with
  | [], [] => true
  | x :: a', y :: b' => eqb x y && bools_eqb a' b'
  | _, _ => false
  end.

(* (call site: None = direct API / Some request? = collector, exclusions,
    document, the monitor's verdict per effective exclusion) *)
Definition case_classify := (option bool * list bytes * json * list bool)%type.

Definition run_classify (k : case_classify) : option (list bool) :=
  let '(site, excl, doc, observed) := k in
  let effective := match site with
                   | None => excl
                   | Some req => filter_body_exclusions req excl
                   end in
  let want := map (fun e => ambiguous e doc) effective in
  if bools_eqb want observed then None else Some want.
