(* C16 — vocabulary for the export path: what "hidden" means for a body of an
   exported transaction.  Definitions only. *)
From Coq Require Import List ZArith Bool.
From Verif Require Import C16.Model C16.Spec C16.Export.
Import ListNotations.
Open Scope Z_scope.

(* every primitive leaf of the exported document [o], at structured path q, is an
   input leaf of [j] at q verbatim on/under an excluded path, or the hash of an
   input leaf of [j] at q that is not (the conclusion of C16_hiding_all_documents) *)
Definition leaves_hidden (H : bytes -> bytes) (excl : list bytes) (j o : json) : Prop :=
  forall ps q w,
    descend o ps = Some (q, w) -> is_prim w = true ->
    exists ps' v, descend j ps' = Some (q, v) /\ is_prim v = true /\
      ((on_excluded excl q /\ w = v) \/
       (~ on_excluded excl q /\ w = JStr (H (text v)))).

(* the body [out] of an exported record hides the body of the message [s] (the
   body that goes into the HAR: decompressed when it is declared gzip and is):
     - nothing to hide (empty body, exported empty), or
     - not a JSON document: exported as the hash of the whole text, or
     - a JSON document: exported as a document all of whose leaves are hidden
       or excluded (exclusions of the direction). *)
Definition hidden_body (H : bytes -> bytes) (request : bool) (excl : list bytes)
           (s : side) (out : body_out) : Prop :=
  let '(body, parsed) := effective s in
  match out with
  | OutText t => (body = [] /\ t = []) \/ (parsed = None /\ t = H body)
  | OutJson o =>
      body <> [] /\
      exists j, parsed = Some j /\
                leaves_hidden H (filter_body_exclusions request excl) j o
  end.

(* the property on the export path, for a variant of buildHARBody: with
   obfuscation enabled, both bodies of EVERY record handed to the exporter are
   hidden — whatever the size limit, the declared sizes, the encodings and the
   real sizes of the bodies *)
Definition export_hides_for (v : variant) : Prop :=
  forall H c rq rs r,
    c_enabled c = true ->
    In r (execute v H c rq rs) ->
    hidden_body H true (c_excl c) rq (fst r) /\
    hidden_body H false (c_excl c) rs (snd r).
