(* C16 — the walk with a variant switch for two dimensions of the value level
   (definitions only; lemmas in VariantsProofs.v, statements in Property.v, Part D):

   - what is hashed for a STRING leaf: /repo hashes every string; the seeded
     change C16-9 ("idempotent obfuscation") leaves a string unchanged when a
     detector says it already looks like a digest;
   - how an EXCLUDED subtree is handed back: /repo returns the parsed node as it
     is (every number keeps its raw token, objects keep repeated keys); the
     seeded change C16-10 rebuilds it value by value, a number going through
     float64 (token -> [reprint token]) and objects through Object.Set (one
     member per distinct key).

   [LHead] is /repo: [obf_v LHead] = [obf] (VariantsProofs.obf_v_head), so every
   theorem of Parts A-C speaks about [obfuscate_json_v LHead]. *)
From Coq Require Import List ZArith Bool.
From Verif Require Import C16.Model.
Import ListNotations.
Open Scope Z_scope.

Inductive leaf_variant :=
| LHead
| LHashOnce (looks_hashed : bytes -> bool)
| LRebuildExcluded (reprint : bytes -> bytes).

(* copyValue of the seeded change C16-10 *)
Fixpoint rebuild (reprint : bytes -> bytes) (j : json) {struct j} : json :=
  match j with
  | JNum raw t => JNum (reprint raw) t
  | JArr l => JArr (map (rebuild reprint) l)
  | JObj l =>
      JObj (first_per_key []
              (map (fun kv => (fst kv, rebuild reprint (snd kv))) l))
  | x => x
  end.

(* what comes back for a node on an excluded path *)
Definition keep (v : leaf_variant) (j : json) : json :=
  match v with
  | LRebuildExcluded r => rebuild r j
  | _ => j
  end.

(* what replaces a string leaf that is not excluded *)
Definition hash_str (v : leaf_variant) (H : bytes -> bytes) (s : bytes) : bytes :=
  match v with
  | LHashOnce d => if d s then s else H s
  | _ => H s
  end.

Section WalkV.
  Variable v : leaf_variant.
  Variable H : bytes -> bytes.
  Variable ex : bytes -> bool.

  Fixpoint obf_v (cur : bytes) (j : json) {struct j} : json :=
    if ex cur then keep v j else
    match j with
    | JArr l => JArr (map (obf_v (cur ++ [c_lbr; c_rbr])) l)
    | JObj l =>
        JObj (first_per_key []
                (map (fun kv => (fst kv, obf_v (cur ++ c_dot :: fst kv) (snd kv))) l))
    | JNum _ t => JStr (H t)
    | JStr s => JStr (hash_str v H s)
    | JBool true => JStr (H t_true)
    | JBool false => JStr (H t_false)
    | JNull => JStr (H t_null)
    end.
End WalkV.

Definition obfuscate_json_v (v : leaf_variant) (H : bytes -> bytes) (excl : list bytes)
           (j : json) : json :=
  obf_v v H (excluded_fixed excl) [] j.

(* the detector of the seeded change C16-9: 32 characters, all in 0-9a-f *)
Definition is_lower_hex (c : Z) : bool :=
  ((48 <=? c) && (c <=? 57)) || ((97 <=? c) && (c <=? 102)).

Definition looks_like_md5 (s : bytes) : bool :=
  (Z.of_nat (length s) =? 32) && forallb is_lower_hex s.

(* a float64 round trip of number tokens given as a finite table (tokens not
   listed survive): enough to state the witnesses *)
Definition reprint_table (t : list (bytes * bytes)) (tok : bytes) : bytes :=
  match find (fun p => beq (fst p) tok) t with
  | Some p => snd p
  | None => tok
  end.

(* ---- the statements that depend on the variant (vocabulary of Spec.v) ---- *)
From Verif Require Import C16.Spec.

(* clause 1 over ALL documents (the statement of C16_hiding_all_documents) *)
Definition hides_for (v : leaf_variant) : Prop :=
  forall H excl j ps q w,
    descend (obfuscate_json_v v H excl j) ps = Some (q, w) -> is_prim w = true ->
    exists ps' x, descend j ps' = Some (q, x) /\ is_prim x = true /\
      ((on_excluded excl q /\ w = x) \/
       (~ on_excluded excl q /\ w = JStr (H (text x)))).

(* clause 3 for every node (the statement of C16_excluded_subtree_verbatim) *)
Definition keeps_excluded_for (v : leaf_variant) : Prop :=
  forall H excl j ps q x,
    nodup_walked (excluded_fixed excl) [] j = true ->
    descend j ps = Some (q, x) -> on_excluded excl q ->
    descend (obfuscate_json_v v H excl j) ps = Some (q, x).
