(* C16 — the walk with a variant switch for two dimensions of the value level
   (definitions only; lemmas in VariantsProofs.v, statements in Property.v, Part D):

   - what is hashed for a STRING leaf: /repo hashes every string; the seeded
     change C16-9 ("idempotent obfuscation") leaves a string unchanged when a
     detector says it already looks like a digest;
   - how an EXCLUDED subtree is handed back: /repo returns the parsed node as it
     is (every number keeps its raw token, objects keep repeated keys); the
     seeded change C16-10 rebuilds it value by value, a number going through
     float64 (token -> [reprint token]) and objects through Object.Set (one
     member per distinct key).

   [LHead] is /repo: [obf_v LHead] = [obf] (VariantsProofs.obf_v_head), so every
   theorem of Parts A-C speaks about [obfuscate_json_v LHead]. *)
From Coq Require Import List ZArith Bool.
From Verif Require Import C16.Model.
Import ListNotations.
Open Scope Z_scope.

Inductive leaf_variant :=
| LHead
| LHashOnce (looks_hashed : bytes -> bool)
| LRebuildExcluded (reprint : bytes -> bytes).

(* copyValue of the seeded change C16-10 *)
Fixpoint rebuild (reprint : bytes -> bytes) (j : json) {struct j} : json :=
  match j with
  | JNum raw t => JNum (reprint raw) t
  | JArr l => JArr (map (rebuild reprint) l)
  | JObj l =>
      JObj (first_per_key []
              (map (fun kv => (fst kv, rebuild reprint (snd kv))) l))
  | x => x
  end.

(* what comes back for a node on an excluded path *)
Definition keep (v : leaf_variant) (j : json) : json :=
  match v with
  | LRebuildExcluded r => rebuild r j
  | _ => j
  end.

(* what replaces a string leaf that is not excluded *)
Definition hash_str (v : leaf_variant) (H : bytes -> bytes) (s : bytes) : bytes :=
  match v with
  | LHashOnce d => if d s then s else H s
  | _ => H s
  end.

Section WalkV.
  Variable v : leaf_variant.
  Variable H : bytes -> bytes.
  Variable ex : bytes -> bool.

  Fixpoint obf_v (cur : bytes) (j : json) {struct j} : json :=
    if ex cur then keep v j else
    match j with
    | JArr l => JArr (map (obf_v (cur ++ [c_lbr; c_rbr])) l)
    | JObj l =>
        JObj (first_per_key []
                (map (fun kv => (fst kv, obf_v (cur ++ c_dot :: fst kv) (snd kv))) l))
    | JNum _ t => JStr (H t)
    | JStr s => JStr (hash_str v H s)
    | JBool true => JStr (H t_true)
    | JBool false => JStr (H t_false)
    | JNull => JStr (H t_null)
    end.
End WalkV.

Definition obfuscate_json_v (v : leaf_variant) (H : bytes -> bytes) (excl : list bytes)
           (j : json) : json :=
  obf_v v H (excluded_fixed excl) [] j.

(* ---- the two call sites as a whole, with the switch (Audit 2, item 22) ----
   The seeded change C16-9 puts the detector into Obfuscator.ObfuscateString too
   (`return obfuscator.hashOnce([]byte(raw))`): the fallback for a body that does
   not parse goes through the same [hash_str].  [obfuscate_body_v LHead] /
   [plugin_body_v LHead] are Model.obfuscate_body / Model.plugin_body
   (VariantsProofs.obfuscate_body_v_head, plugin_body_v_head). *)
Definition obfuscate_body_v (v : leaf_variant) (H : bytes -> bytes)
           (enabled request : bool) (excl : list bytes) (body : bytes)
           (parsed : option json) : body_out :=
  if negb enabled then OutText body else
  match body with
  | [] => OutText []
  | _ => match parsed with
         | Some j =>
             OutJson (obfuscate_json_v v H (filter_body_exclusions request excl) j)
         | None => OutText (hash_str v H body)
         end
  end.

Definition plugin_body_v (v : leaf_variant) (H : bytes -> bytes) (enabled : bool)
           (excl : list bytes) (body : bytes) (parsed : option json) : body_out :=
  if negb enabled then OutText body else
  match parsed with
  | Some j => OutJson (obfuscate_json_v v H excl j)
  | None => OutText (hash_str v H body)
  end.

(* Seeded change C16-12: a fast path of apiStreamObfuscator.obfuscateBody in front
   of ObfuscateJSON: when one of the exclusions selected for the direction is the
   body prefix itself or the prefix followed by "[]", the body is returned as it
   is (no parse, no walk) - whatever the body is.  [as_written] = what the
   harness reads back from a body that left untouched. *)
Definition whole_body_excluded (request : bool) (excl : list bytes) : bool :=
  existsb (fun e => match cut_prefix (dir_prefix request) e with
                    | Some r => beq r [] || beq r [c_lbr; c_rbr]
                    | None => false
                    end) (filter_body_exclusions request excl).

Definition as_written (body : bytes) (parsed : option json) : body_out :=
  match parsed with Some j => OutJson j | None => OutText body end.

Definition obfuscate_body_fast (H : bytes -> bytes) (enabled request : bool)
           (excl : list bytes) (body : bytes) (parsed : option json) : body_out :=
  if negb enabled then OutText body else
  match body with
  | [] => OutText []
  | _ => if whole_body_excluded request excl then as_written body parsed
         else obfuscate_body H enabled request excl body parsed
  end.

(* the detector of the seeded change C16-9: 32 characters, all in 0-9a-f *)
Definition is_lower_hex (c : Z) : bool :=
  ((48 <=? c) && (c <=? 57)) || ((97 <=? c) && (c <=? 102)).

Definition looks_like_md5 (s : bytes) : bool :=
  (Z.of_nat (length s) =? 32) && forallb is_lower_hex s.

(* a float64 round trip of number tokens given as a finite table (tokens not
   listed survive): enough to state the witnesses *)
Definition reprint_table (t : list (bytes * bytes)) (tok : bytes) : bytes :=
  match find (fun p => beq (fst p) tok) t with
  | Some p => snd p
  | None => tok
  end.

(* ---- the statements that depend on the variant (vocabulary of Spec.v) ---- *)
From Verif Require Import C16.Spec.

(* clause 1 over ALL documents (the statement of C16_hiding_all_documents) *)
Definition hides_for (v : leaf_variant) : Prop :=
  forall H excl j ps q w,
    descend (obfuscate_json_v v H excl j) ps = Some (q, w) -> is_prim w = true ->
    exists ps' x, descend j ps' = Some (q, x) /\ is_prim x = true /\
      ((on_excluded excl q /\ w = x) \/
       (~ on_excluded excl q /\ w = JStr (H (text x)))).

(* clause 3 for every node (the statement of C16_excluded_subtree_verbatim) *)
Definition keeps_excluded_for (v : leaf_variant) : Prop :=
  forall H excl j ps q x,
    nodup_walked (excluded_fixed excl) [] j = true ->
    descend j ps = Some (q, x) -> on_excluded excl q ->
    descend (obfuscate_json_v v H excl j) ps = Some (q, x).

(* ---- the body statement of Part C for a call-site function (Audit 2) ---- *)
From Verif Require Import C16.Export C16.ExportSpec.

(* with obfuscation enabled, whatever the message [s] (wire body, encoding,
   does it parse), the direction, the exclusions and the hash function: what the
   call-site function [f] returns for the body that goes into the HAR is hidden
   ([hidden_body]: empty; the hash of the whole text when it is not JSON; a
   document all of whose leaves are hidden or excluded) *)
Definition body_hides
  (f : (bytes -> bytes) -> bool -> bool -> list bytes -> bytes -> option json -> body_out)
  : Prop :=
  forall H request excl s,
    hidden_body H request excl s
      (f H true request excl (fst (effective s)) (snd (effective s))).
