(* C19 — lemmas for the composed statements.  Final statements are in
   PropertyCompose.v. *)
From Coq Require Import List ZArith Bool Lia.
From Verif Require Import C19.Model C19.Spec C19.Proofs C19.Overlap C19.OverlapProofs
                          C19.ComposeSpec.
Import ListNotations.
Open Scope Z_scope.

Lemma host_eqb_refl : forall h, host_eqb h h = true.
Proof. destruct h; cbn [host_eqb]; rewrite ?Z.eqb_refl; reflexivity. Qed.

Lemma decided_true_decision : forall b, decided_true (Decision b) = b.
Proof. destruct b; reflexivity. Qed.

(* ================================================================== *)
(** * One application call through the hook                            *)
(* ================================================================== *)

(* everything hook_step lets the application see, from the two things it
   consults: state_ok and (only when that is true) the filter *)
Lemma hook_step_obs : forall f s c now h hdr r o,
  let '(_, c', (gw, direct, cls)) := hook_step f s c now h hdr r o in
  gw = snd (read s now) && decided_true (snd (is_allowed f c h hdr r)) /\
  direct = negb gw || is_failure o /\
  cls = (if gw && is_other o then 1 else 0) /\
  c' = (if snd (read s now) then fst (is_allowed f c h hdr r) else c).
Proof.
  intros f s c now h hdr r o. unfold hook_step.
  destruct (read s now) as [s1 okb]. cbn [snd]. destruct okb.
  - destruct (decision_total f c h hdr r) as [b Hb].
    destruct (is_allowed f c h hdr r) as [c' d]. cbn [fst snd] in *. subst d.
    destruct b; [destruct o|]; cbn; repeat split; reflexivity.
  - cbn. repeat split; reflexivity.
Qed.

(* clause 2, "sends traffic directly to the provider": no call is lost *)
Lemma hook_no_call_lost : forall f l s c now,
  Forall2 (fun (q : hcall) (b : hob) =>
             let '(_, _, _, o) := q in
             let '(gw, direct, cls) := b in
             direct = negb gw || is_failure o /\
             cls = (if gw && is_other o then 1 else 0))
          (hcalls l) (run_hook f s c now l).
Proof.
  intros f l. induction l as [|ev l IH]; intros s c now; [constructor|].
  destruct ev as [h hdr r o | d]; cbn [hcalls run_hook]; [|apply IH].
  pose proof (hook_step_obs f s c now h hdr r o) as H.
  destruct (hook_step f s c now h hdr r o) as [[s' c'] [[gw direct] cls]].
  constructor; [|apply IH].
  destruct H as (_ & Hd & Hc & _). split; assumption.
Qed.

(* ================================================================== *)
(** * Stable resolver: the hook decides by allowed_spec                *)
(* ================================================================== *)

Lemma hook_step_stable : forall f rs s c now h hdr o,
  resolver_wf rs -> cache_ok rs c ->
  cache_ok rs (snd (fst (hook_step f s c now h hdr (rs h) o))) /\
  decided_true (snd (is_allowed f c h hdr (rs h))) = allowed_spec f rs h hdr.
Proof.
  intros f rs s c now h hdr o Hwf Hc.
  destruct (is_allowed_spec f rs c h hdr Hwf Hc) as [Hd Hc'].
  split; [|rewrite Hd; apply decided_true_decision].
  pose proof (hook_step_obs f s c now h hdr (rs h) o) as H.
  destruct (hook_step f s c now h hdr (rs h) o) as [[s' c'] [[gw direct] cls]].
  cbn [fst snd]. destruct H as (_ & _ & _ & ->).
  destruct (snd (read s now)); assumption.
Qed.

Lemma calls_of_stable : forall f rs l s c now,
  resolver_wf rs -> cache_ok rs c -> Forall (hev_answered_by rs) l ->
  calls_of f s c now l = spec_calls f rs l.
Proof.
  intros f rs l. induction l as [|ev l IH]; intros s c now Hwf Hc Hq; [reflexivity|].
  pose proof (Forall_inv Hq) as Hev. pose proof (Forall_inv_tail Hq) as Hrest.
  destruct ev as [h hdr r o | d]; cbn [calls_of spec_calls map spec_call].
  - cbn in Hev. subst r.
    destruct (hook_step_stable f rs s c now h hdr o Hwf Hc) as [Hc' Ha].
    destruct (hook_step f s c now h hdr (rs h) o) as [[s' c'] b]. cbn [fst snd] in Hc'.
    rewrite Ha. f_equal. apply IH; assumption.
  - f_equal. apply IH; assumption.
Qed.

Lemma spec_calls_nonneg : forall f rs l,
  Forall htick_nonneg l -> Forall tick_nonneg (spec_calls f rs l).
Proof.
  intros f rs l H. induction H as [|ev l Hev _ IH]; [constructor|].
  cbn [spec_calls map]. constructor; [|exact IH].
  destruct ev; cbn in *; auto.
Qed.

(* the composed exclusion: a destination the declarative decision excludes
   never reaches the gateway, whatever the circuit, cache and history *)
Lemma hook_excluded_stable : forall f rs l s c now,
  resolver_wf rs -> cache_ok rs c -> Forall (hev_answered_by rs) l ->
  Forall2 (fun (q : hcall) (b : hob) =>
             let '(h, hdr, _, _) := q in
             let '(gw, direct, cls) := b in
             (allowed_spec f rs h hdr = false -> gw = false /\ direct = true /\ cls = 0) /\
             (gw = true -> allowed_spec f rs h hdr = true))
          (hcalls l) (run_hook f s c now l).
Proof.
  intros f rs l. induction l as [|ev l IH]; intros s c now Hwf Hc Hq; [constructor|].
  pose proof (Forall_inv Hq) as Hev. pose proof (Forall_inv_tail Hq) as Hrest.
  destruct ev as [h hdr r o | d]; cbn [hcalls run_hook]; [|apply IH; assumption].
  cbn in Hev. subst r.
  destruct (hook_step_stable f rs s c now h hdr o Hwf Hc) as [Hc' Ha].
  pose proof (hook_step_obs f s c now h hdr (rs h) o) as H.
  destruct (hook_step f s c now h hdr (rs h) o) as [[s' c'] [[gw direct] cls]].
  cbn [fst snd] in Hc'.
  constructor; [|apply IH; assumption].
  destruct H as (Hg & Hd & Hcl & _). rewrite Ha in Hg. split.
  - intros Hx. rewrite Hx, andb_false_r in Hg. subst gw. cbn in Hd, Hcl. auto.
  - intros Hgw. rewrite Hgw in Hg. symmetry in Hg. apply andb_true_iff in Hg. tauto.
Qed.

(* ================================================================== *)
(** * No resolver hypothesis: static exclusions                        *)
(* ================================================================== *)

Lemma is_external_eq : forall c h r,
  is_external c h r =
  match cache_get c h with
  | Some v => (c, Decision v)
  | None => match verdict_of h r with
            | None => (c, Decision false)
            | Some v => ((h, v) :: c, Decision v)
            end
  end.
Proof. intros c h r. unfold is_external, verdict_of. reflexivity. Qed.

Lemma verdict_lit : forall h r v,
  literal_not_external h = true -> verdict_of h r = Some v -> v = false.
Proof.
  intros h r v Hl Hv. unfold verdict_of in Hv.
  destruct h as [a b c d|k|n|k]; cbn [literal_not_external] in Hl; try discriminate.
  - apply andb_true_iff in Hl. destruct Hl as [W P].
    cbn [is_ip_literal] in Hv. rewrite W in Hv. inversion Hv; subst.
    rewrite is_external_ip_exact by exact W. rewrite P. reflexivity.
  - cbn [is_ip_literal] in Hv. inversion Hv. reflexivity.
Qed.

(* whatever the resolver did: a literal that can never be external is never
   cached as external *)
Definition cache_lit (c : cache) : Prop :=
  forall h v, cache_get c h = Some v -> literal_not_external h = true -> v = false.

Lemma cache_lit_nil : cache_lit [].
Proof. intros h v H. discriminate. Qed.

Lemma is_allowed_static : forall f c h hdr r,
  cache_lit c ->
  cache_lit (fst (is_allowed f c h hdr r)) /\
  (excluded_static f h hdr = true -> snd (is_allowed f c h hdr r) = Decision false).
Proof.
  intros f c h hdr r Hc. unfold is_allowed, excluded_static.
  destruct (tf_ok f); cbn [negb orb fst snd]; [|split; auto].
  destruct hdr as [b|]; cbn [fst snd].
  { split; [exact Hc|]. intros H. apply negb_true_iff in H. subst b. reflexivity. }
  destruct (tf_allow f) as [l|]; cbn [fst snd].
  { split; [exact Hc|]. intros H. apply negb_true_iff in H. rewrite H. reflexivity. }
  destruct (mem h (tf_block f)); cbn [orb fst snd]; [split; auto|].
  rewrite is_external_eq.
  destruct (cache_get c h) as [v|] eqn:G; cbn [fst snd].
  { split; [exact Hc|]. intros Hl. rewrite (Hc h v G Hl). reflexivity. }
  destruct (verdict_of h r) as [v|] eqn:V; cbn [fst snd]; [|split; auto].
  split.
  - intros h' v' G' Hl'. cbn [cache_get] in G'.
    destruct (host_eqb h h') eqn:E.
    + apply host_eqb_eq in E. subst h'. inversion G'; subst v'.
      eapply verdict_lit; eauto.
    + eapply Hc; eauto.
  - intros Hl. rewrite (verdict_lit h r v Hl V). reflexivity.
Qed.

Lemma hook_excluded_static : forall f l s c now,
  cache_lit c ->
  Forall2 (fun (q : hcall) (b : hob) =>
             let '(h, hdr, _, _) := q in
             let '(gw, direct, cls) := b in
             excluded_static f h hdr = true -> gw = false /\ direct = true /\ cls = 0)
          (hcalls l) (run_hook f s c now l).
Proof.
  intros f l. induction l as [|ev l IH]; intros s c now Hc; [constructor|].
  destruct ev as [h hdr r o | d]; cbn [hcalls run_hook]; [|apply IH; assumption].
  destruct (is_allowed_static f c h hdr r Hc) as [Hc' Hx].
  pose proof (hook_step_obs f s c now h hdr r o) as H.
  destruct (hook_step f s c now h hdr r o) as [[s' c'] [[gw direct] cls]].
  destruct H as (Hg & Hd & Hcl & Hcache).
  constructor.
  - intros Hex. rewrite (Hx Hex) in Hg. cbn [decided_true] in Hg.
    rewrite andb_false_r in Hg. subst gw. cbn in Hd, Hcl. auto.
  - apply IH. subst c'. destruct (snd (read s now)); assumption.
Qed.

(* ================================================================== *)
(** * The filter under any resolver behaviour                          *)
(* ================================================================== *)

Lemma is_allowed_cache : forall f c h hdr r,
  fst (is_allowed f c h hdr r) = if consults f h hdr then fst (is_external c h r) else c.
Proof.
  intros f c h hdr r. unfold is_allowed, consults.
  destruct (tf_ok f); cbn [negb andb]; [|reflexivity].
  destruct hdr; [reflexivity|]. destruct (tf_allow f); [reflexivity|].
  destruct (mem h (tf_block f)); reflexivity.
Qed.

(* the cache after a history = verdict of the first look that produced one *)
Lemma cache_after_get : forall f qs c h,
  cache_get (cache_after f c qs) h =
  match cache_get c h with
  | Some v => Some v
  | None => first_verdict f qs h
  end.
Proof.
  intros f qs. induction qs as [|[[h' hdr] r] qs IH]; intros c h; cbn [cache_after first_verdict].
  - destruct (cache_get c h); reflexivity.
  - rewrite IH, is_allowed_cache.
    destruct (consults f h' hdr) eqn:Cn; [rewrite andb_true_r | rewrite andb_false_r; reflexivity].
    rewrite is_external_eq.
    destruct (cache_get c h') as [v'|] eqn:G'; cbn [fst].
    + destruct (host_eqb h' h) eqn:E; [|reflexivity].
      apply host_eqb_eq in E. subst h'. rewrite G'. reflexivity.
    + destruct (verdict_of h' r) as [v|] eqn:V; cbn [fst].
      * cbn [cache_get]. destruct (host_eqb h' h) eqn:E; [|reflexivity].
        apply host_eqb_eq in E. subst h'. rewrite G'. reflexivity.
      * destruct (host_eqb h' h); reflexivity.
Qed.

Lemma is_allowed_hist : forall f qs h hdr r,
  snd (is_allowed f (cache_after f [] qs) h hdr r) = Decision (allowed_hist f qs h hdr r).
Proof.
  intros f qs h hdr r. unfold is_allowed, allowed_hist.
  destruct (tf_ok f); cbn [negb andb]; [|reflexivity].
  destruct hdr; [reflexivity|]. destruct (tf_allow f); [reflexivity|].
  destruct (mem h (tf_block f)); cbn [negb andb]; [reflexivity|].
  rewrite is_external_eq, cache_after_get. cbn [cache_get].
  destruct (first_verdict f qs h); [reflexivity|].
  destruct (verdict_of h r); reflexivity.
Qed.

Lemma verdict_private : forall h r v,
  answer_private h r = true -> verdict_of h r = Some v -> v = false.
Proof.
  intros h r v Hp Hv. unfold answer_private in Hp.
  destruct (is_ip_literal h) eqn:L; [eapply verdict_lit; eauto|].
  unfold verdict_of in Hv. rewrite L in Hv.
  destruct r as [a b c d| |]; try discriminate.
  apply andb_true_iff in Hp. destruct Hp as [W P]. inversion Hv; subst.
  rewrite is_external_ip_exact by exact W. rewrite P. reflexivity.
Qed.

Lemma first_verdict_private : forall f qs h v,
  answers_private qs h = true -> first_verdict f qs h = Some v -> v = false.
Proof.
  intros f qs h v. induction qs as [|[[h' hdr] r] qs IH]; intros Hp Hv; [discriminate|].
  unfold answers_private in Hp. cbn [forallb fst snd] in Hp.
  apply andb_true_iff in Hp. destruct Hp as [Hq Hrest].
  cbn [first_verdict] in Hv.
  destruct (host_eqb h' h && consults f h' hdr) eqn:E; [|apply IH; assumption].
  apply andb_true_iff in E. destruct E as [E _].
  rewrite E in Hq. cbn [negb orb] in Hq. apply host_eqb_eq in E. subst h'.
  destruct (verdict_of h r) as [v0|] eqn:V; [|apply IH; assumption].
  inversion Hv; subst v0. eapply verdict_private; eauto.
Qed.

Lemma private_any_resolver : forall f qs h hdr r,
  hdr <> Some true ->
  (forall l, tf_allow f = Some l -> mem h l = false) ->
  answers_private qs h = true -> answer_private h r = true ->
  snd (is_allowed f (cache_after f [] qs) h hdr r) = Decision false.
Proof.
  intros f qs h hdr r Hh Hal Hqs Hr. rewrite is_allowed_hist. f_equal.
  unfold allowed_hist. destruct (tf_ok f); cbn [andb]; [|reflexivity].
  destruct hdr as [[|]|]; [congruence | reflexivity |].
  destruct (tf_allow f) as [l|]; [apply Hal; reflexivity|].
  destruct (mem h (tf_block f)); cbn [negb andb]; [reflexivity|].
  destruct (first_verdict f qs h) as [v|] eqn:F; [eapply first_verdict_private; eauto|].
  destruct (verdict_of h r) as [v|] eqn:V; [eapply verdict_private; eauto | reflexivity].
Qed.

(* run_queries threads the cache exactly as cache_after does *)
Lemma run_queries_snoc : forall f qs c h hdr r,
  run_queries f c (qs ++ [(h, hdr, r)]) =
  run_queries f c qs ++ [snd (is_allowed f (cache_after f c qs) h hdr r)].
Proof.
  intros f qs. induction qs as [|[[h' hdr'] r'] qs IH]; intros c h hdr r;
    cbn [app run_queries cache_after].
  - destruct (is_allowed f c h hdr r); reflexivity.
  - destruct (is_allowed f c h' hdr' r') as [c' d]. cbn [fst app]. rewrite IH. reflexivity.
Qed.

(* ================================================================== *)
(** * The failure count                                                *)
(* ================================================================== *)

Lemma call_step_count : forall s now a o,
  let s' := fst (call_step s now a o) in
  let rt := fst (snd (call_step s now a o)) in
  (rt = true -> o = GOk -> cnt s' = 0) /\
  (rt = true -> is_failure o = true -> cnt s' = cnt s + 1) /\
  (rt = false \/ o = GOther -> cnt s' = cnt s).
Proof.
  intros s now a o.
  destruct (call_step s now a o) as [s' [rt rs]] eqn:Hstep. cbn [fst snd].
  destruct (read_spec s now) as (_ & _ & Rcnt & _).
  destruct (exit_handled_spec (fst (read s now)) now) as (Ecnt & _).
  apply call_step_cases in Hstep. cbn zeta in Hstep.
  destruct Hstep as [(_ & Hrt & [(Ho & Hs & _) | [(Ho & Hs & _) | (Ho & Hs & _)]]) | (_ & Hrt & _ & Hs)];
    subst s' rt.
  - subst o. repeat split; try discriminate; try reflexivity.
    intros [H | H]; discriminate.
  - repeat split.
    + intros _ ->. discriminate.
    + intros _ _. rewrite Ecnt, Rcnt. reflexivity.
    + intros [H | ->]; discriminate.
  - subst o. repeat split; try discriminate. intros _. exact Rcnt.
  - repeat split; try discriminate. intros _. exact Rcnt.
Qed.

Lemma calls_final_params : forall l s now,
  maxe (fst (calls_final s now l)) = maxe s /\ cool (fst (calls_final s now l)) = cool s.
Proof.
  intros l s now. rewrite <- (seq_schedule_final l s now 0).
  destruct (crun_params (seq_schedule s now 0 l) s now) as (A & B & _). auto.
Qed.

Lemma calls_final_count : forall l s now,
  cnt (fst (calls_final s now l)) = fold_left upd (run_calls s now l) (cnt s).
Proof.
  intros l s now. rewrite <- (seq_schedule_final l s now 0).
  destruct (crun_params (seq_schedule s now 0 l) s now) as (_ & _ & C & _).
  rewrite C. apply seq_schedule_count.
Qed.

(* the hook threads the fail-safe exactly as the call protocol does *)
Lemma hook_final_calls : forall f l s c now,
  fst (fst (hook_final f s c now l)) = fst (calls_final s now (calls_of f s c now l)) /\
  snd (hook_final f s c now l) = snd (calls_final s now (calls_of f s c now l)).
Proof.
  intros f l. induction l as [|ev l IH]; intros s c now; [split; reflexivity|].
  destruct ev as [h hdr r o | d]; cbn [hook_final calls_of].
  - pose proof (hook_step_is_call_step f s c now h hdr r o) as H. cbn zeta in H.
    destruct (hook_step f s c now h hdr r o) as [[s' c'] b].
    cbn [calls_final].
    destruct (call_step s now (decided_true (snd (is_allowed f c h hdr r))) o) as [s'' [rt ra]].
    destruct H as [Hs _]. subst s''. cbn [fst]. apply IH.
  - cbn [calls_final]. apply IH.
Qed.

(* ================================================================== *)
(** * Overlap: the circuit is closed again c after the last error exit *)
(* ================================================================== *)

Lemma clock_app : forall l1 l2 t,
  clock_after t (l1 ++ l2) = clock_after (clock_after t l1) l2.
Proof. intros. unfold clock_after. apply fold_left_app. Qed.

Lemma last_trip_app : forall n l1 l2 k now acc,
  last_trip n k now acc (l1 ++ l2) =
  last_trip n (errs_since_clean k l1) (clock_after now l1) (last_trip n k now acc l1) l2.
Proof.
  intros n l1. induction l1 as [|e l1 IH]; intros l2 k now acc; [reflexivity|].
  cbn [app last_trip]. rewrite IH. reflexivity.
Qed.

Lemma last_trip_quiet : forall n l k now acc,
  forallb (fun e => negb (is_err_exit e)) l = true -> last_trip n k now acc l = acc.
Proof.
  intros n l. induction l as [|e l IH]; intros k now acc Hq; [reflexivity|].
  cbn [forallb] in Hq. apply andb_true_iff in Hq. destruct Hq as [He Hl].
  cbn [last_trip]. unfold trips_spec. apply negb_true_iff in He. rewrite He. cbn [andb].
  apply IH. exact Hl.
Qed.

Lemma last_trip_le : forall n l k now acc,
  Forall adv_nonneg l -> (forall t, acc = Some t -> t <= now) ->
  forall t, last_trip n k now acc l = Some t -> t <= clock_after now l.
Proof.
  intros n l. induction l as [|e l IH]; intros k now acc Hnn Hacc t Ht.
  - cbn in *. auto.
  - pose proof (Forall_inv Hnn) as He. pose proof (Forall_inv_tail Hnn) as Hl.
    unfold adv_nonneg in He. cbn [last_trip] in Ht.
    unfold clock_after. cbn [fold_left].
    eapply (IH _ _ _ Hl); [|exact Ht].
    intros t' Ht'. destruct (trips_spec n k e).
    + inversion Ht'; subst. lia.
    + specialize (Hacc t' Ht'). lia.
Qed.

Lemma state_ok_after : forall s0 t0 evs,
  fresh s0 -> Forall adv_nonneg evs ->
  snd (read (fst (crun s0 t0 evs)) (snd (crun s0 t0 evs)))
    = state_ok_spec (maxe s0) (cool s0) t0 evs.
Proof.
  intros s0 t0 evs [Hok Hc0] Hnn.
  pose proof (last_trip_J (maxe s0) (cool s0) evs s0 t0 None eq_refl eq_refl Hnn
                (J_fresh (cool s0) s0 t0 Hok)) as HJ.
  destruct (crun_params evs s0 t0) as (_ & Hc & _ & Hn).
  rewrite (J_read (cool s0) _ _ _ Hc HJ). unfold state_ok_spec. rewrite Hc0, Hn. reflexivity.
Qed.

Lemma closed_after_last_error : forall s0 t0 pre post,
  fresh s0 -> Forall adv_nonneg (pre ++ post) ->
  forallb (fun e => negb (is_err_exit e)) post = true ->
  cool s0 * ms_per_s <= clock_after t0 (pre ++ post) - clock_after t0 pre ->
  snd (read (fst (crun s0 t0 (pre ++ post))) (snd (crun s0 t0 (pre ++ post)))) = true.
Proof.
  intros s0 t0 pre post Hf Hnn Hq Hlate.
  rewrite (state_ok_after s0 t0 (pre ++ post) Hf Hnn).
  unfold state_ok_spec. rewrite last_trip_app, (last_trip_quiet _ post) by exact Hq.
  destruct (last_trip (maxe s0) 0 t0 None pre) as [t|] eqn:LT; cbn [ok_at]; [|reflexivity].
  apply Z.leb_le.
  assert (Hpre : Forall adv_nonneg pre).
  { apply Forall_forall. intros x Hx. rewrite Forall_forall in Hnn. apply Hnn. apply in_or_app. auto. }
  pose proof (last_trip_le (maxe s0) pre 0 t0 None Hpre ltac:(intros ? H; discriminate) t LT).
  lia.
Qed.
