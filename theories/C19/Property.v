(* C19 — Interceptor fail-safe bypasses the gateway after repeated errors, then
   recovers; excluded / private destinations are never routed; the decision
   never raises.  Final statements only; proofs are in Proofs.v.

   The statements are about the model of the REPAIRED code (patches/C19).
   Vocabulary (Spec.v): a history of application calls is a list of entries
   (instant, was the destination admissible for the filter, what the gateway
   did, was the call sent to the gateway, did an exception reach the
   application); [fails_since_success l] = number of gateway failures at the
   end of l since the last successful gateway call. *)
From Coq Require Import List ZArith Bool Lia.
From Verif Require Import C19.Model C19.Spec C19.Proofs.
Import ListNotations.
Open Scope Z_scope.

(* ------------------------------------------------------------------ *)
(** ** Fail-safe                                                       *)
(* ------------------------------------------------------------------ *)

(* The threshold and the cool-down are the ones the caller passed (keyword
   arguments of FailSafe, or the two environment variables through
   FailSafeConfig and _load_fail_safe); 5 attempts / 10 s when not given. *)
Theorem C19_parameters_as_passed : forall n c,
  n <> 0 -> c <> 0 ->
  (let s := mk_failsafe (Some c) (Some n) in fresh s /\ maxe s = n /\ cool s = c) /\
  (let s := mk_from_env (Some n) (Some c) in fresh s /\ maxe s = n /\ cool s = c) /\
  (let s := mk_from_env None None in fresh s /\ maxe s = 5 /\ cool s = 10) /\
  (let s := mk_failsafe None None in fresh s /\ maxe s = 5 /\ cool s = 10).
Proof.
  intros n c Hn Hc. unfold mk_from_env, mk_failsafe, fresh, or_default, env_or.
  cbn [ok cnt maxe cool].
  destruct (n =? 0) eqn:En; [apply Z.eqb_eq in En; contradiction|].
  destruct (c =? 0) eqn:Ec; [apply Z.eqb_eq in Ec; contradiction|].
  cbn. repeat split; reflexivity.
Qed.
Print Assumptions C19_parameters_as_passed.

(* For every history of calls and clock advances, every threshold n and
   cool-down c:
   (a) once a gateway failure brings the number of consecutive gateway
       failures to n or more, no later call at an instant < t + c is sent to
       the gateway;
   (b) and only then: an admissible call that was kept away from the gateway
       lies inside the cool-down of such a failure -- so fewer than n
       consecutive failures never open the circuit, a successful gateway call
       clears the count, and at instants >= t + c the gateway is tried again. *)
Theorem C19_opens_at_threshold : forall s0 t0 evs,
  fresh s0 -> Forall tick_nonneg evs ->
  let n := maxe s0 in
  let c := cool s0 * ms_per_s in
  let tr := run_calls s0 t0 evs in
  (forall pre f post,
     tr = pre ++ f :: post -> gw_failure f = true ->
     n <= fails_since_success (pre ++ [f]) ->
     Forall (fun e => e_t e < e_t f + c -> e_routed e = false) post) /\
  (forall pre e post,
     tr = pre ++ e :: post -> e_allowed e = true -> e_routed e = false ->
     exists pre1 f mid,
       pre = pre1 ++ f :: mid /\ gw_failure f = true /\
       n <= fails_since_success (pre1 ++ [f]) /\ e_t e < e_t f + c).
Proof.
  intros s0 t0 evs Hf Hnn n c tr. split.
  - intros pre f post Htr Hgf Hn.
    exact (opens_at_threshold_gen (maxe s0) (cool s0) evs s0 t0 [] (Inv_fresh s0 Hf) Hnn pre f post Htr Hgf Hn).
  - intros pre e post Htr Ha Hr.
    exact (bypass_justified_gen (maxe s0) (cool s0) evs s0 t0 [] (Inv_fresh s0 Hf) pre e post Htr Ha Hr).
Qed.
Print Assumptions C19_opens_at_threshold.

(* The same, read as "recovers": an admissible call is sent to the gateway
   whenever every earlier threshold-reaching failure is at least c old. *)
Theorem C19_recovers_after_cooldown : forall s0 t0 evs pre e post,
  fresh s0 ->
  run_calls s0 t0 evs = pre ++ e :: post ->
  e_allowed e = true ->
  (forall pre1 f mid,
     pre = pre1 ++ f :: mid -> gw_failure f = true ->
     maxe s0 <= fails_since_success (pre1 ++ [f]) ->
     e_t f + cool s0 * ms_per_s <= e_t e) ->
  e_routed e = true.
Proof.
  intros s0 t0 evs pre e post Hf Htr Ha Hold.
  destruct (e_routed e) eqn:Hr; [reflexivity|exfalso].
  destruct (bypass_justified_gen (maxe s0) (cool s0) evs s0 t0 [] (Inv_fresh s0 Hf) pre e post Htr Ha Hr)
    as (pre1 & f & mid & Hpre & Hgf & Hn & Hlt).
  specialize (Hold pre1 f mid Hpre Hgf Hn). lia.
Qed.
Print Assumptions C19_recovers_after_cooldown.

(* The comparisons, exactly: a handled error that brings the count to the
   threshold (>=) closes state_ok at its instant t; state_ok then answers
   false at every instant < t + c and true at every instant >= t + c; below
   the threshold it leaves state_ok as it was. *)
Theorem C19_threshold_and_window_exact : forall s t now,
  let s' := exit_handled s t in
  (maxe s <= cnt s + 1 ->
     snd (read s' now) = negb (now <? t + cool s * ms_per_s)) /\
  (cnt s + 1 < maxe s -> snd (read s' now) = snd (read s now)).
Proof.
  intros s t now s'.
  destruct (exit_handled_spec s t) as (Ecnt & Em & Ec & Eopen & Ekeep).
  destruct (read_spec s' now) as (R' & _). destruct (read_spec s now) as (R & _).
  split; intros H.
  - destruct (Eopen H) as [Eok Est]. fold s' in Eok, Est, Ec.
    rewrite R', Eok, Est, Ec. cbn [orb].
    destruct (now <? t + cool s * ms_per_s) eqn:E; cbn [negb].
    + apply Z.ltb_lt in E. apply Z.leb_gt. lia.
    + apply Z.ltb_ge in E. apply Z.leb_le. lia.
  - destruct (Ekeep H) as [Eok Est]. fold s' in Eok, Est, Ec.
    rewrite R', R, Eok, Est, Ec. reflexivity.
Qed.
Print Assumptions C19_threshold_and_window_exact.

(* What counts: a successful gateway call clears the count, a gateway failure
   adds one, anything else (a call that bypassed the gateway, an exception
   that is not a gateway error) leaves it alone. *)
Theorem C19_count_semantics : forall l e,
  (gw_success e = true -> fails_since_success (l ++ [e]) = 0) /\
  (gw_failure e = true -> fails_since_success (l ++ [e]) = fails_since_success l + 1) /\
  (e_routed e = false \/ e_out e = GOther ->
     fails_since_success (l ++ [e]) = fails_since_success l).
Proof.
  intros l e. rewrite fss_app1. unfold upd, gw_success, gw_failure.
  repeat split.
  - intros ->. reflexivity.
  - intros H. apply andb_true_iff in H. destruct H as [-> H].
    destruct (e_out e); try discriminate; reflexivity.
  - intros [-> | ->]; [reflexivity|]. destruct (e_routed e); reflexivity.
Qed.
Print Assumptions C19_count_semantics.

(* Errors that do not come from the gateway are never swallowed and change
   nothing; gateway errors never reach the application; a destination the
   filter excludes is never sent to the gateway. *)
Theorem C19_other_errors_propagate : forall s0 t0 evs,
  Forall (fun e =>
            e_raised e = e_routed e && (match e_out e with GOther => true | _ => false end) /\
            (e_routed e = true -> e_allowed e = true))
         (run_calls s0 t0 evs) /\
  (forall s now a, fst (call_step s now a GOther) = fst (read s now)).
Proof.
  intros s0 t0 evs. split; [apply raised_iff_other | exact other_changes_nothing].
Qed.
Print Assumptions C19_other_errors_propagate.

(* The model of hooks/requests.py (suite "hook") is this call protocol with
   the filter's decision as the admissibility bit. *)
Theorem C19_hook_is_call_protocol : forall f l s c now,
  run_hook f s c now l = map hob_of_entry (run_calls s now (calls_of f s c now l)).
Proof. exact run_hook_is_run_calls. Qed.
Print Assumptions C19_hook_is_call_protocol.

(* ------------------------------------------------------------------ *)
(** ** Traffic filter                                                  *)
(* ------------------------------------------------------------------ *)

(* The test as coded (table keyed by the first two characters of the dotted
   quad, then network membership) is exact for ALL IPv4 addresses: "external"
   iff outside 10/8, 127/8, 172.16/12, 192.168/16 and not 0.0.0.0. *)
Theorem C19_private_ranges_exact : forall a b c d,
  wf_quad a b c d = true ->
  is_external_ip a b c d = negb (private_addr a b c d).
Proof. exact is_external_ip_exact. Qed.
Print Assumptions C19_private_ranges_exact.

(* The decision after ANY history of queries on the same filter object (cache
   included), for a resolver that keeps its answers: header override, else
   allow list membership, else not blocked and external. *)
Theorem C19_filter_semantics : forall rb ra rs qs h hdr,
  resolver_wf rs -> Forall (answered_by rs) qs ->
  let f := mk_filter rb ra in
  snd (is_allowed f (cache_after f [] qs) h hdr (rs h)) = Decision (allowed_spec f rs h hdr).
Proof.
  intros rb ra rs qs h hdr Hwf Hq f.
  apply is_allowed_spec; auto.
  apply cache_after_ok; auto. apply cache_ok_nil.
Qed.
Print Assumptions C19_filter_semantics.

(* A destination that is, or resolves to, a loopback / private-range address
   or 0.0.0.0 is never routed -- unless the request carries x-lunar-allow: true
   or the destination is an entry of the allow list (the two explicit
   overrides, inputs of the statement). *)
Theorem C19_private_never_routed : forall rb ra rs qs h hdr,
  resolver_wf rs -> Forall (answered_by rs) qs ->
  let f := mk_filter rb ra in
  points_private rs h = true ->
  hdr <> Some true ->
  (forall l, tf_allow f = Some l -> mem h l = false) ->
  snd (is_allowed f (cache_after f [] qs) h hdr (rs h)) = Decision false.
Proof.
  intros rb ra rs qs h hdr Hwf Hq f Hp Hh Hal.
  unfold f. rewrite C19_filter_semantics by assumption. fold f. f_equal.
  unfold allowed_spec. destruct (tf_ok f); [cbn [andb]|reflexivity].
  destruct hdr as [[|]|]; [congruence | reflexivity |].
  destruct (tf_allow f) as [l|]; [apply Hal; reflexivity|].
  unfold points_private in Hp. unfold external.
  destruct (target rs h) as [[[[a b] c] d]|]; [|discriminate].
  rewrite Hp. apply andb_false_r.
Qed.
Print Assumptions C19_private_never_routed.

(* What the lists mean: invalid allow entries are dropped and the rest is in
   force (only its members are routed); a block list with an invalid entry
   (and no allow list in force) switches routing off altogether. *)
Theorem C19_lists_semantics : forall rb ra,
  tf_allow (mk_filter rb ra) = option_map (filter valid_entry) (parse ra) /\
  (tf_ok (mk_filter rb ra) = false ->
     forall c h hdr r, snd (is_allowed (mk_filter rb ra) c h hdr r) = Decision false) /\
  (forall b, rb = Some b -> b <> [] -> forallb valid_entry b = false ->
     (match option_map (filter valid_entry) (parse ra) with Some (_ :: _) => false | _ => true end) = true ->
     tf_ok (mk_filter rb ra) = false).
Proof.
  intros rb ra. split; [apply mk_filter_allow|]. split.
  - intros H c h hdr r. unfold is_allowed. rewrite H. reflexivity.
  - intros b -> Hb Hinv Hno. apply mk_filter_block_invalid; assumption.
Qed.
Print Assumptions C19_lists_semantics.

(* is_allowed answers a boolean for EVERY destination, filter, cache state,
   header and resolver behaviour (IPv6 literal, resolver error of either kind
   included); and through the hook nothing but the routed call's own exception
   ever reaches the application. *)
Theorem C19_decision_total :
  (forall f c h hdr r, exists b, snd (is_allowed f c h hdr r) = Decision b) /\
  (forall f s c now h hdr r o,
     let '(_, _, (gw, _, cls)) := hook_step f s c now h hdr r o in
     cls = 0 \/ (cls = 1 /\ o = GOther /\ gw = true)).
Proof.
  split; [exact decision_total|].
  intros f s c now h hdr r o. unfold hook_step.
  destruct (read s now) as [s1 okb]. destruct okb; [|left; reflexivity].
  destruct (decision_total f c h hdr r) as [b Hb].
  destruct (is_allowed f c h hdr r) as [c' d]. cbn [snd] in Hb. subst d.
  destruct b; [|left; reflexivity].
  destruct o; auto.
Qed.
Print Assumptions C19_decision_total.

(* ------------------------------------------------------------------ *)
(** ** Non-vacuity                                                     *)
(* ------------------------------------------------------------------ *)

(* threshold 2, cool-down 3 s: the second consecutive failure (a call that
   bypassed the gateway lies between the two) opens the circuit, calls are kept
   away until 3 s have passed, then the gateway is tried again; one more failure
   re-opens it at once (the count is only cleared by a success), a success
   clears the count *)
Example C19_opens_and_recovers :
  map (fun e => (e_t e, e_routed e))
      (run_calls (mk_failsafe (Some 3) (Some 2)) 100
         [Call true GConn; Call false GOk; Call true GHdr; Call true GOk;
          Tick 2999; Call true GOk; Tick 1; Call true GConn; Call true GOk;
          Tick 3000; Call true GOk; Call true GConn; Call true GOk])
  = [(100, true); (100, false); (100, true); (100, false);
     (3099, false); (3100, true); (3100, false);
     (6100, true); (6100, true); (6100, true)].
Proof. vm_compute. reflexivity. Qed.

Example C19_hypotheses_met :
  fresh (mk_failsafe (Some 3) (Some 2)) /\
  Forall tick_nonneg [Call true GConn; Tick 2999; Call true GOk] /\
  resolver_wf (fun h => match h with Name 2 => RQuad 192 168 7 7 | _ => RFail end) /\
  points_private (fun h => match h with Name 2 => RQuad 192 168 7 7 | _ => RFail end) (Name 2) = true.
Proof.
  split; [split; reflexivity|]. split; [repeat constructor; cbn; lia|]. split; [|reflexivity].
  intros h a b c d H. destruct h as [| |n|]; try discriminate.
  destruct n as [|p|]; try discriminate.
  destruct p as [p|p|]; try discriminate. destruct p; try discriminate.
  inversion H; subst. reflexivity.
Qed.

Example C19_filter_examples :
  run_queries (mk_filter (Some [Name 1; Junk 0]) None) []
    [ (Name 0, None, RQuad 8 8 8 8) ] = [Decision false] /\        (* invalid block entry: routing off *)
  run_queries (mk_filter (Some [Name 1]) None) []
    [ (Name 0, None, RQuad 8 8 8 8); (Name 1, None, RQuad 8 8 8 8);
      (Name 2, None, RQuad 172 31 255 255); (Name 2, Some true, RQuad 172 31 255 255);
      (IPv4 172 32 0 0, None, RFail); (IPv6 0, None, RFail); (Junk 6, None, RInvalid);
      (IPv4 100 64 0 1, None, RFail); (IPv4 0 0 0 0, None, RFail) ]
  = [Decision true; Decision false; Decision false; Decision true;
     Decision true; Decision false; Decision false; Decision true; Decision false].
Proof. vm_compute. split; reflexivity. Qed.
