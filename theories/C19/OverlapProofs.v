(* C19 — lemmas about overlapping guarded calls on one FailSafe.
   Final statements are in PropertyOverlap.v. *)
From Coq Require Import List ZArith Bool Lia.
From Verif Require Import C19.Model C19.Spec C19.Proofs C19.Overlap.
Import ListNotations.
Open Scope Z_scope.

(* ------------------------------------------------------------------ *)
(** * One event                                                        *)
(* ------------------------------------------------------------------ *)

Lemma crun_app : forall l1 l2 s now,
  crun s now (l1 ++ l2) = crun (fst (crun s now l1)) (snd (crun s now l1)) l2.
Proof.
  induction l1 as [|e l1 IH]; intros l2 s now; [reflexivity|].
  cbn [app crun]. destruct (cstep s now e) as [[s' now'] b]. apply IH.
Qed.

Lemma crun_snoc : forall l e s now,
  crun s now (l ++ [e]) =
  (fst (fst (cstep (fst (crun s now l)) (snd (crun s now l)) e)),
   snd (fst (cstep (fst (crun s now l)) (snd (crun s now l)) e))).
Proof.
  intros l e s now. rewrite crun_app. cbn [crun].
  destruct (cstep (fst (crun s now l)) (snd (crun s now l)) e) as [[s' now'] b]. reflexivity.
Qed.

Lemma errs_snoc : forall l e k, errs_since_clean k (l ++ [e]) = cupd (errs_since_clean k l) e.
Proof. intros l e k. unfold errs_since_clean. rewrite fold_left_app. reflexivity. Qed.

Lemma clock_snoc : forall l e t, clock_after t (l ++ [e]) = clock_after t l + adv_of e.
Proof. intros l e t. unfold clock_after. rewrite fold_left_app. reflexivity. Qed.

(* everything one event does, in the vocabulary of the specification *)
Lemma cstep_spec : forall s now e,
  let s' := fst (fst (cstep s now e)) in
  let now' := snd (fst (cstep s now e)) in
  cnt s' = cupd (cnt s) e /\ maxe s' = maxe s /\ cool s' = cool s /\
  now' = now + adv_of e /\
  (if trips_spec (maxe s) (cnt s) e
   then ok s' = false /\ started s' = now
   else started s' = started s /\
        (ok s' = false -> ok s = false) /\
        (ok s' = true -> ok s = true \/
                          (exists i, e = CRead i) /\ cool s * ms_per_s <= now - started s)).
Proof.
  intros s now e.
  destruct e as [i | i | i err | i k | d]; unfold cstep; cbn [op_of op_step].
  - (* enter *) cbn [fst snd]. unfold trips_spec, cupd. cbn [is_clean is_err_exit andb adv_of].
    repeat split; auto; lia.
  - (* state_ok *)
    destruct (read_spec s now) as (Rsnd & Rok & Rcnt & Rst & Rm & Rc).
    destruct (read s now) as [s1 b] eqn:R. cbn [fst snd] in *.
    unfold trips_spec, cupd. cbn [is_clean is_err_exit andb adv_of].
    repeat split; auto; try lia.
    + intros H. rewrite Rok, Rsnd in H. apply orb_false_iff in H. tauto.
    + intros H. rewrite Rok, Rsnd in H. apply orb_true_iff in H. destruct H as [H | H]; [left; exact H|].
      right. split; [exists i; reflexivity|]. apply Z.leb_le in H. exact H.
  - (* validate_headers *)
    destruct err; cbn [op_of op_step fst snd]; unfold trips_spec, cupd; cbn [is_clean is_err_exit andb adv_of validate_ok ok cnt started maxe cool].
    + repeat split; auto; lia.
    + repeat split; auto; lia.
  - (* exit *)
    destruct k; cbn [op_of op_step fst snd]; unfold trips_spec, cupd; cbn [is_clean is_err_exit andb adv_of].
    + repeat split; auto; lia.
    + destruct (exit_handled_spec s now) as (Ecnt & Em & Ec & Eopen & Ekeep).
      split; [exact Ecnt|]. split; [exact Em|]. split; [exact Ec|]. split; [lia|].
      destruct (maxe s <=? cnt s + 1) eqn:E.
      * apply Z.leb_le in E. apply Eopen; exact E.
      * apply Z.leb_gt in E. destruct (Ekeep E) as [Eok Est].
        split; [exact Est|]. split; intros H; rewrite Eok in H; auto.
    + repeat split; auto; lia.
  - (* clock *)
    cbn [fst snd]. unfold trips_spec, cupd. cbn [is_clean is_err_exit andb adv_of].
    repeat split; auto.
Qed.

(* ------------------------------------------------------------------ *)
(** * Histories                                                        *)
(* ------------------------------------------------------------------ *)

Lemma crun_params : forall l s now,
  maxe (fst (crun s now l)) = maxe s /\ cool (fst (crun s now l)) = cool s /\
  cnt (fst (crun s now l)) = errs_since_clean (cnt s) l /\
  snd (crun s now l) = clock_after now l.
Proof.
  induction l as [|e l IH]; intros s now; [cbn; auto|].
  cbn [crun]. destruct (cstep_spec s now e) as (Hc & Hm & Hco & Hn & _).
  destruct (cstep s now e) as [[s' now'] b]. cbn [fst snd] in *.
  destruct (IH s' now') as (A & B & C & D).
  unfold errs_since_clean, clock_after in *. cbn [fold_left].
  rewrite A, B, C, D, Hm, Hco, Hc, Hn. auto.
Qed.

(* the invariant tying the circuit flag to the last threshold-reaching exit *)
Definition J (c : Z) (s : fs) (now : Z) (acc : option Z) : Prop :=
  (ok s = false -> acc = Some (started s)) /\
  (ok s = true -> match acc with None => True | Some t => c * ms_per_s <= now - t end).

Lemma J_step : forall n c s now acc e,
  maxe s = n -> cool s = c -> adv_nonneg e -> J c s now acc ->
  J c (fst (fst (cstep s now e))) (snd (fst (cstep s now e)))
    (if trips_spec n (cnt s) e then Some now else acc).
Proof.
  intros n c s now acc e Hm Hc Hnn [Jf Jt].
  destruct (cstep_spec s now e) as (_ & _ & _ & Hn & Hop).
  rewrite Hm in Hop. unfold adv_nonneg in Hnn.
  destruct (trips_spec n (cnt s) e) eqn:T.
  - destruct Hop as [Hok Hst]. split.
    + intros _. rewrite Hst. reflexivity.
    + intros H. rewrite Hok in H. discriminate.
  - destruct Hop as (Hst & Hf & Ht). split.
    + intros H. rewrite Hst. apply Jf. apply Hf. exact H.
    + intros H. destruct (Ht H) as [Hok | [_ Hcd]].
      * specialize (Jt Hok). destruct acc as [t|]; [|exact I]. rewrite Hn. lia.
      * destruct (ok s) eqn:Hok.
        -- specialize (Jt eq_refl). destruct acc as [t|]; [|exact I]. rewrite Hn. lia.
        -- rewrite (Jf eq_refl). rewrite Hn. rewrite Hc in Hcd. lia.
Qed.

Lemma J_read : forall c s now acc,
  cool s = c -> J c s now acc -> snd (read s now) = ok_at c acc now.
Proof.
  intros c s now acc Hc [Jf Jt].
  destruct (read_spec s now) as (Rsnd & _). rewrite Rsnd.
  destruct (ok s) eqn:Hok; cbn [orb].
  - specialize (Jt eq_refl). unfold ok_at. destruct acc as [t|]; [|reflexivity].
    symmetry. apply Z.leb_le. exact Jt.
  - rewrite (Jf eq_refl). unfold ok_at. rewrite Hc. reflexivity.
Qed.

(* the observables after every event are those of the specification *)
Lemma run_cevents_spec : forall n c l s now acc,
  maxe s = n -> cool s = c -> Forall adv_nonneg l -> J c s now acc ->
  map (fun x => (snd (fst x), snd x)) (run_cevents s now l) = spec_obs n c (cnt s) now acc l.
Proof.
  intros n c. induction l as [|e l IH]; intros s now acc Hm Hc Hnn HJ; [reflexivity|].
  pose proof (Forall_inv Hnn) as He. pose proof (Forall_inv_tail Hnn) as Hl.
  cbn [run_cevents spec_obs].
  destruct (cstep_spec s now e) as (Hcnt & Hm' & Hc' & Hn & _).
  pose proof (J_step n c s now acc e Hm Hc He HJ) as HJ'.
  destruct (cstep s now e) as [[s' now'] b]. cbn [fst snd] in *.
  cbn [map fst snd]. f_equal.
  - unfold probe. cbn [fst snd]. f_equal.
    + rewrite <- Hn. apply J_read; [congruence | exact HJ'].
    + unfold tolerance. rewrite Hm', Hm, Hcnt. reflexivity.
  - rewrite <- Hcnt, <- Hn. apply IH; try congruence; assumption.
Qed.

Lemma J_fresh : forall c s now, ok s = true -> J c s now None.
Proof. intros c s now H. split; [rewrite H; discriminate | intros _; exact I]. Qed.

(* the same for the answer of state_ok after a history *)
Lemma last_trip_J : forall n c l s now acc,
  maxe s = n -> cool s = c -> Forall adv_nonneg l -> J c s now acc ->
  J c (fst (crun s now l)) (snd (crun s now l)) (last_trip n (cnt s) now acc l).
Proof.
  intros n c. induction l as [|e l IH]; intros s now acc Hm Hc Hnn HJ; [exact HJ|].
  pose proof (Forall_inv Hnn) as He. pose proof (Forall_inv_tail Hnn) as Hl.
  cbn [crun last_trip].
  destruct (cstep_spec s now e) as (Hcnt & Hm' & Hc' & Hn & _).
  pose proof (J_step n c s now acc e Hm Hc He HJ) as HJ'.
  destruct (cstep s now e) as [[s' now'] b]. cbn [fst snd] in *.
  rewrite <- Hcnt, <- Hn. apply IH; try congruence; assumption.
Qed.

(* ------------------------------------------------------------------ *)
(** * No error exit: nothing opens                                     *)
(* ------------------------------------------------------------------ *)

Lemma quiet_run : forall l s now,
  forallb (fun e => negb (is_err_exit e)) l = true ->
  started (fst (crun s now l)) = started s /\
  (ok (fst (crun s now l)) = false -> ok s = false) /\
  (cnt s = 0 -> cnt (fst (crun s now l)) = 0).
Proof.
  induction l as [|e l IH]; intros s now Hq; [cbn; auto|].
  cbn [forallb] in Hq. apply andb_true_iff in Hq. destruct Hq as [He Hl].
  cbn [crun]. destruct (cstep_spec s now e) as (Hcnt & _ & _ & _ & Hop).
  assert (T : trips_spec (maxe s) (cnt s) e = false).
  { unfold trips_spec. apply negb_true_iff in He. rewrite He. reflexivity. }
  rewrite T in Hop. destruct Hop as (Hst & Hf & _).
  destruct (cstep s now e) as [[s' now'] b]. cbn [fst snd] in *.
  destruct (IH s' now' Hl) as (A & B & C).
  split; [congruence|]. split; [auto|].
  intros H0. apply C. rewrite Hcnt, H0. unfold cupd.
  apply negb_true_iff in He. rewrite He. destruct (is_clean e); reflexivity.
Qed.

(* ------------------------------------------------------------------ *)
(** * The sequential special case                                      *)
(* ------------------------------------------------------------------ *)

Lemma call_step_is_events : forall s now i a o,
  crun s now (call_events i a o (snd (read s now))) = (fst (call_step s now a o), now).
Proof.
  intros s now i a o. unfold call_events, call_step.
  cbn [crun]. unfold cstep at 1. cbn [op_of].
  unfold cstep at 1. cbn [op_of op_step].
  destruct (read s now) as [s1 okb] eqn:R. cbn [snd].
  destruct (okb && a) eqn:E.
  - destruct o; cbn [crun]; unfold cstep; cbn [op_of op_step fst]; reflexivity.
  - cbn [crun]. unfold cstep. cbn [op_of op_step fst]. reflexivity.
Qed.

Lemma seq_schedule_final : forall l s now i,
  crun s now (seq_schedule s now i l) = calls_final s now l.
Proof.
  induction l as [|ev l IH]; intros s now i; [reflexivity|].
  destruct ev as [a o | d]; cbn [seq_schedule calls_final].
  - rewrite crun_app, call_step_is_events. cbn [fst snd]. apply IH.
  - cbn [crun]. unfold cstep. cbn [op_of op_step]. apply IH.
Qed.

Lemma call_step_routed : forall s now a o,
  fst (snd (call_step s now a o)) = snd (read s now) && a.
Proof.
  intros s now a o. unfold call_step. destruct (read s now) as [s1 okb]. cbn [snd].
  destruct (okb && a); [destruct o|]; reflexivity.
Qed.

Lemma errs_call_events : forall i a o okb k,
  errs_since_clean k (call_events i a o okb) =
  upd k {| e_t := 0; e_allowed := a; e_out := o; e_routed := okb && a; e_raised := false |}.
Proof.
  intros i a o okb k. unfold call_events, upd, gw_success, gw_failure. cbn [e_routed e_out].
  destruct (okb && a); [destruct o|]; reflexivity.
Qed.

Lemma upd_indep : forall k t a o rt rs t' rs',
  upd k {| e_t := t; e_allowed := a; e_out := o; e_routed := rt; e_raised := rs |} =
  upd k {| e_t := t'; e_allowed := a; e_out := o; e_routed := rt; e_raised := rs' |}.
Proof. reflexivity. Qed.

Lemma errs_app : forall l1 l2 k,
  errs_since_clean k (l1 ++ l2) = errs_since_clean (errs_since_clean k l1) l2.
Proof. intros. unfold errs_since_clean. apply fold_left_app. Qed.

Lemma seq_schedule_count : forall l s now i k,
  errs_since_clean k (seq_schedule s now i l) = fold_left upd (run_calls s now l) k.
Proof.
  induction l as [|ev l IH]; intros s now i k; [reflexivity|].
  destruct ev as [a o | d]; cbn [seq_schedule run_calls].
  - pose proof (call_step_routed s now a o) as Hr.
    destruct (call_step s now a o) as [s' [rt rs]] eqn:Hstep. cbn [fst snd] in *.
    rewrite errs_app, errs_call_events. cbn [fold_left]. rewrite IH. subst rt. reflexivity.
  - unfold errs_since_clean. cbn [fold_left]. apply IH.
Qed.

(* well-formedness of the sequential schedule: fresh ids i, i+1, ... *)
Lemma wf_call_events : forall i a o okb ph rest,
  phase ph i = 0 ->
  wf_from ph (call_events i a o okb ++ rest) = wf_from ((i, 2) :: (i, 1) :: ph) rest
  \/ wf_from ph (call_events i a o okb ++ rest) = wf_from ((i, 2) :: (i, 3) :: (i, 1) :: ph) rest.
Proof.
  intros i a o okb ph rest H0. unfold call_events.
  destruct (okb && a); [destruct o|]; cbn [app wf_from phase];
    rewrite ?H0, ?Z.eqb_refl; cbn [Z.eqb andb orb phase]; rewrite ?Z.eqb_refl; cbn [andb orb]; auto.
Qed.

Lemma wf_seq_from : forall l s now i ph,
  (forall j, i <= j -> phase ph j = 0) ->
  wf_from ph (seq_schedule s now i l) = true.
Proof.
  induction l as [|ev l IH]; intros s now i ph Hfree; [reflexivity|].
  destruct ev as [a o | d]; cbn [seq_schedule].
  - assert (H0 : phase ph i = 0) by (apply Hfree; lia).
    destruct (wf_call_events i a o (snd (read s now)) ph
                (seq_schedule (fst (call_step s now a o)) now (i + 1) l) H0) as [E | E];
      rewrite E; apply IH; intros j Hj; cbn [phase];
      (destruct (i =? j) eqn:Eij; [apply Z.eqb_eq in Eij; lia|]); apply Hfree; lia.
  - cbn [wf_from]. apply IH. exact Hfree.
Qed.

(* ------------------------------------------------------------------ *)
(** * The per-instance-flag variant on schedules without overlap       *)
(* ------------------------------------------------------------------ *)

Lemma vcrun_app : forall l1 l2 v now,
  vcrun v now (l1 ++ l2) = vcrun (fst (vcrun v now l1)) (snd (vcrun v now l1)) l2.
Proof.
  induction l1 as [|e l1 IH]; intros l2 v now; [reflexivity|].
  cbn [app vcrun]. destruct (vstep v now e) as [[v' now'] b]. apply IH.
Qed.

Lemma vcall_events : forall s fl now i a o,
  v_s (fst (vcrun {| v_s := s; v_flag := fl |} now (call_events i a o (snd (read s now)))))
    = fst (call_step s now a o) /\
  snd (vcrun {| v_s := s; v_flag := fl |} now (call_events i a o (snd (read s now)))) = now.
Proof.
  intros s fl now i a o. unfold call_events, call_step.
  cbn [vcrun vstep v_s v_flag].
  destruct (read s now) as [s1 okb] eqn:R. cbn [snd v_s v_flag].
  destruct (okb && a) eqn:E.
  - destruct o; cbn [vcrun vstep v_s v_flag fst snd]; split; reflexivity.
  - cbn [vcrun vstep v_s v_flag fst snd]. split; reflexivity.
Qed.

Lemma vseq_schedule_final : forall l s fl now i,
  v_s (fst (vcrun {| v_s := s; v_flag := fl |} now (seq_schedule s now i l))) = fst (calls_final s now l) /\
  snd (vcrun {| v_s := s; v_flag := fl |} now (seq_schedule s now i l)) = snd (calls_final s now l).
Proof.
  induction l as [|ev l IH]; intros s fl now i; [split; reflexivity|].
  destruct ev as [a o | d]; cbn [seq_schedule calls_final].
  - rewrite vcrun_app.
    destruct (vcall_events s fl now i a o) as [A B].
    destruct (vcrun {| v_s := s; v_flag := fl |} now (call_events i a o (snd (read s now)))) as [[s' fl'] now'].
    cbn [fst snd v_s] in *. subst s' now'. apply IH.
  - cbn [vcrun vstep]. apply IH.
Qed.
