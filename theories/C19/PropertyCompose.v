(* C19 — composed final statements (audit round).  Proofs are in ComposeProofs.v.

   1. The hook (Model.run_hook, what suite "hook" evaluates against
      hooks/requests.py) composed with the DECLARATIVE filter decision: a
      destination that Spec.allowed_spec excludes never reaches the gateway;
      the hook IS the call protocol of Property.v with allowed_spec as the
      admissibility bit, so every fail-safe theorem speaks about it.
   2. The failure count of the model state = Spec.fails_since_success of the
      trace (clause "a successful call through the gateway clears the count"
      as a statement about the model, not about the vocabulary).
   3. The traffic filter for ANY resolver behaviour (no stability): exact
      decision after any query history; list / header / literal exclusions with
      no hypothesis at all; names under "every answer seen was private".
   4. Overlapping calls: the circuit is closed again one cool-down after the
      LAST gateway-error exit.

   Vocabulary: ComposeSpec.v (spec_calls, hcalls, excluded_static,
   first_verdict, allowed_hist, answer(s)_private), Spec.v, Overlap.v. *)
From Coq Require Import List ZArith Bool Lia.
From Verif Require Import C19.Model C19.Spec C19.Proofs C19.Overlap C19.OverlapProofs
                          C19.ComposeSpec C19.ComposeProofs.
Import ListNotations.
Open Scope Z_scope.

(* ------------------------------------------------------------------ *)
(** ** 1. Hook level                                                   *)
(* ------------------------------------------------------------------ *)

(* For every filter f (in particular every mk_filter rb ra), every fail-safe
   state, start instant and hook history whose calls are answered by one
   well-formed resolver: a call whose destination the declarative decision
   excludes (allow / block lists, x-lunar-allow, loopback / private range,
   IPv6, unresolvable -- Spec.allowed_spec = false) does NOT contact the
   gateway; it goes to the provider directly and nothing is raised.  Whatever
   the circuit state, the cache and the calls before it.  Conversely the gateway
   is contacted only for admissible destinations.  (Forall2: one observable per
   application call.) *)
Theorem C19_hook_excluded_never_contacts_gateway : forall f rs s0 t0 evs,
  resolver_wf rs -> Forall (hev_answered_by rs) evs ->
  Forall2 (fun (q : hcall) (b : hob) =>
             let '(h, hdr, _, _) := q in
             let '(gw, direct, cls) := b in
             (allowed_spec f rs h hdr = false -> gw = false /\ direct = true /\ cls = 0) /\
             (gw = true -> allowed_spec f rs h hdr = true))
          (hcalls evs) (run_hook f s0 [] t0 evs).
Proof.
  intros f rs s0 t0 evs Hwf Hq.
  apply hook_excluded_stable; auto. apply cache_ok_nil.
Qed.
Print Assumptions C19_hook_excluded_never_contacts_gateway.

(* The same with NO hypothesis on the resolver (answers may change between
   calls, be ill-formed, fail): exclusions that do not depend on a resolution
   -- filter switched off by an invalid block list, x-lunar-allow present and
   not "true", allow list in force and not a member, block-list member, IPv4
   literal in a private range / 0.0.0.0, IPv6 literal -- never contact the
   gateway. *)
Theorem C19_hook_excluded_any_resolver : forall f s0 t0 evs,
  Forall2 (fun (q : hcall) (b : hob) =>
             let '(h, hdr, _, _) := q in
             let '(gw, direct, cls) := b in
             excluded_static f h hdr = true -> gw = false /\ direct = true /\ cls = 0)
          (hcalls evs) (run_hook f s0 [] t0 evs).
Proof. intros f s0 t0 evs. apply hook_excluded_static. apply cache_lit_nil. Qed.
Print Assumptions C19_hook_excluded_any_resolver.

(* Clause "sends traffic directly to the provider": no application call is
   lost or doubled.  For every filter, state, cache, history (no hypotheses):
   the provider is contacted directly iff the gateway was not contacted or
   failed with a gateway error; an exception reaches the application iff the
   gateway was contacted and the call ended in an exception that is not a
   gateway error (then the provider is not contacted again). *)
Theorem C19_hook_no_call_lost : forall f s c now evs,
  Forall2 (fun (q : hcall) (b : hob) =>
             let '(_, _, _, o) := q in
             let '(gw, direct, cls) := b in
             direct = negb gw || is_failure o /\
             cls = (if gw && is_other o then 1 else 0))
          (hcalls evs) (run_hook f s c now evs).
Proof. intros. apply hook_no_call_lost. Qed.
Print Assumptions C19_hook_no_call_lost.

(* The hook is the call protocol of Property.v over the declarative decision:
   same observables, same fail-safe state and clock at the end. *)
Theorem C19_hook_is_spec_protocol : forall f rs s0 t0 evs,
  resolver_wf rs -> Forall (hev_answered_by rs) evs ->
  let calls := spec_calls f rs evs in
  run_hook f s0 [] t0 evs = map hob_of_entry (run_calls s0 t0 calls) /\
  fst (fst (hook_final f s0 [] t0 evs)) = fst (calls_final s0 t0 calls) /\
  snd (hook_final f s0 [] t0 evs) = snd (calls_final s0 t0 calls).
Proof.
  intros f rs s0 t0 evs Hwf Hq calls. unfold calls.
  rewrite <- (calls_of_stable f rs evs s0 [] t0 Hwf (cache_ok_nil rs) Hq).
  split; [apply run_hook_is_run_calls | apply hook_final_calls].
Qed.
Print Assumptions C19_hook_is_spec_protocol.

(* End to end, in one statement: for a freshly built fail-safe driven by the
   hook, with tr the call trace (instant, admissible = allowed_spec, outcome,
   routed, raised) whose image under hob_of_entry is what the application and
   the network see:
   (a) from the failure that brings the consecutive gateway failures to the
       threshold, no call at an instant < t + c is routed;
   (b) every admissible call kept away from the gateway lies in such a window;
   (c) a routed call was admissible, and an exception reaches the application
       iff the call was routed and ended in a non-gateway exception. *)
Theorem C19_hook_end_to_end : forall f rs s0 t0 evs,
  resolver_wf rs -> Forall (hev_answered_by rs) evs ->
  fresh s0 -> Forall htick_nonneg evs ->
  let n := maxe s0 in
  let c := cool s0 * ms_per_s in
  let tr := run_calls s0 t0 (spec_calls f rs evs) in
  run_hook f s0 [] t0 evs = map hob_of_entry tr /\
  (forall pre x post,
     tr = pre ++ x :: post -> gw_failure x = true ->
     n <= fails_since_success (pre ++ [x]) ->
     Forall (fun e => e_t e < e_t x + c -> e_routed e = false) post) /\
  (forall pre e post,
     tr = pre ++ e :: post -> e_allowed e = true -> e_routed e = false ->
     exists pre1 x mid,
       pre = pre1 ++ x :: mid /\ gw_failure x = true /\
       n <= fails_since_success (pre1 ++ [x]) /\ e_t e < e_t x + c) /\
  Forall (fun e => e_raised e = e_routed e && is_other (e_out e) /\
                   (e_routed e = true -> e_allowed e = true)) tr.
Proof.
  intros f rs s0 t0 evs Hwf Hq Hf Hnn n c tr.
  split; [exact (proj1 (C19_hook_is_spec_protocol f rs s0 t0 evs Hwf Hq))|].
  pose proof (spec_calls_nonneg f rs evs Hnn) as Hnn'.
  split; [|split].
  - intros pre x post Htr Hgf Hn.
    exact (opens_at_threshold_gen (maxe s0) (cool s0) _ s0 t0 [] (Inv_fresh s0 Hf) Hnn' pre x post Htr Hgf Hn).
  - intros pre e post Htr Ha Hr.
    exact (bypass_justified_gen (maxe s0) (cool s0) _ s0 t0 [] (Inv_fresh s0 Hf) pre e post Htr Ha Hr).
  - apply raised_iff_other.
Qed.
Print Assumptions C19_hook_end_to_end.

(* ------------------------------------------------------------------ *)
(** ** 2. The failure count of the state is the count of the trace     *)
(* ------------------------------------------------------------------ *)

(* After ANY call history from ANY state: _error_counter = the fold of the
   specification's update over the trace; from a count of 0 (a fresh object)
   that is fails_since_success of the trace -- failures since the last
   successful gateway call.  Threshold and cool-down never change.  (evs is
   arbitrary, so this holds at every point of every history.) *)
Theorem C19_count_is_trace_count : forall s0 t0 evs,
  let s := fst (calls_final s0 t0 evs) in
  cnt s = fold_left upd (run_calls s0 t0 evs) (cnt s0) /\
  (cnt s0 = 0 -> cnt s = fails_since_success (run_calls s0 t0 evs)) /\
  maxe s = maxe s0 /\ cool s = cool s0.
Proof.
  intros s0 t0 evs s. unfold s.
  pose proof (calls_final_count evs s0 t0) as Hc.
  destruct (calls_final_params evs s0 t0) as [Hm Hco].
  split; [exact Hc|]. split; [|split; assumption].
  intros H0. rewrite Hc, H0. reflexivity.
Qed.
Print Assumptions C19_count_is_trace_count.

(* One call, any state, any instant: a successful call through the gateway
   sets the count to 0; a gateway failure adds one; a call that was not sent to
   the gateway, or ended in another exception, leaves it alone. *)
Theorem C19_count_step_exact : forall s now a o,
  let s' := fst (call_step s now a o) in
  let rt := fst (snd (call_step s now a o)) in
  (rt = true -> o = GOk -> cnt s' = 0) /\
  (rt = true -> is_failure o = true -> cnt s' = cnt s + 1) /\
  (rt = false \/ o = GOther -> cnt s' = cnt s).
Proof. exact call_step_count. Qed.
Print Assumptions C19_count_step_exact.

(* ------------------------------------------------------------------ *)
(** ** 3. The filter for any resolver behaviour                        *)
(* ------------------------------------------------------------------ *)

(* What the never-expiring cache holds after ANY query history (any answers):
   for each destination the verdict of the FIRST query that got as far as the
   external test and produced one. *)
Theorem C19_cache_is_first_verdict : forall f qs h,
  cache_get (cache_after f [] qs) h = first_verdict f qs h.
Proof. intros f qs h. rewrite cache_after_get. reflexivity. Qed.
Print Assumptions C19_cache_is_first_verdict.

(* The decision after ANY query history, exactly, with no hypothesis on the
   resolver: a name is judged by its first successful resolution on this
   filter object, whatever it resolves to later (so a name that first resolved
   to a public address and now resolves to a private one IS still routed:
   Example C19_rebinding below). *)
Theorem C19_filter_exact_any_resolver : forall f qs h hdr r,
  snd (is_allowed f (cache_after f [] qs) h hdr r) = Decision (allowed_hist f qs h hdr r).
Proof. exact is_allowed_hist. Qed.
Print Assumptions C19_filter_exact_any_resolver.

(* run_queries (what suite "filter" evaluates) threads the cache as cache_after
   does: the last decision of a history is is_allowed on cache_after of the
   history before it. *)
Theorem C19_run_queries_is_cache_after : forall f c qs h hdr r,
  run_queries f c (qs ++ [(h, hdr, r)]) =
  run_queries f c qs ++ [snd (is_allowed f (cache_after f c qs) h hdr r)].
Proof. intros. apply run_queries_snoc. Qed.
Print Assumptions C19_run_queries_is_cache_after.

(* Private destinations, without a stable resolver: if every answer the filter
   has seen for h and the answer now are private (well-formed quad in 10/8,
   127/8, 172.16/12, 192.168/16 or 0.0.0.0; or no answer), or h is a private /
   IPv6 literal, the decision is false -- unless x-lunar-allow: true or an
   allow-list entry.  Strictly weaker hypotheses than C19_private_never_routed
   (nothing is assumed about other names or about answers being repeated). *)
Theorem C19_private_never_routed_any_resolver : forall f qs h hdr r,
  hdr <> Some true ->
  (forall l, tf_allow f = Some l -> mem h l = false) ->
  answers_private qs h = true -> answer_private h r = true ->
  snd (is_allowed f (cache_after f [] qs) h hdr r) = Decision false.
Proof. exact private_any_resolver. Qed.
Print Assumptions C19_private_never_routed_any_resolver.

(* The LITERAL reading of "destinations resolving to private addresses are
   never routed" -- judged by what the name resolves to at the instant of the
   call, whatever it resolved to before -- does NOT hold of the model (nor of the
   code: never-expiring cache, traffic_filter.py _is_external; the filter suite
   compares exactly such histories).  What holds is the theorem above, whose
   side condition answers_private is decidable and is what the monitor computes
   before it demands the exclusion of a name (c19.py expected_exclusion).  The
   property text does not fix the instant of "resolving"; not listed as a
   finding, see notes/C19.md "DNS rebinding". *)
Definition C19_private_at_call_time : Prop :=
  forall f qs h r,
    tf_allow f = None -> answer_private h r = true ->
    snd (is_allowed f (cache_after f [] qs) h None r) = Decision false.

Theorem C19_private_at_call_time_refuted : ~ C19_private_at_call_time.
Proof.
  intros H.
  specialize (H (mk_filter None None) [ (Name 0, None, RQuad 8 8 8 8) ] (Name 0) (RQuad 10 0 0 1)
                eq_refl eq_refl).
  vm_compute in H. discriminate.
Qed.
Print Assumptions C19_private_at_call_time_refuted.

(* The default configuration read literally ("never"): no x-lunar-allow header,
   no allow list in force.  A block-list member is refused for every cache and
   resolver answer; so is a private / IPv6 literal after any history; and the
   header value "not true" and a switched-off filter refuse everything. *)
Theorem C19_excluded_default_config : forall f,
  (forall c h r, tf_allow f = None -> mem h (tf_block f) = true ->
     snd (is_allowed f c h None r) = Decision false) /\
  (forall qs h r, tf_allow f = None -> literal_not_external h = true ->
     snd (is_allowed f (cache_after f [] qs) h None r) = Decision false) /\
  (forall c h r, snd (is_allowed f c h (Some false) r) = Decision false) /\
  (forall c h hdr r, tf_ok f = false -> snd (is_allowed f c h hdr r) = Decision false).
Proof.
  intros f. split; [|split; [|split]].
  - intros c h r Ha Hb. unfold is_allowed. rewrite Ha, Hb. destruct (tf_ok f); reflexivity.
  - intros qs h r Ha Hl. apply private_any_resolver.
    + discriminate.
    + intros l H. rewrite Ha in H. discriminate.
    + unfold answers_private. apply forallb_forall. intros [[h' hdr'] r'] _. cbn [fst snd].
      destruct (host_eqb h' h); [|reflexivity]. cbn [negb orb].
      unfold answer_private.
      destruct (is_ip_literal h) eqn:L; [exact Hl|].
      destruct h; cbn [literal_not_external is_ip_literal] in *; try discriminate.
      rewrite L in Hl. discriminate.
    + unfold answer_private.
      destruct (is_ip_literal h) eqn:L; [exact Hl|].
      destruct h; cbn [literal_not_external is_ip_literal] in *; try discriminate.
      rewrite L in Hl. discriminate.
  - intros c h r. unfold is_allowed. destruct (tf_ok f); reflexivity.
  - intros c h hdr r H. unfold is_allowed. rewrite H. reflexivity.
Qed.
Print Assumptions C19_excluded_default_config.

(* ------------------------------------------------------------------ *)
(** ** 4. Overlapping calls: upper bound on the bypass                 *)
(* ------------------------------------------------------------------ *)

(* Fresh object, any interleaving of any number of calls, clock not running
   backwards: once a whole cool-down has passed since the LAST gateway-error
   exit (no error exit in post, and post lasts at least c), state_ok answers
   true.  (The bypass may outlast "c after the n-th failure" only while calls
   that were already inside keep failing: each such exit restarts it --
   PropertyOverlap.C19_overlap_state_ok.) *)
Theorem C19_overlap_closed_after_last_error : forall s0 t0 pre post,
  fresh s0 -> Forall adv_nonneg (pre ++ post) ->
  forallb (fun e => negb (is_err_exit e)) post = true ->
  cool s0 * ms_per_s <= clock_after t0 (pre ++ post) - clock_after t0 pre ->
  snd (read (fst (crun s0 t0 (pre ++ post))) (snd (crun s0 t0 (pre ++ post)))) = true.
Proof. exact closed_after_last_error. Qed.
Print Assumptions C19_overlap_closed_after_last_error.

(* ------------------------------------------------------------------ *)
(** ** Non-vacuity                                                     *)
(* ------------------------------------------------------------------ *)

Definition ex_rs (h : host) : res :=
  match h with
  | Name 0 => RQuad 8 8 8 8
  | Name 2 => RQuad 192 168 7 7
  | Name 3 => RInvalid
  | _ => RFail
  end.

Lemma ex_rs_wf : resolver_wf ex_rs.
Proof.
  intros h a b c d H. destruct h as [| |n|]; try discriminate.
  destruct n as [|p|]; try discriminate.
  - inversion H; subst. reflexivity.
  - destruct p as [p|p|]; try discriminate.
    + destruct p; discriminate.
    + destruct p; try discriminate. inversion H; subst. reflexivity.
Qed.

(* block list [Name 1], threshold 2, cool-down 3 s.  The history satisfies the
   hypotheses of the hook theorems and exercises every kind of exclusion while
   the circuit is closed, open and closed again: public name (routed), blocked
   name, name resolving into 192.168/16, the same with x-lunar-allow: true
   (override: routed), x-lunar-allow: false on a public name, private literal,
   IPv6 literal, unresolvable name; two gateway failures open the circuit, the
   public name is bypassed until 3 s have passed. *)
Definition ex_hook : list hev :=
  [ HCall (Name 0) None (ex_rs (Name 0)) GOk;
    HCall (Name 1) None (ex_rs (Name 1)) GOk;
    HCall (Name 2) None (ex_rs (Name 2)) GOk;
    HCall (Name 2) (Some true) (ex_rs (Name 2)) GOk;
    HCall (Name 0) (Some false) (ex_rs (Name 0)) GOk;
    HCall (IPv4 10 1 2 3) None (ex_rs (IPv4 10 1 2 3)) GOk;
    HCall (IPv6 0) None (ex_rs (IPv6 0)) GOk;
    HCall (Name 3) None (ex_rs (Name 3)) GOk;
    HCall (Name 0) None (ex_rs (Name 0)) GConn;
    HCall (Name 0) None (ex_rs (Name 0)) GHdr;
    HCall (Name 0) None (ex_rs (Name 0)) GOk;
    HTick 2999;
    HCall (Name 0) None (ex_rs (Name 0)) GOk;
    HTick 1;
    HCall (Name 0) None (ex_rs (Name 0)) GOther;
    HCall (Name 0) None (ex_rs (Name 0)) GOk ].

Example C19_hook_hypotheses_met :
  resolver_wf ex_rs /\ Forall (hev_answered_by ex_rs) ex_hook /\
  Forall htick_nonneg ex_hook /\ fresh (mk_failsafe (Some 3) (Some 2)) /\
  let f := mk_filter (Some [Name 1]) None in
  map (fun q => let '(h, hdr, _, _) := q in (allowed_spec f ex_rs h hdr, excluded_static f h hdr))
      (hcalls ex_hook)
  = [ (true, false); (false, true); (false, false); (true, false); (false, true);
      (false, true); (false, true); (false, false);
      (true, false); (true, false); (true, false); (true, false); (true, false); (true, false) ] /\
  run_hook f (mk_failsafe (Some 3) (Some 2)) [] 100 ex_hook
  = [ (true, false, 0); (false, true, 0); (false, true, 0); (true, false, 0); (false, true, 0);
      (false, true, 0); (false, true, 0); (false, true, 0);
      (true, true, 0); (true, true, 0); (false, true, 0); (false, true, 0);
      (true, false, 1); (true, false, 0) ] /\
  cnt (fst (fst (hook_final f (mk_failsafe (Some 3) (Some 2)) [] 100 ex_hook))) = 0.
Proof.
  split; [exact ex_rs_wf|]. split; [repeat constructor|].
  split; [repeat constructor; cbn; lia|]. split; [split; reflexivity|].
  vm_compute. repeat split; reflexivity.
Qed.

(* DNS rebinding, the consequence of the never-expiring cache made explicit:
   Name 0 first resolved to 8.8.8.8, now resolves to 10.0.0.1 -> still routed
   (C19_filter_exact_any_resolver; outside the stable-resolver hypothesis of
   C19_filter_semantics).  The other way round it stays refused; a name that
   could not be resolved is not remembered. *)
Example C19_rebinding :
  let f := mk_filter None None in
  run_queries f [] [ (Name 0, None, RQuad 8 8 8 8); (Name 0, None, RQuad 10 0 0 1) ]
    = [Decision true; Decision true] /\
  allowed_hist f [ (Name 0, None, RQuad 8 8 8 8) ] (Name 0) None (RQuad 10 0 0 1) = true /\
  run_queries f [] [ (Name 0, None, RQuad 10 0 0 1); (Name 0, None, RQuad 8 8 8 8) ]
    = [Decision false; Decision false] /\
  run_queries f [] [ (Name 0, None, RFail); (Name 0, None, RQuad 8 8 8 8); (Name 0, None, RFail) ]
    = [Decision false; Decision true; Decision true].
Proof. vm_compute. repeat split; reflexivity. Qed.

(* a non-empty query history answered by one stable resolver (hypothesis of
   C19_filter_semantics / C19_private_never_routed), and one satisfying the
   weaker per-name hypothesis although the resolver is NOT stable for Name 2 *)
Example C19_filter_hypotheses_met :
  Forall (answered_by ex_rs)
    [ (Name 0, None, RQuad 8 8 8 8); (Name 2, None, RQuad 192 168 7 7);
      (Name 2, Some true, RQuad 192 168 7 7); (Name 3, None, RInvalid); (IPv6 1, None, RFail) ] /\
  answers_private [ (Name 0, None, RQuad 8 8 8 8); (Name 2, None, RQuad 192 168 7 7);
                    (Name 2, None, RFail); (Name 2, None, RQuad 10 0 0 1) ] (Name 2) = true /\
  answer_private (Name 2) (RQuad 127 0 0 1) = true /\
  answer_private (Name 2) (RQuad 8 8 8 8) = false /\
  answer_private (IPv4 172 31 0 1) RFail = true /\
  answer_private (IPv4 172 32 0 1) RFail = false.
Proof.
  split; [repeat constructor|]. vm_compute. repeat split; reflexivity.
Qed.

(* the overlap bound is not vacuous: three calls open at once trip the circuit
   at 100; a straggler's error exit at 1100 restarts the cool-down; 3 s after
   THAT exit (not after the trip) state_ok is true, 1 ms earlier it is not *)
Example C19_overlap_closed_after_last_error_witness :
  let s0 := mk_failsafe (Some 3) (Some 2) in
  let pre := [ CEnter 1; CRead 1; CEnter 2; CRead 2; CEnter 3; CRead 3;
               CExit 1 KHandled; CExit 2 KHandled; CAdv 1000; CExit 3 KHandled ] in
  let post := [ CEnter 4; CAdv 2999; CRead 4; CAdv 1 ] in
  fresh s0 /\ Forall adv_nonneg (pre ++ post) /\
  forallb (fun e => negb (is_err_exit e)) post = true /\
  cool s0 * ms_per_s <= clock_after 100 (pre ++ post) - clock_after 100 pre /\
  map (fun x => snd (fst x)) (run_cevents s0 100 (pre ++ post))
  = [ true; true; true; true; true; true; true; false; false; false;
      false; false; false; true ].
Proof.
  cbn zeta. split; [split; reflexivity|].
  split; [repeat constructor; unfold adv_nonneg; cbn; lia|].
  split; [reflexivity|]. split; [vm_compute; discriminate|].
  vm_compute. reflexivity.
Qed.
