(* C19 — vocabulary of the composed statements (PropertyCompose.v):
   hook histories against the declarative filter decision, the filter on ANY
   resolver behaviour (no stability), the state after a call history.
   Executable definitions only; proofs are in ComposeProofs.v. *)
From Coq Require Import List ZArith Bool.
From Verif Require Import C19.Model C19.Spec.
Import ListNotations.
Open Scope Z_scope.

(* ================================================================== *)
(** * 1. Hook histories                                                *)
(* ================================================================== *)

(* every application call of the history carries the answer of the same
   (stable) resolver; the clock never runs backwards *)
Definition hev_answered_by (rs : host -> res) (e : hev) : Prop :=
  match e with HCall h _ r _ => r = rs h | HTick _ => True end.
Definition htick_nonneg (e : hev) : Prop :=
  match e with HTick d => 0 <= d | HCall _ _ _ _ => True end.

(* the call history (Model.cev) a hook history stands for when the
   admissibility bit of every call is the DECLARATIVE decision Spec.allowed_spec *)
Definition spec_call (f : tf) (rs : host -> res) (e : hev) : cev :=
  match e with
  | HCall h hdr _ o => Call (allowed_spec f rs h hdr) o
  | HTick d => Tick d
  end.
Definition spec_calls (f : tf) (rs : host -> res) (l : list hev) : list cev :=
  map (spec_call f rs) l.

(* the application calls of a hook history, in order (one per observable of
   Model.run_hook) *)
Definition hcall := (host * option bool * res * outcome)%type.
Fixpoint hcalls (l : list hev) : list hcall :=
  match l with
  | [] => []
  | HTick _ :: r => hcalls r
  | HCall h hdr rs o :: r => (h, hdr, rs, o) :: hcalls r
  end.

(* "another exception": not a gateway error, the application's business *)
Definition is_other (o : outcome) : bool :=
  match o with GOther => true | _ => false end.

(* fail-safe state, filter cache and clock after a hook history *)
Fixpoint hook_final (f : tf) (s : fs) (c : cache) (now : Z) (l : list hev)
  : fs * cache * Z :=
  match l with
  | [] => (s, c, now)
  | HTick d :: r => hook_final f s c (now + d) r
  | HCall h hdr rs o :: r =>
      let '(s', c', _) := hook_step f s c now h hdr rs o in
      hook_final f s' c' now r
  end.

(* ================================================================== *)
(** * 2. Exclusions that need no resolver at all                       *)
(* ================================================================== *)

(* a literal that can never be "external": an IPv4 literal inside the private
   ranges (or 0.0.0.0), any IPv6 literal *)
Definition literal_not_external (h : host) : bool :=
  match h with
  | IPv4 a b c d => wf_quad a b c d && private_addr a b c d
  | IPv6 _ => true
  | _ => false
  end.

(* excluded whatever any resolver says and whatever the filter has cached:
   filter switched off (invalid block list), x-lunar-allow: <not true>, allow
   list in force and not a member, block-list member, private / IPv6 literal *)
Definition excluded_static (f : tf) (h : host) (hdr : option bool) : bool :=
  negb (tf_ok f) ||
  match hdr with
  | Some b => negb b
  | None =>
      match tf_allow f with
      | Some l => negb (mem h l)
      | None => mem h (tf_block f) || literal_not_external h
      end
  end.

(* ================================================================== *)
(** * 3. The filter under ANY resolver behaviour                       *)
(* ================================================================== *)

(* what one look at a destination yields: Some v = a verdict that is cached
   for ever, None = could not resolve (answer "not external", nothing cached) *)
Definition verdict_of (h : host) (r : res) : option bool :=
  if is_ip_literal h then
    match h with
    | IPv4 a b c d => Some (is_external_ip a b c d)
    | _ => Some false
    end
  else
    match r with
    | RQuad a b c d => Some (is_external_ip a b c d)
    | RFail => None
    | RInvalid => None
    end.

(* does a query get as far as the external / resolver test? *)
Definition consults (f : tf) (h : host) (hdr : option bool) : bool :=
  tf_ok f &&
  match hdr with
  | Some _ => false
  | None => match tf_allow f with
            | Some _ => false
            | None => negb (mem h (tf_block f))
            end
  end.

(* the verdict a query history leaves for destination h: that of the FIRST
   query for h that reached the test and produced one *)
Fixpoint first_verdict (f : tf) (qs : list query) (h : host) : option bool :=
  match qs with
  | [] => None
  | (h', hdr, r) :: rest =>
      if host_eqb h' h && consults f h' hdr then
        match verdict_of h' r with
        | Some v => Some v
        | None => first_verdict f rest h
        end
      else first_verdict f rest h
  end.

(* the decision after a query history, for any answers the resolver gave and
   gives now *)
Definition allowed_hist (f : tf) (qs : list query) (h : host) (hdr : option bool) (r : res) : bool :=
  tf_ok f &&
  match hdr with
  | Some b => b
  | None =>
      match tf_allow f with
      | Some l => mem h l
      | None =>
          negb (mem h (tf_block f)) &&
          match first_verdict f qs h with
          | Some v => v
          | None => match verdict_of h r with Some v => v | None => false end
          end
      end
  end.

(* one resolver answer for h is "private": h is a private / IPv6 literal, or
   (h not a literal) the answer is a well-formed private quad or a failure *)
Definition answer_private (h : host) (r : res) : bool :=
  if is_ip_literal h then literal_not_external h
  else match r with
       | RQuad a b c d => wf_quad a b c d && private_addr a b c d
       | RFail => true
       | RInvalid => true
       end.

(* every answer the history has for h *)
Definition answers_private (qs : list query) (h : host) : bool :=
  forallb (fun q => negb (host_eqb (fst (fst q)) h) || answer_private h (snd q)) qs.
