(* C19 — the fail-safe when several guarded calls are open at once on the one
   shared FailSafe object (threads of the requests hook, tasks of the aiohttp /
   tornado hooks).  Final statements only; proofs are in OverlapProofs.v.

   A history is a list of method-call events (Overlap.cevent: __enter__,
   state_ok, validate_headers(clean | x-lunar-error), __exit__(none | gateway
   error | other exception), clock advance), each tagged with the id of the
   guarded call it belongs to, in the GLOBAL order in which the object executed
   them.  The theorems quantify over ALL event lists -- in particular over every
   interleaving of any number of calls in which each call keeps its own order
   (Overlap.wf_schedule; it is not even needed as a hypothesis).

   Where things are counted, on that global order (this fixes "in between"):
     - a gateway error counts at the __exit__ that receives it;
     - a successful call through the gateway counts at the validate_headers that
       sees its clean response -- whatever other calls are open at that moment;
     - [errs_since_clean k0 l] = error exits of l after its last clean response.
   The circuit opens exactly at an error exit that brings this number to
   max_errors or more, and state_ok answers false exactly during the cool-down
   that starts there (timing as in Property.C19_threshold_and_window_exact). *)
From Coq Require Import List ZArith Bool Lia.
From Verif Require Import C19.Model C19.Spec C19.Proofs C19.Overlap C19.OverlapProofs.
Import ListNotations.
Open Scope Z_scope.

(* The failure count after ANY history = error exits since the last clean
   response; threshold and cool-down never change. *)
Theorem C19_overlap_count : forall s0 t0 evs,
  let s := fst (crun s0 t0 evs) in
  cnt s = errs_since_clean (cnt s0) evs /\ maxe s = maxe s0 /\ cool s = cool s0 /\
  snd (crun s0 t0 evs) = clock_after t0 evs.
Proof.
  intros s0 t0 evs s. destruct (crun_params evs s0 t0) as (A & B & C & D). auto.
Qed.
Print Assumptions C19_overlap_count.

(* A clean gateway response clears the count at once, whatever calls are open
   before, around and after it; and until the next error exit (events of any
   calls: enters, reads, validations, normal exits, other exceptions, clock) the
   count stays 0, the circuit does not open and no cool-down is (re)started. *)
Theorem C19_overlap_clean_response_clears : forall s0 t0 pre i mid,
  forallb (fun e => negb (is_err_exit e)) mid = true ->
  let s1 := fst (crun s0 t0 (pre ++ [CValidate i false])) in
  let s2 := fst (crun s0 t0 (pre ++ CValidate i false :: mid)) in
  cnt s1 = 0 /\ cnt s2 = 0 /\ started s2 = started s1 /\ (ok s2 = false -> ok s1 = false).
Proof.
  intros s0 t0 pre i mid Hq s1 s2.
  assert (H1 : cnt s1 = 0).
  { unfold s1. destruct (crun_params (pre ++ [CValidate i false]) s0 t0) as (_ & _ & C & _).
    rewrite C, errs_snoc. reflexivity. }
  assert (E : s2 = fst (crun s1 (snd (crun s0 t0 (pre ++ [CValidate i false]))) mid)).
  { unfold s2, s1. change (CValidate i false :: mid) with ([CValidate i false] ++ mid).
    rewrite app_assoc. rewrite crun_app. reflexivity. }
  destruct (quiet_run mid s1 (snd (crun s0 t0 (pre ++ [CValidate i false]))) Hq) as (A & B & C).
  rewrite <- E in A, B, C. auto.
Qed.
Print Assumptions C19_overlap_clean_response_clears.

(* The circuit opens (state flag cleared, cool-down stamped with the current
   instant) at an event e iff e is an error exit and the error exits since the
   last clean response, e included, number max_errors or more.  At every other
   event the stamp is untouched and a closed circuit stays closed. *)
Theorem C19_overlap_opens_exactly_at_threshold : forall s0 t0 pre e,
  let s := fst (crun s0 t0 pre) in
  let s' := fst (crun s0 t0 (pre ++ [e])) in
  if trips_spec (maxe s0) (errs_since_clean (cnt s0) pre) e
  then ok s' = false /\ started s' = clock_after t0 pre
  else started s' = started s /\ (ok s' = false -> ok s = false).
Proof.
  intros s0 t0 pre e s s'.
  destruct (crun_params pre s0 t0) as (Hm & _ & Hc & Hn).
  unfold s', s. rewrite crun_snoc. cbn [fst]. rewrite Hn.
  destruct (cstep_spec (fst (crun s0 t0 pre)) (snd (crun s0 t0 pre)) e) as (_ & _ & _ & _ & Hop).
  rewrite Hm, Hc, Hn in Hop.
  destruct (trips_spec (maxe s0) (errs_since_clean (cnt s0) pre) e).
  - exact Hop.
  - destruct Hop as (A & B & _). split; assumption.
Qed.
Print Assumptions C19_overlap_opens_exactly_at_threshold.

(* What state_ok answers after ANY history on a fresh object (clock not running
   backwards): false exactly when the last threshold-reaching error exit, at
   instant t, satisfies now < t + cool-down. *)
Theorem C19_overlap_state_ok : forall s0 t0 evs,
  fresh s0 -> Forall adv_nonneg evs ->
  snd (read (fst (crun s0 t0 evs)) (snd (crun s0 t0 evs)))
    = state_ok_spec (maxe s0) (cool s0) t0 evs.
Proof.
  intros s0 t0 evs [Hok Hc0] Hnn.
  pose proof (last_trip_J (maxe s0) (cool s0) evs s0 t0 None eq_refl eq_refl Hnn
                (J_fresh (cool s0) s0 t0 Hok)) as HJ.
  destruct (crun_params evs s0 t0) as (_ & Hc & _ & Hn).
  rewrite (J_read (cool s0) _ _ _ Hc HJ). unfold state_ok_spec. rewrite Hc0, Hn. reflexivity.
Qed.
Print Assumptions C19_overlap_state_ok.

(* The two observables (state_ok, and the tolerance = further errors a closed
   circuit takes) after EVERY event of ANY history, from any starting count,
   are those of the specification computed from the global event order. *)
Theorem C19_overlap_observations_exact : forall s0 t0 evs,
  ok s0 = true -> Forall adv_nonneg evs ->
  map (fun x => (snd (fst x), snd x)) (run_cevents s0 t0 evs)
    = spec_obs (maxe s0) (cool s0) (cnt s0) t0 None evs.
Proof.
  intros s0 t0 evs Hok Hnn.
  apply run_cevents_spec; auto. apply J_fresh. exact Hok.
Qed.
Print Assumptions C19_overlap_observations_exact.

(* The sequential histories of Property.v (Model.run_calls: one call after the
   other) are one particular well-formed schedule of this machine: same final
   state, same clock, and the count of the sequential statements
   (Spec.fails_since_success over the call entries) is errs_since_clean over
   that schedule.  So C19_opens_at_threshold, C19_recovers_after_cooldown,
   C19_count_semantics speak about the special case "no two calls overlap". *)
Theorem C19_sequential_is_a_schedule : forall s now i l,
  wf_schedule (seq_schedule s now i l) = true /\
  crun s now (seq_schedule s now i l) = calls_final s now l /\
  errs_since_clean 0 (seq_schedule s now i l) = fails_since_success (run_calls s now l).
Proof.
  intros s now i l. split; [|split].
  - apply wf_seq_from. intros j _. reflexivity.
  - apply seq_schedule_final.
  - apply seq_schedule_count.
Qed.
Print Assumptions C19_sequential_is_a_schedule.

Corollary C19_sequential_count : forall s now l,
  cnt (fst (calls_final s now l)) = fold_left upd (run_calls s now l) (cnt s).
Proof.
  intros s now l. rewrite <- (seq_schedule_final l s now 0).
  destruct (C19_overlap_count s now (seq_schedule s now 0 l)) as (A & _).
  cbn zeta in A. rewrite A. apply seq_schedule_count.
Qed.
Print Assumptions C19_sequential_count.

(* ------------------------------------------------------------------ *)
(** ** The per-instance-flag variant (seeded regression C19-5)         *)
(* ------------------------------------------------------------------ *)

(* the statement C19_overlap_observations_exact for the variant machine
   (Overlap.vstep: validate_headers sets a flag on the object, __enter__ clears
   it, __exit__ clears the count when it is set), restricted to well-formed
   schedules *)
Definition C19_flag_in_exit_full : Prop :=
  forall n c t0 evs,
    0 < n -> 0 < c -> wf_schedule evs = true ->
    forallb (fun e => 0 <=? adv_of e) evs = true ->
    map (fun x => (snd (fst x), snd x))
        (run_cevents_flag {| v_s := mk_failsafe (Some c) (Some n); v_flag := false |} t0 evs)
      = spec_obs n c 0 t0 None evs.

(* err, err, SUCCESS whose call is still open when another call enters, err:
   the variant opens the circuit after ONE consecutive failure (threshold 3) *)
Definition flag_witness : list cevent :=
  [ CEnter 1; CRead 1; CExit 1 KHandled;
    CEnter 2; CRead 2; CValidate 2 true; CExit 2 KHandled;
    CEnter 3; CRead 3; CValidate 3 false;      (* A: clean response ... *)
    CEnter 4; CRead 4;                         (* B enters before A has left *)
    CExit 3 KNone; CExit 4 KNone;
    CEnter 5; CRead 5; CExit 5 KHandled ].

Theorem C19_flag_in_exit_refuted : ~ C19_flag_in_exit_full.
Proof.
  intros H. specialize (H 3 2 100 flag_witness).
  assert (A : 0 < 3) by lia. assert (B : 0 < 2) by lia.
  specialize (H A B eq_refl eq_refl). vm_compute in H. discriminate.
Qed.
Print Assumptions C19_flag_in_exit_refuted.

(* ... while it is indistinguishable from the code on every schedule without
   overlap (which is why sequential tests and the sequential suites pass) *)
Theorem C19_flag_in_exit_same_when_sequential : forall l s fl now i,
  v_s (fst (vcrun {| v_s := s; v_flag := fl |} now (seq_schedule s now i l)))
    = fst (crun s now (seq_schedule s now i l)).
Proof.
  intros l s fl now i. rewrite seq_schedule_final.
  apply (proj1 (vseq_schedule_final l s fl now i)).
Qed.
Print Assumptions C19_flag_in_exit_same_when_sequential.

(* ------------------------------------------------------------------ *)
(** ** Non-vacuity                                                     *)
(* ------------------------------------------------------------------ *)

(* the witness is a genuine interleaving (two calls open at once), the code's
   machine answers as specified on it: after err, err the clean response of
   call 3 brings the tolerance back to 3 although call 4 enters before call 3
   leaves, and the last error leaves the circuit closed with tolerance 2 *)
Example C19_overlap_witness :
  wf_schedule flag_witness = true /\
  open_calls (firstn 12 flag_witness) = 2 /\
  map (fun x => (snd (fst x), snd x)) (run_cevents (mk_failsafe (Some 2) (Some 3)) 100 flag_witness)
  = [ (true, 3); (true, 3); (true, 2);
      (true, 2); (true, 2); (true, 2); (true, 1);
      (true, 1); (true, 1); (true, 3);
      (true, 3); (true, 3);
      (true, 3); (true, 3);
      (true, 3); (true, 3); (true, 2) ] /\
  nth 16 (map (fun x => (snd (fst x), snd x))
            (run_cevents_flag {| v_s := mk_failsafe (Some 2) (Some 3); v_flag := false |} 100 flag_witness))
      (true, 0) = (false, 1).
Proof. vm_compute. repeat split; reflexivity. Qed.

(* threshold 2, cool-down 3 s, three calls open at once: calls 1 and 2 both
   read state_ok = true, call 1 fails, call 3 enters, call 2 fails -> the
   circuit opens at 100; call 3 (already inside) reads false; 2999 ms later
   still false, 1 ms later true; call 3's late error exit re-opens it *)
Example C19_overlap_opens_and_recovers :
  let evs := [ CEnter 1; CRead 1; CEnter 2; CRead 2; CExit 1 KHandled; CEnter 3;
               CValidate 2 true; CExit 2 KHandled; CRead 3; CAdv 2999; CRead 3; CAdv 1;
               CRead 3; CExit 3 KHandled; CAdv 3000; CEnter 4; CRead 4; CValidate 4 false;
               CExit 4 KNone ] in
  wf_schedule evs = true /\ Forall adv_nonneg evs /\
  map (fun x => (snd (fst x), snd x)) (run_cevents (mk_failsafe (Some 3) (Some 2)) 100 evs)
  = [ (true, 2); (true, 2); (true, 2); (true, 2); (true, 1); (true, 1);
      (true, 1); (false, 1); (false, 1); (false, 1); (false, 1); (true, 1);
      (true, 1); (false, 1); (true, 1); (true, 1); (true, 1); (true, 2);
      (true, 2) ].
Proof.
  cbn zeta. split; [reflexivity|]. split; [repeat constructor; unfold adv_nonneg; cbn; lia|].
  vm_compute. reflexivity.
Qed.
