(* C19 — several guarded calls open at once on the ONE shared FailSafe.

   The interceptor creates a single FailSafe object; every hook (requests:
   application threads, aiohttp / tornado: asyncio tasks) runs

       with fail_safe:                        # __enter__
           if fail_safe.state_ok and ...:     # state_ok
               ... fail_safe.validate_headers(response.headers) ...
                                              # __exit__(exc)

   on that object, so the method calls of different in-flight requests reach it
   interleaved.  Here a history is a list of method-call EVENTS tagged with the
   id of the guarded call they belong to; the order of the list is the GLOBAL
   order in which the object executed them.  Every method body is one atomic
   step (true for asyncio tasks: no await inside fail_safe.py; for threads it
   is the granularity of the model, see props/C19.json "trusted").

   Model.op_step is the state machine; nothing in it depends on the tag, and
   [CEnter] changes nothing (fail_safe.py: `__enter__` returns self).  The
   tags serve the well-formedness predicate (each call: enter, then state_ok /
   validate_headers, then one exit) and the sequential special case.

   Executable definitions only; proofs are in OverlapProofs.v. *)
From Coq Require Import List ZArith Bool.
From Verif Require Import C19.Model.
Import ListNotations.
Open Scope Z_scope.

(* ================================================================== *)
(** * 1. Events and the machine                                        *)
(* ================================================================== *)

Inductive xkind :=
| KNone          (* the with block is left normally *)
| KHandled       (* ... by an exception of a handled type (gateway error) *)
| KOther.        (* ... by any other exception *)

Inductive cevent :=
| CEnter (i : Z)                    (* call i: fail_safe.__enter__() *)
| CRead (i : Z)                     (* call i: fail_safe.state_ok *)
| CValidate (i : Z) (err : bool)    (* call i: fail_safe.validate_headers(h), err = h has x-lunar-error *)
| CExit (i : Z) (k : xkind)         (* call i: fail_safe.__exit__(...) *)
| CAdv (d : Z).                     (* the clock advances by d ms *)

Definition op_of (e : cevent) : option op :=
  match e with
  | CEnter _ => None
  | CRead _ => Some Read
  | CValidate _ err => Some (Validate err)
  | CExit _ KNone => Some XNone
  | CExit _ KHandled => Some XHandled
  | CExit _ KOther => Some XOther
  | CAdv d => Some (Adv d)
  end.

(* one event on the shared object *)
Definition cstep (s : fs) (now : Z) (e : cevent) : fs * Z * ob :=
  match op_of e with
  | None => (s, now, OAdv)          (* __enter__: no effect, no result *)
  | Some o => op_step s now o
  end.

Fixpoint crun (s : fs) (now : Z) (l : list cevent) : fs * Z :=
  match l with
  | [] => (s, now)
  | e :: r => let '(s', now', _) := cstep s now e in crun s' now' r
  end.

(* What an observer sees of the object between two events, through the public
   interface only: what state_ok would answer now, and the TOLERANCE = number
   of further gateway errors after which a closed circuit opens (the
   observable form of the failure count: max_errors - count, at least 1). *)
Definition tolerance (s : fs) : Z := Z.max 1 (maxe s - cnt s).
Definition probe (s : fs) (now : Z) : bool * Z := (snd (read s now), tolerance s).

(* (result of the event itself, state_ok after it, tolerance after it) *)
Definition xob := (ob * bool * Z)%type.

Fixpoint run_cevents (s : fs) (now : Z) (l : list cevent) : list xob :=
  match l with
  | [] => []
  | e :: r =>
      let '(s', now', b) := cstep s now e in
      (b, fst (probe s' now'), snd (probe s' now')) :: run_cevents s' now' r
  end.

(* ================================================================== *)
(** * 2. Specification, on the global event order only                 *)
(* ================================================================== *)

(* a gateway error is counted where __exit__ receives it; a successful call
   through the gateway is counted where validate_headers sees its clean
   response.  "Between" always refers to positions in the global list. *)
Definition is_err_exit (e : cevent) : bool :=
  match e with CExit _ KHandled => true | _ => false end.
Definition is_clean (e : cevent) : bool :=
  match e with CValidate _ false => true | _ => false end.

Definition cupd (k : Z) (e : cevent) : Z :=
  if is_clean e then 0 else if is_err_exit e then k + 1 else k.

(* number of error exits after the last clean response (k0 before the list) *)
Definition errs_since_clean (k0 : Z) (l : list cevent) : Z := fold_left cupd l k0.

Definition adv_of (e : cevent) : Z := match e with CAdv d => d | _ => 0 end.
Definition clock_after (t0 : Z) (l : list cevent) : Z :=
  fold_left (fun t e => t + adv_of e) l t0.

(* does event e, arriving when k errors have been seen since the last clean
   response, reach the threshold n? *)
Definition trips_spec (n k : Z) (e : cevent) : bool :=
  is_err_exit e && (n <=? cupd k e).

(* instant of the last threshold-reaching error exit of a history *)
Fixpoint last_trip (n k now : Z) (acc : option Z) (l : list cevent) : option Z :=
  match l with
  | [] => acc
  | e :: r =>
      last_trip n (cupd k e) (now + adv_of e)
                (if trips_spec n k e then Some now else acc) r
  end.

(* what state_ok answers after a history: false exactly inside the cool-down
   of the last threshold-reaching error exit *)
Definition ok_at (c : Z) (acc : option Z) (now : Z) : bool :=
  match acc with
  | None => true
  | Some t => c * ms_per_s <=? now - t
  end.

Definition state_ok_spec (n c t0 : Z) (l : list cevent) : bool :=
  ok_at c (last_trip n 0 t0 None l) (clock_after t0 l).

(* the two observables after every event of a history, in one pass *)
Fixpoint spec_obs (n c k now : Z) (acc : option Z) (l : list cevent) : list (bool * Z) :=
  match l with
  | [] => []
  | e :: r =>
      let k' := cupd k e in
      let now' := now + adv_of e in
      let acc' := if trips_spec n k e then Some now else acc in
      (ok_at c acc' now', Z.max 1 (n - k')) :: spec_obs n c k' now' acc' r
  end.

(* the clock never runs backwards *)
Definition adv_nonneg (e : cevent) : Prop := 0 <= adv_of e.

(* ================================================================== *)
(** * 3. Well-formed schedules                                         *)
(* ================================================================== *)

(* phase of a call: 0 not started, 1 inside its with block, 2 left it,
   3 inside and validate_headers has just raised ProxyErrorException (a handled
   type: the only possible next event of that call is the error exit) *)
Fixpoint phase (ph : list (Z * Z)) (i : Z) : Z :=
  match ph with
  | [] => 0
  | (j, p) :: r => if j =? i then p else phase r i
  end.

Fixpoint wf_from (ph : list (Z * Z)) (l : list cevent) : bool :=
  match l with
  | [] => true
  | CAdv _ :: r => wf_from ph r
  | CEnter i :: r => (phase ph i =? 0) && wf_from ((i, 1) :: ph) r
  | CRead i :: r => (phase ph i =? 1) && wf_from ph r
  | CValidate i false :: r => (phase ph i =? 1) && wf_from ph r
  | CValidate i true :: r => (phase ph i =? 1) && wf_from ((i, 3) :: ph) r
  | CExit i KHandled :: r =>
      ((phase ph i =? 1) || (phase ph i =? 3)) && wf_from ((i, 2) :: ph) r
  | CExit i _ :: r => (phase ph i =? 1) && wf_from ((i, 2) :: ph) r
  end.

(* any interleaving of guarded calls in which every call keeps its own order
   (enter < state_ok / validate_headers < exit); any number of calls may be
   open at any moment *)
Definition wf_schedule (l : list cevent) : bool := wf_from [] l.

(* number of calls inside their with block after a history (for examples) *)
Fixpoint open_calls (l : list cevent) : Z :=
  match l with
  | [] => 0
  | CEnter _ :: r => open_calls r + 1
  | CExit _ _ :: r => open_calls r - 1
  | _ :: r => open_calls r
  end.

(* ================================================================== *)
(** * 4. The sequential special case (Model.run_calls)                 *)
(* ================================================================== *)

(* the events of one application call that runs alone: okb = what state_ok
   answered, a = the filter's decision, o = what the gateway does *)
Definition call_events (i : Z) (a : bool) (o : outcome) (okb : bool) : list cevent :=
  CEnter i :: CRead i ::
  (if okb && a then
     match o with
     | GOk => [CValidate i false; CExit i KNone]
     | GConn => [CExit i KHandled]
     | GHdr => [CValidate i true; CExit i KHandled]
     | GOther => [CExit i KOther]
     end
   else [CExit i KNone]).

(* the schedule in which the calls of a Model.cev history run one after the
   other (call ids i, i+1, ...) *)
Fixpoint seq_schedule (s : fs) (now : Z) (i : Z) (l : list cev) : list cevent :=
  match l with
  | [] => []
  | Tick d :: r => CAdv d :: seq_schedule s (now + d) i r
  | Call a o :: r =>
      call_events i a o (snd (read s now))
        ++ seq_schedule (fst (call_step s now a o)) now (i + 1) r
  end.

Fixpoint calls_final (s : fs) (now : Z) (l : list cev) : fs * Z :=
  match l with
  | [] => (s, now)
  | Tick d :: r => calls_final s (now + d) r
  | Call a o :: r => calls_final (fst (call_step s now a o)) now r
  end.

(* ================================================================== *)
(** * 5. Variant: success recorded in a per-INSTANCE flag, count cleared
         in __exit__ (NOT the code; refuted in PropertyOverlap.v)        *)
(* ================================================================== *)

(* validate_headers only sets a flag on the object, __enter__ clears the flag,
   __exit__ clears the count when the flag is set (before it handles the
   exception).  Identical to the machine above on every schedule in which the
   calls do not overlap. *)
Record vfs := { v_s : fs; v_flag : bool }.

Definition vstep (v : vfs) (now : Z) (e : cevent) : vfs * Z * ob :=
  match e with
  | CEnter _ => ({| v_s := v_s v; v_flag := false |}, now, OAdv)
  | CRead _ =>
      let '(s', b) := read (v_s v) now in
      ({| v_s := s'; v_flag := v_flag v |}, now, ORead b)
  | CValidate _ false => ({| v_s := v_s v; v_flag := true |}, now, OValidate false)
  | CValidate _ true => (v, now, OValidate true)
  | CExit _ k =>
      let s1 := if v_flag v then validate_ok (v_s v) else v_s v in
      match k with
      | KNone => ({| v_s := s1; v_flag := v_flag v |}, now, OExit false)
      | KHandled => ({| v_s := exit_handled s1 now; v_flag := v_flag v |}, now, OExit false)
      | KOther => ({| v_s := s1; v_flag := v_flag v |}, now, OExit true)
      end
  | CAdv d => (v, now + d, OAdv)
  end.

Fixpoint vcrun (v : vfs) (now : Z) (l : list cevent) : vfs * Z :=
  match l with
  | [] => (v, now)
  | e :: r => let '(v', now', _) := vstep v now e in vcrun v' now' r
  end.

Fixpoint run_cevents_flag (v : vfs) (now : Z) (l : list cevent) : list xob :=
  match l with
  | [] => []
  | e :: r =>
      let '(v', now', b) := vstep v now e in
      (b, fst (probe (v_s v') now'), snd (probe (v_s v') now')) :: run_cevents_flag v' now' r
  end.

(* ================================================================== *)
(** * 6. Correspondence entry point (suite "overlap")                  *)
(* ================================================================== *)

Definition xob_eqb (x y : xob) : bool :=
  let '(a, b, t) := x in
  let '(a', b', t') := y in
  ob_eqb a a' && eqb b b' && (t =? t').

(* (constructor, start instant, events in global order, observed) *)
Definition case_overlap := (ctor * Z * list cevent * list xob)%type.

Definition run_overlap (k : case_overlap) : option (list xob) :=
  let '(c, t0, evs, observed) := k in
  let m := run_cevents (build c) t0 evs in
  if list_eqb xob_eqb m observed then None else Some m.

(* manual cross-check only (C19_MODEL=flag): the per-instance-flag variant *)
Definition run_overlap_flag (k : case_overlap) : option (list xob) :=
  let '(c, t0, evs, observed) := k in
  let m := run_cevents_flag {| v_s := build c; v_flag := false |} t0 evs in
  if list_eqb xob_eqb m observed then None else Some m.
