(* C19 — vocabulary of the property statements (executable, no proofs).
   Everything here is defined on traces / addresses only, independently of the
   state of the model. *)
From Coq Require Import List ZArith Bool.
From Verif Require Import C19.Model.
Import ListNotations.
Open Scope Z_scope.

(** ** Fail-safe *)

(* a call that was sent to the gateway and failed there / succeeded there *)
Definition gw_failure (e : entry) : bool := e_routed e && is_failure (e_out e).
Definition gw_success (e : entry) : bool :=
  e_routed e && match e_out e with GOk => true | _ => false end.

(* number of consecutive gateway failures at the end of a history: failures
   since the last successful gateway call.  Calls that were not sent to the
   gateway and calls that ended in another exception neither count nor clear. *)
Definition upd (k : Z) (e : entry) : Z :=
  if gw_success e then 0 else if gw_failure e then k + 1 else k.
Definition fails_since_success (l : list entry) : Z := fold_left upd l 0.

(* the clock never runs backwards *)
Definition tick_nonneg (e : cev) : Prop :=
  match e with Tick d => 0 <= d | Call _ _ => True end.

(* a freshly constructed FailSafe *)
Definition fresh (s : fs) : Prop := ok s = true /\ cnt s = 0.

(** ** Traffic filter *)

(* loopback / private ranges and the black hole, by plain comparisons *)
Definition private_addr (a b c d : Z) : bool :=
  (a =? 10) || (a =? 127)
  || ((a =? 172) && ((16 <=? b) && (b <=? 31)))
  || ((a =? 192) && (b =? 168))
  || ((a =? 0) && ((b =? 0) && ((c =? 0) && (d =? 0)))).

(* the IPv4 address a destination stands for under resolver [rs]:
   the literal itself, or what the name resolves to *)
Definition target (rs : host -> res) (h : host) : option (Z * Z * Z * Z) :=
  if is_ip_literal h then
    match h with IPv4 a b c d => Some (a, b, c, d) | _ => None end
  else
    match rs h with RQuad a b c d => Some (a, b, c, d) | _ => None end.

Definition points_private (rs : host -> res) (h : host) : bool :=
  match target rs h with
  | Some (a, b, c, d) => private_addr a b c d
  | None => false
  end.

(* "external": stands for an IPv4 address outside the private ranges
   (IPv6 literals and unresolved names are not external) *)
Definition external (rs : host -> res) (h : host) : bool :=
  match target rs h with
  | Some (a, b, c, d) => negb (private_addr a b c d)
  | None => false
  end.

(* the decision, declaratively *)
Definition allowed_spec (f : tf) (rs : host -> res) (h : host) (hdr : option bool) : bool :=
  tf_ok f &&
  match hdr with
  | Some b => b                                   (* x-lunar-allow header: explicit per-request override *)
  | None =>
      match tf_allow f with
      | Some l => mem h l                         (* allow list in force: exactly its members *)
      | None => negb (mem h (tf_block f)) && external rs h
      end
  end.

(* the resolver answers with well-formed dotted quads, and every query of a
   history carries the answer of the same (stable) resolver *)
Definition resolver_wf (rs : host -> res) : Prop :=
  forall h a b c d, rs h = RQuad a b c d -> wf_quad a b c d = true.
Definition answered_by (rs : host -> res) (q : query) : Prop :=
  snd q = rs (fst (fst q)).

(* the filter state after a history of queries *)
Fixpoint cache_after (f : tf) (c : cache) (qs : list query) : cache :=
  match qs with
  | [] => c
  | (h, hdr, r) :: rest => cache_after f (fst (is_allowed f c h hdr r)) rest
  end.
