(* C19 — lemmas.  Final statements are in Property.v. *)
From Coq Require Import List ZArith Bool Lia.
From Verif Require Import C19.Model C19.Spec.
Import ListNotations.
Open Scope Z_scope.

(* ================================================================== *)
(** * FailSafe                                                         *)
(* ================================================================== *)

Lemma read_spec : forall s now,
  snd (read s now) = ok s || (cool s * ms_per_s <=? now - started s) /\
  ok (fst (read s now)) = snd (read s now) /\
  cnt (fst (read s now)) = cnt s /\ started (fst (read s now)) = started s /\
  maxe (fst (read s now)) = maxe s /\ cool (fst (read s now)) = cool s.
Proof.
  intros s now. unfold read.
  destruct (ok s) eqn:Hok; cbn [negb andb orb fst snd].
  - rewrite Hok. repeat split; reflexivity.
  - destruct (cool s * ms_per_s <=? now - started s) eqn:Hc; cbn [fst snd ok cnt started maxe cool].
    + repeat split; reflexivity.
    + rewrite Hok. repeat split; reflexivity.
Qed.

Lemma read_closed_id : forall s now, ok s = true -> read s now = (s, true).
Proof. intros s now H. unfold read. rewrite H. reflexivity. Qed.

Lemma read_open_id : forall s now,
  ok s = false -> now - started s < cool s * ms_per_s -> read s now = (s, false).
Proof.
  intros s now H Hlt. unfold read. rewrite H. cbn [negb andb].
  destruct (cool s * ms_per_s <=? now - started s) eqn:E; [apply Z.leb_le in E; lia|].
  reflexivity.
Qed.

Lemma exit_handled_spec : forall s now,
  cnt (exit_handled s now) = cnt s + 1 /\
  maxe (exit_handled s now) = maxe s /\ cool (exit_handled s now) = cool s /\
  (maxe s <= cnt s + 1 -> ok (exit_handled s now) = false /\ started (exit_handled s now) = now) /\
  (cnt s + 1 < maxe s -> ok (exit_handled s now) = ok s /\ started (exit_handled s now) = started s).
Proof.
  intros s now. unfold exit_handled.
  destruct (maxe s >? cnt s + 1) eqn:E; cbn [ok cnt started maxe cool].
  - rewrite Z.gtb_ltb in E. apply Z.ltb_lt in E.
    split; [reflexivity|]. split; [reflexivity|]. split; [reflexivity|]. split.
    + intros Hle. lia.
    + intros _. split; reflexivity.
  - rewrite Z.gtb_ltb in E. apply Z.ltb_ge in E.
    split; [reflexivity|]. split; [reflexivity|]. split; [reflexivity|]. split.
    + intros _. split; reflexivity.
    + intros Hlt. lia.
Qed.

(* all the ways one application call can go *)
Lemma call_step_cases : forall s now a o s' rt rs,
  call_step s now a o = (s', (rt, rs)) ->
  let s1 := fst (read s now) in
  let okb := snd (read s now) in
  (okb && a = true /\ rt = true /\
     ((o = GOk /\ s' = validate_ok s1 /\ rs = false) \/
      (is_failure o = true /\ s' = exit_handled s1 now /\ rs = false) \/
      (o = GOther /\ s' = s1 /\ rs = true)))
  \/ (okb && a = false /\ rt = false /\ rs = false /\ s' = s1).
Proof.
  intros s now a o s' rt rs H. unfold call_step in H.
  destruct (read s now) as [s1 okb] eqn:R. cbn [fst snd].
  destruct (okb && a) eqn:E.
  - left. split; [reflexivity|].
    destruct o; inversion H; subst; split; try reflexivity.
    + left; auto.
    + right; left; auto.
    + right; left; auto.
    + right; right; auto.
  - right. inversion H; subst. auto.
Qed.

Lemma fss_app1 : forall h e, fails_since_success (h ++ [e]) = upd (fails_since_success h) e.
Proof. intros h e. unfold fails_since_success. rewrite fold_left_app. reflexivity. Qed.

(* the invariant tying the state to the history of calls so far *)
Definition Inv (n c : Z) (s : fs) (h : list entry) : Prop :=
  maxe s = n /\ cool s = c /\ cnt s = fails_since_success h /\
  (ok s = false ->
     exists pre1 f mid, h = pre1 ++ f :: mid /\ gw_failure f = true /\
       n <= fails_since_success (pre1 ++ [f]) /\ started s = e_t f).

Lemma Inv_fresh : forall s, fresh s -> Inv (maxe s) (cool s) s [].
Proof.
  intros s [Hok Hc]. repeat split; auto.
  intros H. rewrite Hok in H. discriminate.
Qed.

Definition mk_entry (now : Z) (a : bool) (o : outcome) (rt rs : bool) : entry :=
  {| e_t := now; e_allowed := a; e_out := o; e_routed := rt; e_raised := rs |}.

Lemma upd_not_routed : forall k now a o rs, upd k (mk_entry now a o false rs) = k.
Proof. intros. unfold upd, gw_success, gw_failure. reflexivity. Qed.

(* one call: the invariant is kept, and a bypass of an admissible call is justified *)
Lemma call_step_inv : forall n c s h now a o s' rt rs,
  Inv n c s h ->
  call_step s now a o = (s', (rt, rs)) ->
  let e := mk_entry now a o rt rs in
  Inv n c s' (h ++ [e]) /\
  (a = true -> rt = false ->
     exists pre1 f mid, h = pre1 ++ f :: mid /\ gw_failure f = true /\
       n <= fails_since_success (pre1 ++ [f]) /\ now < e_t f + c * ms_per_s) /\
  (rt = true -> is_failure o = true -> n <= fails_since_success (h ++ [e]) ->
     ok s' = false /\ started s' = now) /\
  rs = rt && (match o with GOther => true | _ => false end) /\
  (rt = true -> a = true).
Proof.
  intros n c s h now a o s' rt rs (Hm & Hc & Hcnt & Hopen) Hstep e.
  destruct (read_spec s now) as (Rsnd & Rok & Rcnt & Rst & Rm & Rc).
  apply call_step_cases in Hstep. cbn zeta in Hstep.
  assert (Hfss : fails_since_success (h ++ [e]) = upd (fails_since_success h) e) by apply fss_app1.
  destruct Hstep as [(Hoa & Hrt & Hcases) | (Hoa & Hrt & Hrs & Hs')].
  - (* routed *)
    apply andb_true_iff in Hoa. destruct Hoa as [Hokb Ha]. subst rt.
    destruct Hcases as [(Ho & Hs' & Hrs) | [(Ho & Hs' & Hrs) | (Ho & Hs' & Hrs)]]; subst s' rs.
    + (* success *)
      subst o. split; [|split; [|split; [|split]]].
      * unfold Inv. cbn [validate_ok ok cnt started maxe cool].
        split; [congruence|]. split; [congruence|]. split.
        -- rewrite Hfss. unfold upd, e, mk_entry, gw_success. reflexivity.
        -- rewrite Rok, Hokb. discriminate.
      * intros _ H; discriminate.
      * intros _ H; discriminate.
      * reflexivity.
      * auto.
    + (* gateway failure *)
      destruct (exit_handled_spec (fst (read s now)) now) as (Ecnt & Em & Ec & Eopen & Ekeep).
      assert (Hu : upd (fails_since_success h) e = fails_since_success h + 1).
      { unfold upd, e, mk_entry, gw_success, gw_failure. cbn [e_routed e_out andb].
        rewrite Ho. destruct o; try discriminate; reflexivity. }
      split; [|split; [|split; [|split]]].
      * unfold Inv.
        split; [congruence|]. split; [congruence|]. split.
        -- rewrite Ecnt, Rcnt, Hfss, Hu, Hcnt. reflexivity.
        -- intros Hfalse.
           destruct (Z_lt_le_dec (cnt (fst (read s now)) + 1) (maxe (fst (read s now)))) as [Hlt | Hge].
           ++ destruct (Ekeep Hlt) as [Eok _]. rewrite Eok, Rok, Hokb in Hfalse. discriminate.
           ++ destruct (Eopen Hge) as [_ Est].
              exists h, e, []. split; [reflexivity|]. split; [|split].
              ** unfold gw_failure, e, mk_entry. cbn [e_routed e_out andb]. exact Ho.
              ** rewrite Hfss, Hu. rewrite Rm, Rcnt in Hge. lia.
              ** rewrite Est. reflexivity.
      * intros _ H; discriminate.
      * intros _ _ Hn. apply Eopen. rewrite Rm, Rcnt. rewrite Hfss, Hu in Hn. lia.
      * destruct o; try discriminate; reflexivity.
      * auto.
    + (* another exception *)
      subst o. split; [|split; [|split; [|split]]].
      * unfold Inv.
        split; [congruence|]. split; [congruence|]. split.
        -- rewrite Rcnt, Hfss. unfold upd, e, mk_entry, gw_success, gw_failure. cbn. exact Hcnt.
        -- rewrite Rok, Hokb. discriminate.
      * intros _ H; discriminate.
      * intros _ H; discriminate.
      * reflexivity.
      * auto.
  - (* not routed *)
    subst rt rs s'.
    assert (Hu : upd (fails_since_success h) e = fails_since_success h) by apply upd_not_routed.
    split; [|split; [|split; [|split]]].
    + unfold Inv.
      split; [congruence|]. split; [congruence|]. split.
      * rewrite Rcnt, Hfss, Hu. exact Hcnt.
      * intros Hfalse. rewrite Rok, Rsnd in Hfalse. apply orb_false_iff in Hfalse. destruct Hfalse as [Hf _].
        destruct (Hopen Hf) as (pre1 & f & mid & Hh & Hgf & Hn & Hst).
        exists pre1, f, (mid ++ [e]). split; [|split; [|split]]; auto.
        -- rewrite Hh. rewrite <- app_assoc. reflexivity.
        -- rewrite Rst. exact Hst.
    + intros Ha _. subst a. rewrite andb_true_r in Hoa.
      rewrite Rsnd in Hoa. apply orb_false_iff in Hoa. destruct Hoa as [Hf Hcd].
      destruct (Hopen Hf) as (pre1 & f & mid & Hh & Hgf & Hn & Hst).
      exists pre1, f, mid. split; [|split; [|split]]; auto.
      apply Z.leb_gt in Hcd. rewrite Hc, Hst in Hcd. lia.
    + intros H; discriminate.
    + reflexivity.
    + intros H; discriminate.
Qed.

(* -------- soundness: every bypass of an admissible call is justified -------- *)
Lemma bypass_justified_gen : forall n c evs s now h,
  Inv n c s h ->
  forall pre e post,
    run_calls s now evs = pre ++ e :: post ->
    e_allowed e = true -> e_routed e = false ->
    exists pre1 f mid, h ++ pre = pre1 ++ f :: mid /\ gw_failure f = true /\
      n <= fails_since_success (pre1 ++ [f]) /\ e_t e < e_t f + c * ms_per_s.
Proof.
  intros n c evs. induction evs as [|ev evs IH]; intros s now h HI pre e post Hrun Ha Hr.
  - destruct pre; discriminate.
  - destruct ev as [a o | d]; cbn [run_calls] in Hrun.
    + destruct (call_step s now a o) as [s' [rt rs]] eqn:Hstep.
      destruct (call_step_inv n c s h now a o s' rt rs HI Hstep) as (HI' & Hjust & _).
      destruct pre as [|e0 pre'].
      * cbn [app] in Hrun. inversion Hrun; subst e post.
        cbn [e_allowed e_routed e_t] in *.
        destruct (Hjust Ha Hr) as (pre1 & f & mid & Hh & Hgf & Hn & Hlt).
        exists pre1, f, mid. rewrite app_nil_r. auto.
      * cbn [app] in Hrun. inversion Hrun; subst e0.
        destruct (IH s' now _ HI' pre' e post H1 Ha Hr) as (pre1 & f & mid & Hh & Hrest).
        exists pre1, f, mid. split; [|exact Hrest].
        rewrite <- Hh. rewrite <- app_assoc. reflexivity.
    + eapply IH; eauto.
Qed.

(* -------- completeness: from the threshold on, the circuit is open -------- *)
Lemma run_calls_time : forall evs s now,
  Forall tick_nonneg evs -> Forall (fun e => now <= e_t e) (run_calls s now evs).
Proof.
  induction evs as [|ev evs IH]; intros s now Hnn; [constructor|].
  pose proof (Forall_inv Hnn) as Hev. pose proof (Forall_inv_tail Hnn) as Hrest.
  destruct ev as [a o | d]; cbn [run_calls].
  - destruct (call_step s now a o) as [s' [rt rs]]. constructor; [cbn; lia|]. apply IH; auto.
  - cbn in Hev. specialize (IH s (now + d) Hrest).
    eapply Forall_impl; [|exact IH]. cbn. intros; lia.
Qed.

Lemma call_step_cool : forall s now a o s' x,
  call_step s now a o = (s', x) -> cool s' = cool s.
Proof.
  intros s now a o s' [rt rs] Hstep.
  apply call_step_cases in Hstep. cbn zeta in Hstep.
  destruct (read_spec s now) as (_ & _ & _ & _ & _ & Rc).
  destruct (exit_handled_spec (fst (read s now)) now) as (_ & _ & Ec & _).
  destruct Hstep as [(_ & _ & [(_ & E & _) | [(_ & E & _) | (_ & E & _)]]) | (_ & _ & _ & E)];
    subst s'; cbn [validate_ok cool]; congruence.
Qed.

Lemma stays_open : forall c tf evs s now,
  Forall tick_nonneg evs -> cool s = c ->
  ((ok s = false /\ started s = tf) \/ tf + c * ms_per_s <= now) ->
  Forall (fun e => e_t e < tf + c * ms_per_s -> e_routed e = false) (run_calls s now evs).
Proof.
  intros c tf evs. induction evs as [|ev evs IH]; intros s now Hnn Hc HJ; [constructor|].
  pose proof (Forall_inv Hnn) as Hev. pose proof (Forall_inv_tail Hnn) as Hrest.
  destruct ev as [a o | d]; cbn [run_calls].
  - destruct (call_step s now a o) as [s' [rt rs]] eqn:Hstep.
    pose proof (call_step_cool _ _ _ _ _ _ Hstep) as Hc'.
    destruct HJ as [[Hok Hst] | Hlate].
    + destruct (Z_lt_le_dec (now - started s) (cool s * ms_per_s)) as [Hlt | Hge].
      * (* still inside the cool-down: state_ok answers false, nothing changes *)
        unfold call_step in Hstep. rewrite (read_open_id s now Hok Hlt) in Hstep.
        cbn [andb] in Hstep. inversion Hstep; subst s' rt rs.
        constructor; [cbn; auto|]. apply IH; auto.
      * (* the cool-down is over at this instant: every later instant is late too *)
        constructor; [cbn [e_t]; intros; lia|].
        apply IH; [assumption | congruence | right; lia].
    + constructor; [cbn [e_t]; intros; lia|].
      apply IH; [assumption | congruence | right; lia].
  - cbn in Hev. apply IH; auto.
    destruct HJ as [HJ | HJ]; [left; exact HJ | right; lia].
Qed.

Lemma opens_at_threshold_gen : forall n c evs s now h,
  Inv n c s h -> Forall tick_nonneg evs ->
  forall pre f post,
    run_calls s now evs = pre ++ f :: post ->
    gw_failure f = true ->
    n <= fails_since_success (h ++ pre ++ [f]) ->
    Forall (fun e => e_t e < e_t f + c * ms_per_s -> e_routed e = false) post.
Proof.
  intros n c evs. induction evs as [|ev evs IH]; intros s now h HI Hnn pre f post Hrun Hgf Hn.
  - destruct pre; discriminate.
  - pose proof (Forall_inv Hnn) as Hev. pose proof (Forall_inv_tail Hnn) as Hrest.
    destruct ev as [a o | d]; cbn [run_calls] in Hrun.
    + destruct (call_step s now a o) as [s' [rt rs]] eqn:Hstep.
      destruct (call_step_inv n c s h now a o s' rt rs HI Hstep) as (HI' & _ & Hopen & _).
      destruct pre as [|e0 pre'].
      * cbn [app] in Hrun, Hn. inversion Hrun; subst f post.
        unfold gw_failure in Hgf. cbn [e_routed e_out] in Hgf.
        apply andb_true_iff in Hgf. destruct Hgf as [Hrt Hfail].
        destruct (Hopen Hrt Hfail Hn) as [Hok Hst].
        cbn [e_t]. apply stays_open; auto.
        destruct HI' as (_ & Hc' & _). exact Hc'.
      * cbn [app] in Hrun. inversion Hrun; subst e0.
        eapply (IH s' now _ HI' Hrest pre' f post); eauto.
        rewrite <- app_assoc. cbn [app]. exact Hn.
    + eapply IH; eauto.
Qed.

(* -------- exceptions and excluded destinations -------- *)
Lemma raised_iff_other : forall evs s now,
  Forall (fun e => e_raised e = e_routed e && (match e_out e with GOther => true | _ => false end) /\
                   (e_routed e = true -> e_allowed e = true))
         (run_calls s now evs).
Proof.
  induction evs as [|ev evs IH]; intros s now; [constructor|].
  destruct ev as [a o | d]; cbn [run_calls]; [|apply IH].
  destruct (call_step s now a o) as [s' [rt rs]] eqn:Hstep.
  constructor; [|apply IH].
  cbn [e_raised e_routed e_out e_allowed].
  apply call_step_cases in Hstep. cbn zeta in Hstep.
  destruct Hstep as [(Hoa & Hrt & Hcases) | (Hoa & Hrt & Hrs & Hs')].
  - apply andb_true_iff in Hoa. destruct Hoa as [_ Ha]. subst rt.
    destruct Hcases as [(Ho & _ & Hrs) | [(Ho & _ & Hrs) | (Ho & _ & Hrs)]]; subst rs.
    + subst o. auto.
    + destruct o; try discriminate; auto.
    + subst o. auto.
  - subst rt rs. split; [reflexivity | discriminate].
Qed.

Lemma other_changes_nothing : forall s now a,
  fst (call_step s now a GOther) = fst (read s now).
Proof.
  intros s now a. unfold call_step. destruct (read s now) as [s1 okb]. cbn [fst].
  destruct (okb && a); reflexivity.
Qed.

(* ================================================================== *)
(** * Traffic filter                                                   *)
(* ================================================================== *)

Lemma host_eqb_eq : forall x y, host_eqb x y = true -> x = y.
Proof.
  intros x y H. destruct x, y; cbn in H; try discriminate.
  - repeat (apply andb_true_iff in H; destruct H as [H ?]).
    repeat match goal with E : (_ =? _) = true |- _ => apply Z.eqb_eq in E end. subst. reflexivity.
  - apply Z.eqb_eq in H. subst. reflexivity.
  - apply Z.eqb_eq in H. subst. reflexivity.
  - apply Z.eqb_eq in H. subst. reflexivity.
Qed.

(* ---- the private-range test as coded (first two characters) is exact ---- *)

Lemma octet_range : forall x, octet x = true -> 0 <= x <= 255.
Proof. intros x H. unfold octet in H. apply andb_true_iff in H. destruct H as [A B].
  apply Z.leb_le in A. apply Z.leb_le in B. lia. Qed.

(* the decision only looks at the address through these quotients *)
Lemma ip_int_shifts : forall a b c d,
  0 <= b <= 255 -> 0 <= c <= 255 -> 0 <= d <= 255 ->
  ip_int a b c d / 2 ^ 24 = a /\
  ip_int a b c d / 2 ^ 20 = a * 16 + b / 16 /\
  ip_int a b c d / 2 ^ 16 = a * 256 + b.
Proof.
  intros a b c d Hb Hc Hd. unfold ip_int.
  change (2 ^ 24) with 16777216. change (2 ^ 20) with 1048576. change (2 ^ 16) with 65536.
  repeat split.
  - symmetry. apply (Z.div_unique _ _ _ ((b * 256 + c) * 256 + d)); lia.
  - pose proof (Z.div_mod b 16 ltac:(lia)) as Hdm.
    pose proof (Z.mod_pos_bound b 16 ltac:(lia)) as Hmb.
    symmetry. apply (Z.div_unique _ _ _ (((b mod 16) * 256 + c) * 256 + d)); lia.
  - symmetry. apply (Z.div_unique _ _ _ (c * 256 + d)); lia.
Qed.

(* table lookup by the two leading characters, for every first octet *)
Definition expected_range (a : Z) : Z * Z :=
  if (a =? 10) || ((100 <=? a) && (a <=? 109)) then (ip_int 10 0 0 0, 8)
  else if (a =? 12) || ((120 <=? a) && (a <=? 129)) then (ip_int 127 0 0 0, 8)
  else if (a =? 17) || ((170 <=? a) && (a <=? 179)) then (ip_int 172 16 0 0, 12)
  else if (a =? 19) || ((190 <=? a) && (a <=? 199)) then (ip_int 192 168 0 0, 16)
  else black_hole.

Fixpoint zrange (lo : Z) (n : nat) : list Z :=
  match n with O => [] | S k => lo :: zrange (lo + 1) k end.

Lemma zrange_in : forall n lo x, lo <= x < lo + Z.of_nat n -> In x (zrange lo n).
Proof.
  induction n as [|n IH]; intros lo x H; [lia|].
  cbn [zrange]. destruct (Z.eq_dec lo x); [left; auto|right].
  apply IH. lia.
Qed.

Definition pair_eqb (x y : Z * Z) : bool := (fst x =? fst y) && (snd x =? snd y).

Lemma range_table_sweep :
  forallb (fun a => pair_eqb (range_for (prefix2 a) private_ranges) (expected_range a))
          (zrange 0 256) = true.
Proof. vm_compute. reflexivity. Qed.

Lemma range_for_prefix : forall a, 0 <= a <= 255 ->
  range_for (prefix2 a) private_ranges = expected_range a.
Proof.
  intros a Ha.
  pose proof range_table_sweep as S. rewrite forallb_forall in S.
  specialize (S a (zrange_in 256 0 a ltac:(lia))).
  unfold pair_eqb in S. apply andb_true_iff in S. destruct S as [S1 S2].
  apply Z.eqb_eq in S1. apply Z.eqb_eq in S2.
  destruct (range_for (prefix2 a) private_ranges), (expected_range a). cbn in *. congruence.
Qed.

Lemma is_external_ip_exact : forall a b c d,
  wf_quad a b c d = true -> is_external_ip a b c d = negb (private_addr a b c d).
Proof.
  intros a b c d W. unfold wf_quad in W.
  apply andb_true_iff in W. destruct W as [W Hd].
  apply andb_true_iff in W. destruct W as [W Hc].
  apply andb_true_iff in W. destruct W as [Ha Hb].
  apply octet_range in Ha. apply octet_range in Hb.
  apply octet_range in Hc. apply octet_range in Hd.
  destruct (ip_int_shifts a b c d) as (S24 & S20 & S16); try lia.
  unfold is_external_ip. rewrite range_for_prefix by lia. f_equal.
  unfold expected_range, in_net, private_addr.
  assert (Hbd : 0 <= b / 16 < 16) by (split; [apply Z.div_pos; lia | apply Z.div_lt_upper_bound; lia]).
  assert (Hb16 : (16 <=? b) && (b <=? 31) = (b / 16 =? 1)).
  { destruct (b / 16 =? 1) eqn:E.
    - apply Z.eqb_eq in E. pose proof (Z.div_mod b 16 ltac:(lia)). pose proof (Z.mod_pos_bound b 16 ltac:(lia)).
      apply andb_true_iff. split; apply Z.leb_le; lia.
    - apply Z.eqb_neq in E. apply andb_false_iff.
      destruct (Z_lt_le_dec b 16); [left; apply Z.leb_gt; lia|].
      destruct (Z_lt_le_dec 31 b); [right; apply Z.leb_gt; lia|].
      exfalso. apply E. symmetry. apply (Z.div_unique b 16 1 (b - 16)); lia. }
  destruct ((a =? 10) || (100 <=? a) && (a <=? 109)) eqn:E1.
  { cbn [fst snd]. change (32 - 8) with 24. rewrite S24.
    change (ip_int 10 0 0 0 / 2 ^ 24) with 10.
    destruct (a =? 10) eqn:A; [reflexivity|].
    cbn [orb] in E1. apply andb_true_iff in E1. destruct E1 as [L U].
    apply Z.leb_le in L. apply Z.leb_le in U.
    repeat match goal with |- context [?x =? ?y] =>
      let F := fresh in destruct (x =? y) eqn:F; [apply Z.eqb_eq in F; try lia|] end.
    all: try reflexivity. }
  destruct ((a =? 12) || (120 <=? a) && (a <=? 129)) eqn:E2.
  { cbn [fst snd]. change (32 - 8) with 24. rewrite S24.
    change (ip_int 127 0 0 0 / 2 ^ 24) with 127.
    apply orb_false_iff in E1. destruct E1 as [A10 _].
    rewrite A10. cbn [orb].
    destruct (a =? 127) eqn:A; [reflexivity|].
    apply Z.eqb_neq in A.
    apply orb_true_iff in E2.
    assert (R : a = 12 \/ 120 <= a <= 129).
    { destruct E2 as [E2|E2]; [left; apply Z.eqb_eq; auto|right].
      apply andb_true_iff in E2. destruct E2 as [L U]. apply Z.leb_le in L. apply Z.leb_le in U. lia. }
    repeat match goal with |- context [?x =? ?y] =>
      let F := fresh in destruct (x =? y) eqn:F; [apply Z.eqb_eq in F; try lia|] end.
    all: try reflexivity. }
  destruct ((a =? 17) || (170 <=? a) && (a <=? 179)) eqn:E3.
  { cbn [fst snd]. change (32 - 12) with 20. rewrite S20.
    change (ip_int 172 16 0 0 / 2 ^ 20) with 2753.
    apply orb_false_iff in E1. destruct E1 as [A10 _].
    apply orb_false_iff in E2. destruct E2 as [A12 E2].
    apply orb_true_iff in E3.
    assert (R : a = 17 \/ 170 <= a <= 179).
    { destruct E3 as [E3|E3]; [left; apply Z.eqb_eq; auto|right].
      apply andb_true_iff in E3. destruct E3 as [L U]. apply Z.leb_le in L. apply Z.leb_le in U. lia. }
    rewrite A10. rewrite Hb16.
    destruct (a =? 172) eqn:A.
    - apply Z.eqb_eq in A. subst a.
      replace (127 =? 127) with true by reflexivity.
      change (172 =? 127) with false. change (172 =? 192) with false. change (172 =? 0) with false.
      cbn [orb andb].
      destruct (b / 16 =? 1) eqn:B.
      + apply Z.eqb_eq in B. rewrite B. reflexivity.
      + apply Z.eqb_neq in B. rewrite orb_false_r. apply Z.eqb_neq. lia.
    - apply Z.eqb_neq in A. cbn [andb orb].
      assert (a * 16 + b / 16 =? 2753 = false) as -> by (apply Z.eqb_neq; lia).
      repeat match goal with |- context [?x =? ?y] =>
        let F := fresh in destruct (x =? y) eqn:F; [apply Z.eqb_eq in F; try lia|] end.
      all: try reflexivity. }
  destruct ((a =? 19) || (190 <=? a) && (a <=? 199)) eqn:E4.
  { cbn [fst snd]. change (32 - 16) with 16. rewrite S16.
    change (ip_int 192 168 0 0 / 2 ^ 16) with 49320.
    apply orb_false_iff in E1. destruct E1 as [A10 _].
    apply orb_true_iff in E4.
    assert (R : a = 19 \/ 190 <= a <= 199).
    { destruct E4 as [E4|E4]; [left; apply Z.eqb_eq; auto|right].
      apply andb_true_iff in E4. destruct E4 as [L U]. apply Z.leb_le in L. apply Z.leb_le in U. lia. }
    rewrite A10.
    destruct ((a =? 192) && (b =? 168)) eqn:AB.
    - apply andb_true_iff in AB. destruct AB as [A B].
      apply Z.eqb_eq in A. apply Z.eqb_eq in B. subst a b.
      cbn. reflexivity.
    - assert (a * 256 + b =? 49320 = false) as ->.
      { apply Z.eqb_neq. intros E. apply andb_false_iff in AB.
        destruct AB as [A|B]; [apply Z.eqb_neq in A | apply Z.eqb_neq in B]; lia. }
      repeat match goal with |- context [?x =? ?y] =>
        let F := fresh in destruct (x =? y) eqn:F; [apply Z.eqb_eq in F; try lia|] end.
      all: cbn [orb andb]; try reflexivity. }
  (* no table entry: black hole 0.0.0.0/32 *)
  cbn [black_hole fst snd]. change (32 - 32) with 0. change (2 ^ 0) with 1.
  rewrite !Z.div_1_r.
  apply orb_false_iff in E1. destruct E1 as [A10 E1].
  apply orb_false_iff in E2. destruct E2 as [A12 E2].
  apply orb_false_iff in E3. destruct E3 as [A17 E3].
  apply orb_false_iff in E4. destruct E4 as [A19 E4].
  assert (N127 : a =? 127 = false).
  { apply Z.eqb_neq. intros ->. cbn in E2. discriminate. }
  assert (N172 : a =? 172 = false).
  { apply Z.eqb_neq. intros ->. cbn in E3. discriminate. }
  assert (N192 : a =? 192 = false).
  { apply Z.eqb_neq. intros ->. cbn in E4. discriminate. }
  rewrite A10, N127, N172, N192. cbn [orb andb].
  unfold ip_int.
  destruct (((a * 256 + b) * 256 + c) * 256 + d =? 0) eqn:Z0.
  - apply Z.eqb_eq in Z0.
    assert (a = 0 /\ b = 0 /\ c = 0 /\ d = 0) as (-> & -> & -> & ->) by lia.
    reflexivity.
  - apply Z.eqb_neq in Z0.
    destruct (a =? 0) eqn:A0; [|reflexivity]. apply Z.eqb_eq in A0.
    destruct (b =? 0) eqn:B0; [|reflexivity]. apply Z.eqb_eq in B0.
    destruct (c =? 0) eqn:C0; [|reflexivity]. apply Z.eqb_eq in C0.
    destruct (d =? 0) eqn:D0; [|reflexivity]. apply Z.eqb_eq in D0.
    subst. exfalso. apply Z0. reflexivity.
Qed.

(* ---- the cache only remembers what the (stable) resolver says ---- *)

Definition cache_ok (rs : host -> res) (c : cache) : Prop :=
  forall h v, cache_get c h = Some v -> v = external rs h.

Lemma cache_ok_nil : forall rs, cache_ok rs [].
Proof. intros rs h v H. discriminate. Qed.

Lemma is_external_spec : forall rs c h,
  resolver_wf rs -> cache_ok rs c ->
  snd (is_external c h (rs h)) = Decision (external rs h) /\
  cache_ok rs (fst (is_external c h (rs h))).
Proof.
  intros rs c h Hwf Hc. unfold is_external.
  destruct (cache_get c h) as [v|] eqn:G.
  - cbn [fst snd]. rewrite (Hc h v G). auto.
  - match goal with |- context [match ?X with Some _ => _ | None => _ end] =>
      remember X as cmp eqn:Cmp end.
    assert (Hext : forall v, cmp = Some v -> v = external rs h).
    { intros v Hv. subst cmp. unfold external, target.
      destruct (is_ip_literal h) eqn:L.
      - destruct h; try discriminate; inversion Hv; subst; auto.
        cbn in L. rewrite is_external_ip_exact by exact L. reflexivity.
      - destruct (rs h) as [a b c' d| |] eqn:R; try discriminate.
        inversion Hv; subst. rewrite is_external_ip_exact by (eapply Hwf; eauto). reflexivity. }
    assert (Hnone : cmp = None -> external rs h = false).
    { intros Hv. subst cmp. unfold external, target.
      destruct (is_ip_literal h) eqn:L.
      - destruct h; discriminate.
      - destruct (rs h); try discriminate; reflexivity. }
    destruct cmp as [v|].
    + cbn [fst snd]. rewrite (Hext v eq_refl). split; [reflexivity|].
      intros h' v' G'. cbn [cache_get] in G'.
      destruct (host_eqb h h') eqn:E.
      * apply host_eqb_eq in E. subst h'. inversion G'; subst. reflexivity.
      * apply Hc. exact G'.
    + cbn [fst snd]. split; [|exact Hc].
      rewrite (Hnone eq_refl). reflexivity.
Qed.

Lemma is_allowed_spec : forall f rs c h hdr,
  resolver_wf rs -> cache_ok rs c ->
  snd (is_allowed f c h hdr (rs h)) = Decision (allowed_spec f rs h hdr) /\
  cache_ok rs (fst (is_allowed f c h hdr (rs h))).
Proof.
  intros f rs c h hdr Hwf Hc. unfold is_allowed, allowed_spec.
  destruct (tf_ok f); cbn [negb andb].
  2: { split; [reflexivity | exact Hc]. }
  destruct hdr as [b|]; [split; [reflexivity | exact Hc]|].
  destruct (tf_allow f) as [l|]; [split; [reflexivity | exact Hc]|].
  destruct (mem h (tf_block f)); cbn [negb andb]; [split; [reflexivity | exact Hc]|].
  apply is_external_spec; auto.
Qed.

Lemma cache_after_ok : forall f rs qs c,
  resolver_wf rs -> cache_ok rs c -> Forall (answered_by rs) qs ->
  cache_ok rs (cache_after f c qs).
Proof.
  intros f rs qs. induction qs as [|[[h hdr] r] qs IH]; intros c Hwf Hc Hq; [exact Hc|].
  inversion Hq as [|? ? Hq1 Hq2]; subst. unfold answered_by in Hq1. cbn [fst snd] in Hq1. subst r.
  cbn [cache_after]. apply IH; auto.
  apply is_allowed_spec; auto.
Qed.

Lemma decision_total : forall f c h hdr r,
  exists b, snd (is_allowed f c h hdr r) = Decision b.
Proof.
  intros f c h hdr r. unfold is_allowed.
  destruct (negb (tf_ok f)); [eexists; reflexivity|].
  destruct hdr; [eexists; reflexivity|].
  destruct (tf_allow f); [eexists; reflexivity|].
  destruct (mem h (tf_block f)); [eexists; reflexivity|].
  unfold is_external.
  destruct (cache_get c h); [eexists; reflexivity|].
  destruct (if is_ip_literal h then _ else _); eexists; reflexivity.
Qed.

(* ---- what the lists mean (mk_filter) ---- *)

Lemma mk_filter_allow : forall rb ra,
  tf_allow (mk_filter rb ra) = option_map (filter valid_entry) (parse ra).
Proof.
  intros rb ra. unfold mk_filter.
  destruct (parse rb); [|reflexivity].
  destruct (match option_map (filter valid_entry) (parse ra) with Some (_ :: _) => true | _ => false end);
    reflexivity.
Qed.

Lemma mk_filter_block_invalid : forall b ra,
  b <> [] -> forallb valid_entry b = false ->
  (match option_map (filter valid_entry) (parse ra) with Some (_ :: _) => false | _ => true end) = true ->
  tf_ok (mk_filter (Some b) ra) = false.
Proof.
  intros b ra Hb Hinv Hno. unfold mk_filter.
  assert (parse (Some b) = Some b) as -> by (destruct b; [congruence | reflexivity]).
  destruct (option_map (filter valid_entry) (parse ra)) as [[|x l]|]; try discriminate; cbn; auto.
Qed.

(* ================================================================== *)
(** * The hook model is the call protocol over the filter's decisions  *)
(* ================================================================== *)

Definition decided_true (d : dec) : bool :=
  match d with Decision true => true | _ => false end.

Fixpoint calls_of (f : tf) (s : fs) (c : cache) (now : Z) (l : list hev) : list cev :=
  match l with
  | [] => []
  | HTick d :: r => Tick d :: calls_of f s c (now + d) r
  | HCall h hdr rs o :: r =>
      let '(s', c', _) := hook_step f s c now h hdr rs o in
      Call (decided_true (snd (is_allowed f c h hdr rs))) o :: calls_of f s' c' now r
  end.

Definition hob_of_entry (e : entry) : hob :=
  (e_routed e,
   negb (e_routed e) || is_failure (e_out e),
   if e_raised e then 1 else 0).

Lemma hook_step_is_call_step : forall f s c now h hdr rs o,
  let a := decided_true (snd (is_allowed f c h hdr rs)) in
  let '(s', _, b) := hook_step f s c now h hdr rs o in
  let '(s'', (rt, ra)) := call_step s now a o in
  s' = s'' /\ b = hob_of_entry (mk_entry now a o rt ra).
Proof.
  intros f s c now h hdr rs o a. unfold hook_step, call_step.
  destruct (read s now) as [s1 okb]. destruct okb; cbn [andb].
  - destruct (decision_total f c h hdr rs) as [b Hb]. subst a. rewrite Hb.
    destruct (is_allowed f c h hdr rs) as [c' d]. cbn [snd] in Hb. subst d.
    destruct b; cbn [decided_true].
    + destruct o; split; reflexivity.
    + split; reflexivity.
  - split; reflexivity.
Qed.

Lemma run_hook_is_run_calls : forall f l s c now,
  run_hook f s c now l = map hob_of_entry (run_calls s now (calls_of f s c now l)).
Proof.
  intros f l. induction l as [|ev l IH]; intros s c now; [reflexivity|].
  destruct ev as [h hdr rs o | d]; cbn [run_hook calls_of].
  - pose proof (hook_step_is_call_step f s c now h hdr rs o) as H. cbn zeta in H.
    destruct (hook_step f s c now h hdr rs o) as [[s' c'] b].
    cbn [run_calls].
    destruct (call_step s now (decided_true (snd (is_allowed f c h hdr rs))) o) as [s'' [rt ra]].
    destruct H as [Hs Hb]. subst s'' b. cbn [map]. f_equal. apply IH.
  - cbn [run_calls]. apply IH.
Qed.
