(* C19 — model of the Python interceptor's fail-safe and traffic filter
   (interceptors/lunar-py-interceptor/.../interceptor/{fail_safe,traffic_filter,
   configuration}.py and the way hooks/requests.py drives them).

   The model describes the code WITH the repairs of patches/C19 applied
   (fix-F-C19a: threshold / cool-down no longer swapped;  fix-F-C19b: a literal
   that is not IPv4 is "not external";  fix-F-C19c: the failure count is cleared
   by a validated gateway response, not by every normal exit of the `with`
   block;  fix-F-C19d: a resolver ValueError is "could not resolve").

   Time is Z milliseconds (the harness patches time() to return exact
   rationals ms/1000); the cool-down is configured in whole seconds.

   Executable definitions only; proofs are in Proofs.v. *)
From Coq Require Import List ZArith Bool.
Import ListNotations.
Open Scope Z_scope.

(* ================================================================== *)
(** * 1. FailSafe (fail_safe.py)                                       *)
(* ================================================================== *)

Record fs := {
  ok : bool;        (* _state_ok *)
  cnt : Z;          (* _error_counter *)
  started : Z;      (* _cooldown_started_at (ms) *)
  maxe : Z;         (* _max_errors_allowed *)
  cool : Z          (* _cooldown_time (s) *)
}.

Definition ms_per_s : Z := 1000.

(* Python `x or d` on an Optional[int] *)
Definition or_default (o : option Z) (d : Z) : Z :=
  match o with
  | Some v => if v =? 0 then d else v
  | None => d
  end.

(* FailSafe(cooldown_time=…, max_errors_allowed=…): the parameters as passed
   by the caller *)
Definition mk_failsafe (cooldown_time max_errors_allowed : option Z) : fs :=
  {| ok := true; cnt := 0; started := 0;
     maxe := or_default max_errors_allowed 5;
     cool := or_default cooldown_time 10 |}.

(* configuration.FailSafeConfig + lunar_interceptor._load_fail_safe:
   LUNAR_ENTER_COOLDOWN_AFTER_ATTEMPTS / LUNAR_EXIT_COOLDOWN_AFTER_SEC
   (None = unset or not an integer) *)
Definition env_or (o : option Z) (d : Z) : Z :=
  match o with Some v => v | None => d end.

Definition mk_from_env (attempts secs : option Z) : fs :=
  mk_failsafe (Some (env_or secs 10)) (Some (env_or attempts 5)).

(* state_ok property: _ensure_exit_fail_safe, then the flag *)
Definition read (s : fs) (now : Z) : fs * bool :=
  if negb (ok s) && (cool s * ms_per_s <=? now - started s) then
    ({| ok := true; cnt := cnt s; started := started s; maxe := maxe s; cool := cool s |}, true)
  else (s, ok s).

(* __exit__ with an exception type listed in handle_on: _on_error *)
Definition exit_handled (s : fs) (now : Z) : fs :=
  let n := cnt s + 1 in
  if maxe s >? n then
    {| ok := ok s; cnt := n; started := started s; maxe := maxe s; cool := cool s |}
  else
    {| ok := false; cnt := n; started := now; maxe := maxe s; cool := cool s |}.

(* validate_headers on a response without x-lunar-error: a call came back
   through the gateway *)
Definition validate_ok (s : fs) : fs :=
  {| ok := ok s; cnt := 0; started := started s; maxe := maxe s; cool := cool s |}.

(* raw operations on the object (suite "failsafe") *)
Inductive op :=
| XNone            (* with fs: pass  -- normal exit *)
| XHandled         (* with fs: raise <handled type> *)
| XOther           (* with fs: raise <any other type> *)
| Validate (err : bool)   (* fs.validate_headers(h), err = h has x-lunar-error *)
| Read             (* fs.state_ok *)
| Adv (d : Z).     (* the clock advances by d ms *)

Inductive ob :=
| OExit (propagated : bool)   (* did the exception leave the with block? *)
| OValidate (raised : bool)   (* ProxyErrorException raised? *)
| ORead (b : bool)
| OAdv.

Definition op_step (s : fs) (now : Z) (o : op) : fs * Z * ob :=
  match o with
  | XNone => (s, now, OExit false)
  | XHandled => (exit_handled s now, now, OExit false)
  | XOther => (s, now, OExit true)
  | Validate false => (validate_ok s, now, OValidate false)
  | Validate true => (s, now, OValidate true)
  | Read => let '(s', b) := read s now in (s', now, ORead b)
  | Adv d => (s, now + d, OAdv)
  end.

Fixpoint run_ops (s : fs) (now : Z) (l : list op) : list ob :=
  match l with
  | [] => []
  | o :: r => let '(s', now', b) := op_step s now o in b :: run_ops s' now' r
  end.

(* ================================================================== *)
(** * 2. TrafficFilter (traffic_filter.py)                             *)
(* ================================================================== *)

(* Destinations.  IPv4 with all octets in 0..255 is the canonical dotted quad;
   IPv6 k / Name n / Junk k index the harness' tables of IPv6 literals, of
   syntactically valid host names and of other strings. *)
Inductive host :=
| IPv4 (a b c d : Z)
| IPv6 (k : Z)
| Name (n : Z)
| Junk (k : Z).

Definition host_eqb (x y : host) : bool :=
  match x, y with
  | IPv4 a b c d, IPv4 a' b' c' d' => (a =? a') && (b =? b') && (c =? c') && (d =? d')
  | IPv6 k, IPv6 k' => k =? k'
  | Name n, Name n' => n =? n'
  | Junk k, Junk k' => k =? k'
  | _, _ => false
  end.

Definition octet (x : Z) : bool := (0 <=? x) && (x <=? 255).
Definition wf_quad (a b c d : Z) : bool := octet a && octet b && octet c && octet d.

(* what socket.gethostbyname does for a non-literal *)
Inductive res :=
| RQuad (a b c d : Z)     (* resolved, dotted quad *)
| RFail                   (* socket.error *)
| RInvalid.               (* ValueError (UnicodeError: empty / over-long label, NUL) *)

Inductive dec :=
| Decision (b : bool)
| Raises (cls : Z).       (* an exception left is_allowed: 1 = AddressValueError, 2 = other *)

(* _validate_ip: ipaddress.ip_address accepts it *)
Definition is_ip_literal (h : host) : bool :=
  match h with
  | IPv4 a b c d => wf_quad a b c d
  | IPv6 _ => true
  | _ => false
  end.

(* _validate_host (regex) or _validate_ip *)
Definition valid_entry (h : host) : bool :=
  match h with
  | IPv4 a b c d => wf_quad a b c d
  | IPv6 _ => true
  | Name _ => true
  | Junk _ => false
  end.

(* ip[:2] of the canonical rendering of a quad, as character codes *)
Definition dot : Z := 46.
Definition digit (x : Z) : Z := 48 + x.
Definition prefix2 (a : Z) : Z * Z :=
  if a <? 10 then (digit a, dot)
  else if a <? 100 then (digit (a / 10), digit (a mod 10))
  else (digit (a / 100), digit ((a / 10) mod 10)).

(* IPv4Network as (network address, prefix length) *)
Definition ip_int (a b c d : Z) : Z := ((a * 256 + b) * 256 + c) * 256 + d.
Definition in_net (a b c d : Z) (net : Z * Z) : bool :=
  let sh := 2 ^ (32 - snd net) in
  ip_int a b c d / sh =? fst net / sh.

Definition black_hole : Z * Z := (0, 32).                          (* 0.0.0.0/32 *)
Definition private_ranges : list ((Z * Z) * (Z * Z)) :=
  [ ((49, 48), (ip_int 10 0 0 0, 8));        (* "10" *)
    ((49, 50), (ip_int 127 0 0 0, 8));       (* "12" *)
    ((49, 55), (ip_int 172 16 0 0, 12));     (* "17" *)
    ((49, 57), (ip_int 192 168 0 0, 16)) ].  (* "19" *)

Fixpoint range_for (key : Z * Z) (t : list ((Z * Z) * (Z * Z))) : Z * Z :=
  match t with
  | [] => black_hole
  | (k, net) :: r =>
      if (fst k =? fst key) && (snd k =? snd key) then net else range_for key r
  end.

(* _is_external_ip on a well-formed dotted quad *)
Definition is_external_ip (a b c d : Z) : bool :=
  negb (in_net a b c d (range_for (prefix2 a) private_ranges)).

Definition cache := list (host * bool).
Fixpoint cache_get (c : cache) (h : host) : option bool :=
  match c with
  | [] => None
  | (k, v) :: r => if host_eqb k h then Some v else cache_get r h
  end.

(* _is_external: cached answer, else literal / resolver; an unresolved name is
   "not external" and is not cached.  [r] = what gethostbyname answers now. *)
Definition is_external (c : cache) (h : host) (r : res) : cache * dec :=
  match cache_get c h with
  | Some v => (c, Decision v)
  | None =>
      let computed : option bool :=
        if is_ip_literal h then
          match h with
          | IPv4 a b c' d => Some (is_external_ip a b c' d)
          | _ => Some false            (* fix-F-C19b: not an IPv4 literal *)
          end
        else
          match r with
          | RQuad a b c' d => Some (is_external_ip a b c' d)
          | RFail => None
          | RInvalid => None           (* fix-F-C19d *)
          end in
      match computed with
      | None => (c, Decision false)
      | Some v => ((h, v) :: c, Decision v)
      end
  end.

Record tf := {
  tf_ok : bool;                    (* _state_ok *)
  tf_allow : option (list host);   (* _allow_list after validation *)
  tf_block : list host             (* _block_list after validation ([] = none) *)
}.

Definition mem (h : host) (l : list host) : bool := existsb (host_eqb h) l.

(* _parse_list: None and "" give None *)
Definition parse (raw : option (list host)) : option (list host) :=
  match raw with
  | Some [] => None
  | x => x
  end.

(* TrafficFilter(raw_block_list, raw_allow_list): parse, _validate_allow,
   _validate_block *)
Definition mk_filter (raw_block raw_allow : option (list host)) : tf :=
  let allow := option_map (filter valid_entry) (parse raw_allow) in
  let allow_nonempty := match allow with Some (_ :: _) => true | _ => false end in
  match parse raw_block with
  | None => {| tf_ok := true; tf_allow := allow; tf_block := [] |}
  | Some b =>
      if allow_nonempty then {| tf_ok := true; tf_allow := allow; tf_block := [] |}
      else {| tf_ok := forallb valid_entry b; tf_allow := allow; tf_block := b |}
  end.

(* is_allowed(host, headers).  hdr = Some b: the x-lunar-allow header is present
   and b = (its value is "true"). *)
Definition is_allowed (f : tf) (c : cache) (h : host) (hdr : option bool) (r : res)
  : cache * dec :=
  if negb (tf_ok f) then (c, Decision false)
  else match hdr with
       | Some b => (c, Decision b)
       | None =>
           match tf_allow f with
           | Some l => (c, Decision (mem h l))
           | None =>
               if mem h (tf_block f) then (c, Decision false)
               else is_external c h r
           end
       end.

Definition query := (host * option bool * res)%type.

Fixpoint run_queries (f : tf) (c : cache) (qs : list query) : list dec :=
  match qs with
  | [] => []
  | (h, hdr, r) :: rest =>
      let '(c', d) := is_allowed f c h hdr r in d :: run_queries f c' rest
  end.

(* ================================================================== *)
(** * 3. The way a hook drives both (hooks/requests.py, _request)      *)
(* ================================================================== *)

(* what the transport does when the call IS sent to the gateway *)
Inductive outcome :=
| GOk        (* response without x-lunar-error *)
| GConn      (* requests.ConnectionError (a handled type) *)
| GHdr       (* response with x-lunar-error -> ProxyErrorException (handled) *)
| GOther.    (* any other exception: the application's business *)

Definition is_failure (o : outcome) : bool :=
  match o with GConn | GHdr => true | _ => false end.

(* with fail_safe:
       if fail_safe.state_ok and traffic_filter.is_allowed(host, headers):
           return _make_request(...)      # validate_headers inside
   <direct call>
   [allowed] is the filter's decision (only consulted when the circuit is
   closed).  Result: new state, routed through the gateway?, did an exception
   reach the application? *)
Definition call_step (s : fs) (now : Z) (allowed : bool) (o : outcome)
  : fs * (bool * bool) :=
  let '(s1, okb) := read s now in
  if okb && allowed then
    match o with
    | GOk => (validate_ok s1, (true, false))
    | GConn | GHdr => (exit_handled s1 now, (true, false))
    | GOther => (s1, (true, true))
    end
  else (s1, (false, false)).

Inductive cev :=
| Call (allowed : bool) (o : outcome)
| Tick (d : Z).

Record entry := {
  e_t : Z;              (* instant of the call *)
  e_allowed : bool;     (* the filter's answer for the destination *)
  e_out : outcome;      (* what the gateway would do / did *)
  e_routed : bool;      (* was the call sent to the gateway? *)
  e_raised : bool       (* did an exception reach the application? *)
}.

Fixpoint run_calls (s : fs) (now : Z) (l : list cev) : list entry :=
  match l with
  | [] => []
  | Tick d :: r => run_calls s (now + d) r
  | Call a o :: r =>
      let '(s', (rt, rs)) := call_step s now a o in
      {| e_t := now; e_allowed := a; e_out := o; e_routed := rt; e_raised := rs |}
        :: run_calls s' now r
  end.

(* the same with the real filter in the loop (suite "hook") *)
Inductive hev :=
| HCall (h : host) (hdr : option bool) (r : res) (o : outcome)
| HTick (d : Z).

(* observable of one application call: gateway contacted?, provider contacted
   directly?, exception class reaching the application (0 none, 1 the
   transport's own "other" exception, 2 anything else) *)
Definition hob := (bool * bool * Z)%type.

Definition hook_step (f : tf) (s : fs) (c : cache) (now : Z)
           (h : host) (hdr : option bool) (r : res) (o : outcome)
  : fs * cache * hob :=
  let '(s1, okb) := read s now in
  if okb then
    match is_allowed f c h hdr r with
    | (c', Decision true) =>
        match o with
        | GOk => (validate_ok s1, c', (true, false, 0))
        | GConn | GHdr => (exit_handled s1 now, c', (true, true, 0))
        | GOther => (s1, c', (true, false, 1))
        end
    | (c', Decision false) => (s1, c', (false, true, 0))
    | (c', Raises _) => (s1, c', (false, false, 2))
    end
  else (s1, c, (false, true, 0)).

Fixpoint run_hook (f : tf) (s : fs) (c : cache) (now : Z) (l : list hev) : list hob :=
  match l with
  | [] => []
  | HTick d :: r => run_hook f s c (now + d) r
  | HCall h hdr rs o :: r =>
      let '(s', c', b) := hook_step f s c now h hdr rs o in
      b :: run_hook f s' c' now r
  end.

(* ================================================================== *)
(** * 4. Correspondence entry points                                   *)
(* ================================================================== *)

Inductive ctor :=
| CDirect (cooldown_time max_errors_allowed : option Z)   (* FailSafe(cooldown_time=, max_errors_allowed=) *)
| CEnv (attempts secs : option Z).                        (* environment -> FailSafeConfig -> _load_fail_safe *)

Definition build (k : ctor) : fs :=
  match k with
  | CDirect c n => mk_failsafe c n
  | CEnv a s => mk_from_env a s
  end.

Definition ob_eqb (x y : ob) : bool :=
  match x, y with
  | OExit a, OExit b => eqb a b
  | OValidate a, OValidate b => eqb a b
  | ORead a, ORead b => eqb a b
  | OAdv, OAdv => true
  | _, _ => false
  end.

Definition dec_eqb (x y : dec) : bool :=
  match x, y with
  | Decision a, Decision b => eqb a b
  | Raises a, Raises b => a =? b
  | _, _ => false
  end.

Definition hob_eqb (x y : hob) : bool :=
  let '(a, b, c) := x in let '(a', b', c') := y in eqb a a' && eqb b b' && (c =? c').

Fixpoint list_eqb {A} (f : A -> A -> bool) (x y : list A) : bool :=
  match x, y with
  | [], [] => true
  | a :: x', b :: y' => f a b && list_eqb f x' y'
  | _, _ => false
  end.

(* suite "failsafe": (constructor, start instant, operations, observed) *)
Definition case_failsafe := (ctor * Z * list op * list ob)%type.
Definition run_failsafe (k : case_failsafe) : option (list ob) :=
  let '(c, t0, ops, observed) := k in
  let m := run_ops (build c) t0 ops in
  if list_eqb ob_eqb m observed then None else Some m.

(* suite "filter": (raw block list, raw allow list, queries, observed) *)
Definition case_filter :=
  (option (list host) * option (list host) * list query * list dec)%type.
Definition run_filter (k : case_filter) : option (list dec) :=
  let '(rb, ra, qs, observed) := k in
  let m := run_queries (mk_filter rb ra) [] qs in
  if list_eqb dec_eqb m observed then None else Some m.

(* suite "hook": (constructor, raw block, raw allow, start instant, events, observed) *)
Definition case_hook :=
  (ctor * option (list host) * option (list host) * Z * list hev * list hob)%type.
Definition run_hook_case (k : case_hook) : option (list hob) :=
  let '(c, rb, ra, t0, evs, observed) := k in
  let m := run_hook (mk_filter rb ra) (build c) [] t0 evs in
  if list_eqb hob_eqb m observed then None else Some m.
