(* C19 — the code AS FOUND on the pinned tree (before patches/C19), kept only to
   show that each repaired statement fails on it (F-C19a..d).  Model.v /
   Property.v describe the repaired code and do not depend on this file. *)
From Coq Require Import List ZArith Bool Lia.
From Verif Require Import C19.Model C19.Spec C19.Proofs C19.Property.
Import ListNotations.
Open Scope Z_scope.

(* F-C19a: FailSafe.__init__ assigned the two parameters crosswise *)
Definition mk_failsafe_legacy (cooldown_time max_errors_allowed : option Z) : fs :=
  {| ok := true; cnt := 0; started := 0;
     maxe := or_default cooldown_time 5;
     cool := or_default max_errors_allowed 10 |}.

(* ... and FailSafeConfig read the two environment variables crosswise, so the
   environment path was right except for the defaults (10 attempts / 5 s) *)
Definition mk_from_env_legacy (attempts secs : option Z) : fs :=
  mk_failsafe_legacy (Some (env_or attempts 10)) (Some (env_or secs 5)).

(* F-C19c: every normal exit of the with block cleared the count -- also when
   the call had not been sent to the gateway *)
Definition call_step_legacy (s : fs) (now : Z) (allowed : bool) (o : outcome)
  : fs * (bool * bool) :=
  let '(s1, okb) := read s now in
  if okb && allowed then
    match o with
    | GOk => (validate_ok s1, (true, false))
    | GConn | GHdr => (exit_handled s1 now, (true, false))
    | GOther => (s1, (true, true))
    end
  else (validate_ok s1, (false, false)).

Fixpoint run_calls_legacy (s : fs) (now : Z) (l : list cev) : list entry :=
  match l with
  | [] => []
  | Tick d :: r => run_calls_legacy s (now + d) r
  | Call a o :: r =>
      let '(s', (rt, rs)) := call_step_legacy s now a o in
      {| e_t := now; e_allowed := a; e_out := o; e_routed := rt; e_raised := rs |}
        :: run_calls_legacy s' now r
  end.

(* F-C19b / F-C19d: IPv4Address(ip) on an IPv6 literal and a resolver ValueError
   left is_allowed as exceptions *)
Definition is_external_legacy (c : cache) (h : host) (r : res) : cache * dec :=
  match cache_get c h with
  | Some v => (c, Decision v)
  | None =>
      if is_ip_literal h then
        match h with
        | IPv4 a b c' d => ((h, is_external_ip a b c' d) :: c, Decision (is_external_ip a b c' d))
        | _ => (c, Raises 1)
        end
      else
        match r with
        | RQuad a b c' d => ((h, is_external_ip a b c' d) :: c, Decision (is_external_ip a b c' d))
        | RFail => (c, Decision false)
        | RInvalid => (c, Raises 2)
        end
  end.

Definition is_allowed_legacy (f : tf) (c : cache) (h : host) (hdr : option bool) (r : res)
  : cache * dec :=
  if negb (tf_ok f) then (c, Decision false)
  else match hdr with
       | Some b => (c, Decision b)
       | None =>
           match tf_allow f with
           | Some l => (c, Decision (mem h l))
           | None =>
               if mem h (tf_block f) then (c, Decision false)
               else is_external_legacy c h r
           end
       end.

(* the statements of Property.v, with the constructor / run function / decision
   function as a parameter *)
Definition parameters_statement (mk : option Z -> option Z -> fs) : Prop :=
  forall n c, n <> 0 -> c <> 0 -> maxe (mk (Some c) (Some n)) = n /\ cool (mk (Some c) (Some n)) = c.

Definition defaults_statement (mk_env : option Z -> option Z -> fs) : Prop :=
  maxe (mk_env None None) = 5 /\ cool (mk_env None None) = 10.

Definition opens_statement (run : fs -> Z -> list cev -> list entry) : Prop :=
  forall s0 t0 evs, fresh s0 -> Forall tick_nonneg evs ->
  forall pre f post,
    run s0 t0 evs = pre ++ f :: post -> gw_failure f = true ->
    maxe s0 <= fails_since_success (pre ++ [f]) ->
    Forall (fun e => e_t e < e_t f + cool s0 * ms_per_s -> e_routed e = false) post.

Definition total_statement (decide : tf -> cache -> host -> option bool -> res -> cache * dec) : Prop :=
  forall f c h hdr r, exists b, snd (decide f c h hdr r) = Decision b.

(* they hold for the repaired model ... *)
Theorem C19_repaired_statements :
  parameters_statement mk_failsafe /\ defaults_statement mk_from_env /\
  opens_statement run_calls /\ total_statement is_allowed.
Proof.
  split; [|split; [|split]].
  - intros n c Hn Hc. destruct (C19_parameters_as_passed n c Hn Hc) as ((_ & A & B) & _). split; [exact A | exact B].
  - destruct (C19_parameters_as_passed 1 1 ltac:(lia) ltac:(lia)) as (_ & _ & (_ & A & B) & _). split; [exact A | exact B].
  - intros s0 t0 evs Hf Hnn. exact (proj1 (C19_opens_at_threshold s0 t0 evs Hf Hnn)).
  - exact (proj1 C19_decision_total).
Qed.
Print Assumptions C19_repaired_statements.

(* ... and each of them fails for the code as found *)
Theorem C19_legacy_parameters_refuted : ~ parameters_statement mk_failsafe_legacy.
Proof.
  intros H. destruct (H 2 7 ltac:(lia) ltac:(lia)) as [A _]. vm_compute in A. discriminate.
Qed.
Print Assumptions C19_legacy_parameters_refuted.

Theorem C19_legacy_defaults_refuted : ~ defaults_statement mk_from_env_legacy.
Proof. intros [A _]. vm_compute in A. discriminate. Qed.
Print Assumptions C19_legacy_defaults_refuted.

(* threshold 2: failure, a call to a filtered destination, failure -- and the
   next call is still sent to the gateway *)
Theorem C19_legacy_opens_refuted : ~ opens_statement run_calls_legacy.
Proof.
  intros H.
  pose (s0 := mk_failsafe (Some 3) (Some 2)).
  pose (evs := [Call true GConn; Call false GOk; Call true GConn; Call true GOk]).
  assert (Hf : fresh s0) by (split; reflexivity).
  assert (Hnn : Forall tick_nonneg evs) by (repeat constructor).
  specialize (H s0 0 evs Hf Hnn
    [ {| e_t := 0; e_allowed := true; e_out := GConn; e_routed := true; e_raised := false |};
      {| e_t := 0; e_allowed := false; e_out := GOk; e_routed := false; e_raised := false |} ]
    {| e_t := 0; e_allowed := true; e_out := GConn; e_routed := true; e_raised := false |}
    [ {| e_t := 0; e_allowed := true; e_out := GOk; e_routed := true; e_raised := false |} ]
    eq_refl eq_refl).
  assert (Hn : maxe s0 <= fails_since_success
     ([ {| e_t := 0; e_allowed := true; e_out := GConn; e_routed := true; e_raised := false |};
        {| e_t := 0; e_allowed := false; e_out := GOk; e_routed := false; e_raised := false |} ]
      ++ [ {| e_t := 0; e_allowed := true; e_out := GConn; e_routed := true; e_raised := false |} ]))
    by (vm_compute; discriminate).
  specialize (H Hn). inversion H as [|x l Hx _]; subst.
  cbn in Hx. specialize (Hx ltac:(vm_compute; reflexivity)). discriminate.
Qed.
Print Assumptions C19_legacy_opens_refuted.

Theorem C19_legacy_total_refuted : ~ total_statement is_allowed_legacy.
Proof.
  intros H. destruct (H (mk_filter None None) [] (IPv6 0) None RFail) as [b Hb].
  vm_compute in Hb. discriminate.
Qed.
Print Assumptions C19_legacy_total_refuted.

(* ------------------------------------------------------------------ *)
(* Correspondence entry points for the code as found: with
   C19_MODEL=legacy the harness compares the UNREPAIRED tree against these
   (manual cross-check that this file describes the pinned tree; see notes). *)

Definition op_step_legacy (s : fs) (now : Z) (o : op) : fs * Z * ob :=
  match o with
  | XNone => (validate_ok s, now, OExit false)         (* normal exit: count := 0 *)
  | XHandled => (exit_handled s now, now, OExit false)
  | XOther => (s, now, OExit true)
  | Validate e => (s, now, OValidate e)                (* validate_headers did not touch the count *)
  | Read => let '(s', b) := read s now in (s', now, ORead b)
  | Adv d => (s, now + d, OAdv)
  end.

Fixpoint run_ops_legacy (s : fs) (now : Z) (l : list op) : list ob :=
  match l with
  | [] => []
  | o :: r => let '(s', now', b) := op_step_legacy s now o in b :: run_ops_legacy s' now' r
  end.

Definition build_legacy (k : ctor) : fs :=
  match k with
  | CDirect c n => mk_failsafe_legacy c n
  | CEnv a s => mk_from_env_legacy a s
  end.

Definition run_failsafe_legacy (k : case_failsafe) : option (list ob) :=
  let '(c, t0, ops, observed) := k in
  let m := run_ops_legacy (build_legacy c) t0 ops in
  if list_eqb ob_eqb m observed then None else Some m.

Fixpoint run_queries_legacy (f : tf) (c : cache) (qs : list query) : list dec :=
  match qs with
  | [] => []
  | (h, hdr, r) :: rest =>
      let '(c', d) := is_allowed_legacy f c h hdr r in d :: run_queries_legacy f c' rest
  end.

Definition run_filter_legacy (k : case_filter) : option (list dec) :=
  let '(rb, ra, qs, observed) := k in
  let m := run_queries_legacy (mk_filter rb ra) [] qs in
  if list_eqb dec_eqb m observed then None else Some m.

Definition hook_step_legacy (f : tf) (s : fs) (c : cache) (now : Z)
           (h : host) (hdr : option bool) (r : res) (o : outcome)
  : fs * cache * hob :=
  let '(s1, okb) := read s now in
  if okb then
    match is_allowed_legacy f c h hdr r with
    | (c', Decision true) =>
        match o with
        | GOk => (validate_ok s1, c', (true, false, 0))
        | GConn | GHdr => (exit_handled s1 now, c', (true, true, 0))
        | GOther => (s1, c', (true, false, 1))
        end
    | (c', Decision false) => (validate_ok s1, c', (false, true, 0))
    | (c', Raises _) => (s1, c', (false, false, 2))
    end
  else (validate_ok s1, c, (false, true, 0)).

Fixpoint run_hook_legacy (f : tf) (s : fs) (c : cache) (now : Z) (l : list hev) : list hob :=
  match l with
  | [] => []
  | HTick d :: r => run_hook_legacy f s c (now + d) r
  | HCall h hdr rs o :: r =>
      let '(s', c', b) := hook_step_legacy f s c now h hdr rs o in
      b :: run_hook_legacy f s' c' now r
  end.

Definition run_hook_case_legacy (k : case_hook) : option (list hob) :=
  let '(c, rb, ra, t0, evs, observed) := k in
  let m' := run_hook_legacy (mk_filter rb ra) (build_legacy c) [] t0 evs in
  if list_eqb hob_eqb m' observed then None else Some m'.
