(* C10 — Policy-mode delayed queue releases waiters in order and never strands
   one.  Final statements only; proofs are in Proofs*.v.

   Schedules are arbitrary lists of the atomic actions of Model.v (an action
   that is not enabled leaves the state unchanged), so "forall acts" means all
   interleavings of enqueuing goroutines, the roll-over goroutine and TTL
   timers, and all arrival sequences with priorities and TTLs. *)
From Coq Require Import List ZArith Bool Lia Sorting.Sorted.
From Verif Require Import C10.Model C10.Proofs C10.Proofs2 C10.Proofs3 C10.Plugin C10.PluginProofs
  C10.Split C10.SplitProofs.
Import ListNotations.
Open Scope Z_scope.

(* ---- releases per window <= quota (every schedule) ---- *)

(* Every grant (immediate slot or hand-off) is logged with the window it was
   counted in; no window ever receives more than the quota. *)
Theorem C10_release_bound : forall c t0 acts w,
  count_win w (log (run c (init c t0) acts)) <= Z.max 0 (quota c).
Proof. intros. apply rb_all. apply RB_run. apply RB_init. Qed.
Print Assumptions C10_release_bound.

(* With a monotone clock the window a grant is counted in is the aligned grid
   window containing the instant of the grant, so: grants whose instant lies
   in one grid window <= quota. *)
Theorem C10_release_bound_by_instant : forall c t0 acts,
  0 < wsize c -> monotone t0 acts = true ->
  let s := run c (init c t0) acts in
  (forall g, In g (log s) -> gwin g = uend c (gat g) /\ gwin g - wsize c <= gat g < gwin g) /\
  (forall w, count_at c w (log s) <= Z.max 0 (quota c)).
Proof.
  intros c t0 acts W M s.
  destruct (AT_run c acts (init c t0) t0 W M (AT_init c t0)) as [tl [_ L _ _]]. fold s in L.
  split.
  - intros g I. rewrite Forall_forall in L. rewrite (L g I). split; [reflexivity|now apply uend_window].
  - intros w. rewrite (count_at_win c w _ L). apply C10_release_bound.
Qed.
Print Assumptions C10_release_bound_by_instant.

Example C10_release_bound_tight :
  let c := {| quota := 2; wsize := 1000; qsize := 5 |} in
  let s := run c (init c 0) [EnqLocked 1 0 0 500 0; EnqLocked 2 0 1 500 1; EnqLocked 3 0 2 5000 2;
                             Park 3 2; Tick 1000; Return 3 1000; EnqLocked 4 0 1001 500 1001] in
  (count_win 1000 (log s), count_win 2000 (log s), map result_of (reqs s)) =
  (2, 2, [(1, Some (true, 0)); (2, Some (true, 1)); (3, Some (true, 1000)); (4, Some (true, 1001))]).
Proof. vm_compute. reflexivity. Qed.

(* ---- waiters <= queue size (every schedule) ---- *)

(* requestCounts never exceeds the queue size (check and push are under one
   mutex), and every request still blocked in Enqueue is counted. *)
Theorem C10_size_bound : forall c t0 acts,
  let s := run c (init c t0) acts in
  qcount (reqs s) <= Z.max 0 (qsize c) /\ waiters (reqs s) <= qcount (reqs s).
Proof.
  intros c t0 acts s. destruct (SB_run c acts (init c t0) (SB_init c t0)) as [B L].
  split; [exact B|now apply waiters_le_qcount].
Qed.
Print Assumptions C10_size_bound.

Example C10_size_bound_tight :
  let c := {| quota := 1; wsize := 1000; qsize := 2 |} in
  let s := run c (init c 0) [EnqLocked 1 0 0 500 0; EnqLocked 2 0 1 500 1; EnqLocked 3 0 2 500 2;
                             EnqLocked 4 0 3 500 3] in
  (qcount (reqs s), waiters (reqs s), map result_of (reqs s)) =
  (2, 2, [(1, Some (true, 0)); (2, None); (3, None); (4, Some (false, 3))]).
Proof. vm_compute. reflexivity. Qed.

(* ---- order of the releases of one pass (every schedule) ---- *)

(* The grants a Tick appends to the log (oldest first) are exactly the entries
   [rel] it signalled; they are in (priority, timestamp) order, each belongs to
   a request that was parked and is Released afterwards. *)
Theorem C10_order : forall c t0 acts now,
  let s := run c (init c t0) acts in
  let s' := fst (tick c s now) in
  let rel := snd (tick c s now) in
  log s' = rev (map (fun e => (eid e, wend s', now)) rel) ++ log s /\
  StronglySorted kle rel /\
  (forall e, In e rel ->
     exists r, find (eid e) (reqs s) = Some r /\ ph r = Parked /\ ekey e = rkey r /\
               phase_of s' (eid e) = Some Released).
Proof. intros. apply tick_order. apply HA_run. apply HA_init. Qed.
Print Assumptions C10_order.

Example C10_order_nontrivial :
  let c := {| quota := 2; wsize := 1000; qsize := 5 |} in
  let s := run c (init c 0) [EnqLocked 1 0 0 9000 0; EnqLocked 2 0 1 9000 1;
                             EnqLocked 3 2 2 9000 2; Park 3 2; EnqLocked 4 1 3 9000 3; Park 4 3;
                             EnqLocked 5 1 4 9000 4; Park 5 4] in
  map eid (snd (tick c s 1000)) = [4; 5].
Proof. vm_compute. reflexivity. Qed.

(* ---- no strand when every waiter is parked ---- *)

(* If every EnqLocked r is immediately followed by Park r, no processing pass
   passes a waiter over: after each pass either the quota of the current
   window is used up or the waiter is gone, and nobody of worse
   (priority, arrival) was served instead. *)
Theorem C10_no_strand_if_parked : forall c t0 acts,
  parks_immediately acts = true ->
  Forall (fun tr => forall id now, snd (fst tr) = Tick now -> passed_over c tr id = false)
         (trace c (init c t0) acts).
Proof.
  intros c t0 acts PI. apply trace_ticks_outside; [apply HA_init|intros r []|].
  apply (parks_immediately_okP c (length acts)); [lia|intros r []|exact PI].
Qed.
Print Assumptions C10_no_strand_if_parked.

(* the same under the weaker, semantic condition: no pass runs while a waiter
   is between Unlock and the select *)
Theorem C10_no_strand_if_parked_at_passes : forall c t0 acts,
  Forall (fun tr => okP tr = true) (trace c (init c t0) acts) ->
  Forall (fun tr => forall id now, snd (fst tr) = Tick now -> passed_over c tr id = false)
         (trace c (init c t0) acts).
Proof. intros c t0 acts F. apply trace_ticks_outside; [apply HA_init|intros r []|exact F]. Qed.
Print Assumptions C10_no_strand_if_parked_at_passes.

Example C10_no_strand_nontrivial :
  let c := {| quota := 1; wsize := 1000; qsize := 5 |} in
  let acts := [EnqLocked 1 0 0 500 0; Park 1 0; EnqLocked 2 0 1 5000 1; Park 2 1;
               EnqLocked 3 0 2 5000 2; Park 3 2; Tick 1000; Return 2 1000; Tick 2000; Return 3 2000] in
  (parks_immediately acts, map result_of (reqs (run c (init c 0) acts))) =
  (true, [(1, Some (true, 0)); (2, Some (true, 1000)); (3, Some (true, 2000))]).
Proof. vm_compute. reflexivity. Qed.

(* ---- no barging when the roll-over pass comes first ---- *)

(* If in addition no arrival runs its locked part on a stale window (after a
   boundary the roll-over pass is the first step that looks at the clock), a
   new arrival is given a slot at once only when nobody waits: waiters are
   served before any later arrival. *)
Theorem C10_no_barging_if_tick_first : forall c t0 acts,
  Forall (fun tr => okP tr = true /\ okQ c tr = true) (trace c (init c t0) acts) ->
  forall s id p t l now s' r,
  In (s, EnqLocked id p t l now, s') (trace c (init c t0) acts) ->
  find id (reqs s) = None -> phase_of s' id = Some Slot ->
  In r (reqs s) -> live r = false.
Proof. intros c t0 acts F. apply (trace_no_barging c acts (init c t0) (GI_init c t0) F). Qed.
Print Assumptions C10_no_barging_if_tick_first.

(* ---- refusals (every schedule) ---- *)

(* A request is refused at the door only when requestCounts had reached the
   queue size. *)
Theorem C10_reject_only_when_full : forall c t0 acts,
  Forall (fun tr => reject_ok c tr = true) (trace c (init c t0) acts).
Proof. intros. apply trace_reject_ok. Qed.
Print Assumptions C10_reject_only_when_full.

(* With a monotone clock a waiter expires only when at least its TTL has
   elapsed since its arrival. *)
Theorem C10_expire_only_after_ttl : forall c t0 acts,
  0 < wsize c -> monotone t0 acts = true ->
  Forall (fun tr => forall id, expires tr id = true ->
            exists r, find id (reqs (fst (fst tr))) = Some r /\
                      arr r + ttl r <= act_now (snd (fst tr)))
         (trace c (init c t0) acts).
Proof. intros c t0 acts W M. apply (expires_after_ttl c acts (init c t0) t0 W M (AT_init c t0)). Qed.
Print Assumptions C10_expire_only_after_ttl.

Example C10_expire_nontrivial :
  let c := {| quota := 1; wsize := 1000; qsize := 5 |} in
  let acts := [EnqLocked 1 0 0 500 0; EnqLocked 2 0 1 400 1; Park 2 1; Ttl 2 400; Ttl 2 401; Return 2 401] in
  (monotone 0 acts, map (fun tr => expires tr 2) (trace c (init c 0) acts),
   map result_of (reqs (run c (init c 0) acts))) =
  (true, [false; false; false; false; true; false], [(1, Some (true, 0)); (2, Some (false, 401))]).
Proof. vm_compute. reflexivity. Qed.

(* ---- the full property, and why it does not hold ---- *)

(* No request whose turn had come is left to expire, and nobody is refused at
   the door while the queue had room — on every schedule with a monotone clock. *)
Definition C10_full : Prop :=
  forall c t0 acts, 0 < wsize c -> monotone t0 acts = true ->
    strand c (trace c (init c t0) acts) = false /\
    Forall (fun tr => reject_ok c tr = true) (trace c (init c t0) acts).

Definition cfg1 : cfg := {| quota := 1; wsize := 1000; qsize := 10 |}.

(* F-C10, lost hand-off: request 2 is pushed, the roll-over pass pops it before
   it reaches the select (the non-blocking send finds no receiver: not
   signalled, not counted, no longer in the heap); it then parks and waits with
   quota free in every window until its TTL. *)
Definition lost_handoff : list action :=
  [EnqLocked 1 0 0 2000 0; EnqLocked 2 0 1 2000 1; Tick 1000; Park 2 1000;
   Tick 2000; Tick 3000; Ttl 2 3000; Return 2 3000].

(* F-C10b, barging: request 2 is parked; the clock passes the boundary, a new
   arrival takes the mutex before the roll-over goroutine and with it the fresh
   slot; the pass finds the quota used; request 2 expires. *)
Definition barging : list action :=
  [EnqLocked 1 0 0 1500 0; Park 1 0; EnqLocked 2 0 1 1500 1; Park 2 1;
   EnqLocked 3 0 1000 1500 1000; Park 3 1000; Tick 1000; Ttl 2 1501; Return 2 1501].

Theorem C10_full_refuted : ~ C10_full.
Proof.
  intro H. destruct (H cfg1 0 lost_handoff) as [S _]; [reflexivity|reflexivity|].
  vm_compute in S. discriminate.
Qed.
Print Assumptions C10_full_refuted.

(* the lost hand-off needs no stale-window arrival ... *)
Theorem C10_full_refuted_lost_handoff :
  monotone 0 lost_handoff = true /\
  forallb (okQ cfg1) (trace cfg1 (init cfg1 0) lost_handoff) = true /\
  strand cfg1 (trace cfg1 (init cfg1 0) lost_handoff) = true /\
  map result_of (reqs (run cfg1 (init cfg1 0) lost_handoff)) =
    [(1, Some (true, 0)); (2, Some (false, 3000))].
Proof. vm_compute. repeat split. Qed.
Print Assumptions C10_full_refuted_lost_handoff.

(* ... and barging strands a waiter although every waiter parks at once *)
Theorem C10_full_refuted_barging :
  monotone 0 barging = true /\
  parks_immediately barging = true /\
  forallb okP (trace cfg1 (init cfg1 0) barging) = true /\
  strand cfg1 (trace cfg1 (init cfg1 0) barging) = true /\
  map result_of (reqs (run cfg1 (init cfg1 0) barging)) =
    [(1, Some (true, 0)); (2, Some (false, 1501)); (3, Some (true, 1000))].
Proof. vm_compute. repeat split. Qed.
Print Assumptions C10_full_refuted_barging.

(* Outside the two findings the full property holds: on every schedule in which
   no pass runs while a waiter is between Unlock and the select (okP) and no
   arrival runs its locked part on a stale window (okQ), no waiter is ever
   passed over (hence none whose turn had come expires), and refusals at the
   door happen only on a full queue.  okP/okQ are decidable and are what the
   monitor's classifier evaluates on the executed schedule. *)
Theorem C10_holds_outside_findings : forall c t0 acts,
  Forall (fun tr => okP tr = true /\ okQ c tr = true) (trace c (init c t0) acts) ->
  Forall (fun tr => forall id, passed_over c tr id = false) (trace c (init c t0) acts) /\
  strand c (trace c (init c t0) acts) = false /\
  Forall (fun tr => reject_ok c tr = true) (trace c (init c t0) acts).
Proof.
  intros c t0 acts F.
  pose proof (trace_outside c acts (init c t0) (GI_init c t0) F) as P.
  split; [exact P|]. split; [now apply strand_false|apply trace_reject_ok].
Qed.
Print Assumptions C10_holds_outside_findings.

(* the side conditions are satisfiable on a history with a roll-over, a
   release in priority order, a queue-full refusal and a genuine expiry *)
Example C10_holds_outside_nontrivial :
  let c := {| quota := 1; wsize := 1000; qsize := 2 |} in
  let acts := [EnqLocked 1 0 0 500 0; EnqLocked 2 1 1 1500 1; Park 2 1; EnqLocked 3 0 2 1500 2; Park 3 2;
               EnqLocked 4 0 3 1500 3; Tick 1000; Return 3 1000; Ttl 2 1501; Return 2 1501] in
  (forallb (fun tr => okP tr && okQ c tr) (trace c (init c 0) acts),
   strand c (trace c (init c 0) acts),
   map result_of (reqs (run c (init c 0) acts))) =
  (true, false,
   [(1, Some (true, 0)); (2, Some (false, 1501)); (3, Some (true, 1000)); (4, Some (false, 3))]).
Proof. vm_compute. reflexivity. Qed.

(* ================================================================== *)
(* Plugin layer: StrategyBasedQueuePlugin (Plugin.v).                  *)
(*                                                                    *)
(* A plugin-level schedule is an arbitrary list of [paction]s: every   *)
(* action names the queue key (remedy name, quota, window) it belongs  *)
(* to; a non-enabled action leaves the state unchanged.  "forall acts" *)
(* = all interleavings of the lookups, enqueues, parks, TTL timers,    *)
(* returns and roll-over passes of any number of remedies.             *)

(* ---- at most one queue per remedy ever exists (HEAD) ---- *)

(* The lookup-or-create of OnRequest is one atomic step (queuesMutex.Lock):
   whatever the schedule, at most one queue is ever constructed for a key and
   every request that finished its lookup holds exactly the stored one. *)
Theorem C10_plugin_one_queue_per_remedy : forall tv acts k,
  let ks := pget k (prun tv Atomic pinit acts) in
  (length (insts ks) <= 1)%nat /\
  (forall q, In q (preqs ks) -> q_inst q = cur ks /\ cur ks <> None).
Proof.
  intros tv acts k ks. unfold ks. rewrite pget_prun, pget_pinit.
  split; [apply ONE_length, ONE_krun|apply BOUND_krun].
Qed.
Print Assumptions C10_plugin_one_queue_per_remedy.

(* ---- (a) releases per remedy and window <= quota (every schedule) ---- *)

(* Grants of ALL queues ever constructed for the key, counted in one window. *)
Definition C10_plugin_release_bound_for (tv : ttl_variant) (v : variant) : Prop :=
  forall acts k w,
    kgrants w (insts (pget k (prun tv v pinit acts))) <= Z.max 0 (kquota k).

Theorem C10_plugin_release_bound : forall tv, C10_plugin_release_bound_for tv Atomic.
Proof. intros tv acts k w. rewrite pget_prun, pget_pinit. apply release_bound_atomic. Qed.
Print Assumptions C10_plugin_release_bound.

(* With a monotone clock: every grant of the remedy lies in the aligned window
   it was counted in, so the requests of one remedy released at instants of one
   aligned window are at most the quota — the form the monitor checks. *)
Theorem C10_plugin_release_bound_by_instant : forall tv acts k t0,
  0 < kwsize k -> pmonotone t0 acts = true ->
  let ks := pget k (prun tv Atomic pinit acts) in
  (forall s g, In s (insts ks) -> In g (log s) ->
     gwin g = uend (ccfg k 0) (gat g) /\ gwin g - kwsize k <= gat g < gwin g) /\
  (forall w, kgrants_at (ccfg k 0) w (insts ks) <= Z.max 0 (kquota k)).
Proof.
  intros tv acts k t0 W M ks. unfold ks. rewrite pget_prun, pget_pinit.
  pose proof (proj_monotone k acts t0 M) as KM. split.
  - intros s g Is Ig. now apply (grants_in_window tv Atomic k (proj k acts) t0 W KM s g).
  - intro w. now apply (release_bound_at_atomic tv k (proj k acts) t0).
Qed.
Print Assumptions C10_plugin_release_bound_by_instant.

(* ---- (b) remedies do not influence each other (every schedule, both variants) ---- *)

(* The state of a key (its map entry, its queues, its requests, hence every
   verdict of its requests) after ANY plugin-level schedule is the state its own
   actions alone produce: nothing a request of another remedy (or of a remedy
   without configuration) does changes it. *)
Theorem C10_plugin_frame : forall tv v acts k,
  pget k (prun tv v pinit acts) = krun tv v k kinit (proj k acts).
Proof. intros. now rewrite pget_prun, pget_pinit. Qed.
Print Assumptions C10_plugin_frame.

Corollary C10_plugin_frame_verdicts : forall tv v acts1 acts2 k rid,
  proj k acts1 = proj k acts2 ->
  pverdict (prun tv v pinit acts1) (Some k) rid = pverdict (prun tv v pinit acts2) (Some k) rid.
Proof. intros tv v acts1 acts2 k rid E. simpl. now rewrite !C10_plugin_frame, E. Qed.
Print Assumptions C10_plugin_frame_verdicts.

(* ---- (c) the verdict mapping (every schedule, both variants) ---- *)

(* OnRequest answers (vd, t) exactly when the queue its lookup returned answered
   (b, t) to Enqueue: NoOp iff b = true, the early response iff b = false, and
   then with the ResponseStatusCode of the configuration of that very call.
   A request the queue has answered always has its verdict (third part). *)
Theorem C10_plugin_verdict : forall tv v acts k rid,
  let ks := pget k (prun tv v pinit acts) in
  (forall vd t, kverdict ks rid = Some (vd, t) <->
     exists b sc, kanswer ks rid = Some (b, t) /\ kstatus ks rid = Some sc /\
                  vd = (if b then VNoOp else VEarly sc)) /\
  (forall sc, kstatus ks rid = Some sc ->
     exists p hdrs t now, In (PK k (KEnq rid p hdrs t now)) acts /\ p_status p = sc) /\
  (forall b t, kanswer ks rid = Some (b, t) -> exists vd, kverdict ks rid = Some (vd, t)).
Proof.
  intros tv v acts k rid ks. split; [intros; apply kverdict_spec|]. split.
  - intros sc H. unfold ks in H. rewrite C10_plugin_frame in H.
    destruct (kstatus_from_schedule _ _ _ _ _ _ H) as [p [hdrs [t [now [I E]]]]].
    exists p, hdrs, t, now. split; [now apply proj_In|exact E].
  - intros b t A. assert (S : kstatus ks rid <> None).
    { apply answer_has_status; [|congruence]. unfold ks. rewrite C10_plugin_frame. apply ENQD_krun. }
    destruct (kstatus ks rid) as [sc|] eqn:E; [|congruence].
    exists (verdict_of sc b). unfold kverdict. now rewrite A, E.
Qed.
Print Assumptions C10_plugin_verdict.

(* ---- the non-atomic variant over-releases ---- *)

Definition key1 : qkey := (1, 1, 5).
Definition par1 : par := {| p_ttl_e := 240; p_qsize := 10; p_status := 429; p_prz := None |}.

(* Split: both first requests of the remedy miss the lookup before either has
   stored its queue; each constructs, stores and uses its own queue, whose window
   counter is 0: both are released in the same window although the quota is 1. *)
Definition double_construction : list paction :=
  [PK key1 (KLookup 1 10); PK key1 (KLookup 2 10);
   PK key1 (KStore 1 10); PK key1 (KStore 2 11);
   PK key1 (KEnq 1 par1 [] 11 12); PK key1 (KEnq 2 par1 [] 12 13)].

Theorem C10_plugin_release_bound_split_refuted : ~ C10_plugin_release_bound_for code_ttl Split.
Proof.
  intro H. specialize (H double_construction key1 (5 * second)).
  revert H. vm_compute. intro H. apply H. reflexivity.
Qed.
Print Assumptions C10_plugin_release_bound_split_refuted.

(* the same schedule, HEAD against the variant: at HEAD (KStore is not a step
   of the code) request 2 finds the queue of request 1 and waits *)
Example C10_plugin_double_construction_outcomes :
  let res v := let s := prun code_ttl v pinit double_construction in
               (length (insts (pget key1 s)), kgrants (5 * second) (insts (pget key1 s)),
                pverdict s (Some key1) 1, pverdict s (Some key1) 2) in
  pmonotone 0 double_construction = true /\
  res Atomic = (1%nat, 1, Some (VNoOp, 12), None) /\
  res Split = (2%nat, 2, Some (VNoOp, 12), Some (VNoOp, 13)).
Proof. vm_compute. repeat split. Qed.

(* a non-trivial HEAD history: two remedies with the same strategy under
   different names (own queues), prioritization by header, a roll-over that
   releases the better priority first, a queue-full refusal with the configured
   status, a TTL expiry, a request of a remedy without configuration *)
Example C10_plugin_nontrivial :
  let ka : qkey := (1, 1, 1) in
  let kb : qkey := (2, 1, 1) in
  let z := {| hname := [120]; groups := [([97], 0); ([98], 5)] |} in
  let pa := {| p_ttl_e := 16; p_qsize := 2; p_status := 429; p_prz := Some z |} in
  let pb := {| p_ttl_e := 12; p_qsize := 1; p_status := 503; p_prz := None |} in
  let acts :=
    [PK ka (KLookup 1 0); PK ka (KEnq 1 pa [([120], [98])] 0 0);
     PK kb (KLookup 2 1); PK kb (KEnq 2 pb [] 1 1);
     PK ka (KLookup 3 2); PK ka (KEnq 3 pa [([120], [98])] 2 2); PK ka (KR 3 RPark 2);
     PK ka (KLookup 4 3); PK ka (KEnq 4 pa [([120], [97])] 3 3); PK ka (KR 4 RPark 3);
     PK ka (KLookup 5 4); PK ka (KEnq 5 pa [] 4 4);
     PNoConfig 6 5;
     PK kb (KLookup 7 6); PK kb (KEnq 7 pb [] 6 6); PK kb (KR 7 RPark 6);
     PK ka (KTick 0%nat second); PK ka (KR 4 RReturn second);
     PK kb (KTick 0%nat second); PK kb (KR 7 RReturn second);
     PK ka (KTick 0%nat (2 * second)); PK ka (KR 3 RReturn (2 * second))] in
  let s := prun code_ttl Atomic pinit acts in
  (pmonotone 0 acts,
   map (fun kr => pverdict s (fst kr) (snd kr))
       [(Some ka, 1); (Some kb, 2); (Some ka, 3); (Some ka, 4); (Some ka, 5); (None, 6); (Some kb, 7)],
   kgrants_at (ccfg ka 0) second (insts (pget ka s)),
   kgrants_at (ccfg ka 0) (2 * second) (insts (pget ka s))) =
  (true,
   [Some (VNoOp, 0); Some (VNoOp, 1); Some (VNoOp, 2 * second); Some (VNoOp, second);
    Some (VEarly 429, 4); Some (VMissingConfig, 5); Some (VNoOp, second)],
   1, 1).
Proof. vm_compute. reflexivity. Qed.

(* ---- the time-to-live handed to the queue is the configured one ---- *)

(* After any plugin-level schedule with a monotone clock (either lookup
   variant): if the TTL branch of request rid can be taken at clock reading
   [now], then rid entered Enqueue (its KEnq) at least its CONFIGURED
   time-to-live (ttl_seconds of that very call, [cfg_ttl_ns]) before [now].
   With C10_plugin_verdict: a request is refused for its TTL only when its
   time-to-live really elapsed. *)
Definition C10_plugin_ttl_respected_for (tv : ttl_variant) : Prop :=
  forall v pre k t0 rid now,
    0 < kwsize k -> pmonotone t0 pre = true ->
    kstep tv v k (pget k (prun tv v pinit pre)) (KR rid RTtl now) <> None ->
    exists p hdrs t enq, In (PK k (KEnq rid p hdrs t enq)) pre /\ enq + cfg_ttl_ns p <= now.

(* the code: time.Duration(float64(TTLSeconds) * float64(time.Second)) *)
Theorem C10_plugin_ttl_respected : C10_plugin_ttl_respected_for TtlExact.
Proof. intros v pre k t0 rid now W M H. exact (ttl_branch_origin TtlExact v pre k t0 rid now W M H). Qed.
Print Assumptions C10_plugin_ttl_respected.

(* F-C10c (fixed in /repo): time.Duration(TTLSeconds) * time.Second truncates
   ttl_seconds 1.5 to 1 s: request 2 waits from instant 1 and can be refused
   "for its TTL" at 1 + 1 s, half a second before its time-to-live elapsed. *)
Definition par15 : par := {| p_ttl_e := 12; p_qsize := 10; p_status := 429; p_prz := None |}.
Definition truncated_ttl : list paction :=
  [PK key1 (KLookup 1 0); PK key1 (KEnq 1 par15 [] 0 0);
   PK key1 (KLookup 2 1); PK key1 (KEnq 2 par15 [] 1 1); PK key1 (KR 2 RPark 1)].

Theorem C10_plugin_ttl_respected_truncated_refuted : ~ C10_plugin_ttl_respected_for TtlTruncated.
Proof.
  intro H.
  destruct (H Atomic truncated_ttl key1 0 2 (1 + second)) as [p [hdrs [t [enq [I L]]]]];
    [reflexivity|reflexivity|vm_compute; discriminate|].
  simpl in I.
  destruct I as [I|[I|[I|[I|[I|[]]]]]]; try discriminate I.
  injection I as E1 E2 E3 E4. subst p enq. vm_compute in L. apply L. reflexivity.
Qed.
Print Assumptions C10_plugin_ttl_respected_truncated_refuted.

(* the same schedule under both conversions: when can request 2 be refused for its TTL? *)
Example C10_plugin_ttl_outcomes :
  let can tv inst := match kstep tv Atomic key1 (pget key1 (prun tv Atomic pinit truncated_ttl)) (KR 2 RTtl inst) with
                   | Some _ => true | None => false end in
  pmonotone 0 truncated_ttl = true /\
  (can TtlTruncated (1 + second), can TtlExact (1 + second),
   can TtlExact (1 + 12 * eighth - 1), can TtlExact (1 + 12 * eighth)) = (true, false, false, true).
Proof. vm_compute. repeat split. Qed.

(* ================================================================== *)
(* The atomicity of the locked part of Enqueue (Split.v).              *)
(*                                                                    *)
(* Every theorem above is about schedules of Model.v, in which the     *)
(* quota test, the queue-size test and heap.Push + requestCounts++ of  *)
(* one Enqueue are ONE step (one dpq.mutex section).  Split.v is the   *)
(* model in which the decision and the push are two sections with any  *)
(* step in between (seeded change C10-6).  The harness suite [atomic]  *)
(* checks on the real queue that nothing can be scheduled between the  *)
(* two (an Enqueue or a roll-over pass started while a request stands  *)
(* on the trace line logged between decision and push blocks on the    *)
(* mutex until the push is done).                                      *)

(* ---- the atomic model is the split model on lifted schedules ---- *)

(* If every decision is immediately followed by its push, the split model
   computes exactly the state of Model.v (and nothing stays pending): the
   theorems above apply to the split model restricted to such schedules. *)
Theorem C10_split_refines_atomic : forall c t0 acts,
  srun c (sinit c t0) (lift acts) = {| base := run c (init c t0) acts; pend := [] |}.
Proof. intros. apply lift_run. Qed.
Print Assumptions C10_split_refines_atomic.

(* What suite [atomic] evaluates: an observed schedule accepted by [unlift] is
   a lifted one, and the split model on it is the model of Model.v on the
   action list handed to [run_case]; every schedule of Model.v is accepted. *)
Theorem C10_atomic_case_is_lifted : forall c t0 l cs acts cs',
  unlift l cs = Some (acts, cs') ->
  l = lift acts /\ srun c (sinit c t0) l = {| base := run c (init c t0) acts; pend := [] |}.
Proof.
  intros c t0 l cs acts cs' U. pose proof (unlift_lift l cs acts cs' U) as E.
  split; [exact E|]. rewrite E. apply lift_run.
Qed.
Print Assumptions C10_atomic_case_is_lifted.

Theorem C10_atomic_accepts_every_schedule : forall acts,
  exists cs cs', unlift (lift acts) cs = Some (acts, cs').
Proof. exact lift_unlift. Qed.
Print Assumptions C10_atomic_accepts_every_schedule.

(* the size bound, restated for the split model *)
Definition C10_size_bound_for_split : Prop :=
  forall c t0 sacts,
    let s := srun c (sinit c t0) sacts in
    qcount (reqs (base s)) <= Z.max 0 (qsize c).

(* on lifted schedules it holds (it is C10_size_bound), nothing is pending, so
   the requests blocked in Enqueue are bounded by the queue size as well *)
Theorem C10_size_bound_split_on_lifted : forall c t0 acts,
  let s := srun c (sinit c t0) (lift acts) in
  qcount (reqs (base s)) <= Z.max 0 (qsize c) /\ swaiting s <= Z.max 0 (qsize c).
Proof.
  intros c t0 acts s. unfold s. rewrite C10_split_refines_atomic. unfold swaiting. cbn [base pend length].
  destruct (C10_size_bound c t0 acts) as [B W]. cbv zeta in B, W. unfold waiters in W. split; [exact B|lia].
Qed.
Print Assumptions C10_size_bound_split_on_lifted.

(* quota 1, queue size 1: request 1 takes the slot; requests 2 and 3 both
   decide "there is room" before either has pushed, then both push. *)
Definition cfg_q1 : cfg := {| quota := 1; wsize := 1000; qsize := 1 |}.
Definition double_push : list saction :=
  [SDecide 1 0 0 5000 0; SDecide 2 0 1 5000 1; SDecide 3 0 2 5000 2; SPush 2; SPush 3].

(* C10_size_bound needs the atomic step: with decision and push in separate
   critical sections two requests wait in a queue of size 1. *)
Theorem C10_size_bound_split_refuted : ~ C10_size_bound_for_split.
Proof.
  intro H. specialize (H cfg_q1 0 double_push). revert H. vm_compute. intro H. apply H. reflexivity.
Qed.
Print Assumptions C10_size_bound_split_refuted.

(* the same three arrivals, atomic (the code) against split: at HEAD request 3
   is refused "queue full" at once and one request waits; split: nobody is
   refused and two wait *)
Example C10_double_push_outcomes :
  sresults cfg_q1 0 (lift [EnqLocked 1 0 0 5000 0; EnqLocked 2 0 1 5000 1; EnqLocked 3 0 2 5000 2]) =
    (1, 1, [(1, Some (true, 0)); (2, None); (3, Some (false, 2))]) /\
  sresults cfg_q1 0 double_push = (2, 2, [(1, Some (true, 0)); (2, None); (3, None)]) /\
  unlift double_push [None; None; None; None; None] = None.
Proof. vm_compute. repeat split. Qed.

(* a roll-over pass between decision and push: request 2 decides to queue at
   999 (window [0,1000) used up), the pass of the boundary 1000 runs on an empty
   heap, then request 2 pushes; it waits through the whole window [1000,2000)
   although no slot of it is taken and nobody is ahead, and expires at 1900.
   Atomic: the pass comes after the push and releases it (when it is parked). *)
Definition pass_in_the_gap : list saction :=
  [SDecide 1 0 0 900 0; SDecide 2 0 999 900 999; SA (Tick 1000); SPush 2; SA (Park 2 1000);
   SA (Ttl 2 1900); SA (Return 2 1900)].

Example C10_pass_in_the_gap_outcomes :
  sresults cfg_q1 0 pass_in_the_gap = (0, 0, [(1, Some (true, 0)); (2, Some (false, 1900))]) /\
  (count_win 2000 (log (base (srun cfg_q1 (sinit cfg_q1 0) pass_in_the_gap))) = 0) /\
  (map result_of (reqs (run cfg_q1 (init cfg_q1 0)
     [EnqLocked 1 0 0 900 0; EnqLocked 2 0 999 900 999; Park 2 999; Tick 1000; Return 2 1000]))) =
    [(1, Some (true, 0)); (2, Some (true, 1000))].
Proof. vm_compute. repeat split. Qed.
