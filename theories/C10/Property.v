(* C10 — Policy-mode delayed queue releases waiters in order and never strands
   one.  Final statements only; proofs are in Proofs*.v.

   Schedules are arbitrary lists of the atomic actions of Model.v (an action
   that is not enabled leaves the state unchanged), so "forall acts" means all
   interleavings of enqueuing goroutines, the roll-over goroutine and TTL
   timers, and all arrival sequences with priorities and TTLs. *)
From Coq Require Import List ZArith Bool Lia Sorting.Sorted.
From Verif Require Import C10.Model C10.Proofs C10.Proofs2 C10.Proofs3.
Import ListNotations.
Open Scope Z_scope.

(* ---- releases per window <= quota (every schedule) ---- *)

(* Every grant (immediate slot or hand-off) is logged with the window it was
   counted in; no window ever receives more than the quota. *)
Theorem C10_release_bound : forall c t0 acts w,
  count_win w (log (run c (init c t0) acts)) <= Z.max 0 (quota c).
Proof. intros. apply rb_all. apply RB_run. apply RB_init. Qed.
Print Assumptions C10_release_bound.

(* With a monotone clock the window a grant is counted in is the aligned grid
   window containing the instant of the grant, so: grants whose instant lies
   in one grid window <= quota. *)
Theorem C10_release_bound_by_instant : forall c t0 acts,
  0 < wsize c -> monotone t0 acts = true ->
  let s := run c (init c t0) acts in
  (forall g, In g (log s) -> gwin g = uend c (gat g) /\ gwin g - wsize c <= gat g < gwin g) /\
  (forall w, count_at c w (log s) <= Z.max 0 (quota c)).
Proof.
  intros c t0 acts W M s.
  destruct (AT_run c acts (init c t0) t0 W M (AT_init c t0)) as [tl [_ L _ _]]. fold s in L.
  split.
  - intros g I. rewrite Forall_forall in L. rewrite (L g I). split; [reflexivity|now apply uend_window].
  - intros w. rewrite (count_at_win c w _ L). apply C10_release_bound.
Qed.
Print Assumptions C10_release_bound_by_instant.

Example C10_release_bound_tight :
  let c := {| quota := 2; wsize := 1000; qsize := 5 |} in
  let s := run c (init c 0) [EnqLocked 1 0 0 500 0; EnqLocked 2 0 1 500 1; EnqLocked 3 0 2 5000 2;
                             Park 3 2; Tick 1000; Return 3 1000; EnqLocked 4 0 1001 500 1001] in
  (count_win 1000 (log s), count_win 2000 (log s), map result_of (reqs s)) =
  (2, 2, [(1, Some (true, 0)); (2, Some (true, 1)); (3, Some (true, 1000)); (4, Some (true, 1001))]).
Proof. vm_compute. reflexivity. Qed.

(* ---- waiters <= queue size (every schedule) ---- *)

(* requestCounts never exceeds the queue size (check and push are under one
   mutex), and every request still blocked in Enqueue is counted. *)
Theorem C10_size_bound : forall c t0 acts,
  let s := run c (init c t0) acts in
  qcount (reqs s) <= Z.max 0 (qsize c) /\ waiters (reqs s) <= qcount (reqs s).
Proof.
  intros c t0 acts s. destruct (SB_run c acts (init c t0) (SB_init c t0)) as [B L].
  split; [exact B|now apply waiters_le_qcount].
Qed.
Print Assumptions C10_size_bound.

Example C10_size_bound_tight :
  let c := {| quota := 1; wsize := 1000; qsize := 2 |} in
  let s := run c (init c 0) [EnqLocked 1 0 0 500 0; EnqLocked 2 0 1 500 1; EnqLocked 3 0 2 500 2;
                             EnqLocked 4 0 3 500 3] in
  (qcount (reqs s), waiters (reqs s), map result_of (reqs s)) =
  (2, 2, [(1, Some (true, 0)); (2, None); (3, None); (4, Some (false, 3))]).
Proof. vm_compute. reflexivity. Qed.

(* ---- order of the releases of one pass (every schedule) ---- *)

(* The grants a Tick appends to the log (oldest first) are exactly the entries
   [rel] it signalled; they are in (priority, timestamp) order, each belongs to
   a request that was parked and is Released afterwards. *)
Theorem C10_order : forall c t0 acts now,
  let s := run c (init c t0) acts in
  let s' := fst (tick c s now) in
  let rel := snd (tick c s now) in
  log s' = rev (map (fun e => (eid e, wend s', now)) rel) ++ log s /\
  StronglySorted kle rel /\
  (forall e, In e rel ->
     exists r, find (eid e) (reqs s) = Some r /\ ph r = Parked /\ ekey e = rkey r /\
               phase_of s' (eid e) = Some Released).
Proof. intros. apply tick_order. apply HA_run. apply HA_init. Qed.
Print Assumptions C10_order.

Example C10_order_nontrivial :
  let c := {| quota := 2; wsize := 1000; qsize := 5 |} in
  let s := run c (init c 0) [EnqLocked 1 0 0 9000 0; EnqLocked 2 0 1 9000 1;
                             EnqLocked 3 2 2 9000 2; Park 3 2; EnqLocked 4 1 3 9000 3; Park 4 3;
                             EnqLocked 5 1 4 9000 4; Park 5 4] in
  map eid (snd (tick c s 1000)) = [4; 5].
Proof. vm_compute. reflexivity. Qed.

(* ---- no strand when every waiter is parked ---- *)

(* If every EnqLocked r is immediately followed by Park r, no processing pass
   passes a waiter over: after each pass either the quota of the current
   window is used up or the waiter is gone, and nobody of worse
   (priority, arrival) was served instead. *)
Theorem C10_no_strand_if_parked : forall c t0 acts,
  parks_immediately acts = true ->
  Forall (fun tr => forall id now, snd (fst tr) = Tick now -> passed_over c tr id = false)
         (trace c (init c t0) acts).
Proof.
  intros c t0 acts PI. apply trace_ticks_outside; [apply HA_init|intros r []|].
  apply (parks_immediately_okP c (length acts)); [lia|intros r []|exact PI].
Qed.
Print Assumptions C10_no_strand_if_parked.

(* the same under the weaker, semantic condition: no pass runs while a waiter
   is between Unlock and the select *)
Theorem C10_no_strand_if_parked_at_passes : forall c t0 acts,
  Forall (fun tr => okP tr = true) (trace c (init c t0) acts) ->
  Forall (fun tr => forall id now, snd (fst tr) = Tick now -> passed_over c tr id = false)
         (trace c (init c t0) acts).
Proof. intros c t0 acts F. apply trace_ticks_outside; [apply HA_init|intros r []|exact F]. Qed.
Print Assumptions C10_no_strand_if_parked_at_passes.

Example C10_no_strand_nontrivial :
  let c := {| quota := 1; wsize := 1000; qsize := 5 |} in
  let acts := [EnqLocked 1 0 0 500 0; Park 1 0; EnqLocked 2 0 1 5000 1; Park 2 1;
               EnqLocked 3 0 2 5000 2; Park 3 2; Tick 1000; Return 2 1000; Tick 2000; Return 3 2000] in
  (parks_immediately acts, map result_of (reqs (run c (init c 0) acts))) =
  (true, [(1, Some (true, 0)); (2, Some (true, 1000)); (3, Some (true, 2000))]).
Proof. vm_compute. reflexivity. Qed.

(* ---- no barging when the roll-over pass comes first ---- *)

(* If in addition no arrival runs its locked part on a stale window (after a
   boundary the roll-over pass is the first step that looks at the clock), a
   new arrival is given a slot at once only when nobody waits: waiters are
   served before any later arrival. *)
Theorem C10_no_barging_if_tick_first : forall c t0 acts,
  Forall (fun tr => okP tr = true /\ okQ c tr = true) (trace c (init c t0) acts) ->
  forall s id p t l now s' r,
  In (s, EnqLocked id p t l now, s') (trace c (init c t0) acts) ->
  find id (reqs s) = None -> phase_of s' id = Some Slot ->
  In r (reqs s) -> live r = false.
Proof. intros c t0 acts F. apply (trace_no_barging c acts (init c t0) (GI_init c t0) F). Qed.
Print Assumptions C10_no_barging_if_tick_first.

(* ---- refusals (every schedule) ---- *)

(* A request is refused at the door only when requestCounts had reached the
   queue size. *)
Theorem C10_reject_only_when_full : forall c t0 acts,
  Forall (fun tr => reject_ok c tr = true) (trace c (init c t0) acts).
Proof. intros. apply trace_reject_ok. Qed.
Print Assumptions C10_reject_only_when_full.

(* With a monotone clock a waiter expires only when at least its TTL has
   elapsed since its arrival. *)
Theorem C10_expire_only_after_ttl : forall c t0 acts,
  0 < wsize c -> monotone t0 acts = true ->
  Forall (fun tr => forall id, expires tr id = true ->
            exists r, find id (reqs (fst (fst tr))) = Some r /\
                      arr r + ttl r <= act_now (snd (fst tr)))
         (trace c (init c t0) acts).
Proof. intros c t0 acts W M. apply (expires_after_ttl c acts (init c t0) t0 W M (AT_init c t0)). Qed.
Print Assumptions C10_expire_only_after_ttl.

Example C10_expire_nontrivial :
  let c := {| quota := 1; wsize := 1000; qsize := 5 |} in
  let acts := [EnqLocked 1 0 0 500 0; EnqLocked 2 0 1 400 1; Park 2 1; Ttl 2 400; Ttl 2 401; Return 2 401] in
  (monotone 0 acts, map (fun tr => expires tr 2) (trace c (init c 0) acts),
   map result_of (reqs (run c (init c 0) acts))) =
  (true, [false; false; false; false; true; false], [(1, Some (true, 0)); (2, Some (false, 401))]).
Proof. vm_compute. reflexivity. Qed.

(* ---- the full property, and why it does not hold ---- *)

(* No request whose turn had come is left to expire, and nobody is refused at
   the door while the queue had room — on every schedule with a monotone clock. *)
Definition C10_full : Prop :=
  forall c t0 acts, 0 < wsize c -> monotone t0 acts = true ->
    strand c (trace c (init c t0) acts) = false /\
    Forall (fun tr => reject_ok c tr = true) (trace c (init c t0) acts).

Definition cfg1 : cfg := {| quota := 1; wsize := 1000; qsize := 10 |}.

(* F-C10, lost hand-off: request 2 is pushed, the roll-over pass pops it before
   it reaches the select (the non-blocking send finds no receiver: not
   signalled, not counted, no longer in the heap); it then parks and waits with
   quota free in every window until its TTL. *)
Definition lost_handoff : list action :=
  [EnqLocked 1 0 0 2000 0; EnqLocked 2 0 1 2000 1; Tick 1000; Park 2 1000;
   Tick 2000; Tick 3000; Ttl 2 3000; Return 2 3000].

(* F-C10b, barging: request 2 is parked; the clock passes the boundary, a new
   arrival takes the mutex before the roll-over goroutine and with it the fresh
   slot; the pass finds the quota used; request 2 expires. *)
Definition barging : list action :=
  [EnqLocked 1 0 0 1500 0; Park 1 0; EnqLocked 2 0 1 1500 1; Park 2 1;
   EnqLocked 3 0 1000 1500 1000; Park 3 1000; Tick 1000; Ttl 2 1501; Return 2 1501].

Theorem C10_full_refuted : ~ C10_full.
Proof.
  intro H. destruct (H cfg1 0 lost_handoff) as [S _]; [reflexivity|reflexivity|].
  vm_compute in S. discriminate.
Qed.
Print Assumptions C10_full_refuted.

(* the lost hand-off needs no stale-window arrival ... *)
Theorem C10_full_refuted_lost_handoff :
  monotone 0 lost_handoff = true /\
  forallb (okQ cfg1) (trace cfg1 (init cfg1 0) lost_handoff) = true /\
  strand cfg1 (trace cfg1 (init cfg1 0) lost_handoff) = true /\
  map result_of (reqs (run cfg1 (init cfg1 0) lost_handoff)) =
    [(1, Some (true, 0)); (2, Some (false, 3000))].
Proof. vm_compute. repeat split. Qed.
Print Assumptions C10_full_refuted_lost_handoff.

(* ... and barging strands a waiter although every waiter parks at once *)
Theorem C10_full_refuted_barging :
  monotone 0 barging = true /\
  parks_immediately barging = true /\
  forallb okP (trace cfg1 (init cfg1 0) barging) = true /\
  strand cfg1 (trace cfg1 (init cfg1 0) barging) = true /\
  map result_of (reqs (run cfg1 (init cfg1 0) barging)) =
    [(1, Some (true, 0)); (2, Some (false, 1501)); (3, Some (true, 1000))].
Proof. vm_compute. repeat split. Qed.
Print Assumptions C10_full_refuted_barging.

(* Outside the two findings the full property holds: on every schedule in which
   no pass runs while a waiter is between Unlock and the select (okP) and no
   arrival runs its locked part on a stale window (okQ), no waiter is ever
   passed over (hence none whose turn had come expires), and refusals at the
   door happen only on a full queue.  okP/okQ are decidable and are what the
   monitor's classifier evaluates on the executed schedule. *)
Theorem C10_holds_outside_findings : forall c t0 acts,
  Forall (fun tr => okP tr = true /\ okQ c tr = true) (trace c (init c t0) acts) ->
  Forall (fun tr => forall id, passed_over c tr id = false) (trace c (init c t0) acts) /\
  strand c (trace c (init c t0) acts) = false /\
  Forall (fun tr => reject_ok c tr = true) (trace c (init c t0) acts).
Proof.
  intros c t0 acts F.
  pose proof (trace_outside c acts (init c t0) (GI_init c t0) F) as P.
  split; [exact P|]. split; [now apply strand_false|apply trace_reject_ok].
Qed.
Print Assumptions C10_holds_outside_findings.

(* the side conditions are satisfiable on a history with a roll-over, a
   release in priority order, a queue-full refusal and a genuine expiry *)
Example C10_holds_outside_nontrivial :
  let c := {| quota := 1; wsize := 1000; qsize := 2 |} in
  let acts := [EnqLocked 1 0 0 500 0; EnqLocked 2 1 1 1500 1; Park 2 1; EnqLocked 3 0 2 1500 2; Park 3 2;
               EnqLocked 4 0 3 1500 3; Tick 1000; Return 3 1000; Ttl 2 1501; Return 2 1501] in
  (forallb (fun tr => okP tr && okQ c tr) (trace c (init c 0) acts),
   strand c (trace c (init c 0) acts),
   map result_of (reqs (run c (init c 0) acts))) =
  (true, false,
   [(1, Some (true, 0)); (2, Some (false, 1501)); (3, Some (true, 1000)); (4, Some (false, 3))]).
Proof. vm_compute. reflexivity. Qed.
