(* C10 — Policy-mode delayed queue releases waiters in order and never strands
   one.  Final statements only; proofs are in Proofs*.v.

   Schedules are arbitrary lists of the atomic actions of Model.v (an action
   that is not enabled leaves the state unchanged), so "forall acts" means all
   interleavings of enqueuing goroutines, the roll-over goroutine and TTL
   timers, and all arrival sequences with priorities and TTLs. *)
From Coq Require Import List ZArith Bool Lia Sorting.Sorted.
From Verif Require Import C10.Model C10.Proofs C10.Proofs2 C10.Proofs3 C10.Plugin C10.PluginProofs
  C10.Split C10.SplitProofs C10.Exact C10.Release C10.Counts C10.Ttl C10.Bridge
  C10.Sized C10.SizedProofs C10.PluginLift C10.PluginSched C10.PluginCheck C10.Timer C10.Observe C10.Scrape C10.ScrapeProofs.
Import ListNotations.
Open Scope Z_scope.

(* ---- releases per window <= quota (every schedule) ---- *)

(* Every grant (immediate slot or hand-off) is logged with the window it was
   counted in; no window ever receives more than the quota. *)
Theorem C10_release_bound : forall c t0 acts w,
  count_win w (log (run c (init c t0) acts)) <= Z.max 0 (quota c).
Proof. intros. apply rb_all. apply RB_run. apply RB_init. Qed.
Print Assumptions C10_release_bound.

(* With a monotone clock the window a grant is counted in is the aligned grid
   window containing the instant of the grant, so: grants whose instant lies
   in one grid window <= quota. *)
Theorem C10_release_bound_by_instant : forall c t0 acts,
  0 < wsize c -> monotone t0 acts = true ->
  let s := run c (init c t0) acts in
  (forall g, In g (log s) -> gwin g = uend c (gat g) /\ gwin g - wsize c <= gat g < gwin g) /\
  (forall w, count_at c w (log s) <= Z.max 0 (quota c)).
Proof.
  intros c t0 acts W M s.
  destruct (AT_run c acts (init c t0) t0 W M (AT_init c t0)) as [tl [_ L _ _]]. fold s in L.
  split.
  - intros g I. rewrite Forall_forall in L. rewrite (L g I). split; [reflexivity|now apply uend_window].
  - intros w. rewrite (count_at_win c w _ L). apply C10_release_bound.
Qed.
Print Assumptions C10_release_bound_by_instant.

Example C10_release_bound_tight :
  let c := {| quota := 2; wsize := 1000; qsize := 5 |} in
  let s := run c (init c 0) [EnqLocked 1 0 0 500 0; EnqLocked 2 0 1 500 1; EnqLocked 3 0 2 5000 2;
                             Park 3 2; Tick 1000; Return 3 1000; EnqLocked 4 0 1001 500 1001] in
  (count_win 1000 (log s), count_win 2000 (log s), map result_of (reqs s)) =
  (2, 2, [(1, Some (true, 0)); (2, Some (true, 1)); (3, Some (true, 1000)); (4, Some (true, 1001))]).
Proof. vm_compute. reflexivity. Qed.

(* ---- waiters <= queue size (every schedule) ---- *)

(* requestCounts never exceeds the queue size (check and push are under one
   mutex), and every request still blocked in Enqueue is counted. *)
Theorem C10_size_bound : forall c t0 acts,
  let s := run c (init c t0) acts in
  qcount (reqs s) <= Z.max 0 (qsize c) /\ waiters (reqs s) <= qcount (reqs s).
Proof.
  intros c t0 acts s. destruct (SB_run c acts (init c t0) (SB_init c t0)) as [B L].
  split; [exact B|now apply waiters_le_qcount].
Qed.
Print Assumptions C10_size_bound.

Example C10_size_bound_tight :
  let c := {| quota := 1; wsize := 1000; qsize := 2 |} in
  let s := run c (init c 0) [EnqLocked 1 0 0 500 0; EnqLocked 2 0 1 500 1; EnqLocked 3 0 2 500 2;
                             EnqLocked 4 0 3 500 3] in
  (qcount (reqs s), waiters (reqs s), map result_of (reqs s)) =
  (2, 2, [(1, Some (true, 0)); (2, None); (3, None); (4, Some (false, 3))]).
Proof. vm_compute. reflexivity. Qed.

(* ---- order of the releases of one pass (every schedule) ---- *)

(* The grants a Tick appends to the log (oldest first) are exactly the entries
   [rel] it signalled; they are in (priority, timestamp) order, each belongs to
   a request that was parked and is Released afterwards. *)
Theorem C10_order : forall c t0 acts now,
  let s := run c (init c t0) acts in
  let s' := fst (tick c s now) in
  let rel := snd (tick c s now) in
  log s' = rev (map (fun e => (eid e, wend s', now)) rel) ++ log s /\
  StronglySorted kle rel /\
  (forall e, In e rel ->
     exists r, find (eid e) (reqs s) = Some r /\ ph r = Parked /\ ekey e = rkey r /\
               phase_of s' (eid e) = Some Released).
Proof. intros. apply tick_order. apply HA_run. apply HA_init. Qed.
Print Assumptions C10_order.

Example C10_order_nontrivial :
  let c := {| quota := 2; wsize := 1000; qsize := 5 |} in
  let s := run c (init c 0) [EnqLocked 1 0 0 9000 0; EnqLocked 2 0 1 9000 1;
                             EnqLocked 3 2 2 9000 2; Park 3 2; EnqLocked 4 1 3 9000 3; Park 4 3;
                             EnqLocked 5 1 4 9000 4; Park 5 4] in
  map eid (snd (tick c s 1000)) = [4; 5].
Proof. vm_compute. reflexivity. Qed.

(* ---- no strand when every waiter is parked ---- *)

(* If every EnqLocked r is immediately followed by Park r, no processing pass
   passes a waiter over: after each pass either the quota of the current
   window is used up or the waiter is gone, and nobody of worse
   (priority, arrival) was served instead. *)
Theorem C10_no_strand_if_parked : forall c t0 acts,
  parks_immediately acts = true ->
  Forall (fun tr => forall id now, snd (fst tr) = Tick now -> passed_over c tr id = false)
         (trace c (init c t0) acts).
Proof.
  intros c t0 acts PI. apply trace_ticks_outside; [apply HA_init|intros r []|].
  apply (parks_immediately_okP c (length acts)); [lia|intros r []|exact PI].
Qed.
Print Assumptions C10_no_strand_if_parked.

(* the same under the weaker, semantic condition: no pass runs while a waiter
   is between Unlock and the select *)
Theorem C10_no_strand_if_parked_at_passes : forall c t0 acts,
  Forall (fun tr => okP tr = true) (trace c (init c t0) acts) ->
  Forall (fun tr => forall id now, snd (fst tr) = Tick now -> passed_over c tr id = false)
         (trace c (init c t0) acts).
Proof. intros c t0 acts F. apply trace_ticks_outside; [apply HA_init|intros r []|exact F]. Qed.
Print Assumptions C10_no_strand_if_parked_at_passes.

Example C10_no_strand_nontrivial :
  let c := {| quota := 1; wsize := 1000; qsize := 5 |} in
  let acts := [EnqLocked 1 0 0 500 0; Park 1 0; EnqLocked 2 0 1 5000 1; Park 2 1;
               EnqLocked 3 0 2 5000 2; Park 3 2; Tick 1000; Return 2 1000; Tick 2000; Return 3 2000] in
  (parks_immediately acts, map result_of (reqs (run c (init c 0) acts))) =
  (true, [(1, Some (true, 0)); (2, Some (true, 1000)); (3, Some (true, 2000))]).
Proof. vm_compute. reflexivity. Qed.

(* ---- no barging when the roll-over pass comes first ---- *)

(* If in addition no arrival runs its locked part on a stale window (after a
   boundary the roll-over pass is the first step that looks at the clock), a
   new arrival is given a slot at once only when nobody waits: waiters are
   served before any later arrival. *)
Theorem C10_no_barging_if_tick_first : forall c t0 acts,
  Forall (fun tr => okP tr = true /\ okQ c tr = true) (trace c (init c t0) acts) ->
  forall s id p t l now s' r,
  In (s, EnqLocked id p t l now, s') (trace c (init c t0) acts) ->
  find id (reqs s) = None -> phase_of s' id = Some Slot ->
  In r (reqs s) -> live r = false.
Proof. intros c t0 acts F. apply (trace_no_barging c acts (init c t0) (GI_init c t0) F). Qed.
Print Assumptions C10_no_barging_if_tick_first.

(* ---- refusals (every schedule) ---- *)

(* A request is refused at the door only when requestCounts had reached the
   queue size. *)
Theorem C10_reject_only_when_full : forall c t0 acts,
  Forall (fun tr => reject_ok c tr = true) (trace c (init c t0) acts).
Proof. intros. apply trace_reject_ok. Qed.
Print Assumptions C10_reject_only_when_full.

(* With a monotone clock a waiter expires only when at least its TTL has
   elapsed since its arrival.  (No condition on the window size: the earlier
   form of this theorem carried 0 < wsize c, which the proof did not need.) *)
Theorem C10_expire_only_after_ttl : forall c t0 acts,
  monotone t0 acts = true ->
  Forall (fun tr => forall id, expires tr id = true ->
            exists r, find id (reqs (fst (fst tr))) = Some r /\
                      arr r + ttl r <= act_now (snd (fst tr)))
         (trace c (init c t0) acts).
Proof. intros c t0 acts M. apply (expires_after_ttl_mono c acts (init c t0) t0 M (TT_init c t0)). Qed.
Print Assumptions C10_expire_only_after_ttl.

Example C10_expire_nontrivial :
  let c := {| quota := 1; wsize := 1000; qsize := 5 |} in
  let acts := [EnqLocked 1 0 0 500 0; EnqLocked 2 0 1 400 1; Park 2 1; Ttl 2 400; Ttl 2 401; Return 2 401] in
  (monotone 0 acts, map (fun tr => expires tr 2) (trace c (init c 0) acts),
   map result_of (reqs (run c (init c 0) acts))) =
  (true, [false; false; false; false; true; false], [(1, Some (true, 0)); (2, Some (false, 401))]).
Proof. vm_compute. reflexivity. Qed.

(* ---- the full property, and why it does not hold ---- *)

(* No request whose turn had come is left to expire, and nobody is refused at
   the door while the queue had room — on every schedule with a monotone clock. *)
Definition C10_full : Prop :=
  forall c t0 acts, 0 < wsize c -> monotone t0 acts = true ->
    strand c (trace c (init c t0) acts) = false /\
    Forall (fun tr => reject_ok c tr = true) (trace c (init c t0) acts).

Definition cfg1 : cfg := {| quota := 1; wsize := 1000; qsize := 10 |}.

(* F-C10, lost hand-off: request 2 is pushed, the roll-over pass pops it before
   it reaches the select (the non-blocking send finds no receiver: not
   signalled, not counted, no longer in the heap); it then parks and waits with
   quota free in every window until its TTL. *)
Definition lost_handoff : list action :=
  [EnqLocked 1 0 0 2000 0; EnqLocked 2 0 1 2000 1; Tick 1000; Park 2 1000;
   Tick 2000; Tick 3000; Ttl 2 3000; Return 2 3000].

(* F-C10b, barging: request 2 is parked; the clock passes the boundary, a new
   arrival takes the mutex before the roll-over goroutine and with it the fresh
   slot; the pass finds the quota used; request 2 expires. *)
Definition barging : list action :=
  [EnqLocked 1 0 0 1500 0; Park 1 0; EnqLocked 2 0 1 1500 1; Park 2 1;
   EnqLocked 3 0 1000 1500 1000; Park 3 1000; Tick 1000; Ttl 2 1501; Return 2 1501].

(* [barging] is written in the design's syntactic form "every EnqLocked is
   followed by its Park" ([parks_immediately]); its [Park 1 0] and [Park 3 1000]
   are NOT enabled (requests 1 and 3 got a slot at once and never reach the
   select): [run] / [trace] skip them as no-ops, the strict replay [run_obs] of
   the suites would answer the sentinel.  The same schedule without the two
   no-ops is a schedule of enabled actions only, i.e. one [run_case] accepts
   with the observations the real queue gives (harness: the forced schedule of
   F-C10b); it is the refuting run proper. *)
Definition barging_enabled : list action :=
  [EnqLocked 1 0 0 1500 0; EnqLocked 2 0 1 1500 1; Park 2 1;
   EnqLocked 3 0 1000 1500 1000; Tick 1000; Ttl 2 1501; Return 2 1501].

Theorem C10_full_refuted : ~ C10_full.
Proof.
  intro H. destruct (H cfg1 0 lost_handoff) as [S _]; [reflexivity|reflexivity|].
  vm_compute in S. discriminate.
Qed.
Print Assumptions C10_full_refuted.

(* the lost hand-off needs no stale-window arrival ... *)
Theorem C10_full_refuted_lost_handoff :
  monotone 0 lost_handoff = true /\
  forallb (okQ cfg1) (trace cfg1 (init cfg1 0) lost_handoff) = true /\
  strand cfg1 (trace cfg1 (init cfg1 0) lost_handoff) = true /\
  map result_of (reqs (run cfg1 (init cfg1 0) lost_handoff)) =
    [(1, Some (true, 0)); (2, Some (false, 3000))].
Proof. vm_compute. repeat split. Qed.
Print Assumptions C10_full_refuted_lost_handoff.

(* ... and barging strands a waiter although every waiter parks at once *)
Theorem C10_full_refuted_barging :
  monotone 0 barging = true /\
  parks_immediately barging = true /\
  forallb okP (trace cfg1 (init cfg1 0) barging) = true /\
  strand cfg1 (trace cfg1 (init cfg1 0) barging) = true /\
  map result_of (reqs (run cfg1 (init cfg1 0) barging)) =
    [(1, Some (true, 0)); (2, Some (false, 1501)); (3, Some (true, 1000))] /\
  (* [barging] itself contains two skipped no-ops ... *)
  enabled cfg1 (init cfg1 0) barging = false /\
  (* ... the schedule without them is enabled throughout, is the same run, still
     has no waiter between Unlock and select at a pass, loses no hand-off, and
     strands request 2; the strict replay of the suites accepts it *)
  enabled cfg1 (init cfg1 0) barging_enabled = true /\
  monotone 0 barging_enabled = true /\
  run cfg1 (init cfg1 0) barging_enabled = run cfg1 (init cfg1 0) barging /\
  forallb okP (trace cfg1 (init cfg1 0) barging_enabled) = true /\
  forallb (no_lost_handoff cfg1) (trace cfg1 (init cfg1 0) barging_enabled) = true /\
  map (no_barging cfg1) (trace cfg1 (init cfg1 0) barging_enabled) =
    [true; true; true; false; true; true; true] /\
  strand cfg1 (trace cfg1 (init cfg1 0) barging_enabled) = true /\
  run_case ((1, 1000, 10), 0, barging_enabled,
            [Some 0; Some 1; Some 1; Some 1; Some 1; Some 1; Some 0],
            [(1, Some (true, 0)); (2, Some (false, 1501)); (3, Some (true, 1000))]) = None.
Proof. vm_compute. repeat split. Qed.
Print Assumptions C10_full_refuted_barging.

(* Outside the two findings the full property holds.  The side conditions are
   the literal negations of the findings (Model.v):
     no_lost_handoff  no pass pops the entry of a request that is between Unlock
                      and the select                                  (not F-C10)
     no_barging       no arrival that finds the window stale is given a slot
                      while some request waits                        (not F-C10b)
   On every schedule on which both hold at every step, no waiter is ever passed
   over (hence none whose turn had come expires), and refusals at the door
   happen only on a full queue.  Both conditions are decidable and are what the
   monitor's classifier evaluates, event by event, on the executed schedule. *)
Theorem C10_holds_outside_findings : forall c t0 acts,
  Forall (fun tr => no_lost_handoff c tr = true /\ no_barging c tr = true)
         (trace c (init c t0) acts) ->
  Forall (fun tr => forall id, passed_over c tr id = false) (trace c (init c t0) acts) /\
  strand c (trace c (init c t0) acts) = false /\
  Forall (fun tr => reject_ok c tr = true) (trace c (init c t0) acts).
Proof.
  intros c t0 acts F.
  pose proof (trace_outside_exact c acts (init c t0) (GI_init c t0) F) as P.
  split; [exact P|]. split; [now apply strand_false|apply trace_reject_ok].
Qed.
Print Assumptions C10_holds_outside_findings.

(* the same for every prefix: up to (and including) step n nobody is passed
   over unless one of the two findings occurred at or before step n.  This is
   the form the monitor uses: a strand is filed under a known finding only if
   an F-C10 / F-C10b event precedes the step at which the waiter was passed
   over. *)
Theorem C10_no_pass_over_before_first_finding : forall c t0 acts n,
  Forall (fun tr => no_lost_handoff c tr = true /\ no_barging c tr = true)
         (firstn n (trace c (init c t0) acts)) ->
  Forall (fun tr => forall id, passed_over c tr id = false)
         (firstn n (trace c (init c t0) acts)).
Proof.
  intros c t0 acts n F. rewrite trace_firstn in *.
  exact (proj1 (C10_holds_outside_findings c t0 (firstn n acts) F)).
Qed.
Print Assumptions C10_no_pass_over_before_first_finding.

(* okP / okQ are sufficient for the exact conditions (not necessary) ... *)
Theorem C10_exact_conditions_are_weaker : forall c tr,
  (okP tr = true -> no_lost_handoff c tr = true) /\
  (okQ c tr = true -> no_barging c tr = true).
Proof. intros c tr. split; [apply okP_no_lost_handoff|apply okQ_no_barging]. Qed.
Print Assumptions C10_exact_conditions_are_weaker.

(* ... so the earlier form of the theorem (side conditions okP / okQ) follows *)
Corollary C10_holds_outside_findings_okP_okQ : forall c t0 acts,
  Forall (fun tr => okP tr = true /\ okQ c tr = true) (trace c (init c t0) acts) ->
  Forall (fun tr => forall id, passed_over c tr id = false) (trace c (init c t0) acts) /\
  strand c (trace c (init c t0) acts) = false /\
  Forall (fun tr => reject_ok c tr = true) (trace c (init c t0) acts).
Proof. intros c t0 acts F. apply C10_holds_outside_findings. now apply Forall_ok_exact. Qed.
Print Assumptions C10_holds_outside_findings_okP_okQ.

(* the exact forms of C10_no_strand_if_parked_at_passes and
   C10_no_barging_if_tick_first *)
Theorem C10_no_strand_without_lost_handoff : forall c t0 acts,
  Forall (fun tr => no_lost_handoff c tr = true) (trace c (init c t0) acts) ->
  Forall (fun tr => forall id now, snd (fst tr) = Tick now -> passed_over c tr id = false)
         (trace c (init c t0) acts).
Proof. intros c t0 acts F. apply trace_ticks_outside_exact; [apply HA_init|intros r []|exact F]. Qed.
Print Assumptions C10_no_strand_without_lost_handoff.

Theorem C10_no_slot_to_newcomer_outside_findings : forall c t0 acts,
  Forall (fun tr => no_lost_handoff c tr = true /\ no_barging c tr = true)
         (trace c (init c t0) acts) ->
  forall s id p t l now s' r,
  In (s, EnqLocked id p t l now, s') (trace c (init c t0) acts) ->
  find id (reqs s) = None -> phase_of s' id = Some Slot ->
  In r (reqs s) -> live r = false.
Proof. intros c t0 acts F. apply (trace_no_barging_exact c acts (init c t0) (GI_init c t0) F). Qed.
Print Assumptions C10_no_slot_to_newcomer_outside_findings.

(* A violation of no_lost_handoff IS a lost hand-off: the pass removes from
   the heap the entry of a request that is, and stays, between Unlock and the
   select (it will park outside the heap: no later pass can signal it). *)
Theorem C10_lost_handoff_is_loss : forall c t0 acts now,
  let s := run c (init c t0) acts in
  let s' := fst (tick c s now) in
  no_lost_handoff c (s, Tick now, s') = false ->
  exists e, In e (heap s) /\ is_unlocked s (eid e) = true /\
            is_unlocked s' (eid e) = true /\ ~ In e (heap s').
Proof.
  intros c t0 acts now s s' V.
  destruct (HAN_run c acts (init c t0) (HA_init c t0) (HN_init c t0)) as [H N].
  exact (lost_handoff_is_loss c s now H N V).
Qed.
Print Assumptions C10_lost_handoff_is_loss.

(* What the monitor evaluates.  It cannot look into the heap; of a pass it sees
   who was between Unlock and select meanwhile, who was released, and how much
   quota of the window is used afterwards.  [lost_observed] (Model.v) is that
   view: some unparked request with an entry in the heap such that after the
   pass quota is still free or somebody of worse (priority, arrival) was
   released.  When the keys in the heap are distinct (equal (priority,
   timestamp) pairs are never generated) it is exactly "not no_lost_handoff".
   [no_barging] is observable as it stands (stale window = no arrival / pass
   has looked at the clock since the boundary; slot; somebody waits). *)
Theorem C10_lost_handoff_observable : forall c t0 acts now,
  let s := run c (init c t0) acts in
  let tr := (s, Tick now, fst (tick c s now)) in
  NoDup (map ekey (heap s)) ->
  lost_observed c tr = negb (no_lost_handoff c tr).
Proof.
  intros c t0 acts now s tr Dk. apply lost_observed_iff; [|exact Dk].
  apply HA_run. apply HA_init.
Qed.
Print Assumptions C10_lost_handoff_observable.

(* the side conditions are satisfiable on a history with a roll-over, a
   release in priority order, a queue-full refusal and a genuine expiry *)
Example C10_holds_outside_nontrivial :
  let c := {| quota := 1; wsize := 1000; qsize := 2 |} in
  let acts := [EnqLocked 1 0 0 500 0; EnqLocked 2 1 1 1500 1; Park 2 1; EnqLocked 3 0 2 1500 2; Park 3 2;
               EnqLocked 4 0 3 1500 3; Tick 1000; Return 3 1000; Ttl 2 1501; Return 2 1501] in
  (forallb (fun tr => okP tr && okQ c tr) (trace c (init c 0) acts),
   forallb (fun tr => no_lost_handoff c tr && no_barging c tr) (trace c (init c 0) acts),
   strand c (trace c (init c 0) acts),
   map result_of (reqs (run c (init c 0) acts))) =
  (true, true, false,
   [(1, Some (true, 0)); (2, Some (false, 1501)); (3, Some (true, 1000)); (4, Some (false, 3))]).
Proof. vm_compute. reflexivity. Qed.

(* The exact conditions hold on schedules okP / okQ reject: (a) a pass while
   request 2 is between Unlock and select that pops nothing (quota used);
   (b) the first arrival of a new window on an idle queue, before the pass;
   (c) a stale arrival that is NOT given a slot although somebody waits
   (quota 0 is the only way) — and on the two witnesses exactly one step
   violates exactly one condition: the Tick that pops request 2 (index 2 of
   lost_handoff), the arrival of request 3 (index 4 of barging). *)
Example C10_exact_conditions_located :
  let ex c acts := map (fun tr => (no_lost_handoff c tr, no_barging c tr)) (trace c (init c 0) acts) in
  let ok c acts := (forallb okP (trace c (init c 0) acts), forallb (okQ c) (trace c (init c 0) acts),
                    forallb (fun tr => no_lost_handoff c tr && no_barging c tr) (trace c (init c 0) acts),
                    strand c (trace c (init c 0) acts)) in
  ok cfg1 [EnqLocked 1 0 0 5000 0; EnqLocked 2 0 1 5000 1; Tick 500; Park 2 500; Tick 1000; Return 2 1000]
    = (false, true, true, false) /\
  ok cfg1 [EnqLocked 1 0 0 5000 0; EnqLocked 2 0 1000 5000 1000] = (true, false, true, false) /\
  ex cfg1 lost_handoff =
    [(true, true); (true, true); (false, true); (true, true); (true, true); (true, true); (true, true); (true, true)] /\
  ex cfg1 barging =
    [(true, true); (true, true); (true, true); (true, true); (true, false); (true, true); (true, true); (true, true);
     (true, true)].
Proof. vm_compute. repeat split. Qed.

(* ================================================================== *)
(* Plugin layer: StrategyBasedQueuePlugin (Plugin.v).                  *)
(*                                                                    *)
(* A plugin-level schedule is an arbitrary list of [paction]s: every   *)
(* action names the queue key (remedy name, quota, window) it belongs  *)
(* to; a non-enabled action leaves the state unchanged.  "forall acts" *)
(* = all interleavings of the lookups, enqueues, parks, TTL timers,    *)
(* returns and roll-over passes of any number of remedies.             *)

(* ---- at most one queue per remedy ever exists (HEAD) ---- *)

(* The lookup-or-create of OnRequest is one atomic step (queuesMutex.Lock):
   whatever the schedule, at most one queue is ever constructed for a key and
   every request that finished its lookup holds exactly the stored one. *)
Theorem C10_plugin_one_queue_per_remedy : forall tv acts k,
  let ks := pget k (prun tv Atomic pinit acts) in
  (length (insts ks) <= 1)%nat /\
  (forall q, In q (preqs ks) -> q_inst q = cur ks /\ cur ks <> None).
Proof.
  intros tv acts k ks. unfold ks. rewrite pget_prun, pget_pinit.
  split; [apply ONE_length, ONE_krun|apply BOUND_krun].
Qed.
Print Assumptions C10_plugin_one_queue_per_remedy.

(* ---- (a) releases per remedy and window <= quota (every schedule) ---- *)

(* Grants of ALL queues ever constructed for the key, counted in one window. *)
Definition C10_plugin_release_bound_for (tv : ttl_variant) (v : variant) : Prop :=
  forall acts k w,
    kgrants w (insts (pget k (prun tv v pinit acts))) <= Z.max 0 (kquota k).

Theorem C10_plugin_release_bound : forall tv, C10_plugin_release_bound_for tv Atomic.
Proof. intros tv acts k w. rewrite pget_prun, pget_pinit. apply release_bound_atomic. Qed.
Print Assumptions C10_plugin_release_bound.

(* With a monotone clock: every grant of the remedy lies in the aligned window
   it was counted in, so the requests of one remedy released at instants of one
   aligned window are at most the quota — the form the monitor checks. *)
Theorem C10_plugin_release_bound_by_instant : forall tv acts k t0,
  0 < kwsize k -> pmonotone t0 acts = true ->
  let ks := pget k (prun tv Atomic pinit acts) in
  (forall s g, In s (insts ks) -> In g (log s) ->
     gwin g = uend (ccfg k 0) (gat g) /\ gwin g - kwsize k <= gat g < gwin g) /\
  (forall w, kgrants_at (ccfg k 0) w (insts ks) <= Z.max 0 (kquota k)).
Proof.
  intros tv acts k t0 W M ks. unfold ks. rewrite pget_prun, pget_pinit.
  pose proof (proj_monotone k acts t0 M) as KM. split.
  - intros s g Is Ig. now apply (grants_in_window tv Atomic k (proj k acts) t0 W KM s g).
  - intro w. now apply (release_bound_at_atomic tv k (proj k acts) t0).
Qed.
Print Assumptions C10_plugin_release_bound_by_instant.

(* ---- (b) remedies do not influence each other (every schedule, both variants) ---- *)

(* The state of a key (its map entry, its queues, its requests, hence every
   verdict of its requests) after ANY plugin-level schedule is the state its own
   actions alone produce: nothing a request of another remedy (or of a remedy
   without configuration) does changes it. *)
Theorem C10_plugin_frame : forall tv v acts k,
  pget k (prun tv v pinit acts) = krun tv v k kinit (proj k acts).
Proof. intros. now rewrite pget_prun, pget_pinit. Qed.
Print Assumptions C10_plugin_frame.

Corollary C10_plugin_frame_verdicts : forall tv v acts1 acts2 k rid,
  proj k acts1 = proj k acts2 ->
  pverdict (prun tv v pinit acts1) (Some k) rid = pverdict (prun tv v pinit acts2) (Some k) rid.
Proof. intros tv v acts1 acts2 k rid E. simpl. now rewrite !C10_plugin_frame, E. Qed.
Print Assumptions C10_plugin_frame_verdicts.

(* ---- (c) the verdict mapping (every schedule, both variants) ---- *)

(* OnRequest answers (vd, t) exactly when the queue its lookup returned answered
   (b, t) to Enqueue: NoOp iff b = true, the early response iff b = false, and
   then with the ResponseStatusCode of the configuration of that very call.
   A request the queue has answered always has its verdict (third part). *)
Theorem C10_plugin_verdict : forall tv v acts k rid,
  let ks := pget k (prun tv v pinit acts) in
  (forall vd t, kverdict ks rid = Some (vd, t) <->
     exists b sc, kanswer ks rid = Some (b, t) /\ kstatus ks rid = Some sc /\
                  vd = (if b then VNoOp else VEarly sc)) /\
  (forall sc, kstatus ks rid = Some sc ->
     exists p hdrs t now, In (PK k (KEnq rid p hdrs t now)) acts /\ p_status p = sc) /\
  (forall b t, kanswer ks rid = Some (b, t) -> exists vd, kverdict ks rid = Some (vd, t)).
Proof.
  intros tv v acts k rid ks. split; [intros; apply kverdict_spec|]. split.
  - intros sc H. unfold ks in H. rewrite C10_plugin_frame in H.
    destruct (kstatus_from_schedule _ _ _ _ _ _ H) as [p [hdrs [t [now [I E]]]]].
    exists p, hdrs, t, now. split; [now apply proj_In|exact E].
  - intros b t A. assert (S : kstatus ks rid <> None).
    { apply answer_has_status; [|congruence]. unfold ks. rewrite C10_plugin_frame. apply ENQD_krun. }
    destruct (kstatus ks rid) as [sc|] eqn:E; [|congruence].
    exists (verdict_of sc b). unfold kverdict. now rewrite A, E.
Qed.
Print Assumptions C10_plugin_verdict.

(* ---- the non-atomic variant over-releases ---- *)

Definition key1 : qkey := (1, 1, 5).
Definition par1 : par := {| p_ttl_e := 240; p_qsize := 10; p_status := 429; p_prz := None |}.

(* Split: both first requests of the remedy miss the lookup before either has
   stored its queue; each constructs, stores and uses its own queue, whose window
   counter is 0: both are released in the same window although the quota is 1. *)
Definition double_construction : list paction :=
  [PK key1 (KLookup 1 10); PK key1 (KLookup 2 10);
   PK key1 (KStore 1 10); PK key1 (KStore 2 11);
   PK key1 (KEnq 1 par1 [] 11 12); PK key1 (KEnq 2 par1 [] 12 13)].

Theorem C10_plugin_release_bound_split_refuted : ~ C10_plugin_release_bound_for code_ttl Split.
Proof.
  intro H. specialize (H double_construction key1 (5 * second)).
  revert H. vm_compute. intro H. apply H. reflexivity.
Qed.
Print Assumptions C10_plugin_release_bound_split_refuted.

(* the same schedule, HEAD against the variant: at HEAD (KStore is not a step
   of the code) request 2 finds the queue of request 1 and waits *)
Example C10_plugin_double_construction_outcomes :
  let res v := let s := prun code_ttl v pinit double_construction in
               (length (insts (pget key1 s)), kgrants (5 * second) (insts (pget key1 s)),
                pverdict s (Some key1) 1, pverdict s (Some key1) 2) in
  pmonotone 0 double_construction = true /\
  res Atomic = (1%nat, 1, Some (VNoOp, 12), None) /\
  res Split = (2%nat, 2, Some (VNoOp, 12), Some (VNoOp, 13)).
Proof. vm_compute. repeat split. Qed.

(* a non-trivial HEAD history: two remedies with the same strategy under
   different names (own queues), prioritization by header, a roll-over that
   releases the better priority first, a queue-full refusal with the configured
   status, a TTL expiry, a request of a remedy without configuration *)
Example C10_plugin_nontrivial :
  let ka : qkey := (1, 1, 1) in
  let kb : qkey := (2, 1, 1) in
  let z := {| hname := [120]; groups := [([97], 0); ([98], 5)] |} in
  let pa := {| p_ttl_e := 16; p_qsize := 2; p_status := 429; p_prz := Some z |} in
  let pb := {| p_ttl_e := 12; p_qsize := 1; p_status := 503; p_prz := None |} in
  let acts :=
    [PK ka (KLookup 1 0); PK ka (KEnq 1 pa [([120], [98])] 0 0);
     PK kb (KLookup 2 1); PK kb (KEnq 2 pb [] 1 1);
     PK ka (KLookup 3 2); PK ka (KEnq 3 pa [([120], [98])] 2 2); PK ka (KR 3 RPark 2);
     PK ka (KLookup 4 3); PK ka (KEnq 4 pa [([120], [97])] 3 3); PK ka (KR 4 RPark 3);
     PK ka (KLookup 5 4); PK ka (KEnq 5 pa [] 4 4);
     PNoConfig 6 5;
     PK kb (KLookup 7 6); PK kb (KEnq 7 pb [] 6 6); PK kb (KR 7 RPark 6);
     PK ka (KTick 0%nat second); PK ka (KR 4 RReturn second);
     PK kb (KTick 0%nat second); PK kb (KR 7 RReturn second);
     PK ka (KTick 0%nat (2 * second)); PK ka (KR 3 RReturn (2 * second))] in
  let s := prun code_ttl Atomic pinit acts in
  (pmonotone 0 acts,
   map (fun kr => pverdict s (fst kr) (snd kr))
       [(Some ka, 1); (Some kb, 2); (Some ka, 3); (Some ka, 4); (Some ka, 5); (None, 6); (Some kb, 7)],
   kgrants_at (ccfg ka 0) second (insts (pget ka s)),
   kgrants_at (ccfg ka 0) (2 * second) (insts (pget ka s))) =
  (true,
   [Some (VNoOp, 0); Some (VNoOp, 1); Some (VNoOp, 2 * second); Some (VNoOp, second);
    Some (VEarly 429, 4); Some (VMissingConfig, 5); Some (VNoOp, second)],
   1, 1).
Proof. vm_compute. reflexivity. Qed.

(* ---- the time-to-live handed to the queue is the configured one ---- *)

(* After any plugin-level schedule with a monotone clock (either lookup
   variant): if the TTL branch of request rid can be taken at clock reading
   [now], then rid entered Enqueue (its KEnq) at least its CONFIGURED
   time-to-live (ttl_seconds of that very call, [cfg_ttl_ns]) before [now].
   With C10_plugin_verdict: a request is refused for its TTL only when its
   time-to-live really elapsed. *)
Definition C10_plugin_ttl_respected_for (tv : ttl_variant) : Prop :=
  forall v pre k t0 rid now,
    0 < kwsize k -> pmonotone t0 pre = true ->
    kstep tv v k (pget k (prun tv v pinit pre)) (KR rid RTtl now) <> None ->
    exists p hdrs t enq, In (PK k (KEnq rid p hdrs t enq)) pre /\ enq + cfg_ttl_ns p <= now.

(* the code: time.Duration(float64(TTLSeconds) * float64(time.Second)) *)
Theorem C10_plugin_ttl_respected : C10_plugin_ttl_respected_for TtlExact.
Proof. intros v pre k t0 rid now W M H. exact (ttl_branch_origin TtlExact v pre k t0 rid now W M H). Qed.
Print Assumptions C10_plugin_ttl_respected.

(* F-C10c (fixed in /repo): time.Duration(TTLSeconds) * time.Second truncates
   ttl_seconds 1.5 to 1 s: request 2 waits from instant 1 and can be refused
   "for its TTL" at 1 + 1 s, half a second before its time-to-live elapsed. *)
Definition par15 : par := {| p_ttl_e := 12; p_qsize := 10; p_status := 429; p_prz := None |}.
Definition truncated_ttl : list paction :=
  [PK key1 (KLookup 1 0); PK key1 (KEnq 1 par15 [] 0 0);
   PK key1 (KLookup 2 1); PK key1 (KEnq 2 par15 [] 1 1); PK key1 (KR 2 RPark 1)].

Theorem C10_plugin_ttl_respected_truncated_refuted : ~ C10_plugin_ttl_respected_for TtlTruncated.
Proof.
  intro H.
  destruct (H Atomic truncated_ttl key1 0 2 (1 + second)) as [p [hdrs [t [enq [I L]]]]];
    [reflexivity|reflexivity|vm_compute; discriminate|].
  simpl in I.
  destruct I as [I|[I|[I|[I|[I|[]]]]]]; try discriminate I.
  injection I as E1 E2 E3 E4. subst p enq. vm_compute in L. apply L. reflexivity.
Qed.
Print Assumptions C10_plugin_ttl_respected_truncated_refuted.

(* the same schedule under both conversions: when can request 2 be refused for its TTL? *)
Example C10_plugin_ttl_outcomes :
  let can tv inst := match kstep tv Atomic key1 (pget key1 (prun tv Atomic pinit truncated_ttl)) (KR 2 RTtl inst) with
                   | Some _ => true | None => false end in
  pmonotone 0 truncated_ttl = true /\
  (can TtlTruncated (1 + second), can TtlExact (1 + second),
   can TtlExact (1 + 12 * eighth - 1), can TtlExact (1 + 12 * eighth)) = (true, false, false, true).
Proof. vm_compute. repeat split. Qed.

(* ================================================================== *)
(* The atomicity of the locked part of Enqueue (Split.v).              *)
(*                                                                    *)
(* Every theorem above is about schedules of Model.v, in which the     *)
(* quota test, the queue-size test and heap.Push + requestCounts++ of  *)
(* one Enqueue are ONE step (one dpq.mutex section).  Split.v is the   *)
(* model in which the decision and the push are two sections with any  *)
(* step in between (seeded change C10-6).  The harness suite [atomic]  *)
(* checks on the real queue that nothing can be scheduled between the  *)
(* two (an Enqueue or a roll-over pass started while a request stands  *)
(* on the trace line logged between decision and push blocks on the    *)
(* mutex until the push is done).                                      *)

(* ---- the atomic model is the split model on lifted schedules ---- *)

(* If every decision is immediately followed by its push, the split model
   computes exactly the state of Model.v (and nothing stays pending): the
   theorems above apply to the split model restricted to such schedules. *)
Theorem C10_split_refines_atomic : forall c t0 acts,
  srun c (sinit c t0) (lift acts) = {| base := run c (init c t0) acts; pend := [] |}.
Proof. intros. apply lift_run. Qed.
Print Assumptions C10_split_refines_atomic.

(* What suite [atomic] evaluates: an observed schedule accepted by [unlift] is
   a lifted one, and the split model on it is the model of Model.v on the
   action list handed to [run_case]; every schedule of Model.v is accepted. *)
Theorem C10_atomic_case_is_lifted : forall c t0 l cs acts cs',
  unlift l cs = Some (acts, cs') ->
  l = lift acts /\ srun c (sinit c t0) l = {| base := run c (init c t0) acts; pend := [] |}.
Proof.
  intros c t0 l cs acts cs' U. pose proof (unlift_lift l cs acts cs' U) as E.
  split; [exact E|]. rewrite E. apply lift_run.
Qed.
Print Assumptions C10_atomic_case_is_lifted.

Theorem C10_atomic_accepts_every_schedule : forall acts,
  exists cs cs', unlift (lift acts) cs = Some (acts, cs').
Proof. exact lift_unlift. Qed.
Print Assumptions C10_atomic_accepts_every_schedule.

(* the size bound, restated for the split model *)
Definition C10_size_bound_for_split : Prop :=
  forall c t0 sacts,
    let s := srun c (sinit c t0) sacts in
    qcount (reqs (base s)) <= Z.max 0 (qsize c).

(* on lifted schedules it holds (it is C10_size_bound), nothing is pending, so
   the requests blocked in Enqueue are bounded by the queue size as well *)
Theorem C10_size_bound_split_on_lifted : forall c t0 acts,
  let s := srun c (sinit c t0) (lift acts) in
  qcount (reqs (base s)) <= Z.max 0 (qsize c) /\ swaiting s <= Z.max 0 (qsize c).
Proof.
  intros c t0 acts s. unfold s. rewrite C10_split_refines_atomic. unfold swaiting. cbn [base pend length].
  destruct (C10_size_bound c t0 acts) as [B W]. cbv zeta in B, W. unfold waiters in W. split; [exact B|lia].
Qed.
Print Assumptions C10_size_bound_split_on_lifted.

(* quota 1, queue size 1: request 1 takes the slot; requests 2 and 3 both
   decide "there is room" before either has pushed, then both push. *)
Definition cfg_q1 : cfg := {| quota := 1; wsize := 1000; qsize := 1 |}.
Definition double_push : list saction :=
  [SDecide 1 0 0 5000 0; SDecide 2 0 1 5000 1; SDecide 3 0 2 5000 2; SPush 2; SPush 3].

(* C10_size_bound needs the atomic step: with decision and push in separate
   critical sections two requests wait in a queue of size 1. *)
Theorem C10_size_bound_split_refuted : ~ C10_size_bound_for_split.
Proof.
  intro H. specialize (H cfg_q1 0 double_push). revert H. vm_compute. intro H. apply H. reflexivity.
Qed.
Print Assumptions C10_size_bound_split_refuted.

(* the same three arrivals, atomic (the code) against split: at HEAD request 3
   is refused "queue full" at once and one request waits; split: nobody is
   refused and two wait *)
Example C10_double_push_outcomes :
  sresults cfg_q1 0 (lift [EnqLocked 1 0 0 5000 0; EnqLocked 2 0 1 5000 1; EnqLocked 3 0 2 5000 2]) =
    (1, 1, [(1, Some (true, 0)); (2, None); (3, Some (false, 2))]) /\
  sresults cfg_q1 0 double_push = (2, 2, [(1, Some (true, 0)); (2, None); (3, None)]) /\
  unlift double_push [None; None; None; None; None] = None.
Proof. vm_compute. repeat split. Qed.

(* a roll-over pass between decision and push: request 2 decides to queue at
   999 (window [0,1000) used up), the pass of the boundary 1000 runs on an empty
   heap, then request 2 pushes; it waits through the whole window [1000,2000)
   although no slot of it is taken and nobody is ahead, and expires at 1900.
   Atomic: the pass comes after the push and releases it (when it is parked). *)
Definition pass_in_the_gap : list saction :=
  [SDecide 1 0 0 900 0; SDecide 2 0 999 900 999; SA (Tick 1000); SPush 2; SA (Park 2 1000);
   SA (Ttl 2 1900); SA (Return 2 1900)].

Example C10_pass_in_the_gap_outcomes :
  sresults cfg_q1 0 pass_in_the_gap = (0, 0, [(1, Some (true, 0)); (2, Some (false, 1900))]) /\
  (count_win 2000 (log (base (srun cfg_q1 (sinit cfg_q1 0) pass_in_the_gap))) = 0) /\
  (map result_of (reqs (run cfg_q1 (init cfg_q1 0)
     [EnqLocked 1 0 0 900 0; EnqLocked 2 0 999 900 999; Park 2 999; Tick 1000; Return 2 1000]))) =
    [(1, Some (true, 0)); (2, Some (true, 1000))].
Proof. vm_compute. repeat split. Qed.

(* ================================================================== *)
(* What a pass releases (positive form), every schedule.               *)

(* A pass hands the slots it has — quota of the (possibly new) window minus
   what is used — to the first parked entries of the heap, in heap order, no
   more and no fewer: rel = firstn free_slots parked_entries. *)
Theorem C10_pass_releases_first_parked : forall c t0 acts now,
  let s := run c (init c t0) acts in
  snd (tick c s now) = firstn (free_slots c s now) (parked_entries s) /\
  length (snd (tick c s now)) = Nat.min (free_slots c s now) (length (parked_entries s)) /\
  (forall e, In e (snd (tick c s now)) -> phase_of (fst (tick c s now)) (eid e) = Some Released).
Proof.
  intros c t0 acts now s.
  destruct (HAN_run c acts (init c t0) (HA_init c t0) (HN_init c t0)) as [H N]. fold s in H, N.
  split; [now apply tick_firstn|]. split; [now apply tick_count|].
  intros e I. now apply tick_rel_released.
Qed.
Print Assumptions C10_pass_releases_first_parked.

(* "is released": a pass that has a slot to give — in particular every pass on
   a new window with a positive quota — releases the parked request of best
   (priority, arrival) among the parked requests whose entry is in the heap. *)
Theorem C10_pass_releases_best_parked : forall c t0 acts now r,
  let s := run c (init c t0) acts in
  counter (roll c s now) < quota c ->
  In r (reqs s) -> ph r = Parked -> In (entry_of r) (heap s) ->
  (forall r', In r' (reqs s) -> ph r' = Parked -> In (entry_of r') (heap s) -> r' <> r ->
              key_ltb (rkey r) (rkey r') = true) ->
  phase_of (fst (tick c s now)) (rid r) = Some Released.
Proof.
  intros c t0 acts now r s Q I P Ih B.
  destruct (HAN_run c acts (init c t0) (HA_init c t0) (HN_init c t0)) as [H N]. fold s in H, N.
  exact (proj2 (tick_releases_best c s now r H N Q I P Ih B)).
Qed.
Print Assumptions C10_pass_releases_best_parked.

Lemma new_window_has_slot : forall c s now,
  stale c s now = true -> 0 < quota c -> counter (roll c s now) < quota c.
Proof. intros c s now St Q. unfold roll. rewrite St. simpl. exact Q. Qed.

(* Outside the two findings every waiter is in the heap, so: a pass on a new
   window (quota > 0) releases THE best parked waiter — the positive half of
   "a waiting request whose turn has come is released". *)
Theorem C10_pass_releases_best_waiter_outside_findings : forall c t0 acts now r,
  Forall (fun tr => no_lost_handoff c tr = true /\ no_barging c tr = true)
         (trace c (init c t0) acts) ->
  let s := run c (init c t0) acts in
  stale c s now = true -> 0 < quota c ->
  In r (reqs s) -> ph r = Parked ->
  (forall r', In r' (reqs s) -> ph r' = Parked -> r' <> r -> key_ltb (rkey r) (rkey r') = true) ->
  phase_of (fst (tick c s now)) (rid r) = Some Released.
Proof.
  intros c t0 acts now r F s St Q I P B.
  destruct (trace_GI_exact c acts (init c t0) (GI_init c t0) F) as [_ (_ & L & _)]. fold s in L.
  apply C10_pass_releases_best_parked; auto.
  - now apply new_window_has_slot.
  - apply L; [exact I|]. unfold live. now rewrite P.
Qed.
Print Assumptions C10_pass_releases_best_waiter_outside_findings.

Example C10_pass_releases_nontrivial :
  let c := {| quota := 2; wsize := 1000; qsize := 5 |} in
  let s := run c (init c 0) [EnqLocked 1 0 0 9000 0; EnqLocked 2 0 1 9000 1;
                             EnqLocked 3 2 2 9000 2; Park 3 2; EnqLocked 4 1 3 300 3; Park 4 3;
                             EnqLocked 5 1 4 9000 4; Park 5 4; EnqLocked 6 1 5 9000 5; Park 6 5;
                             Ttl 4 303] in
  (* 4 expired (its entry stays in the heap), 5 is the best parked waiter *)
  (stale c s 1000, free_slots c s 1000, map eid (heap s), map eid (parked_entries s),
   map eid (snd (tick c s 1000)), phase_of (fst (tick c s 1000)) 5) =
  (true, 2%nat, [4; 5; 6; 3], [5; 6; 3], [5; 6], Some Released).
Proof. vm_compute. reflexivity. Qed.

(* ---- order, every schedule, every pass ---- *)

(* No pass serves a request while a parked request of strictly better
   (priority, arrival) whose entry is in the heap is left behind: whoever is
   better than a released one is released by the same pass. *)
Theorem C10_order_in_heap : forall c t0 acts now e e',
  let s := run c (init c t0) acts in
  In e (snd (tick c s now)) -> In e' (parked_entries s) ->
  key_ltb (ekey e') (ekey e) = true ->
  In e' (snd (tick c s now)) /\ phase_of (fst (tick c s now)) (eid e') = Some Released.
Proof.
  intros c t0 acts now e e' s I I' Lt.
  destruct (HAN_run c acts (init c t0) (HA_init c t0) (HN_init c t0)) as [H N]. fold s in H, N.
  now apply (tick_no_worse_first c s now e e').
Qed.
Print Assumptions C10_order_in_heap.

(* The order requirement across passes and for ALL waiters (in the heap or
   not) does not hold: after a lost hand-off a later pass serves a worse
   request while the lost one still waits. *)
Definition C10_order_across_passes : Prop :=
  forall c t0 acts, monotone t0 acts = true ->
    Forall (fun tr => forall id, served_worse tr id = false) (trace c (init c t0) acts).

(* request 2 loses its hand-off at 1000 (popped while unparked, the slot of
   [1000,2000) stays free) and parks outside the heap; 3 arrives in that window
   and takes the free slot; 4 queues and is released by the pass at 2000 while
   2 — earlier arrival, same priority — is still waiting *)
Definition worse_first : list action :=
  [EnqLocked 1 0 0 9000 0; EnqLocked 2 0 1 9000 1; Tick 1000; Park 2 1000;
   EnqLocked 3 0 1001 9000 1001; EnqLocked 4 0 1002 9000 1002; Park 4 1002; Tick 2000].

Theorem C10_order_across_passes_refuted : ~ C10_order_across_passes.
Proof.
  intro H. specialize (H cfg1 0 worse_first eq_refl).
  rewrite Forall_forall in H.
  assert (I : In (nth 7 (trace cfg1 (init cfg1 0) worse_first) (init cfg1 0, Tick 0, init cfg1 0))
                 (trace cfg1 (init cfg1 0) worse_first)) by (apply nth_In; vm_compute; lia).
  specialize (H _ I 2). vm_compute in H. discriminate.
Qed.
Print Assumptions C10_order_across_passes_refuted.

(* outside F-C10 it holds: no pass serves a worse request while a better
   waiter (parked or not) stays *)
Theorem C10_order_across_passes_without_lost_handoff : forall c t0 acts,
  Forall (fun tr => no_lost_handoff c tr = true) (trace c (init c t0) acts) ->
  Forall (fun tr => forall id, best_live (snd tr) id = true -> served_worse tr id = false)
         (trace c (init c t0) acts).
Proof.
  intros c t0 acts F. pose proof (C10_no_strand_without_lost_handoff c t0 acts F) as P.
  rewrite Forall_forall in *. intros [[s a] s'] I id B. specialize (P _ I id).
  destruct a as [| |now| |]; try reflexivity. specialize (P now eq_refl).
  simpl in *. unfold passed_over in P. rewrite B in P.
  destruct (live_in s id); [|reflexivity]. destruct (live_in s' id); [|reflexivity].
  simpl in *. apply orb_false_iff in P. exact (proj2 P).
Qed.
Print Assumptions C10_order_across_passes_without_lost_handoff.

(* Equal (priority, timestamp): the model's heap is stable — of two entries
   with the same key the one pushed first is popped first.  container/heap
   promises no such thing; requests with equal keys are never generated by the
   harness, the spec functions ([best_live], [passed_over]) use the strict
   order and are insensitive to it, but the theorems are about THIS tie order. *)
Example C10_ties_are_fifo_by_push :
  let c := {| quota := 1; wsize := 1000; qsize := 5 |} in
  let s := run c (init c 0) [EnqLocked 1 0 0 9000 0; EnqLocked 2 0 7 9000 1; Park 2 1;
                             EnqLocked 3 0 7 9000 2; Park 3 2; EnqLocked 4 0 7 9000 3; Park 4 3] in
  (map eid (heap s), map eid (snd (tick c s 1000))) = ([2; 3; 4], [2]).
Proof. vm_compute. reflexivity. Qed.

(* ================================================================== *)
(* requestCounts: what "the queue was full" means.                     *)

(* On every schedule totalQueueCount() = requests blocked in Enqueue + requests
   already answered (released / expired) that have not yet re-taken the mutex
   to decrement. *)
Theorem C10_count_is_waiters_plus_returning : forall c t0 acts,
  let s := run c (init c t0) acts in
  qcount (reqs s) = waiters (reqs s) + returning (reqs s).
Proof.
  intros c t0 acts s. apply count_split.
  - apply (CP_run c acts (init c t0) (CP_init c t0)).
  - destruct (SB_run c acts (init c t0) (SB_init c t0)) as [_ L]. exact L.
Qed.
Print Assumptions C10_count_is_waiters_plus_returning.

(* so a request is refused at the door only when waiters + returning requests
   reach the queue size (NOT: only when that many still wait) *)
Theorem C10_reject_only_when_full_reading : forall c t0 acts1 id p t l now,
  let s := run c (init c t0) acts1 in
  find id (reqs s) = None ->
  phase_of (exec c s (EnqLocked id p t l now)) id = Some Rejected ->
  qsize c <= waiters (reqs s) + returning (reqs s).
Proof.
  intros c t0 acts1 id p t l now s Fd PR.
  pose proof (reject_ok_exec c s (EnqLocked id p t l now)) as R. simpl in R.
  rewrite Fd, PR in R. apply Z.leb_le in R.
  pose proof (C10_count_is_waiters_plus_returning c t0 acts1) as E. cbv zeta in E. fold s in E. lia.
Qed.
Print Assumptions C10_reject_only_when_full_reading.

(* the two readings differ: request 3 is refused although nobody waits any more
   (request 2 was released at 1000 and has not yet returned) *)
Example C10_reject_full_reading_nontrivial :
  let c := {| quota := 1; wsize := 1000; qsize := 1 |} in
  let s := run c (init c 0) [EnqLocked 1 0 0 9000 0; EnqLocked 2 0 1 9000 1; Park 2 1; Tick 1000;
                             EnqLocked 3 0 1000 9000 1000] in
  (map result_of (reqs s), waiters (reqs s), returning (reqs s), qcount (reqs s)) =
  ([(1, Some (true, 0)); (2, None); (3, Some (false, 1000))], 0, 1, 1).
Proof. vm_compute. reflexivity. Qed.

(* ================================================================== *)
(* The correspondence functions evaluate what the theorems are about.  *)

(* [run_obs] (strict replay, evaluated by suites seq / forced / atomic) against
   [run] / [trace] (the theorems): the sentinel -1 appears exactly when some
   action is disabled at its turn; otherwise the final state IS [run] and the
   counts are those of the states along [trace]. *)
Theorem C10_run_obs_is_run : forall c s acts,
  (In (-1) (fst (run_obs c s acts)) <-> enabled c s acts = false) /\
  (enabled c s acts = true ->
   run_obs c s acts = (counts_of c s acts, run c s acts)).
Proof. intros c s acts. split; [apply run_obs_sentinel|apply run_obs_enabled]. Qed.
Print Assumptions C10_run_obs_is_run.

(* an accepted case (counts as observed are never negative) is a schedule of
   enabled actions on which [run] reproduces the observed results *)
Theorem C10_accepted_case_is_a_run : forall q w n t0 acts counts results,
  Forall obs_ok counts ->
  run_case ((q, w, n), t0, acts, counts, results) = None ->
  let c := {| quota := q; wsize := w; qsize := n |} in
  enabled c (init c t0) acts = true /\
  eq_zs (counts_of c (init c t0) acts) counts = true /\
  eq_ress (map result_of (reqs (run c (init c t0) acts))) results = true.
Proof. exact run_case_accepts. Qed.
Print Assumptions C10_accepted_case_is_a_run.

(* the same for the plugin suite: [prun_obs] against [prun] *)
Theorem C10_prun_obs_is_prun : forall tv v s acts,
  (In (-1) (fst (prun_obs tv v s acts)) <-> penabled tv v s acts = false) /\
  (penabled tv v s acts = true ->
   prun_obs tv v s acts = (pcounts_of tv v s acts, prun tv v s acts)).
Proof. intros tv v s acts. split; [apply prun_obs_sentinel|apply prun_obs_enabled]. Qed.
Print Assumptions C10_prun_obs_is_prun.

(* What suite plugin evaluates is [Scrape.run_mplugin] (histories with metrics
   reads [MCScrape], see "Metrics reads" below; [Plugin.run_plugin], the replay
   without them, is no longer evaluated by any suite).  An accepted case
   (observed counts are never negative) is a plugin-level schedule [macts] of
   which every action is enabled at its turn; without its metrics reads
   ([strip]) it is the expansion of the case's actions without theirs
   ([cstrip]); the observed counts are those of the strict replay, which at the
   actions of Plugin.v are the counts along [prun]; the final state of the
   strict replay, and of [mrun], is [prun] on the stripped schedule — the state
   the plugin theorems speak about — and the verdicts [prun] gives are the
   observed ones. *)
Theorem C10_accepted_plugin_case_is_a_run : forall tbl cacts counts results,
  Forall obs_ok counts ->
  run_mplugin (tbl, cacts, counts, results) = None ->
  exists macts,
    mexpand_all tbl cacts = Some macts /\
    expand_all tbl (cstrip cacts) = Some (strip macts) /\
    penabled code_ttl code_variant pinit (strip macts) = true /\
    eq_zs (fst (mrun_obs code_ttl code_scrape code_variant pinit macts)) counts = true /\
    drop_scrapes macts (fst (mrun_obs code_ttl code_scrape code_variant pinit macts)) =
      pcounts_of code_ttl code_variant pinit (strip macts) /\
    snd (mrun_obs code_ttl code_scrape code_variant pinit macts) =
      prun code_ttl code_variant pinit (strip macts) /\
    mrun code_ttl code_scrape code_variant pinit macts =
      prun code_ttl code_variant pinit (strip macts) /\
    eq_press (cverdicts tbl (prun code_ttl code_variant pinit (strip macts)) results)
             (map snd results) = true.
Proof. exact run_mplugin_accepts. Qed.
Print Assumptions C10_accepted_plugin_case_is_a_run.

(* satisfiable: a case with two metrics reads (one while request 2 is between
   Unlock and select) is accepted; a case whose last action is not enabled
   (request 2 parks twice) is not *)
Example C10_accepted_plugin_case_nontrivial :
  let tbl := [((1, 1, 5), {| p_ttl_e := 240; p_qsize := 10; p_status := 429; p_prz := None |})] in
  let hist := [MC (CLookup 0 1 10); MC (CEnq 0 1 [] 10 10); MCScrape 11;
               MC (CLookup 0 2 12); MC (CEnq 0 2 [] 12 12); MCScrape 12; MC (CR 0 2 RPark 12)] in
  let res := [(Some 0%nat, 1, Some (VNoOp, 10)); (Some 0%nat, 2, None)] in
  run_mplugin (tbl, hist, [Some 0; Some 0; Some 0; Some 0; Some 1; Some 1; Some 1], res) = None /\
  Forall obs_ok [Some 0; Some 0; Some 0; Some 0; Some 1; Some 1; Some 1] /\
  run_mplugin (tbl, hist ++ [MC (CR 0 2 RPark 13)],
               [Some 0; Some 0; Some 0; Some 0; Some 1; Some 1; Some 1; None], res) =
    Some ([0; 0; 0; 0; 1; 1; 1; -1], [Some (VNoOp, 10); None]).
Proof. vm_compute. repeat split; repeat constructor; discriminate. Qed.

Example C10_run_obs_nontrivial :
  let c := {| quota := 1; wsize := 1000; qsize := 2 |} in
  let good := [EnqLocked 1 0 0 500 0; EnqLocked 2 0 1 500 1; Park 2 1; Tick 1000; Return 2 1000] in
  let bad := [EnqLocked 1 0 0 500 0; Park 1 0] in
  (enabled c (init c 0) good, fst (run_obs c (init c 0) good),
   enabled c (init c 0) bad, fst (run_obs c (init c 0) bad)) =
  (true, [0; 1; 1; 1; 0], false, [0; -1]).
Proof. vm_compute. reflexivity. Qed.

(* ================================================================== *)
(* One queue, queue size per call (Sized.v).                           *)
(*                                                                    *)
(* Enqueue takes maxQueueSize as an argument; every action of a sized  *)
(* schedule carries the size its call passed.  A schedule of Model.v   *)
(* is the special case of one size.                                    *)

Theorem C10_sized_generalises : forall c t0 acts,
  qrun c (init c t0) (sized (qsize c) acts) = run c (init c t0) acts /\
  map snd (qtrace c (init c t0) (sized (qsize c) acts)) = trace c (init c t0) acts.
Proof. intros. split; [apply qrun_sized|apply qtrace_sized]. Qed.
Print Assumptions C10_sized_generalises.

(* the number of waiters never exceeds the largest queue size any call passed;
   every single admission / refusal follows the size of ITS call *)
Theorem C10_size_bound_per_call : forall c t0 l,
  let s := qrun c (init c t0) l in
  qcount (reqs s) <= Z.max 0 (max_qsize l) /\ waiters (reqs s) <= qcount (reqs s) /\
  Forall (fun qt => admit_ok qt = true) (qtrace c (init c t0) l).
Proof.
  intros c t0 l s.
  pose proof (SB_qrun c (max_qsize l) l (init c t0) (sizes_le_max l)
                (SB_init (with_qsize c (max_qsize l)) t0)) as [B L].
  split; [exact B|]. split; [now apply waiters_le_qcount|apply qtrace_admit_ok].
Qed.
Print Assumptions C10_size_bound_per_call.

Example C10_size_bound_per_call_nontrivial :
  let c := {| quota := 1; wsize := 1000; qsize := 0 |} in
  let l := [(3, EnqLocked 1 0 0 500 0); (3, EnqLocked 2 0 1 500 1); (3, EnqLocked 3 0 2 500 2);
            (1, EnqLocked 4 0 3 500 3); (3, EnqLocked 5 0 4 500 4); (3, EnqLocked 6 0 5 500 5)] in
  (* the call with size 1 is refused (2 wait), the next call with size 3 is admitted, then full *)
  (max_qsize l, qcount (reqs (qrun c (init c 0) l)), map result_of (reqs (qrun c (init c 0) l))) =
  (3, 3, [(1, Some (true, 0)); (2, None); (3, None); (4, Some (false, 3)); (5, None); (6, Some (false, 5))]).
Proof. vm_compute. reflexivity. Qed.

(* release bound, order and the no-strand theorem do not depend on the size *)
Theorem C10_sized_release_bound : forall c t0 l w,
  count_win w (log (qrun c (init c t0) l)) <= Z.max 0 (quota c).
Proof. intros. apply rb_all. apply RB_qrun. apply RB_init. Qed.
Print Assumptions C10_sized_release_bound.

Theorem C10_sized_holds_outside_findings : forall c t0 l,
  Forall (fun qt => no_lost_handoff c (snd qt) = true /\ no_barging c (snd qt) = true)
         (qtrace c (init c t0) l) ->
  Forall (fun qt => forall id, passed_over c (snd qt) id = false) (qtrace c (init c t0) l) /\
  strand c (map snd (qtrace c (init c t0) l)) = false.
Proof.
  intros c t0 l F.
  destruct (qtrace_outside_exact c l (init c t0) (GI_init c t0) F) as [P _].
  split; [exact P|]. apply strand_false. apply Forall_forall. intros tr I.
  apply in_map_iff in I. destruct I as [qt [E I]]. subst tr.
  rewrite Forall_forall in P. now apply P.
Qed.
Print Assumptions C10_sized_holds_outside_findings.

(* ================================================================== *)
(* Plugin layer: the queue-level theorems, per queue instance.         *)

(* Every queue instance the plugin ever constructs for a key is the queue of
   Model.v, constructed at the instant of a lookup (or store) of the schedule
   and run on a sized schedule each of whose actions is the queue-level content
   ([kq_of]) of an action of that key in the plugin-level schedule: the locked
   part of Enqueue with the queue size, priority and TTL of that very call,
   Park / Ttl / Return of a request, a roll-over pass. *)
Theorem C10_plugin_instance_is_queue_run : forall tv v acts k s,
  In s (insts (pget k (prun tv v pinit acts))) ->
  exists t0 l,
    s = qrun (ccfg k 0) (init (ccfg k 0) t0) l /\
    (exists a, In (PK k a) acts /\ kbuilt a = Some t0) /\
    Forall (fun qa => exists a, In (PK k a) acts /\ kq_of tv a = Some qa) l.
Proof.
  intros tv v acts k s I. rewrite pget_prun, pget_pinit in I.
  pose proof (REP_insts tv v k (proj k acts)) as F. rewrite Forall_forall in F.
  destruct (F s I) as [t0 [l [E [[a [Ia Ba]] O]]]]. exists t0, l. split; [exact E|]. split.
  - exists a. split; [now apply proj_In|exact Ba].
  - eapply Forall_impl; [|exact O]. intros qa [b [Ib Qb]]. exists b. split; [now apply proj_In|exact Qb].
Qed.
Print Assumptions C10_plugin_instance_is_queue_run.

(* (clause 3 at plugin level) whatever queue sizes the calls of a remedy pass:
   no queue of the remedy ever counts more than the largest of them, and every
   request blocked in Enqueue is counted; at HEAD (one queue per remedy) the
   bound holds for the remedy as a whole *)
Theorem C10_plugin_size_bound : forall tv v acts k M,
  (forall rid p hdrs t now, In (PK k (KEnq rid p hdrs t now)) acts -> p_qsize p <= M) ->
  (forall s, In s (insts (pget k (prun tv v pinit acts))) ->
     qcount (reqs s) <= Z.max 0 M /\ waiters (reqs s) <= qcount (reqs s)) /\
  (v = Atomic -> kcount (insts (pget k (prun tv v pinit acts))) <= Z.max 0 M).
Proof.
  intros tv v acts k M Le.
  assert (Le' : forall rid p hdrs t now, In (KEnq rid p hdrs t now) (proj k acts) -> p_qsize p <= M).
  { intros rid p hdrs t now I. apply (Le rid p hdrs t now). now apply proj_In. }
  split.
  - intros s I. rewrite pget_prun, pget_pinit in I. now apply (size_bound_insts tv v k (proj k acts) M s).
  - intro E. subst v. rewrite pget_prun, pget_pinit.
    pose proof (ONE_length _ (ONE_krun tv k (proj k acts))) as L1.
    pose proof (size_bound_insts tv Atomic k (proj k acts) M) as SBi.
    destruct (insts (krun tv Atomic k kinit (proj k acts))) as [|s [|s2 t]]; simpl in *; try lia.
    destruct (SBi s Le' (or_introl eq_refl)) as [B _]. lia.
Qed.
Print Assumptions C10_plugin_size_bound.

(* order and "is released", for every queue instance of every remedy: a pass
   (KTick) releases the first free_slots parked entries of that queue, in
   (priority, arrival) order; the best parked request whose entry is in the
   heap is among them whenever the pass has a slot *)
Theorem C10_plugin_pass_releases : forall tv v acts k s now,
  In s (insts (pget k (prun tv v pinit acts))) ->
  let c := ccfg k 0 in
  snd (tick c s now) = firstn (free_slots c s now) (parked_entries s) /\
  StronglySorted kle (snd (tick c s now)) /\
  (forall e, In e (snd (tick c s now)) -> phase_of (fst (tick c s now)) (eid e) = Some Released) /\
  (forall r, counter (roll c s now) < quota c ->
     In r (reqs s) -> ph r = Parked -> In (entry_of r) (heap s) ->
     (forall r', In r' (reqs s) -> ph r' = Parked -> In (entry_of r') (heap s) -> r' <> r ->
                 key_ltb (rkey r) (rkey r') = true) ->
     phase_of (fst (tick c s now)) (rid r) = Some Released).
Proof.
  intros tv v acts k s now I c. rewrite pget_prun, pget_pinit in I.
  destruct (HA_HN_insts tv v k (proj k acts) s I) as [H N].
  split; [now apply tick_firstn|]. split; [exact (proj1 (proj2 (tick_order c s now H)))|].
  split; [intros e Ie; now apply tick_rel_released|].
  intros r Q Ir P Ih B. exact (proj2 (tick_releases_best c s now r H N Q Ir P Ih B)).
Qed.
Print Assumptions C10_plugin_pass_releases.

(* no strand outside the two findings, per queue instance: on the instance's
   own history (the sized schedule of C10_plugin_instance_is_queue_run) the
   exact side conditions exclude every pass-over *)
Theorem C10_plugin_holds_outside_findings : forall tv v acts k s,
  In s (insts (pget k (prun tv v pinit acts))) ->
  exists t0 l,
    s = qrun (ccfg k 0) (init (ccfg k 0) t0) l /\
    Forall (fun qa => exists a, In (PK k a) acts /\ kq_of tv a = Some qa) l /\
    (Forall (fun qt => no_lost_handoff (ccfg k 0) (snd qt) = true /\ no_barging (ccfg k 0) (snd qt) = true)
            (qtrace (ccfg k 0) (init (ccfg k 0) t0) l) ->
     Forall (fun qt => forall id, passed_over (ccfg k 0) (snd qt) id = false)
            (qtrace (ccfg k 0) (init (ccfg k 0) t0) l) /\
     strand (ccfg k 0) (map snd (qtrace (ccfg k 0) (init (ccfg k 0) t0) l)) = false /\
     (forall r, In r (reqs s) -> live r = true -> In (entry_of r) (heap s))).
Proof.
  intros tv v acts k s I.
  destruct (C10_plugin_instance_is_queue_run tv v acts k s I) as [t0 [l [E [_ O]]]].
  exists t0, l. split; [exact E|]. split; [exact O|]. intro F.
  destruct (C10_sized_holds_outside_findings (ccfg k 0) t0 l F) as [P S].
  split; [exact P|]. split; [exact S|]. rewrite E.
  exact (qrun_HL (ccfg k 0) l (init (ccfg k 0) t0) (GI_init (ccfg k 0) t0) F).
Qed.
Print Assumptions C10_plugin_holds_outside_findings.

(* the lifted statements on a concrete plugin history: one remedy called with
   queue sizes 2, 1, 2; a roll-over releases the better priority *)
Example C10_plugin_lift_nontrivial :
  let ka : qkey := (1, 1, 1) in
  let z := {| hname := [120]; groups := [([97], 0); ([98], 5)] |} in
  let p2 := {| p_ttl_e := 16; p_qsize := 2; p_status := 429; p_prz := Some z |} in
  let p1 := {| p_ttl_e := 16; p_qsize := 1; p_status := 503; p_prz := Some z |} in
  let acts :=
    [PK ka (KLookup 1 0); PK ka (KEnq 1 p2 [([120], [98])] 0 0);
     PK ka (KLookup 2 1); PK ka (KEnq 2 p2 [([120], [98])] 1 1); PK ka (KR 2 RPark 1);
     PK ka (KLookup 3 2); PK ka (KEnq 3 p1 [([120], [97])] 2 2);
     PK ka (KLookup 4 3); PK ka (KEnq 4 p2 [([120], [97])] 3 3); PK ka (KR 4 RPark 3)] in
  let ks := pget ka (prun code_ttl Atomic pinit acts) in
  match insts ks with
  | [s] => (kcount (insts ks), map eid (parked_entries s), map eid (snd (tick (ccfg ka 0) s second)),
            map (fun id => pverdict (prun code_ttl Atomic pinit acts) (Some ka) id) [1; 2; 3; 4])
           = (2, [4; 2], [4], [Some (VNoOp, 0); None; Some (VEarly 503, 2); None])
  | _ => False
  end.
Proof. vm_compute. reflexivity. Qed.

(* ------------------------------------------------------------------ *)
(* The same, with side conditions that are a boolean function of the   *)
(* plugin history (PluginSched.v; audit 2, suggestion 3).              *)

(* [psched tv v k acts] computes, for every queue instance ever constructed for
   key k (in construction order), the instant of its construction and its
   sized schedule: the queue-level content ([kq_of]) of exactly the ENABLED
   actions of the history that worked on that instance, in history order, each
   once.  The queue instances are the sized runs of these schedules, index by
   index — this is [rep_by] with order and multiplicity ([rep_byb] = "(t0, l)
   is entry h of [psched]"), and it gives the membership conjunct back. *)
Theorem C10_plugin_instances_are_computed_runs : forall tv v acts k,
  insts (pget k (prun tv v pinit acts)) =
    map (fun tl => qrun (ccfg k 0) (init (ccfg k 0) (fst tl)) (snd tl)) (psched tv v k acts) /\
  (forall h t0 l, rep_byb tv v k acts h t0 l ->
     Forall (fun qa => exists a, In (PK k a) acts /\ kq_of tv a = Some qa) l).
Proof.
  intros tv v acts k. split; [exact (insts_psched tv v k acts)|].
  intros h t0 l R. exact (rep_byb_from tv v k acts h t0 l R).
Qed.
Print Assumptions C10_plugin_instances_are_computed_runs.

(* [inst_outsideb tv v k acts h] evaluates no_lost_handoff && no_barging at
   every step of the sized run of the computed schedule of instance h (false
   if there is no such instance); [outsideb] is the conjunction over the
   instances of the key.  No strand outside the two findings, per queue
   instance, with that boolean as the only side condition. *)
Theorem C10_plugin_holds_outside_findings_decidable : forall tv v acts k h s,
  nth_error (insts (pget k (prun tv v pinit acts))) h = Some s ->
  exists t0 l,
    nth_error (psched tv v k acts) h = Some (t0, l) /\
    s = qrun (ccfg k 0) (init (ccfg k 0) t0) l /\
    Forall (fun qa => exists a, In (PK k a) acts /\ kq_of tv a = Some qa) l /\
    (inst_outsideb tv v k acts h = true <->
     Forall (fun qt => no_lost_handoff (ccfg k 0) (snd qt) = true /\ no_barging (ccfg k 0) (snd qt) = true)
            (qtrace (ccfg k 0) (init (ccfg k 0) t0) l)) /\
    (inst_outsideb tv v k acts h = true ->
     Forall (fun qt => forall id, passed_over (ccfg k 0) (snd qt) id = false)
            (qtrace (ccfg k 0) (init (ccfg k 0) t0) l) /\
     strand (ccfg k 0) (map snd (qtrace (ccfg k 0) (init (ccfg k 0) t0) l)) = false /\
     (forall r, In r (reqs s) -> live r = true -> In (entry_of r) (heap s))).
Proof.
  intros tv v acts k h s N.
  destruct (rep_byb_sound tv v k acts h s N) as [t0 [l [R E]]].
  exists t0, l. split; [exact R|]. split; [exact E|].
  split; [exact (rep_byb_from tv v k acts h t0 l R)|].
  assert (Sp : inst_outsideb tv v k acts h = true <->
               Forall (qexact (ccfg k 0)) (qtrace (ccfg k 0) (init (ccfg k 0) t0) l)).
  { unfold inst_outsideb. unfold rep_byb in R. rewrite R. exact (sched_outsideb_spec k (t0, l)). }
  split; [exact Sp|]. intro B. apply Sp in B.
  destruct (C10_sized_holds_outside_findings (ccfg k 0) t0 l B) as [P S].
  split; [exact P|]. split; [exact S|]. rewrite E.
  exact (qrun_HL (ccfg k 0) l (init (ccfg k 0) t0) (GI_init (ccfg k 0) t0) B).
Qed.
Print Assumptions C10_plugin_holds_outside_findings_decidable.

(* for the remedy as a whole: one boolean of the history covers every queue
   instance of the key *)
Theorem C10_plugin_no_strand_if_outsideb : forall tv v acts k,
  outsideb tv v k acts = true ->
  forall s, In s (insts (pget k (prun tv v pinit acts))) ->
    forall r, In r (reqs s) -> live r = true -> In (entry_of r) (heap s).
Proof.
  intros tv v acts k O s I. destruct (In_nth_error _ _ I) as [h N].
  destruct (C10_plugin_holds_outside_findings_decidable tv v acts k h s N) as [t0 [l [R [_ [_ [_ X]]]]]].
  apply X. apply outsideb_inst; [exact O|]. apply nth_error_Some. now rewrite R.
Qed.
Print Assumptions C10_plugin_no_strand_if_outsideb.

(* Suite [plugin_outside] evaluates [PluginCheck.run_plugin_outside] on the
   histories suite plugin executed: an accepted case is a history on which the
   boolean side condition holds for every remedy key of the case, so the
   theorem above applies to every queue instance of the executed history. *)
Theorem C10_accepted_outside_case : forall tbl cacts counts results,
  run_plugin_outside (tbl, cacts, counts, results) = None ->
  exists macts,
    mexpand_all tbl cacts = Some macts /\
    forall k p, In (k, p) tbl -> outsideb code_ttl code_variant k (strip macts) = true.
Proof.
  intros tbl cacts counts results H. unfold run_plugin_outside in H.
  destruct (mexpand_all tbl cacts) as [macts|]; [|discriminate].
  exists macts. split; [reflexivity|]. intros k p I.
  destruct (flat_map (outside_report (strip macts)) (map fst tbl)) as [|x t] eqn:E; [|discriminate].
  destruct (outsideb code_ttl code_variant k (strip macts)) eqn:O; [reflexivity|].
  assert (X : In (k, map (sched_findings k) (psched code_ttl code_variant k (strip macts)))
                 (flat_map (outside_report (strip macts)) (map fst tbl))).
  { apply in_flat_map. exists k. split; [apply (in_map fst _ _ I)|].
    unfold outside_report. rewrite O. now left. }
  rewrite E in X. destruct X.
Qed.
Print Assumptions C10_accepted_outside_case.

(* Holds: a plugin case suite plugin ACCEPTS ([run_mplugin] = None; two metrics
   reads, queue size 2, quota 1 per second): request 1 takes the slot, 2 and 3
   park, 4 is refused (queue full), the pass at 1 s releases 2, the pass at 2 s
   releases 3.  The computed schedule of the one queue instance is shown; the
   boolean is true on it. *)
Example C10_plugin_outsideb_holds :
  let ka : qkey := (1, 1, 1) in
  let tbl := [(ka, {| p_ttl_e := 16; p_qsize := 2; p_status := 429; p_prz := None |})] in
  let hist :=
    [MC (CLookup 0 1 10); MC (CEnq 0 1 [] 10 10); MCScrape 11;
     MC (CLookup 0 2 11); MC (CEnq 0 2 [] 11 11); MC (CR 0 2 RPark 11);
     MC (CLookup 0 3 12); MC (CEnq 0 3 [] 12 12); MC (CR 0 3 RPark 12);
     MC (CLookup 0 4 13); MC (CEnq 0 4 [] 13 13);
     MC (CTick 0 0 second); MC (CR 0 2 RReturn second); MCScrape (second + 1);
     MC (CTick 0 0 (2 * second)); MC (CR 0 3 RReturn (2 * second))] in
  let counts := map Some [0; 0; 0; 0; 1; 1; 1; 2; 2; 2; 2; 2; 1; 1; 1; 0] in
  let res := [(Some 0%nat, 1, Some (VNoOp, 10)); (Some 0%nat, 2, Some (VNoOp, second));
              (Some 0%nat, 3, Some (VNoOp, 2 * second)); (Some 0%nat, 4, Some (VEarly 429, 13))] in
  run_mplugin (tbl, hist, counts, res) = None /\
  run_plugin_outside (tbl, hist, counts, res) = None /\
  match mexpand_all tbl hist with
  | Some macts =>
      let acts := strip macts in
      psched code_ttl code_variant ka acts =
        [(10, [(2, EnqLocked 1 0 10 (2 * second) 10);
               (2, EnqLocked 2 0 11 (2 * second) 11); (0, Park 2 11);
               (2, EnqLocked 3 0 12 (2 * second) 12); (0, Park 3 12);
               (2, EnqLocked 4 0 13 (2 * second) 13);
               (0, Tick second); (0, Return 2 second);
               (0, Tick (2 * second)); (0, Return 3 (2 * second))])] /\
      inst_outsideb code_ttl code_variant ka acts 0 = true /\
      outsideb code_ttl code_variant ka acts = true /\
      inst_outsideb code_ttl code_variant ka acts 1 = false   (* no such instance *)
  | None => False
  end.
Proof. vm_compute. repeat split; reflexivity. Qed.

(* Fails because of F-C10 (lost hand-off), at plugin level: the pass at 1 s
   pops the entry of request 2 while it is between Unlock and its select (step
   2 of the computed schedule: no_lost_handoff false, no_barging true); request
   2 parks afterwards, is not in the heap, the passes at 2 s and 3 s have a free
   slot and do not release it, it expires.  Every action is enabled. *)
Example C10_plugin_outsideb_fails_lost_handoff :
  let ka : qkey := (1, 1, 1) in
  let p := {| p_ttl_e := 16; p_qsize := 2; p_status := 429; p_prz := None |} in
  let acts :=
    [PK ka (KLookup 1 10); PK ka (KEnq 1 p [] 10 10);
     PK ka (KLookup 2 11); PK ka (KEnq 2 p [] 11 11); PK ka (KTick 0 second);
     PK ka (KR 2 RPark second); PK ka (KTick 0 (2 * second)); PK ka (KTick 0 (3 * second));
     PK ka (KR 2 RTtl (3 * second)); PK ka (KR 2 RReturn (3 * second))] in
  (penabled code_ttl code_variant pinit acts,
   outsideb code_ttl code_variant ka acts,
   map (sched_findings ka) (psched code_ttl code_variant ka acts),
   pverdict (prun code_ttl code_variant pinit acts) (Some ka) 2) =
  (true, false, [[(2%nat, false, true)]], Some (VEarly 429, 3 * second)).
Proof. vm_compute. reflexivity. Qed.

(* the same history as a case of suite [plugin_outside]: reported, with the key
   and the located event *)
Example C10_plugin_outside_case_reports_lost_handoff :
  let ka : qkey := (1, 1, 1) in
  let tbl := [(ka, {| p_ttl_e := 16; p_qsize := 2; p_status := 429; p_prz := None |})] in
  let hist :=
    [MC (CLookup 0 1 10); MC (CEnq 0 1 [] 10 10); MC (CLookup 0 2 11); MC (CEnq 0 2 [] 11 11);
     MC (CTick 0 0 second); MC (CR 0 2 RPark second); MCScrape (second + 1)] in
  run_plugin_outside (tbl, hist, [], []) = Some [(ka, [[(2%nat, false, true)]])].
Proof. vm_compute. reflexivity. Qed.

(* Fails because of F-C10b (barging): request 2 is parked; after the boundary
   request 3 runs its locked part before the roll-over pass and takes the fresh
   slot (step 3 of the computed schedule: no_lost_handoff true, no_barging
   false); the pass finds the quota used; request 2 expires. *)
Example C10_plugin_outsideb_fails_barging :
  let ka : qkey := (1, 1, 1) in
  let p := {| p_ttl_e := 12; p_qsize := 2; p_status := 429; p_prz := None |} in
  let acts :=
    [PK ka (KLookup 1 10); PK ka (KEnq 1 p [] 10 10);
     PK ka (KLookup 2 11); PK ka (KEnq 2 p [] 11 11); PK ka (KR 2 RPark 11);
     PK ka (KLookup 3 (second + 5)); PK ka (KEnq 3 p [] (second + 5) (second + 5));
     PK ka (KTick 0 (second + 6));
     PK ka (KR 2 RTtl (second + second / 2 + 11)); PK ka (KR 2 RReturn (second + second / 2 + 11))] in
  (penabled code_ttl code_variant pinit acts,
   outsideb code_ttl code_variant ka acts,
   map (sched_findings ka) (psched code_ttl code_variant ka acts),
   map (fun id => pverdict (prun code_ttl code_variant pinit acts) (Some ka) id) [1; 2; 3]) =
  (true, false, [[(3%nat, true, false)]],
   [Some (VNoOp, 10); Some (VEarly 429, second + second / 2 + 11); Some (VNoOp, second + 5)]).
Proof. vm_compute. reflexivity. Qed.

(* ================================================================== *)
(* The roll-over timer, and "no slot was available".                   *)

(* After every pass the roll-over goroutine sleeps until [next_tick] = the end
   of the window the pass has just refreshed (suite [timer] compares it with
   the deadline of the timer the real goroutine re-arms).  With a monotone
   clock that is the first grid boundary after the instant of the pass: the
   next pass is due exactly when the next window begins. *)
Theorem C10_pass_rearms_at_next_boundary : forall c t0 acts,
  0 < wsize c -> monotone t0 acts = true ->
  Forall (fun tr => forall now, snd (fst tr) = Tick now ->
            next_tick (snd tr) = uend c now /\
            now < next_tick (snd tr) <= now + wsize c /\
            stale c (snd tr) now = false)
         (trace c (init c t0) acts).
Proof.
  intros c t0 acts W M.
  pose proof (trace_AT c acts (init c t0) t0 W M (AT_init c t0)) as A.
  rewrite Forall_forall in *. intros [[s a] s'] I now E. simpl in E. subst a.
  destruct (A _ I) as [t [At Le]]. simpl in At, Le.
  pose proof (trace_step _ _ _ _ I) as St. simpl in St.
  change (exec c s (Tick now)) with (fst (tick c s now)) in St. simpl.
  unfold next_tick. rewrite St, (tick_wend c s t now W At Le).
  pose proof (uend_window c now W). split; [reflexivity|]. split; [lia|].
  unfold stale. rewrite (tick_wend c s t now W At Le). apply Z.ltb_irrefl.
Qed.
Print Assumptions C10_pass_rearms_at_next_boundary.

(* what suite [timer] evaluates is [next_tick] along [trace] *)
Theorem C10_run_ticks_is_trace : forall c s acts,
  enabled c s acts = true ->
  run_ticks c s acts = map (fun tr : trans => next_tick (snd tr)) (filter is_tick (trace c s acts)).
Proof. intros c s acts. apply run_ticks_enabled. Qed.
Print Assumptions C10_run_ticks_is_trace.

(* an accepted case of suite timer (deadlines as observed are never negative:
   mock-clock instants) is a schedule of enabled actions, and the observed
   deadlines are [next_tick] after the passes of [trace] *)
Theorem C10_accepted_timer_case_is_a_trace : forall q w n t0 acts nexts,
  Forall obs_ok nexts ->
  run_timer ((q, w, n), t0, acts, nexts) = None ->
  let c := {| quota := q; wsize := w; qsize := n |} in
  enabled c (init c t0) acts = true /\
  eq_zs (map (fun tr : trans => next_tick (snd tr)) (filter is_tick (trace c (init c t0) acts)))
        nexts = true.
Proof. exact run_timer_accepts. Qed.
Print Assumptions C10_accepted_timer_case_is_a_trace.

(* an accepted case with two passes (the second deadline unobserved), and a
   schedule with a disabled action, which no observation makes acceptable *)
Example C10_accepted_timer_case_nontrivial :
  run_timer ((1, 1000, 2), 0,
             [EnqLocked 1 0 0 500 0; EnqLocked 2 1 1 1500 1; Park 2 1; EnqLocked 3 0 2 1500 2; Park 3 2;
              EnqLocked 4 0 3 1500 3; Tick 1000; Return 3 1000; Ttl 2 1501; Return 2 1501; Tick 2000],
             [Some 2000; None]) = None /\
  run_timer ((1, 1000, 2), 0, [EnqLocked 1 0 0 500 0; Park 1 0; Tick 1000], [None]) = Some [-1].
Proof. vm_compute. split; reflexivity. Qed.

(* Clause "its time-to-live really elapsed while no slot was available for it".
   Outside the two findings, with a monotone clock, and when no TTL timer is
   served on a stale window (a TTL deadline at or after a boundary is handled
   after the pass of that boundary — scheduling assumption, see props
   `assumptions`): a waiter expires only at an instant whose aligned window
   has already given away its whole quota. *)
Theorem C10_expire_only_without_slot_if_pass_first : forall c t0 acts,
  0 < wsize c -> monotone t0 acts = true ->
  Forall (fun tr => no_lost_handoff c tr = true /\ no_barging c tr = true /\ ttl_after_pass c tr = true)
         (trace c (init c t0) acts) ->
  Forall (fun tr => forall id, expires tr id = true ->
            quota c <= count_at c (uend c (act_now (snd (fst tr)))) (log (fst (fst tr))))
         (trace c (init c t0) acts).
Proof.
  intros c t0 acts W M F.
  assert (F2 : Forall (fun tr => no_lost_handoff c tr = true /\ no_barging c tr = true)
                      (trace c (init c t0) acts)).
  { eapply Forall_impl; [|exact F]. intros tr (A & B & _). auto. }
  destruct (trace_GI_exact c acts (init c t0) (GI_init c t0) F2) as [G _].
  pose proof (trace_AT c acts (init c t0) t0 W M (AT_init c t0)) as A.
  pose proof (trace_RB c acts (init c t0) (RB_init c t0)) as R.
  rewrite Forall_forall in *. intros [[s a] s'] I id E.
  destruct (F _ I) as (_ & _ & T). destruct (G _ I) as (_ & _ & K).
  destruct (A _ I) as [t [At Le]]. specialize (R _ I). simpl in *.
  destruct a as [| | |id' now|]; try discriminate.
  apply andb_prop in E. destruct E as [E _]. apply andb_prop in E. destruct E as [_ Lv].
  apply live_in_true in Lv. destruct Lv as [r [Fd Lr]]. apply negb_true_iff in T.
  exact (window_used_up c s t now r W At Le R K T (proj1 (find_In _ _ _ Fd)) Lr).
Qed.
Print Assumptions C10_expire_only_without_slot_if_pass_first.

(* the scheduling assumption is needed (and is not one of the two findings): the
   TTL timer of request 2 (deadline 1001) is served before the pass of the
   boundary 1000 — it expires although no slot of [1000,2000) is taken and
   nobody is ahead; no step violates no_lost_handoff / no_barging, no step
   passes it over in the sense of [passed_over] (no pass, no newcomer) *)
Example C10_ttl_before_pass :
  let acts := [EnqLocked 1 0 0 5000 0; EnqLocked 2 0 1 1000 1; Park 2 1; Ttl 2 1001; Return 2 1001; Tick 1001] in
  let tr := trace cfg1 (init cfg1 0) acts in
  (monotone 0 acts, forallb (fun t => no_lost_handoff cfg1 t && no_barging cfg1 t) tr,
   map (ttl_after_pass cfg1) tr, strand cfg1 tr,
   count_at cfg1 2000 (log (run cfg1 (init cfg1 0) acts)),
   map result_of (reqs (run cfg1 (init cfg1 0) acts))) =
  (true, true, [true; true; true; false; true; true], false, 0,
   [(1, Some (true, 0)); (2, Some (false, 1001))]).
Proof. vm_compute. reflexivity. Qed.

(* satisfiable: the history of C10_holds_outside_nontrivial (roll-over, release
   in priority order, refusal, genuine expiry at 1501 in the window [1000,2000)
   whose only slot went to request 3) *)
Example C10_expire_without_slot_nontrivial :
  let c := {| quota := 1; wsize := 1000; qsize := 2 |} in
  let acts := [EnqLocked 1 0 0 500 0; EnqLocked 2 1 1 1500 1; Park 2 1; EnqLocked 3 0 2 1500 2; Park 3 2;
               EnqLocked 4 0 3 1500 3; Tick 1000; Return 3 1000; Ttl 2 1501; Return 2 1501] in
  (monotone 0 acts,
   forallb (fun tr => no_lost_handoff c tr && no_barging c tr && ttl_after_pass c tr) (trace c (init c 0) acts),
   existsb (fun tr => expires tr 2) (trace c (init c 0) acts),
   count_at c 2000 (log (run c (init c 0) acts)),
   run_ticks c (init c 0) acts) = (true, true, true, 1, [2000]).
Proof. vm_compute. reflexivity. Qed.

(* ================================================================== *)
(* Metrics reads (Scrape.v).                                           *)
(*                                                                    *)
(* The plugin registers an observable gauge (requests_in_queue); its   *)
(* callback observeRequestsInQueue runs on a goroutine of the metrics  *)
(* SDK at any point of a plugin-level schedule.  A schedule with       *)
(* metrics reads is a list of [maction]s: the actions of Plugin.v plus *)
(* [MScrape now] (always enabled: one queuesMutex section).            *)

(* ---- frame: a metrics read changes no queue and no verdict ---- *)

(* The callback of the code only reads: after a metrics read the whole plugin
   state (every map entry, every queue ever constructed with its heap, window
   counter and grant log, every request record) is what it was; a schedule with
   metrics reads ends in the state of the same schedule without them, so every
   verdict, every queue instance and every theorem of the plugin layer above is
   untouched by metrics reads at arbitrary points. *)
Theorem C10_metrics_read_frame : forall tv v,
  (forall s now, mexec tv ReadOnly v s (MScrape now) = s) /\
  (forall s acts, mrun tv ReadOnly v s acts = prun tv v s (strip acts)) /\
  (forall acts k rid,
     pverdict (mrun tv ReadOnly v pinit acts) k rid = pverdict (prun tv v pinit (strip acts)) k rid) /\
  (forall acts k,
     insts (pget k (mrun tv ReadOnly v pinit acts)) = insts (pget k (prun tv v pinit (strip acts)))).
Proof.
  intros tv v. split; [intros; apply mexec_scrape_readonly|].
  split; [intros; apply mrun_readonly|].
  split; intros; now rewrite mrun_readonly.
Qed.
Print Assumptions C10_metrics_read_frame.

(* ---- releases per remedy and window <= quota on schedules with metrics reads ---- *)

Definition C10_plugin_release_bound_with_metrics_for (tv : ttl_variant) (sv : scrape_variant) : Prop :=
  forall acts k w,
    kgrants w (insts (pget k (mrun tv sv Atomic pinit acts))) <= Z.max 0 (kquota k).

Theorem C10_plugin_release_bound_with_metrics : forall tv,
  C10_plugin_release_bound_with_metrics_for tv ReadOnly.
Proof. intros tv acts k w. rewrite mrun_readonly. apply C10_plugin_release_bound. Qed.
Print Assumptions C10_plugin_release_bound_with_metrics.

(* at most one queue per remedy ever exists, metrics reads or not *)
Theorem C10_plugin_one_queue_per_remedy_with_metrics : forall tv acts k,
  let ks := pget k (mrun tv ReadOnly Atomic pinit acts) in
  (length (insts ks) <= 1)%nat /\
  (forall q, In q (preqs ks) -> q_inst q = cur ks /\ cur ks <> None).
Proof. intros tv acts k. rewrite mrun_readonly. apply C10_plugin_one_queue_per_remedy. Qed.
Print Assumptions C10_plugin_one_queue_per_remedy_with_metrics.

(* the strict replay function of suite plugin (histories with metrics reads)
   against the one without: same final state, same observations at the actions
   of Plugin.v; the value a metrics read reports is never the sentinel *)
Theorem C10_mrun_obs_is_prun_obs : forall tv v s acts,
  prun_obs tv v s (strip acts) =
    (drop_scrapes acts (fst (mrun_obs tv ReadOnly v s acts)), snd (mrun_obs tv ReadOnly v s acts)) /\
  0 <= gauge_total s.
Proof. intros. split; [apply mrun_obs_readonly|apply gauge_total_nonneg]. Qed.
Print Assumptions C10_mrun_obs_is_prun_obs.

(* ---- the variant whose callback forgets idle queues over-releases ---- *)

(* Seeded change C10-10: request 1 takes the only slot of the window at once
   (nobody waits: Counts() sums to 0); the metrics read deletes the idle queue
   from the map, and with it the window counter; request 2 of the same remedy,
   in the same window, misses the lookup, gets a new queue whose counter is 0 and
   is let through: 2 grants in a window whose quota is 1. *)
Definition scrape_forgets_window : list maction :=
  [MA (PK key1 (KLookup 1 10)); MA (PK key1 (KEnq 1 par1 [] 10 10));
   MScrape 11;
   MA (PK key1 (KLookup 2 12)); MA (PK key1 (KEnq 2 par1 [] 12 12))].
(* every action of it is enabled under BOTH variants (no sentinel in
   C10_metrics_read_outcomes below): under ReadOnly request 2 is queued (and
   could park next), under DropsIdle it got a slot and returns *)

Theorem C10_plugin_release_bound_drops_idle_refuted :
  ~ C10_plugin_release_bound_with_metrics_for code_ttl DropsIdle.
Proof.
  intro H. specialize (H scrape_forgets_window key1 (5 * second)).
  revert H. vm_compute. intro H. apply H. reflexivity.
Qed.
Print Assumptions C10_plugin_release_bound_drops_idle_refuted.

(* the same schedule under both variants; and a metrics read while somebody is
   parked (Counts() = 1) forgets nothing in either variant *)
Example C10_metrics_read_outcomes :
  let res sv acts := let s := mrun code_ttl sv Atomic pinit acts in
                     (length (insts (pget key1 s)), kgrants (5 * second) (insts (pget key1 s)),
                      pverdict s (Some key1) 1, pverdict s (Some key1) 2) in
  let parked := [MA (PK key1 (KLookup 1 10)); MA (PK key1 (KEnq 1 par1 [] 10 10));
                 MA (PK key1 (KLookup 2 11)); MA (PK key1 (KEnq 2 par1 [] 11 11)); MA (PK key1 (KR 2 RPark 11));
                 MScrape 12;
                 MA (PK key1 (KTick 0%nat (5 * second))); MA (PK key1 (KR 2 RReturn (5 * second)))] in
  res ReadOnly scrape_forgets_window = (1%nat, 1, Some (VNoOp, 10), None) /\
  res DropsIdle scrape_forgets_window = (2%nat, 2, Some (VNoOp, 10), Some (VNoOp, 12)) /\
  fst (mrun_obs code_ttl ReadOnly Atomic pinit scrape_forgets_window) = [0; 0; 0; 0; 1] /\
  fst (mrun_obs code_ttl DropsIdle Atomic pinit scrape_forgets_window) = [0; 0; 0; 0; 0] /\
  (* what distinguishes the variants next: request 2 parks under ReadOnly; under
     DropsIdle a Park is not enabled, it already has its slot *)
  fst (mrun_obs code_ttl ReadOnly Atomic pinit (scrape_forgets_window ++ [MA (PK key1 (KR 2 RPark 12))]))
    = [0; 0; 0; 0; 1; 1] /\
  fst (mrun_obs code_ttl DropsIdle Atomic pinit (scrape_forgets_window ++ [MA (PK key1 (KR 2 RPark 12))]))
    = [0; 0; 0; 0; 0; -1] /\
  res ReadOnly parked = res DropsIdle parked /\
  res ReadOnly parked = (1%nat, 1, Some (VNoOp, 10), Some (VNoOp, 5 * second)) /\
  fst (mrun_obs code_ttl ReadOnly Atomic pinit parked) = [0; 0; 0; 1; 1; 1; 1; 0].
Proof. vm_compute. repeat split. Qed.
