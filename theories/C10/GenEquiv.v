(* C10 — the definitions GENERATED from utils/queue/in_memory_delayed_priority_queue.go
   (C10/Gen.v, regenerated from the tree under check on every run by /verif/gotocoq) do
   what the hand model C10/Model.v says, for all states, requests, limits and instants.

   Translated: ensureWindowIsUpdated (= Model.roll), GetTimeTillWindowEnd, PriorityQueue.Less
   (= Model.key_ltb on the two entries), and the part of
   Enqueue BEFORE its select statement (= Model.enq_locked: the code under dpq.mutex up to
   the Unlock before the waiter parks).  Not translated (tied by the differential suites
   only): the branches of the select, process / processQueueItems (channel operations,
   heap.Pop, a conditional `for`), container/heap (the intrinsic [heap_push_by] of
   C10/GenSem.v stands for heap.Push, with the TRANSLATED PriorityQueue.Less as its
   comparison), totalQueueCount ([counts_total]).

   Relation [R c g s] between a generated queue object [g] and a model state [s] under the
   configuration [c]: strategy = (quota, wsize); currentWindowCounter = counter;
   currentWindowEndTime = wend; the queue (in pop order) read through
   [ent r = (priority, timestamp, tok ID)] is the model's sorted heap list; the sum of
   requestCounts is the number of counted requests.  [tok] reads request-id strings as the
   model's integer ids (any function: nothing below needs it to be injective). *)
From Coq Require Import List ZArith Bool Lia.
From Verif Require Import Lib.GoSem C10.Model C10.Proofs C10.GenSem C10.Gen.
Import ListNotations.
Open Scope Z_scope.

Section GenEquiv.
  Variable tok : gostring -> Z.

  Definition ent (r : Request) : entry :=
    (Request_priority r, Request_timestamp r, tok (Request_ID r)).

  Record R (c : cfg) (g : DPQ) (s : st) : Prop := mkR {
    R_quota : Strategy_WindowQuota (DPQ_strategy g) = quota c;
    R_wsize : Strategy_WindowSize (DPQ_strategy g) = wsize c;
    R_counter : DPQ_currentWindowCounter g = counter s;
    R_wend : DPQ_currentWindowEndTime g = wend s;
    R_heap : map ent (DPQ_queue g) = heap s;
    R_counts : counts_total (DPQ_requestCounts g) = qcount (reqs s)
  }.

  (* ---------------- the two intrinsics against the model's list functions -------- *)

  (* PriorityQueue.Less(i, j), translated: on indices in range it compares
     (priority, then timestamp.Before) = Model.key_ltb on the entries; out of range it panics *)
  Theorem C10_gen_Less pq i j :
    0 <= i < slice_len pq -> 0 <= j < slice_len pq ->
    Less pq i j = Normal tt (key_ltb (ekey (ent (nth (Z.to_nat i) pq (mk_Request [] 0 time_zero))))
                                     (ekey (ent (nth (Z.to_nat j) pq (mk_Request [] 0 time_zero))))).
  Proof.
    intros Hi Hj. unfold Less, key_ltb, ekey, ent, time_before. cbn [fst snd].
    replace (orb (orb (i <? 0) (slice_len pq <=? i)) (orb (j <? 0) (slice_len pq <=? j))) with false
      by (symmetry; apply orb_false_iff; split; apply orb_false_iff; split;
          first [apply Z.ltb_ge | apply Z.leb_gt]; lia).
    destruct (Request_priority _ =? Request_priority _); reflexivity.
  Qed.

  Theorem C10_gen_Less_panics pq i j :
    ~ (0 <= i < slice_len pq /\ 0 <= j < slice_len pq) -> Less pq i j = Panicked tt.
  Proof.
    intros H. unfold Less.
    replace (orb (orb (i <? 0) (slice_len pq <=? i)) (orb (j <? 0) (slice_len pq <=? j))) with true;
      [reflexivity|].
    symmetry. destruct (i <? 0) eqn:E1, (slice_len pq <=? i) eqn:E2, (j <? 0) eqn:E3, (slice_len pq <=? j) eqn:E4;
      try reflexivity. exfalso. apply H. lia.
  Qed.

  Lemma Less_pair a b :
    Less [a; b] 0 1 = Normal tt (key_ltb (ekey (ent a)) (ekey (ent b))).
  Proof. rewrite C10_gen_Less by (cbn; lia). reflexivity. Qed.

  (* heap.Push with the translated comparison = the model's sorted insertion *)
  Lemma heap_push_insert q r :
    map ent (heap_push_by (fun a b => match Less [a; b] 0 1 with Normal _ r => r | Panicked _ => false end) q r)
    = insert (ent r) (map ent q).
  Proof.
    induction q as [|y t IH]; cbn [heap_push_by map insert]; [reflexivity|].
    rewrite Less_pair.
    destruct (key_ltb (ekey (ent r)) (ekey (ent y))); cbn [map].
    - reflexivity.
    - f_equal. exact IH.
  Qed.

  Lemma counts_total_set m k v :
    counts_total (map_set Z.eqb m k v) = counts_total m - map_index Z.eqb 0 m k + v.
  Proof.
    unfold map_index, counts_total. induction m as [|[k' v'] m IH]; cbn.
    - lia.
    - destruct (k =? k') eqn:E; cbn.
      + lia.
      + rewrite IH. lia.
  Qed.

  Lemma counts_total_incr m k :
    counts_total (map_set Z.eqb m k (map_index Z.eqb 0 m k + 1)) = counts_total m + 1.
  Proof. rewrite counts_total_set. lia. Qed.

  (* ---------------- ensureWindowIsUpdated = roll ---------------- *)

  Lemma epoch_zero : epochTime = 0.
  Proof. reflexivity. Qed.

  Theorem C10_gen_ensureWindowIsUpdated c g s now :
    R c g s -> 0 < wsize c -> 0 <= now ->
    exists g', ensureWindowIsUpdated g now = Normal g' tt /\ R c g' (roll c s now).
  Proof.
    intros [HQ HW HC HE HH HN] Wpos Npos. unfold ensureWindowIsUpdated, roll, stale, uend.
    rewrite HW, HE, epoch_zero. unfold time_sub, time_add, time_after.
    replace (wsize c =? 0) with false by (symmetry; apply Z.eqb_neq; lia).
    rewrite Z.sub_0_r, Z.add_0_l, (Z.quot_div_nonneg now (wsize c)) by lia.
    destruct (wend s <? now / wsize c * wsize c + wsize c) eqn:E.
    - eexists; split; [reflexivity|]. constructor; cbn; auto.
    - eexists; split; [reflexivity|]. constructor; cbn; auto.
  Qed.

  (* the division by the window size is the only way it can panic *)
  Theorem C10_gen_ensureWindowIsUpdated_panics g now :
    (exists g', ensureWindowIsUpdated g now = Panicked g') <->
    Strategy_WindowSize (DPQ_strategy g) = 0.
  Proof.
    unfold ensureWindowIsUpdated.
    destruct (Strategy_WindowSize (DPQ_strategy g) =? 0) eqn:E.
    - apply Z.eqb_eq in E. split; [intros _; exact E|intros _; eexists; reflexivity].
    - apply Z.eqb_neq in E. split; [|contradiction].
      intros [g' H].
      destruct (time_after _ _) in H; discriminate.
  Qed.

  (* GetTimeTillWindowEnd: the duration the roll-over timer is armed with *)
  Theorem C10_gen_GetTimeTillWindowEnd c g s now :
    R c g s -> GetTimeTillWindowEnd g now = wend s - now.
  Proof. intros [HQ HW HC HE HH HN]. unfold GetTimeTillWindowEnd, time_sub. rewrite HE. reflexivity. Qed.

  (* ---------------- Enqueue up to the select = enq_locked ---------------- *)

  Definition ev_close : gostring := [99;108;111;115;101;32;100;111;110;101;67;104].   (* "close doneCh" *)

  (* what the caller sees: Some (true, nil) = returned true (slot of the current window,
     doneCh closed), Some (false, nil) = returned false (queue full), None = pushed, mutex
     released, on its way to the select *)
  Definition res_phase (res : option (bool * goerror)) : phase :=
    match res with
    | Some (true, _) => Slot
    | Some (false, _) => Rejected
    | None => Unlocked
    end.

  Theorem C10_gen_Enqueue_locked c g s req l now :
    R c g s -> 0 < wsize c -> 0 <= now ->
    let id := tok (Request_ID req) in
    let s' := enq_locked c s id (Request_priority req) (Request_timestamp req) l now in
    let s1 := roll c s now in
    exists g' res ev,
      Enqueue_locked g req l (qsize c) now = Normal g' (res, ev) /\
      R c g' s' /\
      (res, ev) = (if counter s1 <? quota c then (Some (true, ErrNil), [ev_close])
                   else if qsize c <=? qcount (reqs s1) then (Some (false, ErrNil), [])
                   else (None, [])) /\
      (find id (reqs s) = None -> phase_of s' id = Some (res_phase res)).
  Proof.
    intros HR Wpos Npos id s' s1. unfold Enqueue_locked.
    destruct (C10_gen_ensureWindowIsUpdated c g s now HR Wpos Npos) as (g1 & E1 & HR1).
    rewrite E1. cbv beta iota. fold s1 in HR1. destruct HR1 as [HQ HW HC HE HH HN].
    assert (Hreqs : reqs s1 = reqs s) by (unfold s1, roll; destruct (stale c s now); reflexivity).
    assert (Hph : forall f cnt r, find id (reqs s) = None ->
              match find id (reqs s1 ++ [new_req id (Request_priority req) (Request_timestamp req) l now f cnt r]) with
              | Some r0 => Some (ph r0) | None => None end = Some f).
    { intros f cnt r Hn. rewrite find_app, Hreqs, Hn. cbn. rewrite Z.eqb_refl. reflexivity. }
    subst s'. unfold enq_locked. fold s1.
    destruct (DPQ_currentWindowCounter g1 <? Strategy_WindowQuota (DPQ_strategy g1)) eqn:EQ.
    - assert (EQm : (counter s1 <? quota c) = true) by (rewrite <- HC, <- HQ; exact EQ).
      eexists _, _, _. split; [reflexivity|]. rewrite EQm. split; [|split; [reflexivity|]].
      + constructor; cbn -[counts_total qcount]; auto.
        * rewrite HC. reflexivity.
        * rewrite qcount_app. cbn -[counts_total qcount]. rewrite ?HN. lia.
      + intros Hn. unfold phase_of. cbn [reqs]. apply (Hph Slot false (Some now) Hn).
    - assert (EQm : (counter s1 <? quota c) = false) by (rewrite <- HC, <- HQ; exact EQ).
      destruct (qsize c <=? counts_total (DPQ_requestCounts g1)) eqn:ES.
      + assert (ESm : (qsize c <=? qcount (reqs s1)) = true) by (rewrite <- HN; exact ES).
        eexists _, _, _. split; [reflexivity|]. rewrite EQm, ESm. split; [|split; [reflexivity|]].
        * constructor; cbn -[counts_total qcount]; auto. rewrite qcount_app. cbn -[counts_total qcount]. rewrite ?HN. lia.
        * intros Hn. unfold phase_of. cbn [reqs]. apply (Hph Rejected false (Some now) Hn).
      + assert (ESm : (qsize c <=? qcount (reqs s1)) = false) by (rewrite <- HN; exact ES).
        eexists _, _, _. split; [reflexivity|]. rewrite EQm, ESm. split; [|split; [reflexivity|]].
        * constructor; cbn -[counts_total qcount]; auto.
          -- rewrite heap_push_insert, HH. reflexivity.
          -- rewrite counts_total_incr, qcount_app, HN. cbn -[counts_total qcount]. lia.
        * intros Hn. unfold phase_of. cbn [reqs]. apply (Hph Unlocked true None Hn).
  Qed.

  (* the hypotheses are satisfiable: the queue NewInMemoryDelayedPriorityQueue builds
     (empty heap and counts; its constructor runs ensureWindowIsUpdated once) is related
     to Model.init *)
  Lemma R_init c t0 :
    0 < wsize c -> 0 <= t0 ->
    exists g', ensureWindowIsUpdated (mk_DPQ (mk_Strategy (quota c) (wsize c)) 0 0 [] []) t0 = Normal g' tt /\
               R c g' (init c t0).
  Proof.
    intros Wpos Tpos. unfold ensureWindowIsUpdated, init, uend.
    cbn [Strategy_WindowSize DPQ_strategy DPQ_currentWindowEndTime].
    replace (wsize c =? 0) with false by (symmetry; apply Z.eqb_neq; lia).
    unfold time_sub, time_add, time_after. rewrite epoch_zero, Z.sub_0_r, Z.add_0_l.
    rewrite (Z.quot_div_nonneg t0 (wsize c)) by lia.
    assert (0 < t0 / wsize c * wsize c + wsize c).
    { assert (0 <= t0 / wsize c) by (apply Z.div_pos; lia). nia. }
    replace (0 <? t0 / wsize c * wsize c + wsize c) with true by (symmetry; apply Z.ltb_lt; lia).
    eexists; split; [reflexivity|]. constructor; cbn; auto.
  Qed.
End GenEquiv.

Print Assumptions C10_gen_ensureWindowIsUpdated.
Print Assumptions C10_gen_ensureWindowIsUpdated_panics.
Print Assumptions C10_gen_GetTimeTillWindowEnd.
Print Assumptions C10_gen_Enqueue_locked.
Print Assumptions C10_gen_Less.
Print Assumptions C10_gen_Less_panics.
