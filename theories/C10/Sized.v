(* C10 — one queue called with a queue size PER CALL.

   DelayedPriorityQueue.Enqueue takes maxQueueSize as an argument; the plugin
   reads it from the remedy configuration of every single call, so one queue
   instance may see different queue sizes.  Model.v fixes the size in [cfg] for
   a whole run; here every action carries the size its call passed (only the
   locked part of Enqueue reads it).  Definitions only. *)
From Coq Require Import List ZArith Bool.
From Verif Require Import C10.Model.
Import ListNotations.
Open Scope Z_scope.

Definition with_qsize (c : cfg) (q : Z) : cfg :=
  {| quota := quota c; wsize := wsize c; qsize := q |}.

(* (queue size passed by the call, action) *)
Definition qaction := (Z * action)%type.

Definition qexec (c : cfg) (s : st) (qa : qaction) : st :=
  exec (with_qsize c (fst qa)) s (snd qa).

Definition qrun (c : cfg) (s : st) (l : list qaction) : st := fold_left (qexec c) l s.

Fixpoint qtrace (c : cfg) (s : st) (l : list qaction) : list (Z * trans) :=
  match l with
  | [] => []
  | qa :: rest => let s' := qexec c s qa in (fst qa, (s, snd qa, s')) :: qtrace c s' rest
  end.

(* a schedule of Model.v is a sized schedule with one size *)
Definition sized (q : Z) (acts : list action) : list qaction := map (fun a => (q, a)) acts.

(* the largest queue size any call of the schedule passed (0 if none) *)
Fixpoint max_qsize (l : list qaction) : Z :=
  match l with
  | [] => 0
  | (q, EnqLocked _ _ _ _ _) :: rest => Z.max q (max_qsize rest)
  | _ :: rest => max_qsize rest
  end.

(* a request is admitted to wait only while fewer than the size passed by ITS
   call are counted, and refused at the door only when that many are *)
Definition admit_ok (qt : Z * trans) : bool :=
  let '(q, (s, a, s')) := qt in
  match a with
  | EnqLocked id _ _ _ _ =>
      match find id (reqs s), phase_of s' id with
      | None, Some Unlocked => qcount (reqs s) <? q
      | None, Some Rejected => q <=? qcount (reqs s)
      | _, _ => true
      end
  | _ => true
  end.
