(* C10 — lemmas about queues called with a queue size per call (Sized.v):
   everything except the admission test depends on the strategy (quota, window)
   only, so the queue-level theorems carry over to sized schedules. *)
From Coq Require Import List ZArith Bool Lia Sorting.Sorted.
From Verif Require Import C10.Model C10.Proofs C10.Proofs2 C10.Proofs3 C10.Exact C10.Release C10.Sized.
Import ListNotations.
Open Scope Z_scope.

Definition same_strategy (c c' : cfg) : Prop := quota c = quota c' /\ wsize c = wsize c'.

Lemma same_strategy_with : forall c q, same_strategy (with_qsize c q) c.
Proof. intros. split; reflexivity. Qed.

Lemma with_qsize_same : forall c, with_qsize c (qsize c) = c.
Proof. intros [q w n]. reflexivity. Qed.

(* ------------------------------------------------------------------ *)
(* the steps other than the admission depend on the strategy only       *)

Lemma roll_cfg : forall c c' s now, wsize c = wsize c' -> roll c s now = roll c' s now.
Proof. intros c c' s now E. unfold roll, stale, uend. now rewrite E. Qed.

Lemma stale_cfg : forall c c' s now, wsize c = wsize c' -> stale c s now = stale c' s now.
Proof. intros c c' s now E. unfold stale, uend. now rewrite E. Qed.

Lemma drain_cfg : forall c c' now h s, quota c = quota c' -> drain c now h s = drain c' now h s.
Proof.
  intros c c' now h. induction h as [|e h' IH]; intros s E; simpl; [reflexivity|].
  rewrite E. destruct (counter s <? quota c'); [|reflexivity].
  destruct (is_parked s (eid e)); [now rewrite IH|now apply IH].
Qed.

Lemma drops_cfg : forall c c' now h s, quota c = quota c' -> drops c now h s = drops c' now h s.
Proof.
  intros c c' now h. induction h as [|e h' IH]; intros s E; simpl; [reflexivity|].
  rewrite E. destruct (counter s <? quota c'); [|reflexivity].
  destruct (is_parked s (eid e)); [now apply IH|now rewrite IH].
Qed.

Lemma tick_cfg : forall c c' s now, same_strategy c c' -> tick c s now = tick c' s now.
Proof.
  intros c c' s now [Q W]. unfold tick. rewrite (roll_cfg c c' s now W). now apply drain_cfg.
Qed.

Definition is_enq (a : action) : bool :=
  match a with EnqLocked _ _ _ _ _ => true | _ => false end.

Lemma exec_cfg_other : forall c c' s a,
  same_strategy c c' -> is_enq a = false -> exec c s a = exec c' s a.
Proof.
  intros c c' s a SS NE. destruct a as [| | now | |]; try discriminate; try reflexivity.
  unfold exec, step. now rewrite (tick_cfg c c' s now SS).
Qed.

Lemma passed_over_cfg : forall c c' tr id,
  quota c = quota c' -> passed_over c tr id = passed_over c' tr id.
Proof. intros c c' [[s a] s'] id E. unfold passed_over. now rewrite E. Qed.

Lemma existsb_ext' : forall (A : Type) (f g : A -> bool) l,
  (forall x, f x = g x) -> existsb f l = existsb g l.
Proof. intros A f g l E. induction l as [|x t IH]; simpl; [reflexivity|]. now rewrite E, IH. Qed.

Lemma strand_cfg : forall c c' l, quota c = quota c' -> strand c l = strand c' l.
Proof.
  intros c c' l E. induction l as [|j rest IH]; simpl; [reflexivity|]. rewrite IH. f_equal.
  apply existsb_ext'. intro r. now rewrite (passed_over_cfg c c' j (rid r) E).
Qed.

Lemma no_lost_handoff_cfg : forall c c' tr,
  same_strategy c c' -> no_lost_handoff c tr = no_lost_handoff c' tr.
Proof.
  intros c c' [[s a] s'] [Q W]. destruct a as [| |now| |]; try reflexivity. simpl.
  rewrite (roll_cfg c c' s now W). now rewrite (drops_cfg c c' now _ _ Q).
Qed.

Lemma no_barging_cfg : forall c c' tr,
  wsize c = wsize c' -> no_barging c tr = no_barging c' tr.
Proof.
  intros c c' [[s a] s'] W. destruct a as [id p t l now| | | |]; try reflexivity. simpl.
  now rewrite (stale_cfg c c' s now W).
Qed.

Lemma GI_cfg : forall c c' s, quota c = quota c' -> GI c s -> GI c' s.
Proof.
  intros c c' s E (H & L & K). split; [exact H|]. split; [exact L|].
  intros r I Lv. rewrite <- E. exact (K r I Lv).
Qed.

(* ------------------------------------------------------------------ *)
(* invariants of sized runs                                             *)

Lemma qrun_inv : forall (P : st -> Prop) c,
  (forall q s a, P s -> P (exec (with_qsize c q) s a)) ->
  forall l s, P s -> P (qrun c s l).
Proof.
  intros P c St l. induction l as [|[q a] rest IH]; intros s H; simpl; [exact H|].
  apply IH. unfold qexec. simpl. now apply St.
Qed.

Lemma qrun_app : forall c l1 l2 s, qrun c s (l1 ++ l2) = qrun c (qrun c s l1) l2.
Proof. intros. unfold qrun. apply fold_left_app. Qed.

Lemma qrun_sized : forall c acts s, qrun c s (sized (qsize c) acts) = run c s acts.
Proof.
  intros c acts. induction acts as [|a rest IH]; intros s; simpl; [reflexivity|].
  unfold qexec. simpl. rewrite with_qsize_same. apply IH.
Qed.

Lemma qtrace_sized : forall c acts s,
  map snd (qtrace c s (sized (qsize c) acts)) = trace c s acts.
Proof.
  intros c acts. induction acts as [|a rest IH]; intros s; simpl; [reflexivity|].
  unfold qexec. simpl. rewrite with_qsize_same. now rewrite IH.
Qed.

Lemma HAN_qrun : forall c l s, HA s -> HN s -> HA (qrun c s l) /\ HN (qrun c s l).
Proof.
  intros c l s H N.
  apply (qrun_inv (fun s => HA s /\ HN s) c); [|auto].
  intros q s0 a [H0 N0]. split; [now apply HA_exec|now apply HN_exec].
Qed.

Lemma RB_strategy : forall c c' s, quota c = quota c' -> RB c s -> RB c' s.
Proof. intros c c' s E [A B C D F]. constructor; auto; rewrite <- E; auto. Qed.

Lemma RB_qrun : forall c l s, RB c s -> RB c (qrun c s l).
Proof.
  intros c l s R. apply (qrun_inv (RB c) c); [|exact R].
  intros q s0 a R0. apply (RB_strategy (with_qsize c q)); [reflexivity|].
  apply RB_exec. now apply (RB_strategy c).
Qed.

(* the size bound with the largest size any call passed *)
Lemma SB_enq_le : forall cM ci s id p t l now,
  SB cM s -> qsize ci <= qsize cM -> SB cM (enq_locked ci s id p t l now).
Proof.
  intros cM ci s id p t l now [B L] Le. unfold enq_locked. rewrite !roll_reqs.
  destruct (counter (roll ci s now) <? quota ci).
  - constructor; simpl.
    + rewrite qcount_app. simpl. lia.
    + intros r I Lv. apply in_app_or in I. destruct I as [I|[I|[]]]; [auto|subst; discriminate].
  - destruct (qsize ci <=? qcount (reqs s)) eqn:E.
    + constructor; simpl.
      * rewrite qcount_app. simpl. lia.
      * intros r I Lv. apply in_app_or in I. destruct I as [I|[I|[]]]; [auto|subst; discriminate].
    + apply Z.leb_gt in E. constructor; simpl.
      * rewrite qcount_app. simpl. lia.
      * intros r I Lv. apply in_app_or in I. destruct I as [I|[I|[]]]; [auto|subst; reflexivity].
Qed.

Lemma SB_exec_le : forall c M q s a,
  SB (with_qsize c M) s -> (is_enq a = true -> q <= M) ->
  SB (with_qsize c M) (exec (with_qsize c q) s a).
Proof.
  intros c M q s a S Le. destruct (is_enq a) eqn:IE.
  - destruct a as [id p t l now| | | |]; try discriminate.
    unfold exec, step. destruct (find id (reqs s)); [exact S|].
    apply SB_enq_le; [exact S|]. simpl. auto.
  - rewrite (exec_cfg_other (with_qsize c q) (with_qsize c M) s a); [|split; reflexivity|exact IE].
    now apply SB_exec.
Qed.

Definition sizes_le (M : Z) (l : list qaction) : Prop :=
  Forall (fun qa : qaction => is_enq (snd qa) = true -> fst qa <= M) l.

Lemma SB_qrun : forall c M l s,
  sizes_le M l -> SB (with_qsize c M) s -> SB (with_qsize c M) (qrun c s l).
Proof.
  intros c M l. induction l as [|[q a] rest IH]; intros s F S; simpl; [exact S|].
  inversion F as [|? ? Fa Fr]; subst. apply IH; [exact Fr|].
  unfold qexec. simpl. now apply SB_exec_le.
Qed.

Lemma sizes_le_max : forall l, sizes_le (max_qsize l) l.
Proof.
  induction l as [|[q a] rest IH]; [constructor|].
  assert (W : forall M, max_qsize rest <= M -> sizes_le M rest).
  { intros M Le. eapply Forall_impl; [|exact IH]. intros qa H E. specialize (H E). lia. }
  destruct a as [id p t l now| | | |]; simpl;
    (constructor; [simpl; intro E; try discriminate; lia|apply W; lia]).
Qed.

(* admission and refusal follow the size passed by the call itself *)
Lemma admit_ok_exec : forall c q s a,
  admit_ok (q, (s, a, exec (with_qsize c q) s a)) = true.
Proof.
  intros c q s a. unfold admit_ok. destruct a as [id p t l now| | | |]; try reflexivity.
  unfold exec, step. destruct (find id (reqs s)) eqn:Fd; [reflexivity|].
  unfold phase_of, enq_locked. set (s1 := roll (with_qsize c q) s now).
  assert (R : reqs s1 = reqs s) by apply roll_reqs.
  destruct (counter s1 <? quota (with_qsize c q)); simpl.
  - rewrite find_app, R, Fd. simpl. rewrite Z.eqb_refl. reflexivity.
  - destruct (q <=? qcount (reqs s1)) eqn:E; simpl;
      rewrite find_app, R, Fd; simpl; rewrite Z.eqb_refl; simpl; rewrite <- R.
    + exact E.
    + apply Z.leb_gt in E. now apply Z.ltb_lt.
Qed.

Lemma qtrace_admit_ok : forall c l s, Forall (fun qt => admit_ok qt = true) (qtrace c s l).
Proof.
  intros c l. induction l as [|[q a] rest IH]; intros s; simpl; constructor; auto.
  apply admit_ok_exec.
Qed.

(* ------------------------------------------------------------------ *)
(* no strand outside the two findings, sized                            *)

Definition qexact (c : cfg) (qt : Z * trans) : Prop :=
  no_lost_handoff c (snd qt) = true /\ no_barging c (snd qt) = true.

Lemma qstep_exact : forall c q s a,
  GI c s ->
  no_lost_handoff c (s, a, exec (with_qsize c q) s a) = true ->
  no_barging c (s, a, exec (with_qsize c q) s a) = true ->
  GI c (exec (with_qsize c q) s a) /\
  (forall id, passed_over c (s, a, exec (with_qsize c q) s a) id = false).
Proof.
  intros c q s a G P Q. set (ci := with_qsize c q) in *.
  assert (SS : same_strategy c ci) by (split; reflexivity).
  assert (Gi : GI ci s) by (apply (GI_cfg c); [reflexivity|exact G]).
  rewrite (no_lost_handoff_cfg c ci _ SS) in P.
  rewrite (no_barging_cfg c ci _ (proj2 SS)) in Q.
  split.
  - apply (GI_cfg ci); [reflexivity|]. now apply GI_exec_exact.
  - intro id. rewrite (passed_over_cfg c ci _ id (proj1 SS)). now apply passed_over_false_exact.
Qed.

Lemma qtrace_outside_exact : forall c l s,
  GI c s -> Forall (qexact c) (qtrace c s l) ->
  Forall (fun qt => forall id, passed_over c (snd qt) id = false) (qtrace c s l) /\
  GI c (qrun c s l).
Proof.
  intros c l. induction l as [|[q a] rest IH]; intros s G F; simpl in *.
  - split; [constructor|exact G].
  - inversion F as [|? ? [P Q] F']; subst. simpl in P, Q. unfold qexec in *. simpl in *.
    destruct (qstep_exact c q s a G P Q) as [G' PO].
    destruct (IH _ G' F') as [A B]. split; [constructor; [exact PO|exact A]|exact B].
Qed.

(* the positive half on a sized run: the state before any pass satisfies HA/HN *)
Lemma qrun_HL : forall c l s,
  GI c s -> Forall (qexact c) (qtrace c s l) -> HL (qrun c s l).
Proof. intros c l s G F. now destruct (qtrace_outside_exact c l s G F) as [_ (_ & L & _)]. Qed.
