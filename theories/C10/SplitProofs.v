(* C10 — lemmas about the split variant of Split.v:
   on lifted schedules (every decision immediately followed by its push) the
   split model coincides with the model of Model.v, and a schedule accepted by
   [unlift] is a lifted one. *)
From Coq Require Import List ZArith Bool Lia.
From Verif Require Import C10.Model C10.Split.
Import ListNotations.
Open Scope Z_scope.

Lemma srun_app : forall c l1 l2 s, srun c s (l1 ++ l2) = srun c (srun c s l1) l2.
Proof. intros. unfold srun. now rewrite fold_left_app. Qed.

(* the third branch of [enq_locked] is decide-then-push *)
Lemma enq_locked_queue : forall c s id p t l now,
  will_queue c (roll c s now) = true ->
  enq_locked c s id p t l now = push (new_req id p t l now Unlocked true None) (roll c s now).
Proof.
  intros c s id p t l now W. unfold will_queue in W.
  apply andb_true_iff in W. destruct W as [W1 W2].
  apply negb_true_iff in W1. apply negb_true_iff in W2.
  unfold enq_locked. cbv zeta. rewrite W1, W2. reflexivity.
Qed.

(* one EnqLocked = SDecide; SPush when nothing is pending *)
Lemma lift1_exec : forall c s a,
  srun c {| base := s; pend := [] |} (lift1 a) = {| base := exec c s a; pend := [] |}.
Proof.
  intros c s a. destruct a as [id p t l now|id now|now|id now|id now].
  - (* EnqLocked *)
    cbn [lift1 srun fold_left]. unfold sexec at 2. cbn [sstep base pend find].
    unfold exec. cbn [step].
    destruct (find id (reqs s)) eqn:F.
    + (* id already used: both steps disabled *)
      unfold sexec. cbn [sstep pend find]. reflexivity.
    + destruct (will_queue c (roll c s now)) eqn:W.
      * unfold sexec. cbn [sstep pend base app find new_req rid].
        rewrite Z.eqb_refl. cbn [remove_req rid]. rewrite Z.eqb_refl.
        rewrite (enq_locked_queue c s id p t l now W). reflexivity.
      * unfold sexec. cbn [sstep pend find]. reflexivity.
  - cbn [lift1 srun fold_left]. unfold sexec, exec. cbn [sstep base pend].
    destruct (step c s (Park id now)); reflexivity.
  - cbn [lift1 srun fold_left]. unfold sexec, exec. cbn [sstep base pend].
    destruct (step c s (Tick now)); reflexivity.
  - cbn [lift1 srun fold_left]. unfold sexec, exec. cbn [sstep base pend].
    destruct (step c s (Ttl id now)); reflexivity.
  - cbn [lift1 srun fold_left]. unfold sexec, exec. cbn [sstep base pend].
    destruct (step c s (Return id now)); reflexivity.
Qed.

Lemma lift_run : forall c acts s,
  srun c {| base := s; pend := [] |} (lift acts) = {| base := run c s acts; pend := [] |}.
Proof.
  intros c acts. induction acts as [|a rest IH]; intros s; [reflexivity|].
  unfold lift. cbn [flat_map]. rewrite srun_app, lift1_exec. fold (lift rest).
  rewrite IH. reflexivity.
Qed.

(* a schedule accepted by the correspondence function of suite [atomic] is the
   lifting of the action list it hands to [run_case] *)
Lemma unlift_lift : forall l cs acts cs',
  unlift l cs = Some (acts, cs') -> l = lift acts.
Proof.
  fix IH 1. intros l cs acts cs' H.
  destruct l as [|a l1]; cbn [unlift] in H.
  - destruct cs; [|discriminate]. injection H as <- _. reflexivity.
  - destruct a as [id p t tl now|id|a].
    + destruct l1 as [|b rest]; [discriminate|].
      destruct b as [?|id'|?]; try discriminate.
      destruct cs as [|c1 [|c2 cs2]]; try discriminate.
      destruct (id =? id') eqn:E; [|discriminate].
      destruct (unlift rest cs2) as [[a0 o0]|] eqn:U; [|discriminate].
      injection H as <- _. apply Z.eqb_eq in E. subst id'.
      rewrite (IH rest cs2 a0 o0 U). reflexivity.
    + discriminate.
    + destruct a as [? ? ? ? ?|id now|now|id now|id now]; [discriminate| | | |];
        (destruct cs as [|c1 cs1]; [discriminate|];
         destruct (unlift l1 cs1) as [[a0 o0]|] eqn:U; [|discriminate];
         injection H as <- _; rewrite (IH l1 cs1 a0 o0 U); reflexivity).
Qed.

Lemma lift_unlift : forall acts, exists cs cs', unlift (lift acts) cs = Some (acts, cs').
Proof.
  induction acts as [|a rest [cs [cs' IH]]]; [exists [], []; reflexivity|].
  destruct a as [id p t l now|id now|now|id now|id now].
  - exists (None :: None :: cs), (None :: cs'). unfold lift. cbn [flat_map lift1 app unlift].
    fold (lift rest). rewrite Z.eqb_refl, IH. reflexivity.
  - exists (None :: cs), (None :: cs'). unfold lift. cbn [flat_map lift1 app unlift].
    fold (lift rest). rewrite IH. reflexivity.
  - exists (None :: cs), (None :: cs'). unfold lift. cbn [flat_map lift1 app unlift].
    fold (lift rest). rewrite IH. reflexivity.
  - exists (None :: cs), (None :: cs'). unfold lift. cbn [flat_map lift1 app unlift].
    fold (lift rest). rewrite IH. reflexivity.
  - exists (None :: cs), (None :: cs'). unfold lift. cbn [flat_map lift1 app unlift].
    fold (lift rest). rewrite IH. reflexivity.
Qed.
