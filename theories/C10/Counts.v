(* C10 — what requestCounts counts.  On every schedule
     totalQueueCount() = (requests blocked in Enqueue) + (requests already
     answered — released or expired — that have not yet re-taken the mutex to
     decrement),
   so "the queue was full" in [reject_ok] reads: waiters + returning >= size. *)
From Coq Require Import List ZArith Bool Lia.
From Verif Require Import C10.Model C10.Proofs C10.Proofs2.
Import ListNotations.
Open Scope Z_scope.

(* a counted request is in one of the four phases inside Enqueue's slow path *)
Definition CP (s : st) : Prop :=
  forall r, In r (reqs s) -> counted r = true -> ph r <> Slot /\ ph r <> Rejected.

Lemma CP_init : forall c t0, CP (init c t0).
Proof. intros c t0 r []. Qed.

Lemma CP_app : forall s h k w lg r0,
  CP s -> (counted r0 = true -> ph r0 <> Slot /\ ph r0 <> Rejected) ->
  CP {| heap := h; counter := k; wend := w; reqs := reqs s ++ [r0]; log := lg |}.
Proof.
  intros s h k w lg r0 C H r I Cn. simpl in I. apply in_app_or in I.
  destruct I as [I|[I|[]]]; [now apply C|subst; auto].
Qed.

Lemma CP_upd : forall s id f h k w lg,
  CP s ->
  (forall r0, find id (reqs s) = Some r0 -> counted (f r0) = true ->
              (counted r0 = true -> ph r0 <> Slot /\ ph r0 <> Rejected) ->
              ph (f r0) <> Slot /\ ph (f r0) <> Rejected) ->
  CP {| heap := h; counter := k; wend := w; reqs := upd id f (reqs s); log := lg |}.
Proof.
  intros s id f h k w lg C H r I Cn. simpl in I. apply In_upd_weak in I.
  destruct I as [I|[r0 [F0 E0]]]; [now apply C|]. subst r.
  apply (H r0 F0 Cn). intro C0. apply C; [apply (find_In _ _ _ F0)|exact C0].
Qed.

Lemma CP_drain : forall c now h s, CP s -> CP (fst (drain c now h s)).
Proof.
  intros c now h. induction h as [|e h' IH]; intros s C; simpl.
  - exact C.
  - destruct (counter s <? quota c); [|exact C].
    destruct (is_parked s (eid e)); [|auto].
    specialize (IH (release s (eid e) now)).
    destruct (drain c now h' (release s (eid e) now)) as [s' rel] eqn:D. simpl in *.
    apply IH. unfold release. apply CP_upd; [exact C|].
    intros r0 _ _ _. simpl. split; discriminate.
Qed.

Lemma CP_exec : forall c s a, CP s -> CP (exec c s a).
Proof.
  intros c s a C. unfold exec, step.
  destruct a as [id p t l now|id now|now|id now|id now].
  - destruct (find id (reqs s)); [exact C|]. unfold enq_locked.
    assert (C1 : CP (roll c s now)) by (intros r I; rewrite roll_reqs in I; now apply C).
    destruct (counter (roll c s now) <? quota c);
      [|destruct (qsize c <=? qcount (reqs (roll c s now)))];
      apply CP_app; auto; simpl; try discriminate. intros _. split; discriminate.
  - destruct (find id (reqs s)) as [r|]; [|exact C].
    destruct (phase_eqb (ph r) Unlocked); [|exact C]. unfold set_reqs.
    apply CP_upd; [exact C|]. intros r0 _ _ _. simpl. split; discriminate.
  - unfold tick. apply CP_drain. intros r I. rewrite roll_reqs in I. now apply C.
  - destruct (find id (reqs s)) as [r|]; [|exact C].
    destruct (phase_eqb (ph r) Parked && (dl r <=? now)); [|exact C]. unfold set_reqs.
    apply CP_upd; [exact C|]. intros r0 _ _ _. simpl. split; discriminate.
  - destruct (find id (reqs s)) as [r|]; [|exact C].
    destruct ((phase_eqb (ph r) Released || phase_eqb (ph r) Expired) && counted r); [|exact C].
    unfold set_reqs. apply CP_upd; [exact C|]. intros r0 _ Cn _. simpl in Cn. discriminate.
Qed.

Lemma CP_run : forall c acts s, CP s -> CP (run c s acts).
Proof.
  intros c acts. induction acts as [|a rest IH]; intros s C; simpl; [exact C|].
  apply IH. now apply CP_exec.
Qed.

Lemma count_split : forall l,
  (forall r, In r l -> counted r = true -> ph r <> Slot /\ ph r <> Rejected) ->
  (forall r, In r l -> live r = true -> counted r = true) ->
  qcount l = waiters l + returning l.
Proof.
  unfold qcount, waiters, returning. induction l as [|x t IH]; intros C L; simpl; [reflexivity|].
  assert (IH' : Z.of_nat (length (filter counted t)) =
                Z.of_nat (length (filter live t)) + Z.of_nat (length (filter in_flight t))).
  { apply IH; intros r I; [apply C|apply L]; now right. }
  specialize (C x (or_introl eq_refl)). specialize (L x (or_introl eq_refl)).
  unfold in_flight, live in *. destruct (counted x) eqn:Cx.
  - destruct (C eq_refl) as [N1 N2]. destruct (ph x); simpl length; try congruence; lia.
  - destruct (ph x); simpl length; try lia; specialize (L eq_refl); discriminate.
Qed.
