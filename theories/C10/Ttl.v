(* C10 — a waiter expires only after its TTL: needs a monotone clock only (the
   window size plays no role; Proofs3.v's invariant AT carried 0 < wsize for
   the window part of the invariant). *)
From Coq Require Import List ZArith Bool Lia.
From Verif Require Import C10.Model C10.Proofs C10.Proofs2 C10.Proofs3.
Import ListNotations.
Open Scope Z_scope.

Record TT (s : st) (tl : Z) : Prop := {
  tt_arr : forall r, In r (reqs s) -> arr r <= tl;
  tt_dl : forall r, In r (reqs s) -> ph r = Parked -> arr r + ttl r <= dl r
}.

Lemma TT_init : forall c t0, TT (init c t0) t0.
Proof. intros. constructor; simpl; tauto. Qed.

Lemma TT_exec : forall c s tl a,
  TT s tl -> tl <= act_now a -> TT (exec c s a) (act_now a).
Proof.
  intros c s tl a [R D] Le.
  assert (Keep : TT s (act_now a)).
  { constructor; auto. intros r I. specialize (R r I). lia. }
  unfold exec, step.
  destruct a as [id p t l now|id now|now|id now|id now]; simpl in Le |- *.
  - destruct (find id (reqs s)); [exact Keep|].
    unfold enq_locked. set (s1 := roll c s now) in *.
    assert (R1 : reqs s1 = reqs s) by apply roll_reqs.
    assert (AR : forall r0 : req, arr r0 = now -> ph r0 <> Parked ->
              (forall r, In r (reqs s ++ [r0]) -> arr r <= now) /\
              (forall r, In r (reqs s ++ [r0]) -> ph r = Parked -> arr r + ttl r <= dl r)).
    { intros r0 E NP. split; intros r I; apply in_app_or in I; destruct I as [I|[I|[]]].
      - specialize (R r I). lia.
      - subst. lia.
      - auto.
      - subst. tauto. }
    destruct (counter s1 <? quota c); [|destruct (qsize c <=? qcount (reqs s1))].
    + destruct (AR (new_req id p t l now Slot false (Some now)) eq_refl) as [X Y]; [discriminate|].
      constructor; simpl; rewrite ?R1; auto.
    + destruct (AR (new_req id p t l now Rejected false (Some now)) eq_refl) as [X Y]; [discriminate|].
      constructor; simpl; rewrite ?R1; auto.
    + destruct (AR (new_req id p t l now Unlocked true None) eq_refl) as [X Y]; [discriminate|].
      constructor; simpl; rewrite ?R1; auto.
  - destruct (find id (reqs s)) as [r|] eqn:Fd; [|exact Keep].
    destruct (phase_eqb (ph r) Unlocked); [|exact Keep].
    destruct Keep as [R' D']. cbn [act_now] in *. constructor; simpl; auto.
    + intros r1 I. apply In_upd_weak in I. destruct I as [I|[r0 [F0 E0]]]; [auto|].
      subst r1. simpl. apply R'. apply (find_In _ _ _ F0).
    + intros r1 I P. apply In_upd_weak in I. destruct I as [I|[r0 [F0 E0]]]; [auto|].
      subst r1. simpl. specialize (R' r0 (proj1 (find_In _ _ _ F0))). lia.
  - unfold tick. set (s1 := roll c s now) in *.
    assert (R1 : reqs s1 = reqs s) by apply roll_reqs.
    destruct (drain c now (heap s1) s1) as [s' rel] eqn:Dr. simpl.
    pose proof (drain_reqs_rel _ _ _ _ _ _ Dr) as RR. rewrite R1 in RR.
    constructor.
    + intros r' I. destruct (RR r' I) as [r [Ir [E1 _]]]. specialize (R r Ir). lia.
    + intros r' I P. destruct (RR r' I) as [r [Ir [E1 [E2 [E3 [E4|E4]]]]]].
      * rewrite E1, E2, E3. apply D; [exact Ir|congruence].
      * congruence.
  - destruct (find id (reqs s)) as [r|] eqn:Fd; [|exact Keep].
    destruct (phase_eqb (ph r) Parked && (dl r <=? now)); [|exact Keep].
    destruct Keep as [R' D']. cbn [act_now] in *. constructor; simpl; auto.
    + intros r1 I. apply In_upd_weak in I. destruct I as [I|[r0 [F0 E0]]]; [auto|].
      subst r1. simpl. apply R'. apply (find_In _ _ _ F0).
    + intros r1 I P. apply In_upd_weak in I. destruct I as [I|[r0 [F0 E0]]]; [auto|].
      subst r1. simpl in P. discriminate.
  - destruct (find id (reqs s)) as [r|] eqn:Fd; [|exact Keep].
    destruct ((phase_eqb (ph r) Released || phase_eqb (ph r) Expired) && counted r); [|exact Keep].
    destruct Keep as [R' D']. cbn [act_now] in *. constructor; simpl; auto.
    + intros r1 I. apply In_upd_weak in I. destruct I as [I|[r0 [F0 E0]]]; [auto|].
      subst r1. simpl. apply R'. apply (find_In _ _ _ F0).
    + intros r1 I P. apply In_upd_weak in I. destruct I as [I|[r0 [F0 E0]]]; [auto|].
      subst r1. simpl in *. apply D'; [apply (find_In _ _ _ F0)|exact P].
Qed.

Lemma expires_after_ttl_mono : forall c acts s tl,
  monotone tl acts = true -> TT s tl ->
  Forall (fun tr => forall id, expires tr id = true ->
            exists r, find id (reqs (fst (fst tr))) = Some r /\
                      arr r + ttl r <= act_now (snd (fst tr)))
         (trace c s acts).
Proof.
  intros c acts. induction acts as [|a rest IH]; intros s tl M A; simpl in *; constructor.
  - simpl. intros id E. unfold expires in E.
    destruct a as [| | |id' now|]; try discriminate.
    apply andb_prop in E. destruct E as [E PE].
    apply andb_prop in E. destruct E as [E Lv]. apply Z.eqb_eq in E. subst id'.
    apply live_in_true in Lv. destruct Lv as [r [Fd Lr]].
    exists r. split; [exact Fd|]. simpl.
    unfold exec, step in PE. rewrite Fd in PE.
    destruct (phase_eqb (ph r) Parked && (dl r <=? now)) eqn:En.
    + apply andb_prop in En. destruct En as [P Dl]. apply phase_eqb_eq in P. apply Z.leb_le in Dl.
      destruct A as [_ D]. specialize (D r (proj1 (find_In _ _ _ Fd)) P). lia.
    + exfalso. unfold phase_of in PE. rewrite Fd in PE. unfold live in Lr.
      destruct (ph r); discriminate.
  - apply andb_prop in M. destruct M as [M1 M2]. apply Z.leb_le in M1.
    eapply IH; eauto. eapply TT_exec; eauto.
Qed.
