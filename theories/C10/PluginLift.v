(* C10 — every queue instance of the plugin is a queue of Model.v run on its
   own (sized) schedule, whose actions are the queue-level content of plugin
   actions of the key.  Through this the queue-level theorems (size bound,
   order, what a pass releases, no strand outside the findings) apply to every
   queue instance the plugin ever constructs. *)
From Coq Require Import List ZArith Bool Lia Sorting.Sorted.
From Verif Require Import C10.Model C10.Proofs C10.Proofs2 C10.Proofs3 C10.Exact C10.Release
  C10.Sized C10.SizedProofs C10.Plugin C10.PluginProofs.
Import ListNotations.
Open Scope Z_scope.

Section WithTtl.
Variable tv : ttl_variant.
Local Notation kstep := (Plugin.kstep tv).
Local Notation kexec := (Plugin.kexec tv).
Local Notation krun := (Plugin.krun tv).
Local Notation prun := (Plugin.prun tv).

(* the queue-level content of a plugin action: (queue size its call passes,
   queue action) *)
Definition kq_of (a : kaction) : option qaction :=
  match a with
  | KEnq rid p hdrs t now =>
      Some (p_qsize p, EnqLocked rid (extract_priority hdrs (p_prz p)) t (ttl_ns tv p) now)
  | KR rid ra now => Some (0, ract_action ra rid now)
  | KTick h now => Some (0, Tick now)
  | KLookup _ _ | KStore _ _ => None
  end.

(* the instant at which an action constructs a queue *)
Definition kbuilt (a : kaction) : option Z :=
  match a with KLookup _ now | KStore _ now => Some now | _ => None end.

(* s is the queue of Model.v constructed at t0 and run on the sized schedule l,
   all of whose actions come from plugin actions of [acts] *)
Definition rep_by (k : qkey) (acts : list kaction) (s : st) (t0 : Z) (l : list qaction) : Prop :=
  s = qrun (ccfg k 0) (init (ccfg k 0) t0) l /\
  (exists a, In a acts /\ kbuilt a = Some t0) /\
  Forall (fun qa => exists a, In a acts /\ kq_of a = Some qa) l.

Definition REP (k : qkey) (acts : list kaction) (s : st) : Prop :=
  exists t0 l, rep_by k acts s t0 l.

Lemma REP_mono : forall k acts acts' s, incl acts acts' -> REP k acts s -> REP k acts' s.
Proof.
  intros k acts acts' s I [t0 [l [E [[a [Ia Ba]] F]]]]. exists t0, l. split; [exact E|]. split.
  - exists a. auto.
  - eapply Forall_impl; [|exact F]. intros qa [b [Ib Eb]]. exists b. auto.
Qed.

Lemma kstep_insts_gen : forall (P : st -> Prop) v k ks a ks',
  (forall now, kbuilt a = Some now -> P (new_inst k now)) ->
  (forall s qa s', P s -> kq_of a = Some qa ->
                   step (ccfg k (fst qa)) s (snd qa) = Some s' -> P s') ->
  Forall P (insts ks) -> kstep v k ks a = Some ks' -> Forall P (insts ks').
Proof.
  intros P v k ks a ks' Pinit Pstep F H.
  destruct a as [rid now|rid now|rid p hdrs t now|rid ra now|h now]; cbn [Plugin.kstep] in H.
  - destruct (pfind rid (preqs ks)); [discriminate|].
    destruct (cur ks).
    + inversion H; subst; exact F.
    + destruct v; inversion H; subst; simpl; [apply Forall_snoc; auto|exact F].
  - destruct v; [discriminate|]. destruct (pfind rid (preqs ks)) as [q|]; [|discriminate].
    destruct (q_inst q); [discriminate|]. inversion H; subst; simpl. apply Forall_snoc; auto.
  - destruct (pfind rid (preqs ks)) as [q|]; [|discriminate].
    destruct (q_inst q) as [h|]; [|discriminate]. destruct (q_status q); [discriminate|].
    destruct (nth_error (insts ks) h) as [s|] eqn:N; [|discriminate].
    destruct (step _ s _) as [s'|] eqn:S; [|discriminate].
    inversion H; subst; simpl. apply Forall_set_nth; [exact F|].
    eapply (Pstep s _ s'); [eapply nth_error_Forall; eauto|reflexivity|exact S].
  - destruct (pfind rid (preqs ks)) as [q|]; [|discriminate].
    destruct (q_inst q) as [h|]; [|discriminate]. destruct (q_status q); [|discriminate].
    destruct (nth_error (insts ks) h) as [s|] eqn:N; [|discriminate].
    destruct (step _ s _) as [s'|] eqn:S; [|discriminate].
    inversion H; subst; simpl. apply Forall_set_nth; [exact F|].
    eapply (Pstep s _ s'); [eapply nth_error_Forall; eauto|reflexivity|exact S].
  - destruct (nth_error (insts ks) h) as [s|] eqn:N; [|discriminate].
    destruct (step _ s _) as [s'|] eqn:S; [|discriminate].
    inversion H; subst; simpl. apply Forall_set_nth; [exact F|].
    eapply (Pstep s _ s'); [eapply nth_error_Forall; eauto|reflexivity|exact S].
Qed.

Lemma krun_snoc : forall v k ks acts a, krun v k ks (acts ++ [a]) = kexec v k (krun v k ks acts) a.
Proof. intros. unfold Plugin.krun. now rewrite fold_left_app. Qed.

(* every queue instance of a key is a sized queue run over actions of the key *)
Lemma REP_insts : forall v k acts, Forall (REP k acts) (insts (krun v k kinit acts)).
Proof.
  intros v k acts. induction acts as [|a acts IH] using rev_ind; [constructor|].
  rewrite krun_snoc. set (ks := krun v k kinit acts) in *.
  assert (IH' : Forall (REP k (acts ++ [a])) (insts ks)).
  { eapply Forall_impl; [|exact IH]. intros s R. eapply REP_mono; [|exact R].
    intros x I. apply in_or_app. now left. }
  unfold Plugin.kexec. destruct (kstep v k ks a) as [ks'|] eqn:E; [|exact IH'].
  eapply kstep_insts_gen; [| |exact IH'|exact E].
  - intros now B. exists now, []. split; [reflexivity|]. split; [|constructor].
    exists a. split; [apply in_or_app; right; now left|exact B].
  - intros s qa s' [t0 [l [Es [B F]]]] Q S. exists t0, (l ++ [qa]). split; [|split; [exact B|]].
    + rewrite qrun_app, <- Es. simpl. unfold qexec.
      change (with_qsize (ccfg k 0) (fst qa)) with (ccfg k (fst qa)).
      symmetry. now apply step_exec.
    + apply Forall_app. split; [exact F|]. constructor; [|constructor].
      exists a. split; [apply in_or_app; right; now left|exact Q].
Qed.

(* ------------------------------------------------------------------ *)
(* consequences per queue instance                                      *)

Lemma HA_HN_insts : forall v k acts s,
  In s (insts (krun v k kinit acts)) -> HA s /\ HN s.
Proof.
  intros v k acts s I. pose proof (REP_insts v k acts) as F. rewrite Forall_forall in F.
  destruct (F s I) as [t0 [l [E _]]]. subst s. apply HAN_qrun; [apply HA_init|apply HN_init].
Qed.

Lemma kq_of_enq : forall a qa, kq_of a = Some qa -> is_enq (snd qa) = true ->
  exists rid p hdrs t now, a = KEnq rid p hdrs t now /\ fst qa = p_qsize p.
Proof.
  intros a qa Q E. destruct a as [| |rid p hdrs t now|rid ra now|h now]; simpl in Q; try discriminate;
    inversion Q; subst qa; simpl in *.
  - exists rid, p, hdrs, t, now. auto.
  - destruct ra; discriminate.
  - discriminate.
Qed.

(* the size bound, with the queue sizes the calls of the key passed *)
Lemma size_bound_insts : forall v k acts M s,
  (forall rid p hdrs t now, In (KEnq rid p hdrs t now) acts -> p_qsize p <= M) ->
  In s (insts (krun v k kinit acts)) ->
  qcount (reqs s) <= Z.max 0 M /\ waiters (reqs s) <= qcount (reqs s).
Proof.
  intros v k acts M s Le I. pose proof (REP_insts v k acts) as F. rewrite Forall_forall in F.
  destruct (F s I) as [t0 [l [E [_ O]]]]. subst s.
  assert (SL : sizes_le M l).
  { eapply Forall_impl; [|exact O]. intros qa [a [Ia Qa]] En.
    destruct (kq_of_enq a qa Qa En) as [rid [p [hdrs [t [now [Ea Eq]]]]]]. subst a.
    rewrite Eq. eapply Le; eauto. }
  pose proof (SB_qrun (ccfg k 0) M l (init (ccfg k 0) t0) SL (SB_init (with_qsize (ccfg k 0) M) t0)) as [B L].
  split; [exact B|now apply waiters_le_qcount].
Qed.

End WithTtl.
