(* C10 — the roll-over timer and "no slot was available".

   With a monotone clock and a positive window size:
   - after a pass the window end is the next grid boundary after the instant of
     the pass: the timer the goroutine re-arms fires at the next boundary;
   - outside the two findings, and when no TTL timer overtakes the pass of a
     boundary, a waiter expires only at an instant whose aligned window has
     given away its whole quota. *)
From Coq Require Import List ZArith Bool Lia.
From Verif Require Import C10.Model C10.Proofs C10.Proofs2 C10.Proofs3 C10.Exact.
Import ListNotations.
Open Scope Z_scope.

Lemma tick_wend : forall c s tl now,
  0 < wsize c -> AT c s tl -> tl <= now -> wend (fst (tick c s now)) = uend c now.
Proof.
  intros c s tl now W A Le. unfold tick.
  destruct (drain c now (heap (roll c s now)) (roll c s now)) as [s' rel] eqn:D. simpl.
  destruct (drain_all _ _ _ _ _ _ D) as (_ & _ & Wd & _). rewrite Wd.
  apply (roll_wend c s tl now W (at_wend _ _ _ A) Le).
Qed.

(* AT holds before every step of a monotone schedule *)
Lemma trace_AT : forall c acts s tl,
  0 < wsize c -> monotone tl acts = true -> AT c s tl ->
  Forall (fun tr => exists t, AT c (fst (fst tr)) t /\ t <= act_now (snd (fst tr))) (trace c s acts).
Proof.
  intros c acts. induction acts as [|a rest IH]; intros s tl W M A; simpl in *; constructor.
  - apply andb_prop in M. destruct M as [M1 _]. apply Z.leb_le in M1. exists tl. auto.
  - apply andb_prop in M. destruct M as [M1 M2]. apply Z.leb_le in M1.
    eapply IH; eauto. eapply AT_exec; eauto.
Qed.

Lemma trace_RB : forall c acts s, RB c s ->
  Forall (fun tr => RB c (fst (fst tr))) (trace c s acts).
Proof.
  intros c acts. induction acts as [|a rest IH]; intros s R; simpl; constructor; auto.
  apply IH. now apply RB_exec.
Qed.

(* the slots of the window that contains [now] are all given away *)
Lemma window_used_up : forall c s tl now r,
  0 < wsize c -> AT c s tl -> tl <= now -> RB c s -> KQ c s ->
  stale c s now = false ->
  In r (reqs s) -> live r = true ->
  quota c <= count_at c (uend c now) (log s).
Proof.
  intros c s tl now r W A Le R K St I Lv.
  pose proof (K r I Lv) as Q.
  assert (E : wend s = uend c now).
  { unfold stale in St. apply Z.ltb_ge in St.
    pose proof (at_wend _ _ _ A). pose proof (uend_mono c tl now W Le). lia. }
  rewrite (count_at_win c _ _ (at_log _ _ _ A)), <- E, (rb_cur _ _ R). exact Q.
Qed.
