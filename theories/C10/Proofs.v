(* C10 — lemmas, part 1: request table, release bound, size bound, grants. *)
From Coq Require Import List ZArith Bool Lia.
From Verif Require Import C10.Model.
Import ListNotations.
Open Scope Z_scope.

(* ------------------------------------------------------------------ *)
(* basics                                                              *)

Lemma phase_eqb_eq : forall a b, phase_eqb a b = true <-> a = b.
Proof. destruct a, b; simpl; split; intro H; try reflexivity; try discriminate. Qed.

Lemma key_ltb_spec : forall a b : Z * Z,
  key_ltb a b = true <-> (fst a < fst b \/ (fst a = fst b /\ snd a < snd b)).
Proof.
  intros a b. unfold key_ltb.
  destruct (fst a =? fst b) eqn:E;
    [apply Z.eqb_eq in E | apply Z.eqb_neq in E]; rewrite ?Z.ltb_lt; lia.
Qed.

Lemma key_ltb_false : forall a b : Z * Z,
  key_ltb a b = false <-> (fst b < fst a \/ (fst a = fst b /\ snd b <= snd a)).
Proof.
  intros a b. pose proof (key_ltb_spec a b) as H.
  destruct (key_ltb a b); split; intro G; try discriminate; try reflexivity.
  - exfalso. destruct H as [H _]. specialize (H eq_refl). lia.
  - destruct (Z_lt_le_dec (fst b) (fst a)) as [L|L]; [now left|].
    destruct (Z.eq_dec (fst a) (fst b)) as [E|E].
    + right. split; [exact E|]. destruct (Z_lt_le_dec (snd a) (snd b)) as [M|M]; [|exact M].
      exfalso. destruct H as [_ H]. assert (false = true) by (apply H; lia). discriminate.
    + exfalso. destruct H as [_ H]. assert (false = true) by (apply H; lia). discriminate.
Qed.

Definition fpres (f : req -> req) : Prop := forall r, rid (f r) = rid r.

Lemma fpres_set_ph : forall p, fpres (set_ph p). Proof. intros p r; reflexivity. Qed.
Lemma fpres_set_park : forall n, fpres (set_park n). Proof. intros n r; reflexivity. Qed.
Lemma fpres_set_ret : forall n, fpres (set_ret n). Proof. intros n r; reflexivity. Qed.
#[export] Hint Resolve fpres_set_ph fpres_set_park fpres_set_ret : c10.

Lemma find_In : forall id l r, find id l = Some r -> In r l /\ rid r = id.
Proof.
  induction l as [|x t IH]; simpl; intros r H; [discriminate|].
  destruct (rid x =? id) eqn:E.
  - inversion H; subst. apply Z.eqb_eq in E. auto.
  - destruct (IH _ H); auto.
Qed.

Lemma find_None : forall id l, find id l = None -> ~ In id (map rid l).
Proof.
  induction l as [|x t IH]; simpl; intros H; [tauto|].
  destruct (rid x =? id) eqn:E; [discriminate|].
  apply Z.eqb_neq in E. intros [G|G]; [auto|]. apply IH; auto.
Qed.

Lemma find_Some_in_ids : forall id l r, find id l = Some r -> In id (map rid l).
Proof.
  intros id l r H. destruct (find_In _ _ _ H) as [I E]. subst id. now apply in_map.
Qed.

Lemma In_find : forall l r, NoDup (map rid l) -> In r l -> find (rid r) l = Some r.
Proof.
  induction l as [|x t IH]; simpl; intros r N I; [tauto|].
  inversion N as [|? ? NI N']; subst.
  destruct I as [I|I].
  - subst. now rewrite Z.eqb_refl.
  - destruct (rid x =? rid r) eqn:E.
    + apply Z.eqb_eq in E. exfalso. apply NI. rewrite E. now apply in_map.
    + auto.
Qed.

Lemma find_app : forall id l r0,
  find id (l ++ [r0]) =
  match find id l with
  | Some r => Some r
  | None => if rid r0 =? id then Some r0 else None
  end.
Proof.
  induction l as [|x t IH]; simpl; intros r0; [reflexivity|].
  destruct (rid x =? id); auto.
Qed.

Lemma find_upd_same : forall id f l, fpres f ->
  find id (upd id f l) = option_map f (find id l).
Proof.
  intros id f l F. induction l as [|x t IH]; simpl; [reflexivity|].
  destruct (rid x =? id) eqn:E; simpl.
  - now rewrite F, E.
  - now rewrite E.
Qed.

Lemma find_upd_other : forall id id' f l, fpres f -> id' <> id ->
  find id' (upd id f l) = find id' l.
Proof.
  intros id id' f l F N. induction l as [|x t IH]; simpl; [reflexivity|].
  destruct (rid x =? id) eqn:E; simpl.
  - rewrite F. apply Z.eqb_eq in E.
    destruct (rid x =? id') eqn:E'; [apply Z.eqb_eq in E'; congruence|reflexivity].
  - destruct (rid x =? id'); auto.
Qed.

Lemma map_rid_upd : forall id f l, fpres f -> map rid (upd id f l) = map rid l.
Proof.
  intros id f l F. induction l as [|x t IH]; simpl; [reflexivity|].
  destruct (rid x =? id); simpl; [now rewrite F|now rewrite IH].
Qed.

Lemma In_upd : forall id f l r1, NoDup (map rid l) -> In r1 (upd id f l) ->
  (In r1 l /\ rid r1 <> id) \/ (exists r0, find id l = Some r0 /\ r1 = f r0).
Proof.
  intros id f l r1. induction l as [|x t IH]; simpl; intros N I; [tauto|].
  inversion N as [|? ? NI N']; subst.
  destruct (rid x =? id) eqn:E.
  - apply Z.eqb_eq in E. destruct I as [I|I].
    + right. exists x. auto.
    + left. split; [auto|]. intro G. apply NI. rewrite E, <- G. now apply in_map.
  - apply Z.eqb_neq in E. destruct I as [I|I].
    + subst. left. auto.
    + destruct (IH N' I) as [[A B]|[r0 [A B]]]; [left; auto|right; eauto].
Qed.

Lemma In_upd_weak : forall id f l r1, In r1 (upd id f l) ->
  In r1 l \/ (exists r0, find id l = Some r0 /\ r1 = f r0).
Proof.
  intros id f l r1. induction l as [|x t IH]; simpl; intros I; [tauto|].
  destruct (rid x =? id) eqn:E.
  - destruct I as [I|I]; [right; exists x; auto|left; auto].
  - destruct I as [I|I]; [left; auto|].
    destruct (IH I) as [A|[r0 [A B]]]; [left; auto|right; eauto].
Qed.

Lemma In_upd_other : forall id f l r, In r l -> rid r <> id -> In r (upd id f l).
Proof.
  intros id f l r. induction l as [|x t IH]; simpl; intros I N; [tauto|].
  destruct (rid x =? id) eqn:E.
  - apply Z.eqb_eq in E. destruct I as [I|I]; [subst; congruence|right; auto].
  - destruct I as [I|I]; [left; auto|right; auto].
Qed.

Lemma upd_app_fresh : forall id f l r0, find id l = None -> rid r0 = id ->
  upd id f (l ++ [r0]) = l ++ [f r0].
Proof.
  intros id f l r0. induction l as [|x t IH]; simpl; intros H E.
  - rewrite E, Z.eqb_refl. reflexivity.
  - destruct (rid x =? id) eqn:G; [discriminate|]. now rewrite IH.
Qed.

(* ------------------------------------------------------------------ *)
(* the steps never touch what they should not                          *)

Lemma roll_reqs : forall c s now, reqs (roll c s now) = reqs s.
Proof. intros. unfold roll. destruct (stale c s now); reflexivity. Qed.
Lemma roll_heap : forall c s now, heap (roll c s now) = heap s.
Proof. intros. unfold roll. destruct (stale c s now); reflexivity. Qed.
Lemma roll_log : forall c s now, log (roll c s now) = log s.
Proof. intros. unfold roll. destruct (stale c s now); reflexivity. Qed.

(* ------------------------------------------------------------------ *)
(* release bound                                                       *)

Definition gwin (g : grant) : Z := snd (fst g).
Definition gid (g : grant) : Z := fst (fst g).
Definition gat (g : grant) : Z := snd g.

Definition count_win (w : Z) (l : list grant) : Z :=
  Z.of_nat (length (filter (fun g => gwin g =? w) l)).

Lemma count_win_cons : forall w g l,
  count_win w (g :: l) = (if gwin g =? w then 1 else 0) + count_win w l.
Proof.
  intros. unfold count_win. simpl. destruct (gwin g =? w); simpl length; lia.
Qed.

Lemma count_win_nonneg : forall w l, 0 <= count_win w l.
Proof. intros. unfold count_win. lia. Qed.

Record RB (c : cfg) (s : st) : Prop := {
  rb_lo : 0 <= counter s;
  rb_hi : counter s <= Z.max 0 (quota c);
  rb_cur : count_win (wend s) (log s) = counter s;
  rb_future : forall w, wend s < w -> count_win w (log s) = 0;
  rb_all : forall w, count_win w (log s) <= Z.max 0 (quota c)
}.

Lemma RB_init : forall c t0, RB c (init c t0).
Proof. intros. constructor; unfold count_win; simpl; intros; try reflexivity; lia. Qed.

Lemma RB_roll : forall c s now, RB c s -> RB c (roll c s now).
Proof.
  intros c s now R. unfold roll, stale. destruct (wend s <? uend c now) eqn:E; [|exact R].
  apply Z.ltb_lt in E. destruct R. constructor; simpl; intros; try lia.
  - apply rb_future0; lia.
  - apply rb_future0; lia.
  - apply rb_all0.
Qed.

(* a grant in the current window while counter < quota *)
Lemma RB_grant : forall c s id now h l,
  RB c s -> counter s < quota c ->
  RB c {| heap := h; counter := counter s + 1; wend := wend s; reqs := l;
          log := (id, wend s, now) :: log s |}.
Proof.
  intros c s id now h l R L. destruct R. constructor; simpl; intros.
  - lia.
  - lia.
  - rewrite count_win_cons. unfold gwin; simpl. rewrite Z.eqb_refl. lia.
  - rewrite count_win_cons. unfold gwin; simpl.
    destruct (wend s =? w) eqn:E; [apply Z.eqb_eq in E; lia|]. rewrite rb_future0; lia.
  - rewrite count_win_cons. unfold gwin; simpl.
    destruct (wend s =? w) eqn:E.
    + apply Z.eqb_eq in E. subst w. lia.
    + specialize (rb_all0 w). lia.
Qed.

Lemma RB_same : forall c s h l,
  RB c s ->
  RB c {| heap := h; counter := counter s; wend := wend s; reqs := l; log := log s |}.
Proof. intros c s h l R. destruct R. constructor; simpl; auto. Qed.

Lemma RB_enq : forall c s id p t l now, RB c s -> RB c (enq_locked c s id p t l now).
Proof.
  intros c s id p t l now R. unfold enq_locked.
  pose proof (RB_roll c s now R) as R1. set (s1 := roll c s now) in *.
  destruct (counter s1 <? quota c) eqn:E.
  - apply Z.ltb_lt in E. apply RB_grant; auto.
  - destruct (qsize c <=? qcount (reqs s1)); apply RB_same; auto.
Qed.

Lemma RB_drain : forall c now h s, RB c s -> RB c (fst (drain c now h s)).
Proof.
  intros c now h. induction h as [|e h' IH]; intros s R; simpl.
  - apply (RB_same c s [] (reqs s) R).
  - destruct (counter s <? quota c) eqn:E.
    + destruct (is_parked s (eid e)).
      * apply Z.ltb_lt in E.
        specialize (IH (release s (eid e) now)).
        destruct (drain c now h' (release s (eid e) now)) as [s' rel] eqn:D. simpl in *.
        apply IH. unfold release. apply RB_grant; auto.
      * apply IH; auto.
    + apply (RB_same c s (e :: h') (reqs s) R).
Qed.

Lemma RB_set_reqs : forall c s l, RB c s -> RB c (set_reqs l s).
Proof. intros c s l R. apply (RB_same c s (heap s) l R). Qed.

Lemma RB_exec : forall c s a, RB c s -> RB c (exec c s a).
Proof.
  intros c s a R. unfold exec, step.
  destruct a as [id p t l now|id now|now|id now|id now].
  - destruct (find id (reqs s)); [exact R|]. now apply RB_enq.
  - destruct (find id (reqs s)) as [r|]; [|exact R].
    destruct (phase_eqb (ph r) Unlocked); [now apply RB_set_reqs|exact R].
  - unfold tick. apply RB_drain. now apply RB_roll.
  - destruct (find id (reqs s)) as [r|]; [|exact R].
    destruct (phase_eqb (ph r) Parked && (dl r <=? now)); [now apply RB_set_reqs|exact R].
  - destruct (find id (reqs s)) as [r|]; [|exact R].
    destruct ((phase_eqb (ph r) Released || phase_eqb (ph r) Expired) && counted r);
      [now apply RB_set_reqs|exact R].
Qed.

Lemma RB_run : forall c acts s, RB c s -> RB c (run c s acts).
Proof.
  intros c acts. induction acts as [|a rest IH]; intros s R; simpl; [exact R|].
  apply IH. now apply RB_exec.
Qed.

(* ------------------------------------------------------------------ *)
(* generic: an invariant of every step holds along the trace           *)

Lemma trace_inv : forall (P : st -> Prop) c,
  (forall s a, P s -> P (exec c s a)) ->
  forall acts s, P s -> Forall (fun tr => P (fst (fst tr)) /\ P (snd tr)) (trace c s acts).
Proof.
  intros P c Hs acts. induction acts as [|a rest IH]; intros s H; simpl; constructor.
  - simpl. auto.
  - apply IH. auto.
Qed.

Lemma trace_step : forall c acts s tr,
  In tr (trace c s acts) -> snd tr = exec c (fst (fst tr)) (snd (fst tr)).
Proof.
  intros c acts. induction acts as [|a rest IH]; simpl; intros s tr I; [tauto|].
  destruct I as [I|I]; [subst; reflexivity|eauto].
Qed.

(* ------------------------------------------------------------------ *)
(* size bound                                                          *)

Record SB (c : cfg) (s : st) : Prop := {
  sb_bound : qcount (reqs s) <= Z.max 0 (qsize c);
  sb_live : forall r, In r (reqs s) -> live r = true -> counted r = true
}.

Lemma qcount_app : forall l r, qcount (l ++ [r]) = qcount l + (if counted r then 1 else 0).
Proof.
  intros. unfold qcount. rewrite filter_app, app_length. simpl.
  destruct (counted r); simpl; lia.
Qed.

Lemma qcount_nonneg : forall l, 0 <= qcount l.
Proof. intros. unfold qcount. lia. Qed.

Lemma SB_init : forall c t0, SB c (init c t0).
Proof. intros. constructor; simpl; [unfold qcount; simpl; lia|tauto]. Qed.

Lemma SB_enq : forall c s id p t l now, SB c s -> SB c (enq_locked c s id p t l now).
Proof.
  intros c s id p t l now [B L]. unfold enq_locked. rewrite !roll_reqs.
  assert (Hin : forall r0 (r : req), live r0 = true -> counted r0 = true \/ live r0 = false ->
            In r (reqs s ++ [r0]) -> live r = true -> counted r = true).
  { intros r0 r _ H I Lv. apply in_app_or in I. destruct I as [I|[I|[]]]; [auto|subst].
    destruct H as [H|H]; [auto|congruence]. }
  destruct (counter (roll c s now) <? quota c).
  - constructor; simpl.
    + rewrite qcount_app. simpl. lia.
    + intros r I Lv. apply in_app_or in I. destruct I as [I|[I|[]]]; [auto|subst; discriminate].
  - destruct (qsize c <=? qcount (reqs s)) eqn:E.
    + constructor; simpl.
      * rewrite qcount_app. simpl. lia.
      * intros r I Lv. apply in_app_or in I. destruct I as [I|[I|[]]]; [auto|subst; discriminate].
    + apply Z.leb_gt in E. constructor; simpl.
      * rewrite qcount_app. simpl. lia.
      * intros r I Lv. apply in_app_or in I. destruct I as [I|[I|[]]]; [auto|subst; reflexivity].
Qed.

Lemma qcount_upd_le : forall id f l,
  (forall r, counted (f r) = counted r \/ counted (f r) = false) ->
  qcount (upd id f l) <= qcount l.
Proof.
  intros id f l F. unfold qcount. induction l as [|x t IH]; simpl; [lia|].
  destruct (rid x =? id); simpl.
  - destruct (F x) as [E|E]; rewrite E; destruct (counted x); simpl length; lia.
  - destruct (counted x); simpl length; lia.
Qed.

Lemma SB_upd : forall c s id f,
  SB c s ->
  (forall r, counted (f r) = counted r \/ counted (f r) = false) ->
  (forall r0, find id (reqs s) = Some r0 -> live (f r0) = true -> counted (f r0) = true) ->
  forall h k w lg,
  SB c {| heap := h; counter := k; wend := w; reqs := upd id f (reqs s); log := lg |}.
Proof.
  intros c s id f [B L] F G h k w lg. constructor; simpl.
  - pose proof (qcount_upd_le id f (reqs s) F). lia.
  - intros r I Lv. apply In_upd_weak in I. destruct I as [I|[r0 [A E]]]; [auto|subst; auto].
Qed.

Lemma SB_drain : forall c now h s, SB c s -> SB c (fst (drain c now h s)).
Proof.
  intros c now h. induction h as [|e h' IH]; intros s S; simpl.
  - destruct S; constructor; simpl; auto.
  - destruct (counter s <? quota c).
    + destruct (is_parked s (eid e)).
      * specialize (IH (release s (eid e) now)).
        destruct (drain c now h' (release s (eid e) now)) as [s' rel] eqn:D. simpl in *.
        apply IH. unfold release.
        apply SB_upd; [exact S|intros r; left; reflexivity|intros r0 _ Lv; discriminate].
      * auto.
    + destruct S; constructor; simpl; auto.
Qed.

Lemma SB_exec : forall c s a, SB c s -> SB c (exec c s a).
Proof.
  intros c s a S. unfold exec, step.
  destruct a as [id p t l now|id now|now|id now|id now].
  - destruct (find id (reqs s)); [exact S|]. now apply SB_enq.
  - destruct (find id (reqs s)) as [r|] eqn:Fd; [|exact S].
    destruct (phase_eqb (ph r) Unlocked) eqn:E; [|exact S].
    apply phase_eqb_eq in E. unfold set_reqs.
    apply SB_upd; [exact S|intros r0; left; reflexivity|].
    intros r0 F0 _. rewrite Fd in F0. inversion F0; subst r0. simpl.
      destruct S as [_ L]. apply L; [apply (find_In _ _ _ Fd)|]. unfold live. now rewrite E.
  - unfold tick. apply SB_drain. destruct S as [B L]. constructor; rewrite roll_reqs; auto.
  - destruct (find id (reqs s)) as [r|] eqn:Fd; [|exact S].
    destruct (phase_eqb (ph r) Parked && (dl r <=? now)); [|exact S].
    unfold set_reqs.
    apply SB_upd; [exact S|intros r0; left; reflexivity|intros r0 _ Lv; discriminate].
  - destruct (find id (reqs s)) as [r|] eqn:Fd; [|exact S].
    destruct ((phase_eqb (ph r) Released || phase_eqb (ph r) Expired) && counted r) eqn:E; [|exact S].
    unfold set_reqs.
    apply SB_upd; [exact S|intros r0; right; reflexivity|].
    intros r0 F0 Lv. rewrite Fd in F0. inversion F0; subst r0.
      apply andb_prop in E. destruct E as [E _]. unfold live in Lv. simpl in Lv.
      apply orb_prop in E. destruct E as [E|E]; apply phase_eqb_eq in E; rewrite E in Lv; discriminate.
Qed.

Lemma SB_run : forall c acts s, SB c s -> SB c (run c s acts).
Proof.
  intros c acts. induction acts as [|a rest IH]; intros s S; simpl; [exact S|].
  apply IH. now apply SB_exec.
Qed.

(* number of requests still blocked inside Enqueue *)
Definition waiters (l : list req) : Z := Z.of_nat (length (filter live l)).

Lemma waiters_le_qcount : forall l,
  (forall r, In r l -> live r = true -> counted r = true) -> waiters l <= qcount l.
Proof.
  unfold waiters, qcount. induction l as [|x t IH]; intros H; simpl; [lia|].
  assert (IH' : Z.of_nat (length (filter live t)) <= Z.of_nat (length (filter counted t))).
  { apply IH. intros r I. apply H. now right. }
  destruct (live x) eqn:Lx.
  - rewrite (H x (or_introl eq_refl) Lx). simpl. lia.
  - destruct (counted x); simpl; lia.
Qed.

(* ------------------------------------------------------------------ *)
(* rejection at the door only when the queue is full (all schedules)   *)

Lemma reject_ok_exec : forall c s a, reject_ok c (s, a, exec c s a) = true.
Proof.
  intros c s a. unfold reject_ok. destruct a as [id p t l now| | | |]; try reflexivity.
  unfold exec, step. destruct (find id (reqs s)) eqn:Fd; [reflexivity|].
  unfold phase_of, enq_locked. set (s1 := roll c s now).
  assert (R : reqs s1 = reqs s) by apply roll_reqs.
  destruct (counter s1 <? quota c); simpl.
  - rewrite find_app, R, Fd. simpl. rewrite Z.eqb_refl. reflexivity.
  - destruct (qsize c <=? qcount (reqs s1)) eqn:E; simpl;
      rewrite find_app, R, Fd; simpl; rewrite Z.eqb_refl; simpl; [|reflexivity].
    now rewrite <- R.
Qed.
